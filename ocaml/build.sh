#!/bin/sh
# builds ocaml/modeleval from the Coq extraction; run after `make -C coq`
set -e
here=$(cd "$(dirname "$0")" && pwd)
mkdir -p "$here/gen" "$here/_build"
cd "$here/gen"
coqc -R "$here/../coq/theories" Verif "$here/../coq/extract/Extract.v" -o "$here/_build/Extract.vo" >/dev/null
cd "$here/_build"
cp ../gen/core.ml ../gen/core.mli ../main.ml .
ocamlfind ocamlopt -O2 -w -a core.mli core.ml main.ml -o ../modeleval 2>/dev/null || ocamlfind ocamlopt -w -a core.mli core.ml main.ml -o ../modeleval
