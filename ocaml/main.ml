(* modeleval — generic glue around the evaluator extracted from Coq (core.ml).
   Unverified: tokeniser, number/string conversion, printing.  Everything that decides
   anything (parsing of observations into model terms, model, specification,
   comparison) is in Core, extracted from Gallina. *)
open Core

(* ---------- conversions ---------- *)
let rec pos_of_int (n : int) : positive =
  if n = 1 then XH
  else if n land 1 = 0 then XO (pos_of_int (n lsr 1))
  else XI (pos_of_int (n lsr 1))

let z_of_int (n : int) : z =
  if n = 0 then Z0 else if n > 0 then Zpos (pos_of_int n) else Zneg (pos_of_int (-n))

let z10 = z_of_int 10

let z_of_string (s : Stdlib.String.t) : z =
  let neg = String.length s > 0 && s.[0] = '-' in
  let digits = if neg then String.sub s 1 (String.length s - 1) else s in
  let v =
    if String.length digits <= 17 then z_of_int (int_of_string digits)
    else begin
      let acc = ref Z0 in
      String.iter (fun c ->
        acc := Z.add (Z.mul !acc z10) (z_of_int (Char.code c - 48))) digits;
      !acc
    end in
  if neg then Z.opp v else v

let rec int_of_pos (p : positive) : int =
  match p with XH -> 1 | XO q -> 2 * int_of_pos q | XI q -> 2 * int_of_pos q + 1

let rec pos_bits (p : positive) : int = match p with XH -> 1 | XO q | XI q -> 1 + pos_bits q

let rec string_of_z (v : z) : Stdlib.String.t =
  match v with
  | Z0 -> "0"
  | Zneg p -> "-" ^ string_of_z (Zpos p)
  | Zpos p ->
    if pos_bits p <= 61 then string_of_int (int_of_pos p)
    else begin
      let (q, r) = Z.div_eucl v z10 in
      let d = match r with Z0 -> 0 | Zpos p -> int_of_pos p | Zneg _ -> 0 in
      string_of_z q ^ string_of_int d
    end

let coq_string_of (s : Stdlib.String.t) : Core.string =
  let n = String.length s in
  let rec go i =
    if i >= n then EmptyString
    else
      let c = Char.code s.[i] in
      let b k = (c lsr k) land 1 = 1 in
      String (Ascii (b 0, b 1, b 2, b 3, b 4, b 5, b 6, b 7), go (i + 1)) in
  go 0

let ocaml_string_of (s : Core.string) : Stdlib.String.t =
  let buf = Buffer.create 16 in
  let rec go s =
    match s with
    | EmptyString -> ()
    | String (Ascii (b0, b1, b2, b3, b4, b5, b6, b7), r) ->
      let v k b = if b then 1 lsl k else 0 in
      Buffer.add_char buf
        (Char.chr (v 0 b0 + v 1 b1 + v 2 b2 + v 3 b3 + v 4 b4 + v 5 b5 + v 6 b6 + v 7 b7));
      go r in
  go s; Buffer.contents buf

(* ---------- s-expression reader / printer ---------- *)
exception Parse_error of Stdlib.String.t

let is_number (t : Stdlib.String.t) : bool =
  let n = String.length t in
  if n = 0 then false
  else
    let start = if t.[0] = '-' then 1 else 0 in
    if start >= n then false
    else begin
      let ok = ref true in
      for i = start to n - 1 do
        if t.[i] < '0' || t.[i] > '9' then ok := false
      done; !ok
    end

let parse_line (s : Stdlib.String.t) : sexp =
  let n = String.length s in
  let pos = ref 0 in
  let rec skip () = if !pos < n && (s.[!pos] = ' ' || s.[!pos] = '\t') then (incr pos; skip ()) in
  let rec parse () : sexp =
    skip ();
    if !pos >= n then raise (Parse_error "eof")
    else if s.[!pos] = '(' then begin
      incr pos;
      let items = ref [] in
      let rec loop () =
        skip ();
        if !pos >= n then raise (Parse_error "unclosed")
        else if s.[!pos] = ')' then incr pos
        else (items := parse () :: !items; loop ()) in
      loop ();
      L (List.rev !items)
    end else begin
      let st = !pos in
      while !pos < n && s.[!pos] <> ' ' && s.[!pos] <> '(' && s.[!pos] <> ')' && s.[!pos] <> '\t' do
        incr pos
      done;
      let t = String.sub s st (!pos - st) in
      if is_number t then Num (z_of_string t) else Sym (coq_string_of t)
    end in
  parse ()

let rec print_sexp (buf : Buffer.t) (e : sexp) : unit =
  match e with
  | Num v -> Buffer.add_string buf (string_of_z v)
  | Sym s -> Buffer.add_string buf (ocaml_string_of s)
  | L l ->
    Buffer.add_char buf '(';
    List.iteri (fun i x -> if i > 0 then Buffer.add_char buf ' '; print_sexp buf x) l;
    Buffer.add_char buf ')'

let b2s b = if b then "1" else "0"

let () =
  if Array.length Sys.argv < 2 then (prerr_endline "usage: modeleval <PROPERTY> < observations"; exit 2);
  let prop = coq_string_of Sys.argv.(1) in
  let lineno = ref 0 in
  (try
    while true do
      let line = input_line stdin in
      incr lineno;
      if String.length line > 0 && line.[0] <> '#' then begin
        let out =
          try
            let e = parse_line line in
            let v = eval_obs prop e in
            let buf = Buffer.create 64 in
            print_sexp buf v.v_model;
            Printf.sprintf "%d\t%s\t%s\t%s\t%s\t%s\t%s" !lineno (b2s v.v_known) (b2s v.v_model_ok)
              (b2s v.v_spec_ok) (b2s v.v_guard) (ocaml_string_of v.v_tag) (Buffer.contents buf)
          with Parse_error m -> Printf.sprintf "%d\t0\t0\t0\t0\tparse-error:%s\t?" !lineno m in
        print_endline out
      end
    done
  with End_of_file -> ())
