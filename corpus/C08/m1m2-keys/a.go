package a

// Former witness of C08 (pinned tree): the keys plugin looked up the underlying map type of M2,
// which resolved to M1 or M2 at random: deriveKeys for M1 was emitted 2..33 times (ten different
// outputs in ten runs, none of which compiles); with a deterministic look-up alone it never ended.

type M1 map[string]int

type M2 map[string]int

type T struct {
	A M2
	B map[string]int
}

func use() {
	_ = deriveHashM1(M1{})
	_ = deriveHashT(&T{})
}
