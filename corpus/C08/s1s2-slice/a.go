package a

// Former witness of C08 (pinned tree): []int is assignable to both S1 and S2, nameOf ranged over a
// Go map, and the helper used for the field X changed from run to run (2 outputs in 8 runs).

type S1 []int

type S2 []int

type T struct {
	X []int
}

func f(a, b S1, c, d S2, e, g *T) bool {
	return deriveEqualS1(a, b) && deriveEqualS2(c, d) && deriveEqualT(e, g)
}
