# Regression corpus of C18: signatures that always run (before the seeded cells).
# One per line: parameter types ; separated  ->  result types ; separated (Go spelling, candidates of harness/internal/c18).
# Former witnesses of the no-result bucket form (" := f(param0)", fixed by repo-patches/C18-fix-mem-noresult-noncomparable.patch):
[]int ->
[]int;string ->
*S0;float64;map[string]int ->
# sign of zero: one key of map[float64]V and of map[input]V; one class of the bucket form
float64 -> int
float64;string -> int;string
[]float64 -> string
map[float64]string;bool -> float64;[]int
# pointer arguments are not ==-comparable for goderive: Equal of the referents decides
*int -> int
**int;*S0 -> *int
# nil vs empty, spare capacity
[]uint8 -> bool
[]string;[]int -> S0;map[string]int;NInt
# recursive and imported structs
Rec -> int;string;bool
ext.E1;int -> [2]string
# arrays of pointers are not ==-comparable for mem (structural classes): seeded change C18-m3
[2]*int -> int
struct{F0 [2]*int;F1 string} -> string
[2]*S0;int -> int
# sign of a zero imaginary / real part of a complex number inside a bucket-form key (seeded change C18-m5)
complex128;[]int -> int
[]complex128 -> string
*complex128;string -> int;bool
# re-entrant histories with a real hash collision between an argument and its inner argument (seeded change C18-m4; cases in reentrant.re)
[]int -> int
string -> int
[]string;int -> string
# hardening round 4 — ==-comparable parameter types that declare their own Equal method, in bucket-form keys
# (the generated Equal of the key must still ask about them: seeded change C18-m12), behind a pointer, in an
# array, inside a struct parameter; and a map form keyed by such a type
ID;[]int -> string
int;ID;[]int ->
Req -> int;Req
*ID;string -> int
IDP;[]string -> bool
[2]ID;[]int -> int
ID -> int
# slices that are re-sliced views of one backing array (seeded change C18-m11)
[]int;[]string -> int
[][]int -> int
# hardening round 5 — a component compared by an INLINE expression ([]byte: `(a == nil) == (b == nil) && bytes.Equal(a, b)`;
# a pointer to an unnamed type) in element position, where derived Equal negates it (seeded change C18-m13): element of a
# slice / an array, value of a map, behind a pointer, field of an unnamed struct, inside named types
[][]uint8 -> int
[2][]uint8;int -> string
map[string][]uint8 -> int;bool
*[]uint8;string ->
[]BK -> int
struct{F0 []uint8;F1 int} -> int
[]*string;NB -> int
