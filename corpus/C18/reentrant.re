# Regression corpus of C18: RE-ENTRANT call histories (f calls the memoised function itself).
# PARAMS -> RESULTS | FKIND | universe of argument tuples | rules (KEY (INNER..)) in rank order | outer calls
# (the signature must also be listed in witness.sig; tuple numbers index the universe).
# seeded change C18-m4 (`m[h] = append(vs, mem{..})` with the bucket slice read before f was called):
# weight({1,0}) calls weight({0,31}); both slices hash to 16368; then {0,31} again, {7} twice
[]int -> int | canon | (((sl 1 ((i 1) (i 0)) ())) ((sl 2 ((i 0) (i 31)) ())) ((sl 3 ((i 7)) ())) ((sl 4 ((i 0) (i 31)) ()))) | ((0 (1))) | (0 1 0 3 2 2 3)
# depth 2 through the collision: {2} calls {1,0} calls {0,31}
[]int -> int | canon | (((sl 1 ((i 1) (i 0)) ())) ((sl 2 ((i 0) (i 31)) ())) ((sl 3 ((i 2)) ())) ((sl 4 ((i 1) (i 0)) ((i 9))))) | ((0 (1)) (2 (0 1))) | (2 1 3 0 2)
# the same with a panicking f (a quarter of the classes)
[]int -> int | panicky | (((sl 1 ((i 1) (i 0)) ())) ((sl 2 ((i 0) (i 31)) ())) ((sl 3 ((i 2)) ())) ((sl 5 ((i 3)) ())) ((sl 6 ((i 4)) ())) ((sl 7 ((i 5)) ()))) | ((0 (1 3 4)) (2 (0 5))) | (2 1 3 0 2 4 5)
# strings "Aa" / "BB" (hash 2112): the map form — ==-comparable — is untouched by collisions
string -> int | canon | (((s 65 97)) ((s 66 66)) ((s 67))) | ((0 (1 2))) | (0 1 2 0 1)
# bucket form keyed by input{[]string, int}: {"Aa"},5 calls {"BB"},5
[]string;int -> string | canon | (((sl 1 ((s 65 97)) ()) (i 5)) ((sl 2 ((s 66 66)) ()) (i 5)) ((sl 3 ((s 66 66)) ((s 1))) (i 5))) | ((0 (1))) | (0 1 2 0)
