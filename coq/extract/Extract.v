(* Extraction of the evaluator.  ExtrOcamlBasic only: bool, option, unit, list, prod,
   sumbool, sumor map to OCaml's; andb/orb inlined.  nat/positive/N/Z/ascii/string stay
   Coq datatypes.  No Extract Constant / Extract Inductive of our own. *)
From Coq Require Import ExtrOcamlBasic.
From Verif Require Import Base Sexp Eval.
Extraction Language OCaml.

Extraction "core.ml" eval_obs Z.of_nat Z.add Z.mul Z.opp Z.div_eucl Z.eqb Z.ltb N.of_nat.
