(* Regen/Proofs.v — theorems about the regeneration loop of Regen/Model.v. *)
From Coq Require Import List NArith Bool Arith Lia.
Import ListNotations.
From Verif Require Import Regen.Model.

Local Arguments Nat.eqb : simpl never.

(* ------------------------------------------------------------------------------------ *)
(* 1. With the fix, the old derived.gen.go is not an input of the run at all.            *)
(* ------------------------------------------------------------------------------------ *)
Lemma regen_old_independent : forall (p : package) (old : disk),
  regen fixed p old = regen fixed p Absent.
Proof. intros p old. unfold regen. cbn [loop fixed ignore_old andb]. reflexivity. Qed.

(* ------------------------------------------------------------------------------------ *)
(* 2. Packages without nested calls: independent of any loadable old file, even without  *)
(*    ignoring it (only the source-order fix is needed); one pass.                       *)
(* ------------------------------------------------------------------------------------ *)
Definition flat_expr (e : expr) : bool :=
  match e with App _ _ (Var _ _) => true | _ => false end.
Definition flat (p : package) : bool := forallb flat_expr p.

Lemma flat_calls_var p : flat p = true ->
  forall c, In c (calls p) -> exists v t, ca c = Var v t.
Proof.
  unfold flat, calls. intros H c Hc. apply in_flat_map in Hc as [e [He Hc]].
  rewrite forallb_forall in H. specialize (H e He).
  destruct e as [|k n [v t|]]; cbn in H; try discriminate.
  cbn in Hc. destruct Hc as [<-|[]]. cbn. eauto.
Qed.

Lemma typed_flat s cs : (forall c, In c cs -> exists v t, ca c = Var v t) ->
  typed s cs = typed [] cs /\ undefined s cs = [].
Proof.
  induction cs as [|c cs IH]; intro H; [split; reflexivity|].
  destruct (H c (or_introl eq_refl)) as [v [t E]].
  destruct IH as [IH1 IH2]; [intros; apply H; right; assumption|].
  unfold typed, undefined in *. cbn. rewrite E. cbn. rewrite IH1, IH2. split; reflexivity.
Qed.

Lemma regen_scratch_equal : forall cfg p old s,
  src_order cfg = true -> flat p = true -> load old = Some s ->
  regen cfg p old = regen cfg p Absent /\
  (forall f n, regen cfg p old = ROk f n -> n = 1).
Proof.
  intros cfg p old s Hsrc Hflat Hload.
  pose proof (flat_calls_var p Hflat) as Hv.
  assert (Hpass : forall s', pass cfg s' (calls p) = pass cfg [] (calls p) /\
                             forall es us, pass cfg s' (calls p) = PDone es us -> us = []).
  { intro s'. unfold pass, order. rewrite Hsrc.
    destruct (typed_flat s' (calls p) Hv) as [-> Hu]. rewrite Hu.
    destruct (typed_flat [] (calls p) Hv) as [_ Hu0]. rewrite Hu0. split; [reflexivity|].
    intros es us. destruct (tm_adds [] (typed [] (calls p))); [|discriminate].
    destruct (gen_ok l); [|discriminate]. intro E; inversion E; reflexivity. }
  assert (Hstep : forall d sd, load (if true && ignore_old cfg then Absent else d) = Some sd ->
     loop (S (S (length (calls p)))) cfg (calls p) d true [] 0 =
     match pass cfg [] (calls p) with
     | PErr f => RErr f
     | PDone es _ => ROk (if negb (is_nil es) then Some es else None) 1
     end).
  { intros d sd Hd. cbn [loop]. rewrite Hd. destruct (Hpass sd) as [-> Hus].
    destruct (Hpass []) as [_ Hus0].
    destruct (pass cfg [] (calls p)) as [f|es us] eqn:E; [reflexivity|].
    rewrite (Hus0 es us eq_refl). reflexivity. }
  unfold regen.
  assert (Hold : exists sd, load (if true && ignore_old cfg then Absent else old) = Some sd).
  { destruct (ignore_old cfg); cbn; eauto. }
  destruct Hold as [sd Hsd].
  assert (Habs : exists sd, load (if true && ignore_old cfg then Absent else Absent) = Some sd).
  { destruct (ignore_old cfg); cbn; eauto. }
  destruct Habs as [sa Hsa].
  rewrite (Hstep old sd Hsd), (Hstep Absent sa Hsa). split; [reflexivity|].
  intros f n. destruct (pass cfg [] (calls p)); [discriminate|]. intro E; inversion E; reflexivity.
Qed.

(* ------------------------------------------------------------------------------------ *)
(* 3. typesMap on a consistent request list = first occurrences in order                 *)
(* ------------------------------------------------------------------------------------ *)
Definition Cons (l : list entry) : Prop :=
  forall a b, In a l -> In b l -> compatible a b = true.

Lemma consistent_Cons l : consistent l = true -> Cons l.
Proof.
  unfold consistent, Cons. intros H a b Ha Hb. rewrite forallb_forall in H.
  specialize (H a Ha). rewrite forallb_forall in H. apply H, Hb.
Qed.

Lemma Cons_incl l l' : incl l' l -> Cons l -> Cons l'.
Proof. unfold Cons; intros Hi H a b Ha Hb. apply H; apply Hi; assumption. Qed.

Lemma compatible_same_name a b :
  compatible a b = true -> en a = en b -> ek a = ek b /\ et a = et b.
Proof.
  unfold compatible. intros H E. rewrite E, N.eqb_refl in H.
  apply andb_true_iff in H as [H1 H2]. apply kind_eqb_eq in H1. apply ty_eqb_eq in H2. auto.
Qed.

Lemma compatible_same_type a b :
  compatible a b = true -> ek a = ek b -> et a = et b -> en a = en b.
Proof.
  unfold compatible. intros H E1 E2. destruct (N.eqb (en a) (en b)) eqn:E.
  - apply N.eqb_eq in E; assumption.
  - rewrite E1, E2, ty_eqb_refl in H.
    replace (kind_eqb (ek b) (ek b)) with true in H by (symmetry; apply kind_eqb_eq; reflexivity).
    discriminate.
Qed.

Lemma entry_ext a b : ek a = ek b -> en a = en b -> et a = et b -> a = b.
Proof. destruct a, b; cbn; intros; subst; reflexivity. Qed.

Lemma existsb_entry e acc : existsb (entry_eqb e) acc = true <-> In e acc.
Proof.
  rewrite existsb_exists. split.
  - intros [x [Hx E]]. apply entry_eqb_eq in E. subst; assumption.
  - intro H. exists e. split; [assumption|apply entry_eqb_eq; reflexivity].
Qed.

Lemma tm_adds_dedup : forall l acc,
  Cons (acc ++ l) -> tm_adds acc l = Some (fold_left dedup_step l acc).
Proof.
  induction l as [|e l IH]; intros acc HC; [reflexivity|].
  cbn [tm_adds fold_left]. unfold tm_add, dedup_step.
  assert (He : In e (acc ++ e :: l)) by (apply in_or_app; right; left; reflexivity).
  assert (Hacc : forall x, In x acc -> In x (acc ++ e :: l)) by (intros; apply in_or_app; left; assumption).
  destruct (existsb (entry_eqb e) acc) eqn:Ex.
  - apply existsb_entry in Ex.
    destruct (find (fun x => kind_eqb (ek x) (ek e) && ty_eqb (et x) (et e)) acc) as [x|] eqn:F.
    + apply find_some in F as [Hx Hp]. apply andb_true_iff in Hp as [Hk Ht].
      apply kind_eqb_eq in Hk. apply ty_eqb_eq in Ht.
      pose proof (compatible_same_type x e (HC x e (Hacc x Hx) He) Hk Ht) as En.
      rewrite En, N.eqb_refl. apply IH. intros a b Ha Hb. apply HC.
      * apply in_app_or in Ha as [Ha|Ha]; apply in_or_app; [left|right; right]; assumption.
      * apply in_app_or in Hb as [Hb|Hb]; apply in_or_app; [left|right; right]; assumption.
    + exfalso. pose proof (find_none _ _ F e Ex) as Hn. cbn in Hn. rewrite ty_eqb_refl in Hn.
      replace (kind_eqb (ek e) (ek e)) with true in Hn by (symmetry; apply kind_eqb_eq; reflexivity).
      discriminate.
  - assert (Hnot : ~ In e acc).
    { intro Hin. apply existsb_entry in Hin. congruence. }
    destruct (find (fun x => kind_eqb (ek x) (ek e) && ty_eqb (et x) (et e)) acc) as [x|] eqn:F.
    + exfalso. apply find_some in F as [Hx Hp]. apply andb_true_iff in Hp as [Hk Ht].
      apply kind_eqb_eq in Hk. apply ty_eqb_eq in Ht.
      pose proof (compatible_same_type x e (HC x e (Hacc x Hx) He) Hk Ht) as En.
      apply Hnot. rewrite <- (entry_ext x e Hk En Ht). assumption.
    + destruct (find (fun x => kind_eqb (ek x) (ek e) && N.eqb (en x) (en e)) acc) as [x|] eqn:G.
      * exfalso. apply find_some in G as [Hx Hp]. apply andb_true_iff in Hp as [Hk Hn].
        apply kind_eqb_eq in Hk. apply N.eqb_eq in Hn.
        destruct (compatible_same_name x e (HC x e (Hacc x Hx) He) Hn) as [_ Ht].
        apply Hnot. rewrite <- (entry_ext x e Hk Hn Ht). assumption.
      * apply IH. rewrite <- app_assoc. exact HC.
Qed.

Lemma In_fold_dedup : forall l acc x,
  In x (fold_left dedup_step l acc) <-> In x acc \/ In x l.
Proof.
  induction l as [|e l IH]; intros acc x; cbn [fold_left].
  - cbn. tauto.
  - rewrite IH. unfold dedup_step. destruct (existsb (entry_eqb e) acc) eqn:Ex.
    + apply existsb_entry in Ex. cbn. split; [tauto|]. intros [H|[<-|H]]; auto.
    + rewrite in_app_iff. cbn. tauto.
Qed.

Lemma In_dedup l x : In x (dedup l) <-> In x l.
Proof. unfold dedup. rewrite In_fold_dedup. cbn. tauto. Qed.

Lemma In_group tm x : In x (group tm) <-> In x tm.
Proof.
  unfold group, plugin_order. cbn [flat_map]. rewrite !in_app_iff, !filter_In. cbn.
  split; [tauto|]. intro H. destruct (ek x) eqn:E; cbn; tauto.
Qed.

(* ------------------------------------------------------------------------------------ *)
(* 4. From scratch, nested calls converge to the one-shot result                         *)
(* ------------------------------------------------------------------------------------ *)
Lemma calls_of_closed : forall e c k n a,
  In c (calls_of e) -> ca c = App k n a -> In (mkCall k n a) (calls_of e).
Proof.
  induction e as [v t|k0 n0 a0 IH]; intros c k n a Hc E; [destruct Hc|].
  cbn in Hc |- *. destruct Hc as [<-|Hc].
  - cbn in E. right. rewrite E. cbn. left; reflexivity.
  - right. eapply IH; eassumption.
Qed.

Lemma lookup_sigs_of : forall es n r,
  lookup n (sigs_of es) = Some r -> exists e, In e es /\ en e = n /\ r = res_of (ek e) (et e).
Proof.
  induction es as [|e es IH]; intros n r H; [discriminate|].
  cbn in H. destruct (N.eqb n (en e)) eqn:E.
  - apply N.eqb_eq in E. inversion H; subst. exists e. cbn; auto.
  - destruct (IH n r H) as [x [Hx Hr]]. exists x. cbn; auto.
Qed.

Lemma lookup_sigs_of_in : forall es e, In e es -> exists r, lookup (en e) (sigs_of es) = Some r.
Proof.
  induction es as [|x es IH]; intros e H; [destruct H|].
  cbn. destruct (N.eqb (en e) (en x)) eqn:E; [eauto|].
  destruct H as [->|H]; [rewrite N.eqb_refl in E; discriminate|]. apply IH; assumption.
Qed.

Definition defd (s : sigs) (c : call) : bool :=
  match infer s (ca c) with Some _ => true | None => false end.

Lemma undefined_filter s cs : undefined s cs = filter (fun c => negb (defd s c)) cs.
Proof.
  unfold undefined, defd. apply filter_ext. intro c. destruct (infer s (ca c)); reflexivity.
Qed.

Lemma In_typed s : forall l e,
  In e (typed s l) <->
  exists c, In c l /\ infer s (ca c) = Some (et e) /\ ek e = ck c /\ en e = cn c.
Proof.
  intros l e. unfold typed. rewrite in_flat_map. split.
  - intros [c [Hc He]]. exists c. destruct (infer s (ca c)) as [t|]; [|destruct He].
    destruct He as [<-|[]]. cbn. auto.
  - intros [c [Hc [Hi [Hk Hn]]]]. exists c. split; [assumption|]. rewrite Hi. left.
    destruct e; cbn in *; subst; reflexivity.
Qed.

Lemma filter_length_lt {A} (p q : A -> bool) : forall l,
  (forall x, In x l -> q x = true -> p x = true) ->
  (exists x, In x l /\ p x = true /\ q x = false) ->
  length (filter q l) < length (filter p l).
Proof.
  induction l as [|a l IH]; intros Hpq [x [Hx [Hp Hq]]]; [destruct Hx|].
  assert (Hle : forall l', (forall y, In y l' -> q y = true -> p y = true) ->
                           length (filter q l') <= length (filter p l')).
  { induction l' as [|b l' IH']; intro Hb; [cbn; lia|]. cbn.
    assert (Hl' : length (filter q l') <= length (filter p l')) by (apply IH'; intros; apply Hb; [right|]; assumption).
    destruct (q b) eqn:Qb.
    - rewrite (Hb b (or_introl eq_refl) Qb). cbn. lia.
    - destruct (p b); cbn; lia. }
  cbn. destruct Hx as [->|Hx].
  - rewrite Hp, Hq. cbn. specialize (Hle l (fun y Hy => Hpq y (or_intror Hy))). lia.
  - assert (IHl : length (filter q l) < length (filter p l)).
    { apply IH; [intros; apply Hpq; [right|]; assumption|eauto]. }
    destruct (q a) eqn:Qa.
    + rewrite (Hpq a (or_introl eq_refl) Qa). cbn. lia.
    + destruct (p a); cbn; lia.
Qed.

Lemma filter_len_le {A} (f : A -> bool) : forall l, length (filter f l) <= length l.
Proof. induction l as [|a l IH]; cbn; [lia|]. destruct (f a); cbn; lia. Qed.

Definition maxd_of (l : list call) : nat :=
  fold_right (fun c m => Nat.max (S (depth (ca c))) m) 0 l.

Lemma maxd_of_ge : forall l c, In c l -> S (depth (ca c)) <= maxd_of l.
Proof.
  unfold maxd_of. induction l as [|x l IH]; intros c Hc; [destruct Hc|].
  cbn [fold_right]. destruct Hc as [->|Hc]; [lia|]. specialize (IH c Hc). lia.
Qed.

Section Fresh.
Variable p : package.
Let cs := calls p.
Hypothesis Hwt : well_typed cs = true.
Hypothesis Hcons : consistent (true_entries cs) = true.
Variable cfg : config.
Hypothesis Hsrc : src_order cfg = true.

Lemma cs_closed c k n a : In c cs -> ca c = App k n a -> In (mkCall k n a) cs.
Proof.
  unfold cs, calls. intros Hc E. apply in_flat_map in Hc as [e [He Hc]].
  apply in_flat_map. exists e. split; [assumption|]. eapply calls_of_closed; eassumption.
Qed.

Lemma cs_typed c : In c cs ->
  exists t r, ety (ca c) = Some t /\ res_of (ck c) t = Some r.
Proof.
  intro Hc. unfold well_typed in Hwt. rewrite forallb_forall in Hwt. specialize (Hwt c Hc).
  cbn in Hwt. destruct (ety (ca c)) as [t|]; [|discriminate].
  destruct (res_of (ck c) t) as [r|] eqn:E; [|discriminate]. eauto.
Qed.

Lemma In_true_entries l e :
  In e (true_entries l) <->
  exists c, In c l /\ ety (ca c) = Some (et e) /\ ek e = ck c /\ en e = cn c.
Proof.
  unfold true_entries. rewrite in_flat_map. split.
  - intros [c [Hc He]]. exists c. destruct (ety (ca c)) as [t|]; [|destruct He].
    destruct He as [<-|[]]. cbn. auto.
  - intros [c [Hc [Hi [Hk Hn]]]]. exists c. split; [assumption|]. rewrite Hi. left.
    destruct e; cbn in *; subst; reflexivity.
Qed.

(* the loaded signatures agree with the true types of the current sources *)
Definition sound (s : sigs) : Prop :=
  forall c r, In c cs -> lookup (cn c) s = Some r -> r = ety (App (ck c) (cn c) (ca c)).

Lemma infer_sound s c t : sound s -> In c cs -> infer s (ca c) = Some t -> ety (ca c) = Some t.
Proof.
  intros Hs Hc Hi. destruct (ca c) as [v t'|k' n' a'] eqn:E; cbn in Hi |- *; [assumption|].
  destruct (lookup n' s) as [[t0|]|] eqn:L; try discriminate. inversion Hi; subst t0.
  pose proof (cs_closed c k' n' a' Hc E) as Hc'.
  specialize (Hs (mkCall k' n' a') (Some t) Hc' L). cbn in Hs. symmetry; exact Hs.
Qed.

Lemma typed_incl s : sound s -> incl (typed s cs) (true_entries cs).
Proof.
  intros Hs e He. rewrite In_typed in He. destruct He as [c [Hc [Hi [Hk Hn]]]].
  rewrite In_true_entries. exists c. repeat split; try assumption. eapply infer_sound; eassumption.
Qed.

Lemma typed_all s : sound s -> forall l, incl l cs -> (forall c, In c l -> defd s c = true) ->
  typed s l = true_entries l.
Proof.
  intros Hs. induction l as [|c l IH]; intros Hl Hd; [reflexivity|].
  unfold typed, true_entries in *. cbn.
  rewrite IH; [|intros x Hx; apply Hl; right; assumption|intros; apply Hd; right; assumption].
  specialize (Hd c (or_introl eq_refl)). unfold defd in Hd.
  destruct (infer s (ca c)) as [t|] eqn:E; [|discriminate].
  rewrite (infer_sound s c t Hs (Hl c (or_introl eq_refl)) E). reflexivity.
Qed.

Lemma pass_ok s : sound s ->
  pass cfg s cs = PDone (group (dedup (typed s cs))) (undefined s cs).
Proof.
  intro Hs. unfold pass, order. rewrite Hsrc.
  assert (HC : Cons (typed s cs)).
  { eapply Cons_incl; [apply typed_incl; assumption|apply consistent_Cons; exact Hcons]. }
  rewrite (tm_adds_dedup (typed s cs) []) by exact HC. fold (dedup (typed s cs)).
  replace (gen_ok (dedup (typed s cs))) with true; [reflexivity|].
  symmetry. unfold gen_ok. apply forallb_forall. intros e He.
  rewrite In_dedup in He. apply (typed_incl s Hs) in He.
  rewrite In_true_entries in He. destruct He as [c [Hc [Hi [Hk Hn]]]].
  destruct (cs_typed c Hc) as [t [r [Ht Hr]]]. rewrite Hk. rewrite Hi in Ht. inversion Ht; subst t.
  rewrite Hr. reflexivity.
Qed.

Definition next (s : sigs) : sigs := sigs_of (group (dedup (typed s cs))).

Lemma next_sound s : sound s -> sound (next s).
Proof.
  intros Hs c r Hc L. apply lookup_sigs_of in L as [e [He [Hn Hr]]].
  rewrite In_group, In_dedup in He. apply (typed_incl s Hs) in He.
  destruct (cs_typed c Hc) as [t [r0 [Ht Hr0]]].
  assert (Hte : In (mkEntry (ck c) (cn c) t) (true_entries cs)).
  { rewrite In_true_entries. exists c. cbn. auto. }
  pose proof (consistent_Cons _ Hcons e _ He Hte) as HC.
  destruct (compatible_same_name _ _ HC Hn) as [Hk Hty]. cbn in Hk, Hty.
  subst r. rewrite Hk, Hty. cbn. rewrite Ht. reflexivity.
Qed.

(* iteration that the loop performs: which calls have a defined argument in pass i *)
Fixpoint def_at (i : nat) (c : call) : bool :=
  match i with
  | O => false
  | S j => match ca c with
           | Var _ _ => true
           | App _ n' _ => existsb (fun c' => N.eqb (cn c') n' && def_at j c') cs
           end
  end.

Lemma def_at_mono : forall i c, def_at i c = true -> def_at (S i) c = true.
Proof.
  induction i as [|i IH]; intros c H; [discriminate|].
  cbn [def_at] in *. destruct (ca c) as [|k' n' a']; [reflexivity|].
  apply existsb_exists in H as [c' [Hc' H]]. apply andb_true_iff in H as [Hn Hd].
  apply existsb_exists. exists c'. split; [assumption|]. rewrite Hn. cbn [andb].
  change (def_at (S i) c' = true). apply IH; assumption.
Qed.

Lemma def_at_depth : forall i c, In c cs -> S (depth (ca c)) <= i -> def_at i c = true.
Proof.
  induction i as [|i IH]; intros c Hc Hd; [lia|].
  cbn [def_at]. destruct (ca c) as [|k' n' a'] eqn:E; [reflexivity|].
  apply existsb_exists. exists (mkCall k' n' a'). split; [eapply cs_closed; eassumption|].
  cbn [cn]. rewrite N.eqb_refl. cbn [andb]. apply IH; [eapply cs_closed; eassumption|].
  cbn [ca]. cbn in Hd. lia.
Qed.

(* a call whose argument is still undefined in pass i+1 leads to one that becomes defined in pass i+2 *)
Lemma progress i : forall a c, In c cs -> ca c = a -> def_at (S i) c = false ->
  exists c', In c' cs /\ def_at (S i) c' = false /\ def_at (S (S i)) c' = true.
Proof.
  induction a as [v t|k' n' a' IH]; intros c Hc E Hd.
  - cbn [def_at] in Hd. rewrite E in Hd. discriminate.
  - pose proof (cs_closed c k' n' a' Hc E) as Hc'.
    destruct (def_at (S i) (mkCall k' n' a')) eqn:D.
    + exists c. repeat split; try assumption.
      change (match ca c with Var _ _ => true
              | App _ n'' _ => existsb (fun c' => N.eqb (cn c') n'' && def_at (S i) c') cs end = true).
      rewrite E. apply existsb_exists. exists (mkCall k' n' a'). split; [assumption|].
      cbn [cn]. rewrite N.eqb_refl, D. reflexivity.
    + apply (IH (mkCall k' n' a') Hc' eq_refl D).
Qed.

Definition tracks (i : nat) (s : sigs) : Prop :=
  forall c, In c cs -> defd s c = def_at (S i) c.

Lemma tracks_0 : tracks 0 [].
Proof.
  intros c Hc. unfold defd. cbn [def_at]. destruct (ca c) as [|k' n' a']; cbn; [reflexivity|].
  symmetry. apply not_true_is_false. intro H. apply existsb_exists in H as [c' [_ H]].
  rewrite andb_false_r in H. discriminate.
Qed.

Lemma next_tracks i s : sound s -> tracks i s -> tracks (S i) (next s).
Proof.
  intros Hs Ht c Hc. unfold defd.
  change (def_at (S (S i)) c) with
    (match ca c with Var _ _ => true
     | App _ n' _ => existsb (fun c' => N.eqb (cn c') n' && def_at (S i) c') cs end).
  destruct (ca c) as [v t|k' n' a'] eqn:E; [reflexivity|]. cbn [infer].
  destruct (existsb (fun c' => N.eqb (cn c') n' && def_at (S i) c') cs) eqn:Ex.
  - apply existsb_exists in Ex as [c' [Hc' H]]. apply andb_true_iff in H as [Hn Hd].
    apply N.eqb_eq in Hn. rewrite <- (Ht c' Hc') in Hd. unfold defd in Hd.
    destruct (infer s (ca c')) as [t'|] eqn:I; [|discriminate].
    assert (He : In (mkEntry (ck c') (cn c') t') (group (dedup (typed s cs)))).
    { rewrite In_group, In_dedup, In_typed. exists c'. cbn. auto. }
    apply lookup_sigs_of_in in He as [r L]. cbn [en] in L. rewrite Hn in L.
    pose proof (next_sound s Hs c' r Hc') as Hr. rewrite Hn in Hr. specialize (Hr L).
    destruct (cs_typed c' Hc') as [t0 [r0 [Ht0 Hr0]]].
    unfold next. rewrite L. rewrite Hr. cbn [ety]. rewrite Ht0, Hr0. reflexivity.
  - destruct (lookup n' (next s)) as [[t0|]|] eqn:L; try reflexivity. exfalso.
    apply lookup_sigs_of in L as [e [He [Hn _]]].
    rewrite In_group, In_dedup, In_typed in He. destruct He as [c' [Hc' [Hi [_ Hn']]]].
    assert (Hd : defd s c' = true) by (unfold defd; rewrite Hi; reflexivity).
    rewrite (Ht c' Hc') in Hd.
    assert (Ex' : existsb (fun c' => N.eqb (cn c') n' && def_at (S i) c') cs = true).
    { apply existsb_exists. exists c'. split; [assumption|]. rewrite Hd, <- Hn', Hn, N.eqb_refl. reflexivity. }
    congruence.
Qed.

Definition maxd : nat := maxd_of cs.

Lemma maxd_ge : forall c, In c cs -> S (depth (ca c)) <= maxd.
Proof. apply maxd_of_ge. Qed.

Lemma final_out s : sound s -> (forall c, In c cs -> defd s c = true) ->
  (if negb (is_nil (group (dedup (typed s cs)))) then Some (group (dedup (typed s cs))) else None)
  = scratch_spec p.
Proof.
  intros Hs Hd. unfold scratch_spec. fold cs.
  rewrite (typed_all s Hs cs (incl_refl _) Hd).
  destruct (group (dedup (true_entries cs))); reflexivity.
Qed.

Lemma loop_fresh : forall fuel i s d first prev,
  load (if first && ignore_old cfg then Absent else d) = Some s ->
  sound s -> tracks i s ->
  length (undefined s cs) < fuel ->
  (prev = [] \/ length (undefined s cs) < length prev) ->
  S i <= Nat.max 1 maxd ->
  exists n, loop fuel cfg cs d first prev i = ROk (scratch_spec p) n /\ n <= Nat.max 1 maxd.
Proof.
  induction fuel as [|fuel IH]; intros i s d first prev Hload Hs Ht Hfuel Hprev Hi; [lia|].
  cbn [loop]. rewrite Hload, (pass_ok s Hs).
  destruct (undefined s cs) as [|u us] eqn:U.
  - (* nothing undefined: this is the last pass *)
    cbn [is_nil]. exists (S i). split; [|assumption]. f_equal.
    apply final_out; [assumption|]. intros c Hc.
    destruct (defd s c) eqn:D; [reflexivity|]. exfalso.
    assert (In c (undefined s cs)) by (rewrite undefined_filter; apply filter_In; rewrite D; auto).
    rewrite U in H. destruct H.
  - cbn [is_nil].
    assert (Hms : ms_eqb (u :: us) prev = false).
    { unfold ms_eqb. destruct Hprev as [->|Hlt]; [reflexivity|].
      replace (Nat.eqb (length (u :: us)) (length prev)) with false; [reflexivity|].
      symmetry. apply Nat.eqb_neq. lia. }
    rewrite Hms.
    (* some call is defined in this pass, so something is generated *)
    assert (Hu : In u cs /\ defd s u = false).
    { assert (In u (undefined s cs)) by (rewrite U; left; reflexivity).
      rewrite undefined_filter in H. apply filter_In in H as [H1 H2].
      split; [assumption|]. destruct (defd s u); [discriminate|reflexivity]. }
    destruct Hu as [Hu Hdu]. rewrite (Ht u Hu) in Hdu.
    destruct (progress i (ca u) u Hu eq_refl Hdu) as [w [Hw [Hw1 Hw2]]].
    assert (Hgen : exists e es, group (dedup (typed s cs)) = e :: es).
    { (* w is defined in pass i+2 through a callee defined now *)
      change (def_at (S (S i)) w) with
        (match ca w with Var _ _ => true
         | App _ n' _ => existsb (fun c' => N.eqb (cn c') n' && def_at (S i) c') cs end) in Hw2.
      destruct (ca w) as [v t|k' n' a'] eqn:E.
      { cbn [def_at] in Hw1. rewrite E in Hw1. discriminate. }
      apply existsb_exists in Hw2 as [c' [Hc' H]]. apply andb_true_iff in H as [_ Hd].
      rewrite <- (Ht c' Hc') in Hd. unfold defd in Hd.
      destruct (infer s (ca c')) as [t'|] eqn:I; [|discriminate].
      assert (He : In (mkEntry (ck c') (cn c') t') (group (dedup (typed s cs)))).
      { rewrite In_group, In_dedup, In_typed. exists c'. cbn. auto. }
      destruct (group (dedup (typed s cs))) as [|e es]; [destruct He|eauto]. }
    destruct Hgen as [e [es Hg]]. rewrite Hg. cbn [is_nil negb].
    rewrite <- Hg. fold (next s).
    assert (Hlt : length (undefined (next s) cs) < length (undefined s cs)).
    { rewrite !undefined_filter. apply filter_length_lt.
      - intros x Hx Hq. rewrite (next_tracks i s Hs Ht x Hx) in Hq. rewrite (Ht x Hx).
        destruct (def_at (S i) x) eqn:D; [|reflexivity].
        rewrite (def_at_mono (S i) x D) in Hq. discriminate.
      - exists w. split; [assumption|]. rewrite (Ht w Hw), (next_tracks i s Hs Ht w Hw), Hw1, Hw2. auto. }
    rewrite <- U.
    apply (IH (S i) (next s) (File (next s)) false (undefined s cs)).
    + reflexivity.
    + apply next_sound; assumption.
    + apply next_tracks; assumption.
    + rewrite U in Hlt. cbn [length] in Hfuel, Hlt. lia.
    + right. exact Hlt.
    + (* u has depth > i+1 *)
      assert (S (depth (ca u)) <= maxd) by (apply maxd_ge; assumption).
      destruct (le_lt_dec (S (depth (ca u))) (S i)) as [Hle|Hgt].
      * rewrite (def_at_depth (S i) u Hu Hle) in Hdu. discriminate.
      * lia.
Qed.

End Fresh.

Lemma sound_nil p : sound p [].
Proof. intros c r _ H. discriminate. Qed.

Lemma maxd_max_depth p : maxd p <= max_depth p.
Proof.
  unfold maxd, maxd_of, max_depth, calls. induction p as [|e p IH]; [cbn; lia|].
  cbn [flat_map fold_right]. rewrite fold_right_app.
  assert (H : forall e m, depth e <= m ->
     fold_right (fun c m0 => Nat.max (S (depth (ca c))) m0) m (calls_of e) <= m).
  { induction e0 as [|k n a IHe]; intros m Hm; cbn [calls_of fold_right]; [lia|].
    cbn [ca]. cbn [depth] in Hm. specialize (IHe m ltac:(lia)). lia. }
  set (m := fold_right (fun c m0 => Nat.max (S (depth (ca c))) m0) 0 (flat_map calls_of p)) in *.
  specialize (H e (Nat.max (depth e) m) ltac:(lia)).
  assert (Hmono : forall l a b, a <= b ->
     fold_right (fun c m0 => Nat.max (S (depth (ca c))) m0) a l <=
     fold_right (fun c m0 => Nat.max (S (depth (ca c))) m0) b l).
  { induction l as [|x l IHl]; intros a b Hab; cbn [fold_right]; [assumption|].
    specialize (IHl a b Hab). lia. }
  specialize (Hmono (calls_of e) m (Nat.max (depth e) m) ltac:(lia)). lia.
Qed.

Theorem regen_nested_fresh_gen : forall cfg p,
  src_order cfg = true -> wf p = true ->
  exists n, regen cfg p Absent = ROk (scratch_spec p) n /\ n <= Nat.max 1 (max_depth p).
Proof.
  intros cfg p Hsrc Hwf. unfold wf in Hwf. apply andb_true_iff in Hwf as [Hwt Hcons].
  destruct (loop_fresh p Hwt Hcons cfg Hsrc (S (S (length (calls p)))) 0 [] Absent true [])
    as [n [Hn Hb]].
  - destruct (ignore_old cfg); reflexivity.
  - apply sound_nil.
  - apply tracks_0.
  - rewrite undefined_filter. pose proof (filter_len_le (fun c => negb (defd [] c)) (calls p)). lia.
  - left; reflexivity.
  - lia.
  - exists n. split; [exact Hn|]. pose proof (maxd_max_depth p). lia.
Qed.

(* the full property for the repaired code: whatever derived.gen.go held before, one run leaves
   the one-shot result for the current sources, in at most max(1, nesting depth) passes *)
Theorem regen_any_old : forall p old, wf p = true ->
  exists n, regen fixed p old = ROk (scratch_spec p) n /\ n <= Nat.max 1 (max_depth p).
Proof.
  intros p old Hwf. rewrite regen_old_independent.
  apply regen_nested_fresh_gen; [reflexivity|assumption].
Qed.

(* the file is removed exactly when no derive call remains *)
Theorem regen_deletes_when_empty : forall p old, wf p = true ->
  ((exists n, regen fixed p old = ROk None n) <-> calls p = []).
Proof.
  intros p old Hwf. destruct (regen_any_old p old Hwf) as [n [Hn _]]. rewrite Hn.
  assert (Hspec : scratch_spec p = None <-> calls p = []).
  { unfold scratch_spec. split.
    - intro H. destruct (calls p) as [|c l] eqn:E; [reflexivity|]. exfalso.
      unfold wf in Hwf. apply andb_true_iff in Hwf as [Hwt _].
      assert (Hc : In c (calls p)) by (rewrite E; left; reflexivity).
      destruct (cs_typed p Hwt c Hc) as [t [r [Ht _]]].
      assert (He : In (mkEntry (ck c) (cn c) t) (group (dedup (true_entries (calls p))))).
      { rewrite In_group, In_dedup, In_true_entries. exists c. cbn. auto. }
      rewrite <- E in H.
      destruct (group (dedup (true_entries (calls p)))); [destruct He|discriminate].
    - intros ->. reflexivity. }
  split.
  - intros [m Hm]. inversion Hm. apply Hspec. assumption.
  - intro H. apply Hspec in H. rewrite H. eauto.
Qed.

(* ------------------------------------------------------------------------------------ *)
(* 5. The pinned code (legacy configuration): witnesses of the repaired defects          *)
(* ------------------------------------------------------------------------------------ *)
Definition t_int := TBase 0.
Definition t_string := TBase 1.
Definition t_bool := TBase 4.

(* func F() int { return len(deriveSort(deriveKeys(m))) } with m retyped
   from map[string]int to map[int]int *)
Definition pkg_sortkeys : package := [App KSort 1 (App KKeys 0 (Var 0 (TMap t_int t_int)))].
Definition old_sortkeys : disk :=
  File [(1%N, Some (TSlice t_string)); (0%N, Some (TSlice t_string))].

Lemma regen_stale_refuted :
  regen legacy pkg_sortkeys old_sortkeys
    = ROk (Some [mkEntry KSort 1 (TSlice t_string); mkEntry KKeys 0 (TMap t_int t_int)]) 1
  /\ regen legacy pkg_sortkeys Absent
    = ROk (Some [mkEntry KSort 1 (TSlice t_int); mkEntry KKeys 0 (TMap t_int t_int)]) 2.
Proof. split; vm_compute; reflexivity. Qed.

(* derived.gen.go cut off inside its header *)
Lemma regen_truncated_refuted :
  regen legacy pkg_sortkeys NoPackageClause = RErr ELoad.
Proof. vm_compute; reflexivity. Qed.

(* derived.gen.go cut off between the parameter list and the result type of deriveKeys *)
Lemma regen_truncated_void_refuted :
  regen legacy pkg_sortkeys (File [(1%N, Some (TSlice t_int)); (0%N, Some TVoid)]) = RErr EGen.
Proof. vm_compute; reflexivity. Qed.

(* a second deriveKeys call added after an existing one: the new function is emitted first *)
Definition pkg_two : package :=
  [App KKeys 0 (Var 0 (TMap t_string t_int)); App KKeys 2 (Var 1 (TMap t_int t_bool))].
Lemma regen_order_refuted :
  regen legacy pkg_two (File [(0%N, Some (TSlice t_string))])
    = ROk (Some [mkEntry KKeys 2 (TMap t_int t_bool); mkEntry KKeys 0 (TMap t_string t_int)]) 1
  /\ regen legacy pkg_two Absent
    = ROk (Some [mkEntry KKeys 0 (TMap t_string t_int); mkEntry KKeys 2 (TMap t_int t_bool)]) 1.
Proof. split; vm_compute; reflexivity. Qed.

(* the same inputs under the repaired code; the guards of the theorems are satisfiable *)
Example fixed_sortkeys_stale :
  wf pkg_sortkeys = true /\
  regen fixed pkg_sortkeys old_sortkeys = ROk (scratch_spec pkg_sortkeys) 2 /\
  regen fixed pkg_sortkeys NoPackageClause = ROk (scratch_spec pkg_sortkeys) 2 /\
  regen fixed pkg_sortkeys (File [(1%N, Some (TSlice t_int)); (0%N, Some TVoid)])
    = ROk (scratch_spec pkg_sortkeys) 2.
Proof. repeat split; vm_compute; reflexivity. Qed.

Example fixed_two_order :
  wf pkg_two = true /\ flat pkg_two = true /\
  regen fixed pkg_two (File [(0%N, Some (TSlice t_string))]) = ROk (scratch_spec pkg_two) 1.
Proof. repeat split; vm_compute; reflexivity. Qed.

Example fixed_empty : regen fixed [] old_sortkeys = ROk None 1.
Proof. vm_compute; reflexivity. Qed.
