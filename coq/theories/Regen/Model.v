(* Regen/Model.v — executable model of goderive's regeneration loop
   (derive/find.go: newFileInfos, finder.Visit, getInputTypes, HasUndefined;
    derive/generate.go: newPackage, pkg.Add, Generate, Print, Delete, generatePackage;
    derive/load.go: load; derive/typesmap.go: SetFuncName without -autoname/-dedup).

   What is abstracted: Go types are a small grammar [ty]; a package is the list of its
   top-level derive-call expressions, whose single "flowing" argument is a variable of a
   fixed type or another derive call (deriveSort(deriveKeys(m))); derived.gen.go is the list
   of generated functions (plugin, name, argument type) — its bytes are a function of that
   list and of the current type declarations (rendering is C08's subject).

   Two configurations of the same definitions:
     [fixed]  = the code after repo-patches/C07-fix-*.patch (source-order calls; the first load
                of a run ignores a pre-existing derived.gen.go),
     [legacy] = the pinned code (calls ordered undefined ++ derived; old file loaded).
   Standard library only; no axioms. *)
From Coq Require Import List NArith Bool Arith Lia.
Import ListNotations.

(* ---------- types ---------- *)
Inductive ty : Type :=
| TBase (n : N)              (* int, string, ..., named basic types, struct{} *)
| TSlice (e : ty)
| TMap (k v : ty)
| TVoid.                     (* "()" : the type go/types reports for a call of a function
                                without results (only arises from a cut-off signature) *)

Fixpoint ty_eqb (a b : ty) : bool :=
  match a, b with
  | TBase x, TBase y => N.eqb x y
  | TSlice x, TSlice y => ty_eqb x y
  | TMap k v, TMap k' v' => ty_eqb k k' && ty_eqb v v'
  | TVoid, TVoid => true
  | _, _ => false
  end.

Lemma ty_eqb_eq a b : ty_eqb a b = true <-> a = b.
Proof.
  revert b; induction a as [x|e IH|k IHk v IHv|]; intros [y|e'|k' v'|]; cbn; split; intro H;
    try discriminate; try reflexivity.
  - apply N.eqb_eq in H; congruence.
  - inversion H; apply N.eqb_refl.
  - apply IH in H; congruence.
  - inversion H; subst; apply IH; reflexivity.
  - apply andb_true_iff in H as [H1 H2]. apply IHk in H1. apply IHv in H2. congruence.
  - inversion H; subst. apply andb_true_iff; split; [apply IHk|apply IHv]; reflexivity.
Qed.

Lemma ty_eqb_refl a : ty_eqb a a = true.
Proof. apply ty_eqb_eq; reflexivity. Qed.

(* ---------- plugins ---------- *)
Inductive kind := KKeys | KSort | KSet.

Definition kind_eqb (a b : kind) : bool :=
  match a, b with KKeys, KKeys | KSort, KSort | KSet, KSet => true | _, _ => false end.

Lemma kind_eqb_eq a b : kind_eqb a b = true <-> a = b.
Proof. destruct a, b; cbn; split; intro H; try discriminate; reflexivity. Qed.

(* sortPlugins: longest prefix first, then descending: deriveSort, deriveKeys, deriveSet *)
Definition plugin_order : list kind := [KSort; KKeys; KSet].

(* result type of the generated function; None = the plugin rejects the argument type
   ("Add Error"/"Generator Error": exit 1) *)
Definition res_of (k : kind) (t : ty) : option ty :=
  match k, t with
  | KKeys, TMap key _ => Some (TSlice key)
  | KSort, TSlice e => Some (TSlice e)
  | KSet, TSlice e => Some (TMap e (TBase 9))      (* map[T]struct{} *)
  | _, _ => None
  end.

(* ---------- sources ---------- *)
Inductive expr : Type :=
| Var (v : N) (t : ty)                 (* a variable / field of the current sources *)
| App (k : kind) (n : N) (a : expr).   (* derive call named n of plugin k *)

Fixpoint expr_eqb (a b : expr) : bool :=
  match a, b with
  | Var v t, Var v' t' => N.eqb v v' && ty_eqb t t'
  | App k n x, App k' n' x' => kind_eqb k k' && N.eqb n n' && expr_eqb x x'
  | _, _ => false
  end.

Record call := mkCall { ck : kind; cn : N; ca : expr }.

(* ast.Walk: the outer call is visited before the calls inside its arguments *)
Fixpoint calls_of (e : expr) : list call :=
  match e with
  | Var _ _ => []
  | App k n a => mkCall k n a :: calls_of a
  end.

Definition package := list expr.
Definition calls (p : package) : list call := flat_map calls_of p.

(* the type of an expression once every derived function exists with its proper signature *)
Fixpoint ety (e : expr) : option ty :=
  match e with
  | Var _ t => Some t
  | App k _ a => match ety a with Some t => res_of k t | None => None end
  end.

(* ---------- derived.gen.go ---------- *)
Record entry := mkEntry { ek : kind; en : N; et : ty }.

Definition entry_eqb (a b : entry) : bool :=
  kind_eqb (ek a) (ek b) && N.eqb (en a) (en b) && ty_eqb (et a) (et b).

Lemma entry_eqb_eq a b : entry_eqb a b = true <-> a = b.
Proof.
  destruct a as [k n t], b as [k' n' t']; unfold entry_eqb; cbn. split; intro H.
  - apply andb_true_iff in H as [H H3]. apply andb_true_iff in H as [H1 H2].
    apply kind_eqb_eq in H1. apply N.eqb_eq in H2. apply ty_eqb_eq in H3. congruence.
  - inversion H; subst. rewrite ty_eqb_refl, N.eqb_refl.
    replace (kind_eqb k' k') with true by (symmetry; apply kind_eqb_eq; reflexivity). reflexivity.
Qed.

(* what the loader reports about the functions of a derived.gen.go: name -> result type,
   None = "invalid type" (a result type that no longer type-checks) *)
Definition sigs := list (N * option ty).

Inductive disk : Type :=
| Absent
| File (s : sigs)        (* parsable: the output of an earlier run, possibly cut off *)
| Unparsable             (* package clause and imports intact, no usable declaration *)
| NoPackageClause.       (* cut off inside the header: go/build rejects the directory *)

Fixpoint lookup (n : N) (s : sigs) : option (option ty) :=
  match s with
  | [] => None
  | (m, r) :: s' => if N.eqb n m then Some r else lookup n s'
  end.

(* load.go + loader: the signatures visible to the type checker; None = load error *)
Definition load (d : disk) : option sigs :=
  match d with
  | Absent => Some []
  | File s => Some s
  | Unparsable => Some []
  | NoPackageClause => None       (* "no initial packages were loaded" *)
  end.

(* getInputTypes + HasUndefined: the type of a call's argument as the loader reports it;
   None = undefined (callee missing, or its result is an invalid type).  A nested call takes
   the result type of whatever signature the loaded derived.gen.go has for the callee. *)
Definition infer (s : sigs) (a : expr) : option ty :=
  match a with
  | Var _ t => Some t
  | App _ n _ => match lookup n s with Some (Some t) => Some t | _ => None end
  end.

(* ---------- typesMap.SetFuncName (no -autoname, no -dedup) ---------- *)
Definition tm_add (tm : list entry) (e : entry) : option (list entry) :=
  match find (fun x => kind_eqb (ek x) (ek e) && ty_eqb (et x) (et e)) tm with
  | Some x => if N.eqb (en x) (en e) then Some tm else None         (* ambiguous names *)
  | None =>
      match find (fun x => kind_eqb (ek x) (ek e) && N.eqb (en x) (en e)) tm with
      | Some _ => None                                                (* conflicting names *)
      | None => Some (tm ++ [e])
      end
  end.

Fixpoint tm_adds (tm : list entry) (l : list entry) : option (list entry) :=
  match l with
  | [] => Some tm
  | e :: l' => match tm_add tm e with Some tm' => tm_adds tm' l' | None => None end
  end.

(* ---------- configuration ---------- *)
Record config := { ignore_old : bool; src_order : bool }.
Definition fixed : config := {| ignore_old := true; src_order := true |}.
Definition legacy : config := {| ignore_old := false; src_order := false |}.

Definition resolved (s : sigs) (c : call) : bool :=
  match lookup (cn c) s with Some _ => true | None => false end.

(* order in which newPackage sees the calls of a file *)
Definition order (cfg : config) (s : sigs) (cs : list call) : list call :=
  if src_order cfg then cs
  else filter (fun c => negb (resolved s c)) cs ++ filter (resolved s) cs.

(* newPackage: calls with an undefined argument go to pkg.undefined, the others to pkg.Add *)
Definition typed (s : sigs) (cs : list call) : list entry :=
  flat_map (fun c => match infer s (ca c) with
                     | Some t => [mkEntry (ck c) (cn c) t]
                     | None => []
                     end) cs.

Definition undefined (s : sigs) (cs : list call) : list call :=
  filter (fun c => match infer s (ca c) with Some _ => false | None => true end) cs.

(* pkg.Generate: plugins in sortPlugins order, each its work list in insertion order *)
Definition group (tm : list entry) : list entry :=
  flat_map (fun k => filter (fun e => kind_eqb (ek e) k) tm) plugin_order.

Definition gen_ok (tm : list entry) : bool :=
  forallb (fun e => match res_of (ek e) (et e) with Some _ => true | None => false end) tm.

Definition sigs_of (es : list entry) : sigs :=
  map (fun e => (en e, res_of (ek e) (et e))) es.

(* sorted, ";"-joined expression strings are equal iff the multisets of calls are equal *)
Definition call_eqb (a b : call) : bool :=
  kind_eqb (ck a) (ck b) && N.eqb (cn a) (cn b) && expr_eqb (ca a) (ca b).
Definition count (c : call) (l : list call) : nat := length (filter (call_eqb c) l).
Definition ms_eqb (a b : list call) : bool :=
  Nat.eqb (length a) (length b) && forallb (fun c => Nat.eqb (count c a) (count c b)) a.

Inductive failure := ELoad | EAdd | EGen | ECannot | EFuel.

Inductive result : Type :=
| ROk (file : option (list entry)) (passes : nat)   (* None: derived.gen.go removed *)
| RErr (f : failure).

(* one pass of generatePackage's loop on the signatures [s] *)
Inductive pass_result :=
| PErr (f : failure)
| PDone (es : list entry) (us : list call).

Definition pass (cfg : config) (s : sigs) (cs : list call) : pass_result :=
  let cs' := order cfg s cs in
  match tm_adds [] (typed s cs') with
  | None => PErr EAdd
  | Some tm => if gen_ok tm then PDone (group tm) (undefined s cs') else PErr EGen
  end.

Definition is_nil {A} (l : list A) : bool := match l with [] => true | _ => false end.

(* generatePackage.  [d] is derived.gen.go on disk, [first] whether this is the load done by
   Plugins.Load, [prev] the undefined list of the previous pass, [np] passes done so far. *)
Fixpoint loop (fuel : nat) (cfg : config) (cs : list call) (d : disk) (first : bool)
         (prev : list call) (np : nat) : result :=
  match fuel with
  | O => RErr EFuel
  | S fuel' =>
      let seen := if first && ignore_old cfg then Absent else d in
      match load seen with
      | None => RErr ELoad
      | Some s =>
          match pass cfg s cs with
          | PErr f => RErr f
          | PDone es us =>
              let generated := negb (is_nil es) in
              (* HasContent -> Print (os.Create), else Delete *)
              let out := if generated then Some es else None in
              let d' := if generated then File (sigs_of es) else Absent in
              if is_nil us then ROk out (S np)
              else if ms_eqb us prev then (if generated then ROk out (S np) else RErr ECannot)
              else if generated then loop fuel' cfg cs d' false us (S np)
              else RErr ECannot
          end
      end
  end.

Definition regen (cfg : config) (p : package) (old : disk) : result :=
  loop (S (S (length (calls p)))) cfg (calls p) old true [] 0.

(* ---------- specification: generation from the true types in one go ---------- *)
Definition true_entries (cs : list call) : list entry :=
  flat_map (fun c => match ety (ca c) with
                     | Some t => [mkEntry (ck c) (cn c) t]
                     | None => []
                     end) cs.

Definition dedup_step (acc : list entry) (e : entry) : list entry :=
  if existsb (entry_eqb e) acc then acc else acc ++ [e].
Definition dedup (l : list entry) : list entry := fold_left dedup_step l [].

(* every call is well typed, and names and argument types determine each other *)
Definition well_typed (cs : list call) : bool :=
  forallb (fun c => match ety (App (ck c) (cn c) (ca c)) with Some _ => true | None => false end) cs.

Definition compatible (a b : entry) : bool :=
  if N.eqb (en a) (en b) then kind_eqb (ek a) (ek b) && ty_eqb (et a) (et b)
  else negb (kind_eqb (ek a) (ek b) && ty_eqb (et a) (et b)).

Definition consistent (l : list entry) : bool :=
  forallb (fun a => forallb (compatible a) l) l.

Definition wf (p : package) : bool :=
  well_typed (calls p) && consistent (true_entries (calls p)).

Definition scratch_spec (p : package) : option (list entry) :=
  let es := group (dedup (true_entries (calls p))) in
  if is_nil es then None else Some es.

Fixpoint depth (e : expr) : nat :=
  match e with Var _ _ => 0 | App _ _ a => S (depth a) end.
Definition max_depth (p : package) : nat := fold_right (fun e m => Nat.max (depth e) m) 0 p.
