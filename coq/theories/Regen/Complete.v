(* Regen/Complete.v — C01, clause "every derive call, including calls nested in other derive calls,
   resolves to exactly one generated function that accepts its arguments ... or only become inferable
   after an earlier generation pass": on every well-formed package (each call well typed once the
   derived functions exist; one name is never used for two different plugin/argument-type pairs) and
   whatever derived.gen.go held before, the run of the repaired generator succeeds and its output has,
   for every call of the package - nested ones included -, an entry with the call's plugin, the call's
   name and the type of the call's argument, and no other entry with that name. *)
From Coq Require Import List NArith Bool Arith Lia.
From Verif Require Import Regen.Model Regen.Proofs.
Import ListNotations.

Lemma In_true_entries_of_call cs c t :
  In c cs -> ety (ca c) = Some t -> In (mkEntry (ck c) (cn c) t) (true_entries cs).
Proof.
  intros Hc Ht. unfold true_entries. apply in_flat_map. exists c. split; [exact Hc|].
  rewrite Ht. left. reflexivity.
Qed.

Lemma well_typed_arg cs c : well_typed cs = true -> In c cs -> exists t, ety (ca c) = Some t.
Proof.
  unfold well_typed. intros H Hc. rewrite forallb_forall in H. specialize (H c Hc).
  cbn [ety] in H. destruct (ety (ca c)) as [t|]; [eexists; reflexivity| discriminate].
Qed.

Theorem regen_resolves_every_call : forall p old, wf p = true ->
  forall c, In c (calls p) ->
  exists n es t,
    regen fixed p old = ROk (Some es) n /\ n <= Nat.max 1 (max_depth p) /\
    ety (ca c) = Some t /\
    In (mkEntry (ck c) (cn c) t) es /\
    (forall e, In e es -> en e = cn c -> e = mkEntry (ck c) (cn c) t).
Proof.
  intros p old Hwf c Hc.
  destruct (regen_any_old p old Hwf) as [n [Hn Hb]].
  pose proof Hwf as Hwf'. unfold wf in Hwf'. apply andb_true_iff in Hwf' as [Hwt Hcons].
  destruct (well_typed_arg _ c Hwt Hc) as [t Ht].
  pose proof (In_true_entries_of_call _ c t Hc Ht) as Hin.
  assert (Hg : In (mkEntry (ck c) (cn c) t) (group (dedup (true_entries (calls p))))).
  { apply In_group. apply In_dedup. exact Hin. }
  unfold scratch_spec in Hn.
  destruct (group (dedup (true_entries (calls p)))) as [|e0 es0] eqn:G; [destruct Hg|].
  cbn [is_nil] in Hn.
  exists n, (e0 :: es0), t. repeat split; try assumption.
  intros e He Hname.
  assert (He' : In e (true_entries (calls p))).
  { apply In_dedup. apply In_group. rewrite G. exact He. }
  pose proof (consistent_Cons _ Hcons e _ He' Hin) as Hcomp.
  destruct (compatible_same_name _ _ Hcomp Hname) as [Hk Ht'].
  apply entry_ext; cbn; assumption.
Qed.

(* every generated function is asked for by some call: nothing superfluous *)
Theorem regen_only_what_is_called : forall p old, wf p = true ->
  forall n es, regen fixed p old = ROk (Some es) n ->
  forall e, In e es -> exists c, In c (calls p) /\ ck c = ek e /\ cn c = en e /\ ety (ca c) = Some (et e).
Proof.
  intros p old Hwf n es Hr e He.
  destruct (regen_any_old p old Hwf) as [n' [Hn _]]. rewrite Hn in Hr.
  unfold scratch_spec in Hr. destruct (is_nil (group (dedup (true_entries (calls p))))); [discriminate|].
  inversion Hr; subst es.
  apply (proj1 (In_group _ _)) in He. apply (proj1 (In_dedup _ _)) in He. unfold true_entries in He.
  apply in_flat_map in He as [c [Hc Hin]].
  destruct (ety (ca c)) as [t|] eqn:Ht; [|destruct Hin].
  destruct Hin as [<-|[]]. exists c. cbn. repeat split; assumption.
Qed.

(* the hypotheses are met by a package with a nested call (deriveSort(deriveKeys(m))) *)
Example regen_resolves_nonvacuous :
  wf pkg_sortkeys = true /\ 2 <= length (calls pkg_sortkeys) /\ 1 <= max_depth pkg_sortkeys.
Proof. vm_compute. repeat split; lia. Qed.
