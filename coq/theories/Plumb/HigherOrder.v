(* Plumb/HigherOrder.v — the original function returns a function.

   "Returns its results unchanged" and "Uncurry of Curry of f behaves as f" do not depend on what a
   result is.  For f : func(a A) func(b B) func(x X) R the function derived by Uncurry is a
   func(A, B) func(X) R: the function that f(a)(b) returns is handed to the caller, it is not a
   third level of currying to be undone (plugin/uncurry: uncurrySig takes the parameters of the
   function and of the function it returns, nothing below).

   The plumbing theorems of Proofs.v quantify over every result function [res] of the original
   function, and a [val] may be a function (a primitive that logs its applications, or a closure).
   Instantiated with an original function whose single result is a given value [g]: the derived
   wrapper returns exactly [g], and the call log holds the application(s) of the original function
   and nothing else -- [g] has not been applied, although applying it would be logged. *)
From Coq Require Import String List ZArith Bool Arith.
From Verif Require Import Base Plumb.Model Plumb.Proofs.
Import ListNotations.
Open Scope string_scope.
Open Scope list_scope.

(* an original function all of whose results are the value g *)
Definition res_const (g : val) : nat -> list (list val) -> val := fun _ _ => g.

Lemma prim_results_const_1 g acc : prim_results (res_const g) 1 acc = [g].
Proof. reflexivity. Qed.

Theorem uncurry_hands_function_result_through :
  forall (g : val) (c : csig) (vo vi : list val) (k : nat),
  c_variadic c = false ->
  nodupb (filter bindable (names (c_outer c))) = true ->
  src_ok (names (c_inner c)) (names (c_results c)) = true ->
  length (c_outer c) = 1 ->
  length (c_results c) = 1 ->
  length vo = length (c_outer c) -> length vi = length (c_inner c) ->
  run_uncurry (res_const g) hygienic (FUEL + k) c (prim_curried c) (vo ++ vi)
  = ROk [g] [(0, vo); (1, vi)].
Proof.
  intros g c vo vi k Hv Ho Hs Hl Hr Hvo Hvi.
  rewrite (plumb_correct_uncurry (res_const g) c vo vi k Hv Ho Hs Hl Hvo Hvi).
  rewrite Hr. reflexivity.
Qed.

Theorem roundtrip_hands_function_result_through :
  forall (g : val) (s : sig) (a1 : val) (rest : list val) (k : nat),
  s_variadic s = false ->
  src_ok (names (s_params s)) (names (s_results s)) = true ->
  2 <= length (s_params s) ->
  length (s_results s) = 1 ->
  length (a1 :: rest) = length (s_params s) ->
  run_roundtrip (res_const g) hygienic (FUEL + k) s (prim_flat s) (a1 :: rest)
  = ROk [g] [(0, a1 :: rest)]
  /\ run_curry (res_const g) hygienic (FUEL + k) s (prim_flat s) (a1 :: rest)
  = ROk [g] [(0, a1 :: rest)].
Proof.
  intros g s a1 rest k Hv Hs H2 Hr Hl. split.
  - rewrite (uncurry_curry_id (res_const g) s a1 rest k Hv Hs H2 Hl). rewrite Hr. reflexivity.
  - rewrite (plumb_correct_curry (res_const g) s a1 rest k Hv Hs H2 Hl). rewrite Hr. reflexivity.
Qed.

(* --- the hypotheses are satisfiable, and the statement says something: the value returned is a
       function of one parameter whose application WOULD append an event to the log; the witness of
       seed C15-m14, scale(unit string, factor float64) func(x float64) string --- *)
Definition Tf64 : ty := TBase "float64".
Definition Tstr : ty := TBase "string".
Definition Tfn : ty := TFunc [("x", Tf64)] [("", Tstr)] false.
Definition scale_sig : sig := mkSig [("unit", Tstr); ("factor", Tf64)] [("", Tfn)] false.
Definition scale_csig : csig := mkCsig [("unit", Tstr)] "" [("factor", Tf64)] [("", Tfn)] false.
Definition g_fn : val := VPrim [1] 1 [].

Example ex_g_fn_is_a_function :
  apply (res_const (VBase 7)) FUEL g_fn [VBase 3] [] = Ok ([VBase 7], [(0, [VBase 3])]).
Proof. reflexivity. Qed.

Example ex_scale_uncurry :
  run_uncurry (res_const g_fn) hygienic FUEL scale_csig (prim_curried scale_csig) [VBase 1; VBase 2]
  = ROk [g_fn] [(0, [VBase 1]); (1, [VBase 2])].
Proof.
  exact (uncurry_hands_function_result_through g_fn scale_csig [VBase 1] [VBase 2] 0
           eq_refl eq_refl eq_refl eq_refl eq_refl eq_refl eq_refl).
Qed.

Example ex_scale_roundtrip :
  run_roundtrip (res_const g_fn) hygienic FUEL scale_sig (prim_flat scale_sig) [VBase 1; VBase 2]
  = ROk [g_fn] [(0, [VBase 1; VBase 2])].
Proof.
  exact (proj1 (roundtrip_hands_function_result_through g_fn scale_sig (VBase 1) [VBase 2] 0
                  eq_refl eq_refl (le_n 2) eq_refl eq_refl)).
Qed.
