(* Plumb/Model.v — C15: what goderive emits for Curry, Uncurry, Flip, Apply and Tuple.

   Three layers, all executable:
   1. signatures with *named* parameters/results and the renaming of derive/params.go
      (RenameBlankIdentifier[With]) together with each plugin's signature surgery
      (currySig, uncurrySig, flipSig, applySig);
   2. a tiny expression language (identifiers, calls with identifier arguments, function
      literals with named parameters and results, the three statement forms the plugins
      print) with a scoped big-step evaluator: an inner parameter shadows an outer one, `f`
      itself is just a binding, `_` and the empty name cannot be referred to, mixed
      named/unnamed or duplicate names in one parameter+result list do not compile ([Ill]);
   3. the closure nest each plugin prints, as a term of that language.

   The original function handed to the wrapper is the primitive [VPrim]: it logs every
   application (level, argument vector) and returns results computed by an oracle from the
   complete argument vectors.

   Three versions of the generator are modelled: [pinned] is the tree before the first two C15
   fixes (unnamed parameters are not renamed; `return f(...)` is printed even for a function
   without results); [fixed] is the tree with those two fixes but the old naming: the wrapper's
   own parameter is always called f and every parameter list is renamed on its own
   ([rename_blank]); [hygienic] is the current tree (repo-patches/C15-fix-1-param-named-f.patch
   and C15-fix-2-uncurry-duplicate-names.patch): the wrapper's own parameter gets a name the
   user's signature does not use (derive.UnusedName), the names the renaming makes up avoid the
   names of results, of the other level of uncurry and of parameters renamed before, and uncurry
   renames an outer parameter that clashes with the inner level (RenameClashingIdentifierWith).
   The property theorems are about [hygienic]; the `_refuted` witnesses about [pinned] and [fixed]
   document the former defects. *)
From Coq Require Import String Ascii List Bool Arith Lia ZArith DecimalString DecimalNat.
Import ListNotations.
Open Scope string_scope.
Open Scope nat_scope.
Open Scope list_scope.
Notation "a =s b" := (String.eqb a b) (at level 70) : string_scope.

Definition name := string.

(* ------------------------------------------------------------------------------------ *)
(* 1. signatures                                                                         *)

Inductive ty : Type :=
| TBase (n : string)
| TFunc (ps : list (name * ty)) (rs : list (name * ty)) (variadic : bool).

Record sig := mkSig {
  s_params : list (name * ty);
  s_results : list (name * ty);
  s_variadic : bool }.

Definition names (l : list (name * ty)) : list name := map fst l.

(* strconv.Itoa on a non-negative index *)
Definition itoa (n : nat) : string := NilEmpty.string_of_uint (Nat.to_uint n).

Record version := mkVersion {
  v_blank_empty : bool;   (* params.go treats the empty (absent) name like `_`     (fix B) *)
  v_void_stmt : bool;     (* no `return` keyword in front of a call without results (fix A) *)
  v_hygiene : bool }.     (* made-up names avoid the names in scope (fixes C and D) *)
Definition pinned : version := mkVersion false false false.
Definition fixed : version := mkVersion true true false.
Definition hygienic : version := mkVersion true true true.

Fixpoint memb (x : name) (l : list name) : bool :=
  match l with [] => false | y :: r => (x =s y) || memb x r end.
Fixpoint nodupb (l : list name) : bool :=
  match l with [] => true | x :: r => negb (memb x r) && nodupb r end.

(* derive/params.go *)
Definition is_blank (v : version) (n : name) : bool :=
  (n =s "_") || (v_blank_empty v && (n =s "")).

Definition has_blank (v : version) (ps : list (name * ty)) : bool :=
  existsb (fun p => is_blank v (fst p)) ps.

Fixpoint rename_from (v : version) (pre : string) (i : nat) (ps : list (name * ty))
  : list (name * ty) :=
  match ps with
  | [] => []
  | (n, t) :: r =>
      (if is_blank v n || prefix pre n then (String.append pre (itoa i), t) else (n, t))
        :: rename_from v pre (S i) r
  end.

Definition rename_blank (v : version) (pre : string) (ps : list (name * ty)) : list (name * ty) :=
  if has_blank v ps then rename_from v pre 0 ps else ps.

(* derive.UnusedName: `for isUsed(name, tuples) { name += "_" }`.  The loop is modelled on fuel;
   [length taken] rounds always suffice (Proofs.unused_name_fresh: the result is never taken),
   so the fuel never runs out *)
Fixpoint unused_from (fuel : nat) (n : name) (taken : list name) : name :=
  match fuel with
  | O => n
  | S k => if memb n taken then unused_from k (String.append n "_") taken else n
  end.
Definition unused_name (n : name) (taken : list name) : name := unused_from (length taken) n taken.

(* derive.RenameClashingIdentifierWith (current tree).  [taken] = the names of the signature's own
   results followed by the names of the other tuples; trigger: some parameter is blank or has a
   taken name; then a parameter is renamed if it is blank, starts with the prefix or has a taken
   name, to prefix ++ itoa index made unused among the names decided so far ([done] = vars[:i])
   and the taken names *)
Fixpoint rename_avoid_from (v : version) (pre : string) (i : nat) (taken done : list name)
  (ps : list (name * ty)) : list (name * ty) :=
  match ps with
  | [] => []
  | (n, t) :: r =>
      let n' := if is_blank v n || prefix pre n || memb n taken
                then unused_name (String.append pre (itoa i)) (done ++ taken) else n in
      (n', t) :: rename_avoid_from v pre (S i) taken (done ++ [n']) r
  end.

Definition needs_rename (v : version) (taken : list name) (ps : list (name * ty)) : bool :=
  has_blank v ps || existsb (fun p => memb (fst p) taken) ps.

Definition rename_avoid (v : version) (pre : string) (taken : list name) (ps : list (name * ty))
  : list (name * ty) :=
  if needs_rename v taken ps then rename_avoid_from v pre 0 taken [] ps else ps.

(* the renaming of a parameter list in version v; [taken] is only looked at by the current tree *)
Definition rename_params (v : version) (pre : string) (taken : list name) (ps : list (name * ty))
  : list (name * ty) :=
  if v_hygiene v then rename_avoid v pre taken ps else rename_blank v pre ps.

Definition rename_sig (v : version) (pre : string) (s : sig) : sig :=
  mkSig (rename_params v pre (names (s_results s)) (s_params s)) (s_results s) (s_variadic s).

(* the name of the derived function's own parameter: UnusedName("f", params, results) *)
Definition fname (v : version) (ps rs : list name) : name :=
  if v_hygiene v then unused_name "f" (ps ++ rs) else "f".

(* split_last l = (l[:len-1], l[len-1]) *)
Fixpoint split_last {A} (l : list A) : option (list A * A) :=
  match l with
  | [] => None
  | [x] => Some ([], x)
  | x :: r => match split_last r with Some (i, l) => Some (x :: i, l) | None => None end
  end.

(* ------------------------------------------------------------------------------------ *)
(* 2. the language of emitted closures                                                   *)

Inductive expr : Type :=
| Var (x : name)
| Call (fn : expr) (args : list name)                 (* fn(a, b, c): arguments are identifiers *)
| Lam (ps rs : list name) (body : stmt)               (* func(ps) (rs) { body } *)
with stmt : Type :=
| SReturn1 (e : expr)                                 (* return e        (e may be multi-valued) *)
| SReturnN (xs : list name)                           (* return v0, v1, ... *)
| SExpr (e : expr).                                   (* e               (a call statement) *)

Inductive val : Type :=
| VBase (z : Z)
| VPrim (shape : list nat) (nres : nat) (acc : list (list val))
| VClo (cenv : list (name * val)) (ps rs : list name) (body : stmt).

Definition env := list (name * val).
Definition event := (nat * list val)%type.     (* (curried level, argument vector) *)

Inductive result (A : Type) : Type :=
| Ok (a : A)
| Ill            (* the emitted text does not compile *)
| Fuel.          (* evaluator ran out of fuel (excluded by every theorem) *)
Arguments Ok {A} a.
Arguments Ill {A}.
Arguments Fuel {A}.

Definition bindable (n : name) : bool := negb (n =s "") && negb (n =s "_").

Fixpoint bind (ps : list name) (vs : list val) (e : env) : env :=
  match ps, vs with
  | p :: ps', v :: vs' => if bindable p then (p, v) :: bind ps' vs' e else bind ps' vs' e
  | _, _ => e
  end.

Fixpoint lookup (e : env) (x : name) : option val :=
  match e with
  | [] => None
  | (n, v) :: r => if n =s x then Some v else lookup r x
  end.

(* `_` cannot be used as a value; the empty name prints nothing (`f(, )`) *)
Definition lookup_var (e : env) (x : name) : option val :=
  if bindable x then lookup e x else None.

Fixpoint lookup_all (e : env) (xs : list name) : option (list val) :=
  match xs with
  | [] => Some []
  | x :: r => match lookup_var e x, lookup_all e r with
              | Some v, Some vs => Some (v :: vs)
              | _, _ => None
              end
  end.

(* a parameter (or result) list is either entirely unnamed or entirely named *)
Definition names_form (l : list name) : bool :=
  forallb (fun n => n =s "") l || forallb (fun n => negb (n =s "")) l.

(* a function type / literal header is accepted: parameters and results share one scope *)
Definition lam_ok (ps rs : list name) : bool :=
  names_form ps && names_form rs && nodupb (filter bindable (ps ++ rs)).

Definition zeros (rs : list name) : list val := map (fun _ => VBase 0) rs.

Section Eval.
(* results of the original function: j-th result from the complete argument vectors *)
Variable res : nat -> list (list val) -> val.

Definition prim_results (nres : nat) (acc : list (list val)) : list val :=
  map (fun j => res j acc) (seq 0 nres).

Fixpoint eval (fuel : nat) (en : env) (e : expr) (log : list event) {struct fuel}
  : result (list val * list event) :=
  match fuel with
  | O => Fuel
  | S fuel' =>
    match e with
    | Var x => match lookup_var en x with Some v => Ok ([v], log) | None => Ill end
    | Lam ps rs body => if lam_ok ps rs then Ok ([VClo en ps rs body], log) else Ill
    | Call fn args =>
        match eval fuel' en fn log with
        | Ok ([v], log1) =>
            match lookup_all en args with
            | Some vs => apply fuel' v vs log1
            | None => Ill
            end
        | Ok _ => Ill
        | Ill => Ill
        | Fuel => Fuel
        end
    end
  end
with apply (fuel : nat) (v : val) (vs : list val) (log : list event) {struct fuel}
  : result (list val * list event) :=
  match fuel with
  | O => Fuel
  | S fuel' =>
    match v with
    | VBase _ => Ill                                  (* cannot call non-function *)
    | VPrim shape nres acc =>
        match shape with
        | [] => Ill
        | k :: more =>
            if length vs =? k then
              let acc' := acc ++ [vs] in
              let log' := log ++ [(length acc, vs)] in
              match more with
              | [] => Ok (prim_results nres acc', log')
              | _ :: _ => Ok ([VPrim more nres acc'], log')
              end
            else Ill
        end
    | VClo cenv ps rs body =>
        if length ps =? length vs then
          let en' := bind ps vs (bind rs (zeros rs) cenv) in
          match body with
          | SReturn1 e =>
              match eval fuel' en' e log with
              | Ok (out, log') =>
                  (* `return g(...)`: g must yield as many values as there are results, and
                     at least one ("(no value) used as value" otherwise) *)
                  if (length out =? length rs) && negb (length out =? 0) then Ok (out, log') else Ill
              | Ill => Ill
              | Fuel => Fuel
              end
          | SReturnN xs =>
              match lookup_all en' xs with
              | Some out => if length out =? length rs then Ok (out, log) else Ill
              | None => Ill
              end
          | SExpr e =>
              match e with
              | Call _ _ =>
                  match eval fuel' en' e log with
                  | Ok (_, log') => if length rs =? 0 then Ok ([], log') else Ill  (* missing return *)
                  | Ill => Ill
                  | Fuel => Fuel
                  end
              | _ => Ill
              end
          end
        else Ill
    end
  end.

(* v(args1)(args2)...: every application but the last must yield exactly one value *)
Fixpoint apply_chain (fuel : nat) (v : val) (argss : list (list val)) (log : list event)
  : result (list val * list event) :=
  match argss with
  | [] => Ok ([v], log)
  | [a] => apply fuel v a log
  | a :: more =>
      match apply fuel v a log with
      | Ok ([v'], log') => apply_chain fuel v' more log'
      | Ok _ => Ill
      | Ill => Ill
      | Fuel => Fuel
      end
  end.

(* a top-level function declaration `func name(ps) (rs) { body }` evaluated to its value *)
Definition decl_value (fuel : nat) (t : expr) : result val :=
  match eval fuel [] t [] with
  | Ok ([v], _) => Ok v
  | Ok _ => Ill
  | Ill => Ill
  | Fuel => Fuel
  end.

(* ---------------------------------------------------------------------------------- *)
(* 3. what each plugin prints                                                          *)

Definition call_stmt (v : version) (rs : list (name * ty)) (e : expr) : stmt :=
  if v_void_stmt v && (length rs =? 0) then SExpr e else SReturn1 e.

(* the printed type of the parameter f (a function *type*: its names share one scope, too) *)
Definition sig_names_ok (s : sig) : bool := lam_ok (names (s_params s)) (names (s_results s)).

(* --- curry: Add renames with "param_", wants >= 2 parameters --- *)
Definition add_curry (v : version) (s : sig) : option sig :=
  if 2 <=? length (s_params s) then Some (rename_sig v "param_" s) else None.

Definition curry_sig (s : sig) : option ((name * ty) * sig) :=    (* currySig *)
  match s_params s with
  | first :: rest => Some (first, mkSig rest (s_results s) (s_variadic s))
  | [] => None
  end.

Definition curry_term_f (fn : name) (v : version) (s : sig) : option expr :=
  match curry_sig s with
  | Some (first, g) =>
      Some (Lam [fn] [""] (SReturn1
             (Lam [fst first] [""] (SReturn1
               (Lam (names (s_params g)) (names (s_results g))
                  (call_stmt v (s_results s) (Call (Var fn) (names (s_params s)))))))))
  | None => None
  end.

Definition sig_fname (v : version) (s : sig) : name :=
  fname v (names (s_params s)) (names (s_results s)).

Definition curry_term (v : version) (s : sig) : option expr := curry_term_f (sig_fname v s) v s.

(* --- flip --- *)
Definition add_flip (v : version) (s : sig) : option sig :=
  if 2 <=? length (s_params s) then Some (rename_sig v "param_" s) else None.

Definition flip_sig (s : sig) : option sig :=                      (* flipSig *)
  match s_params s with
  | a :: b :: r => Some (mkSig (b :: a :: r) (s_results s) (s_variadic s))
  | _ => None
  end.

Definition flip_term_f (fn : name) (v : version) (s : sig) : option expr :=
  match flip_sig s with
  | Some g =>
      Some (Lam [fn] [""] (SReturn1
             (Lam (names (s_params g)) (names (s_results g))
                (call_stmt v (s_results s) (Call (Var fn) (names (s_params s)))))))
  | None => None
  end.

Definition flip_term (v : version) (s : sig) : option expr := flip_term_f (sig_fname v s) v s.

(* --- apply: wants >= 1 parameter; the last parameter's name becomes a parameter of the
       derived function itself --- *)
Definition add_apply (v : version) (s : sig) : option sig :=
  if 1 <=? length (s_params s) then Some (rename_sig v "param_" s) else None.

Definition apply_sig (s : sig) : option ((name * ty) * sig) :=     (* applySig *)
  match split_last (s_params s) with
  | Some (init, l) => Some (l, mkSig init (s_results s) (s_variadic s))
  | None => None
  end.

Definition apply_term_f (fn : name) (v : version) (s : sig) : option expr :=
  match apply_sig s with
  | Some (l, g) =>
      Some (Lam [fn; fst l] [""] (SReturn1
             (Lam (names (s_params g)) (names (s_results g))
                (call_stmt v (s_results s) (Call (Var fn) (names (s_params s)))))))
  | None => None
  end.

Definition apply_term (v : version) (s : sig) : option expr := apply_term_f (sig_fname v s) v s.

(* --- uncurry: f : func(outer) func(inner) results.  Add wants exactly one outer parameter and
       one result of function type, renames inner with "innerParam_" (avoiding the results) and
       outer with "param_" (current tree: also when it clashes with the renamed inner parameters or
       the results; its own result, the function, is part of the taken names as for every
       signature) --- *)
Record csig := mkCsig {
  c_outer : list (name * ty);
  c_rname : name;                      (* name of the (function-typed) result of the outer level *)
  c_inner : list (name * ty);
  c_results : list (name * ty);
  c_variadic : bool }.

Definition add_uncurry (v : version) (c : csig) : option csig :=
  if length (c_outer c) =? 1 then
    let inner := rename_params v "innerParam_" (names (c_results c)) (c_inner c) in
    let outer := rename_params v "param_" (c_rname c :: names inner ++ names (c_results c)) (c_outer c) in
    Some (mkCsig outer (c_rname c) inner (c_results c) (c_variadic c))
  else None.

Definition uncurry_sig (c : csig) : sig :=                          (* uncurrySig *)
  mkSig (c_outer c ++ c_inner c) (c_results c) (c_variadic c).

Definition csig_names_ok (c : csig) : bool :=
  lam_ok (names (c_outer c)) [c_rname c] && lam_ok (names (c_inner c)) (names (c_results c)).

Definition uncurry_term_f (fn : name) (v : version) (c : csig) : expr :=
  let g := uncurry_sig c in
  Lam [fn] [""] (SReturn1
    (Lam (names (s_params g)) (names (s_results g))
       (call_stmt v (c_results c)
          (Call (Call (Var fn) (names (c_outer c))) (names (c_inner c)))))).

Definition uncurry_term (v : version) (c : csig) : expr :=
  uncurry_term_f (sig_fname v (uncurry_sig c)) v c.

(* the curried type produced by Curry, as input of Uncurry *)
Definition csig_of_curry (s : sig) : option csig :=
  match curry_sig s with
  | Some (first, g) => Some (mkCsig [first] "" (s_params g) (s_results g) (s_variadic g))
  | None => None
  end.

(* --- tuple: parameters v0..v(n-1), returns func() (T0, ..) { return v0, .. } --- *)
Definition tuple_vars (n : nat) : list name := map (fun i => String.append "v" (itoa i)) (seq 0 n).
Definition tuple_term (n : nat) : expr :=
  Lam (tuple_vars n) [""] (SReturn1 (Lam [] (repeat "" n) (SReturnN (tuple_vars n)))).

(* ---------------------------------------------------------------------------------- *)
(* running a derived wrapper on an original function F and argument values             *)

Definition FUEL : nat := 12.

Inductive run_result : Type :=
| RGenErr                                         (* goderive reports an error (Add) *)
| RIll                                            (* goderive exits 0, output does not compile *)
| RFuel
| ROk (out : list val) (log : list event).

Definition of_result (r : result (list val * list event)) : run_result :=
  match r with Ok (o, l) => ROk o l | Ill => RIll | Fuel => RFuel end.

Definition run_term (fuel : nat) (t : expr) (argss : list (list val)) : run_result :=
  match decl_value fuel t with
  | Ok w => of_result (apply_chain fuel w argss [])
  | Ill => RIll
  | Fuel => RFuel
  end.

(* variadic signatures: the plugins print `f(a, b)` for `b ...T`, which does not type-check;
   the property excludes them *)
Definition run_curry (v : version) (fuel : nat) (s0 : sig) (F : val) (args : list val) : run_result :=
  match add_curry v s0 with
  | None => RGenErr
  | Some s =>
      match curry_term v s, args with
      | Some t, a1 :: rest =>
          if s_variadic s || negb (sig_names_ok s) then RIll
          else run_term fuel t [[F]; [a1]; rest]
      | _, _ => RIll
      end
  end.

Definition run_flip (v : version) (fuel : nat) (s0 : sig) (F : val) (args : list val) : run_result :=
  match add_flip v s0 with
  | None => RGenErr
  | Some s =>
      match flip_term v s with
      | Some t =>
          if s_variadic s || negb (sig_names_ok s) then RIll
          else run_term fuel t [[F]; args]
      | None => RIll
      end
  end.

(* args = the arguments of the returned function followed by the pre-bound value *)
Definition run_apply (v : version) (fuel : nat) (s0 : sig) (F : val) (args : list val) : run_result :=
  match add_apply v s0 with
  | None => RGenErr
  | Some s =>
      match apply_term v s, split_last args with
      | Some t, Some (init, bound) =>
          if s_variadic s || negb (sig_names_ok s) then RIll
          else run_term fuel t [[F; bound]; init]
      | _, _ => RIll
      end
  end.

Definition run_uncurry (v : version) (fuel : nat) (c0 : csig) (F : val) (args : list val) : run_result :=
  match add_uncurry v c0 with
  | None => RGenErr
  | Some c =>
      if c_variadic c || negb (csig_names_ok c) then RIll
      else run_term fuel (uncurry_term v c) [[F]; args]
  end.

(* Uncurry(Curry(F)) *)
Definition run_roundtrip (v : version) (fuel : nat) (s0 : sig) (F : val) (args : list val) : run_result :=
  match add_curry v s0 with
  | None => RGenErr
  | Some s =>
      match curry_term v s, csig_of_curry s with
      | Some t, Some c0 =>
          if s_variadic s || negb (sig_names_ok s) then RIll else
          match decl_value fuel t with
          | Ok w =>
              match apply fuel w [F] [] with
              | Ok ([curried], _) => run_uncurry v fuel c0 curried args
              | Ok _ => RIll
              | Ill => RIll
              | Fuel => RFuel
              end
          | Ill => RIll
          | Fuel => RFuel
          end
      | _, _ => RIll
      end
  end.

Definition run_tuple (fuel : nat) (args : list val) : run_result :=
  match args with
  | [] => RGenErr                                  (* "has zero arguments" *)
  | _ => run_term fuel (tuple_term (length args)) [args; []]
  end.

End Eval.

(* the original functions handed to the wrappers *)
Definition prim_flat (s : sig) : val := VPrim [length (s_params s)] (length (s_results s)) [].
Definition prim_curried (c : csig) : val :=
  VPrim [length (c_outer c); length (c_inner c)] (length (c_results c)) [].

(* ------------------------------------------------------------------------------------ *)
(* the guard of the theorems, as a boolean (also used by the evaluator)                  *)

(* what the closure nests need of the names they are printed with: [fn] is the wrapper's own
   parameter, [ps] all parameter names of all levels and [rs] the result names, after renaming.
   It is a lemma about the current tree (Proofs.flat_guard, Proofs.uncurry_guard), not a
   hypothesis of the property theorems *)
Definition guardf (fn : name) (ps rs : list name) : bool :=
  bindable fn && negb (memb fn ps) && negb (memb fn rs)
  && forallb bindable ps && names_form rs && nodupb (ps ++ filter bindable rs).

(* the hypothesis of the property theorems: the signature is one Go accepts.  Results are either
   all named or all unnamed; the names that can be referred to are pairwise distinct among the
   parameters and among the results (Go demands more: also between the two) *)
Definition src_ok (ps rs : list name) : bool :=
  names_form rs && nodupb (filter bindable ps) && nodupb (filter bindable rs).
