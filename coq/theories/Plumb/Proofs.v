(* Plumb/Proofs.v — C15: the emitted closure nests only re-plumb arguments (proofs). *)
From Coq Require Import String Ascii List Bool Arith Lia ZArith DecimalString DecimalNat Permutation.
From Verif Require Import Plumb.Model.
Import ListNotations.
Open Scope string_scope.
Open Scope nat_scope.
Open Scope list_scope.

Local Arguments String.eqb : simpl nomatch.

(* ---------- boolean list predicates ---------- *)
Lemma memb_In x l : memb x l = true <-> In x l.
Proof.
  induction l as [|y r IH]; cbn; [split; [discriminate|tauto]|].
  rewrite orb_true_iff, IH, String.eqb_eq. split; intros [H|H]; auto.
Qed.

Lemma memb_false x l : memb x l = false <-> ~ In x l.
Proof. rewrite <- memb_In. destruct (memb x l); split; congruence. Qed.

Lemma nodupb_NoDup l : nodupb l = true <-> NoDup l.
Proof.
  induction l as [|x r IH]; cbn; [split; [constructor|reflexivity]|].
  rewrite andb_true_iff, negb_true_iff, memb_false, IH, NoDup_cons_iff. tauto.
Qed.

Lemma NoDup_app_l {A} (l l' : list A) : NoDup (l ++ l') -> NoDup l.
Proof.
  induction l as [|x l IH]; cbn; intros H; [constructor|].
  inversion H; subst. constructor; [|auto]. intros Hi. apply H2, in_or_app. left. exact Hi.
Qed.

Lemma NoDup_app_r {A} (l l' : list A) : NoDup (l ++ l') -> NoDup l'.
Proof. induction l as [|x l IH]; cbn; intros H; [exact H|]. inversion H; auto. Qed.

Lemma filter_all {A} (p : A -> bool) l : forallb p l = true -> filter p l = l.
Proof.
  induction l as [|x r IH]; cbn; [reflexivity|].
  rewrite andb_true_iff; intros [Hx Hr]. rewrite Hx, IH by assumption. reflexivity.
Qed.

Lemma bindable_nonempty l : forallb bindable l = true -> forallb (fun n => negb (n =s "")) l = true.
Proof.
  rewrite !forallb_forall. intros H x Hx. specialize (H x Hx). unfold bindable in H.
  rewrite andb_true_iff in H. tauto.
Qed.

Lemma names_form_bindable l : forallb bindable l = true -> names_form l = true.
Proof. intros H. unfold names_form. rewrite (bindable_nonempty l H). apply orb_true_r. Qed.

(* a header whose parameters are good names, distinct from each other and from the named results *)
Lemma lam_ok_good ps rs :
  forallb bindable ps = true -> names_form rs = true -> NoDup (ps ++ filter bindable rs) ->
  lam_ok ps rs = true.
Proof.
  intros Hp Hr Hn. unfold lam_ok. rewrite names_form_bindable, Hr by assumption. cbn.
  rewrite filter_app, (filter_all _ _ Hp). apply nodupb_NoDup, Hn.
Qed.

(* ---------- environments ---------- *)
Lemma lookup_bind_skip x ps vs e : ~ In x ps -> lookup (bind ps vs e) x = lookup e x.
Proof.
  revert vs; induction ps as [|p ps IH]; intros vs Hx; [reflexivity|].
  destruct vs as [|v vs]; [reflexivity|]. cbn.
  assert (p <> x) by (intros ->; apply Hx; left; reflexivity).
  assert (~ In x ps) by (intros Hi; apply Hx; right; exact Hi).
  destruct (bindable p); cbn; [|auto].
  apply String.eqb_neq in H. rewrite H. auto.
Qed.

Lemma lookup_var_bind_skip x ps vs e : ~ In x ps -> lookup_var (bind ps vs e) x = lookup_var e x.
Proof. intros H. unfold lookup_var. rewrite lookup_bind_skip by assumption. reflexivity. Qed.

Lemma lookup_all_bind_skip xs ps vs e :
  (forall x, In x xs -> ~ In x ps) -> lookup_all (bind ps vs e) xs = lookup_all e xs.
Proof.
  induction xs as [|x xs IH]; intros H; [reflexivity|]. cbn.
  rewrite lookup_var_bind_skip by (apply H; left; reflexivity).
  rewrite IH by (intros y Hy; apply H; right; exact Hy). reflexivity.
Qed.

Lemma lookup_all_cons_skip xs p v e :
  ~ In p xs -> lookup_all ((p, v) :: e) xs = lookup_all e xs.
Proof.
  induction xs as [|x xs IH]; intros H; [reflexivity|]. cbn.
  assert (p <> x) by (intros ->; apply H; left; reflexivity).
  apply String.eqb_neq in H0.
  assert (E : lookup_var ((p, v) :: e) x = lookup_var e x)
    by (unfold lookup_var; cbn; rewrite H0; reflexivity).
  rewrite E, IH by (intros Hi; apply H; right; exact Hi). reflexivity.
Qed.

Lemma lookup_all_bind ps vs e :
  forallb bindable ps = true -> NoDup ps -> length ps = length vs ->
  lookup_all (bind ps vs e) ps = Some vs.
Proof.
  revert vs; induction ps as [|p ps IH]; intros [|v vs] Hb Hn Hl; try discriminate; [reflexivity|].
  cbn in Hb. apply andb_true_iff in Hb as [Hp Hb]. inversion Hn as [|? ? Hnotin Hn']; subst.
  cbn [bind]. rewrite Hp. cbn [lookup_all]. unfold lookup_var at 1. rewrite Hp. cbn [lookup].
  rewrite String.eqb_refl.
  rewrite lookup_all_cons_skip by assumption.
  rewrite IH; auto.
Qed.

Lemma lookup_all_app e xs ys :
  lookup_all e (xs ++ ys) =
  match lookup_all e xs, lookup_all e ys with
  | Some a, Some b => Some (a ++ b)
  | _, _ => None
  end.
Proof.
  induction xs as [|x xs IH]; cbn.
  - destruct (lookup_all e ys); reflexivity.
  - rewrite IH. destruct (lookup_var e x); [|reflexivity].
    destruct (lookup_all e xs); [|reflexivity]. destruct (lookup_all e ys); reflexivity.
Qed.

Lemma prim_results_length res n acc : length (prim_results res n acc) = n.
Proof. unfold prim_results. rewrite map_length, seq_length. reflexivity. Qed.

(* ---------- the guard, taken apart ---------- *)
Lemma guardf_spec fn ps rs :
  guardf fn ps rs = true ->
  bindable fn = true /\ ~ In fn ps /\ ~ In fn rs /\ forallb bindable ps = true
  /\ names_form rs = true /\ NoDup (ps ++ filter bindable rs).
Proof.
  unfold guardf. rewrite !andb_true_iff, !negb_true_iff, !memb_false, nodupb_NoDup. tauto.
Qed.

Lemma not_in_filter {A} (p : A -> bool) x l : ~ In x l -> ~ In x (filter p l).
Proof. intros H Hi. apply filter_In in Hi. tauto. Qed.

Lemma NoDup_app_intro {A} (a b : list A) :
  NoDup a -> NoDup b -> (forall x, In x a -> ~ In x b) -> NoDup (a ++ b).
Proof.
  induction a as [|x a IH]; cbn; intros Ha Hb Hd; [exact Hb|].
  inversion Ha as [|? ? Hx Ha']; subst. constructor.
  - intros Hi. apply in_app_or in Hi as [Hi|Hi]; [exact (Hx Hi)|]. apply (Hd x); [left; reflexivity|exact Hi].
  - apply IH; [assumption|assumption|]. intros y Hy. apply Hd. right. exact Hy.
Qed.

(* ---------- strings: derive.UnusedName ---------- *)
Fixpoint us (k : nat) : string := match k with O => "" | S k' => String "_" (us k') end.

Lemma append_assoc a b c :
  String.append (String.append a b) c = String.append a (String.append b c).
Proof. induction a as [|x a IH]; cbn; [reflexivity|]. rewrite IH. reflexivity. Qed.

Lemma append_nil_r a : String.append a "" = a.
Proof. induction a as [|x a IH]; cbn; [reflexivity|]. rewrite IH. reflexivity. Qed.

Lemma length_append a b : String.length (String.append a b) = String.length a + String.length b.
Proof. induction a as [|x a IH]; cbn; [reflexivity|]. rewrite IH. reflexivity. Qed.

Lemma us_length k : String.length (us k) = k.
Proof. induction k as [|k IH]; cbn; [reflexivity|]. rewrite IH. reflexivity. Qed.

(* the loop only ever appends underscores *)
Lemma unused_from_shape fuel n taken : exists k, unused_from fuel n taken = String.append n (us k).
Proof.
  revert n; induction fuel as [|fuel IH]; intros n; cbn [unused_from].
  - exists 0. cbn. rewrite append_nil_r. reflexivity.
  - destruct (memb n taken).
    + destruct (IH (String.append n "_")) as [k E]. exists (S k). rewrite E, append_assoc. reflexivity.
    + exists 0. cbn. rewrite append_nil_r. reflexivity.
Qed.

(* if the loop stops on a taken name when the fuel is gone, every candidate it tried is taken *)
Lemma unused_from_in fuel n taken :
  In (unused_from fuel n taken) taken ->
  forall i, i <= fuel -> In (String.append n (us i)) taken.
Proof.
  revert n; induction fuel as [|fuel IH]; intros n H i Hi; cbn [unused_from] in H.
  - replace i with 0 by lia. cbn. rewrite append_nil_r. exact H.
  - destruct (memb n taken) eqn:E.
    + destruct i as [|i].
      * cbn. rewrite append_nil_r. apply memb_In. exact E.
      * specialize (IH _ H i ltac:(lia)). rewrite append_assoc in IH. exact IH.
    + exfalso. apply memb_false in E. exact (E H).
Qed.

(* ... and length taken + 1 distinct candidates do not fit into taken: the fuel never runs out *)
Theorem unused_name_fresh n taken : ~ In (unused_name n taken) taken.
Proof.
  unfold unused_name. intros H. pose proof (unused_from_in _ _ _ H) as Hall. unfold name in *.
  set (cands := map (fun i => String.append n (us i)) (seq 0 (S (length taken)))).
  assert (Hnd : NoDup cands).
  { apply FinFun.Injective_map_NoDup; [|apply seq_NoDup].
    intros i j E. apply (f_equal String.length) in E. rewrite !length_append, !us_length in E. lia. }
  assert (Hincl : incl cands taken).
  { intros x Hx. apply in_map_iff in Hx as (i & <- & Hi). apply in_seq in Hi. apply Hall. lia. }
  pose proof (NoDup_incl_length Hnd Hincl) as Hlen.
  unfold cands in Hlen. rewrite map_length, seq_length in Hlen. lia.
Qed.

Lemma bindable_cons c s : c <> "_"%char -> bindable (String c s) = true.
Proof.
  intros Hc. unfold bindable.
  destruct (String.eqb_spec (String c s) "") as [E|_]; [discriminate|].
  destruct (String.eqb_spec (String c s) "_") as [E|_]; [|reflexivity].
  injection E as E _. contradiction.
Qed.

Lemma prefix_append p s : prefix p (String.append p s) = true.
Proof.
  induction p as [|a p IH]; cbn; [destruct s; reflexivity|].
  destruct (ascii_dec a a); [exact IH|congruence].
Qed.

(* a name made up from a prefix: carries the prefix, can be referred to, is not taken *)
Lemma made_up c pre' i l :
  c <> "_"%char ->
  let x := unused_name (String.append (String c pre') (itoa i)) l in
  prefix (String c pre') x = true /\ bindable x = true /\ ~ In x l.
Proof.
  intros Hc x. split; [|split]; [| |apply unused_name_fresh].
  - subst x. unfold unused_name.
    destruct (unused_from_shape (length l) (String.append (String c pre') (itoa i)) l) as [k E].
    rewrite E, append_assoc. apply prefix_append.
  - subst x. unfold unused_name.
    destruct (unused_from_shape (length l) (String.append (String c pre') (itoa i)) l) as [k E].
    rewrite E. cbn [String.append]. apply bindable_cons, Hc.
Qed.

(* the wrapper's own parameter in the current tree *)
Lemma fname_fresh ps rs :
  let fn := fname hygienic ps rs in bindable fn = true /\ ~ In fn ps /\ ~ In fn rs.
Proof.
  cbn [fname hygienic v_hygiene]. cbv zeta.
  pose proof (unused_name_fresh "f" (ps ++ rs)) as Hn.
  split; [|split].
  - unfold unused_name. destruct (unused_from_shape (length (ps ++ rs)) "f" (ps ++ rs)) as [k E].
    rewrite E. cbn [String.append]. apply bindable_cons. discriminate.
  - intros Hi. apply Hn, in_or_app. left. exact Hi.
  - intros Hi. apply Hn, in_or_app. right. exact Hi.
Qed.

(* ---------- evaluation steps shared by the four plugins ---------- *)
Section Steps.
Variable res : nat -> list (list val) -> val.

(* one-step unfolding equations of the mutual evaluator (cbn would expose the raw fixpoint) *)
Lemma eval_S k en e log :
  eval res (S k) en e log =
  match e with
  | Var x => match lookup_var en x with Some v => Ok ([v], log) | None => Ill end
  | Lam ps rs body => if lam_ok ps rs then Ok ([VClo en ps rs body], log) else Ill
  | Call fn args =>
      match eval res k en fn log with
      | Ok ([v], log1) =>
          match lookup_all en args with
          | Some vs => apply res k v vs log1
          | None => Ill
          end
      | Ok _ => Ill
      | Ill => Ill
      | Fuel => Fuel
      end
  end.
Proof. reflexivity. Qed.

Lemma apply_S k v vs log :
  apply res (S k) v vs log =
  match v with
  | VBase _ => Ill
  | VPrim shape nres acc =>
      match shape with
      | [] => Ill
      | n :: more =>
          if length vs =? n then
            match more with
            | [] => Ok (prim_results res nres (acc ++ [vs]), log ++ [(length acc, vs)])
            | _ :: _ => Ok ([VPrim more nres (acc ++ [vs])], log ++ [(length acc, vs)])
            end
          else Ill
      end
  | VClo cenv ps rs body =>
      if length ps =? length vs then
        let en' := bind ps vs (bind rs (zeros rs) cenv) in
        match body with
        | SReturn1 e =>
            match eval res k en' e log with
            | Ok (out, log') =>
                if (length out =? length rs) && negb (length out =? 0) then Ok (out, log') else Ill
            | Ill => Ill
            | Fuel => Fuel
            end
        | SReturnN xs =>
            match lookup_all en' xs with
            | Some out => if length out =? length rs then Ok (out, log) else Ill
            | None => Ill
            end
        | SExpr e =>
            match e with
            | Call _ _ =>
                match eval res k en' e log with
                | Ok (_, log') => if length rs =? 0 then Ok ([], log') else Ill
                | Ill => Ill
                | Fuel => Fuel
                end
            | _ => Ill
            end
        end
      else Ill
  end.
Proof. reflexivity. Qed.

Local Arguments eval : simpl never.
Local Arguments apply : simpl never.

(* fn(names) where fn is bound to the flat original function *)
Lemma call_f_flat k en fn xs args n nres log :
  lookup_var en fn = Some (VPrim [n] nres []) ->
  lookup_all en xs = Some args -> length args = n ->
  eval res (3 + k) en (Call (Var fn) xs) log
  = Ok (prim_results res nres [args], log ++ [(0, args)]).
Proof.
  intros Hf Hx Hl. cbn [Nat.add]. rewrite eval_S, eval_S, Hf, Hx, apply_S.
  rewrite Hl, Nat.eqb_refl. reflexivity.
Qed.

(* fn(xs)(ys) where fn is bound to the curried original function *)
Lemma call_f_curried k en fn xs ys a b n m nres log :
  lookup_var en fn = Some (VPrim [n; m] nres []) ->
  lookup_all en xs = Some a -> lookup_all en ys = Some b -> length a = n -> length b = m ->
  eval res (4 + k) en (Call (Call (Var fn) xs) ys) log
  = Ok (prim_results res nres [a; b], (log ++ [(0, a)]) ++ [(1, b)]).
Proof.
  intros Hf Hx Hy Hn Hm. cbn [Nat.add]. rewrite eval_S, eval_S, eval_S, Hf, Hx, apply_S.
  rewrite Hn, Nat.eqb_refl, Hy, apply_S, Hm, Nat.eqb_refl. reflexivity.
Qed.

(* applying a closure whose body is the call statement the plugins print since the no-result fix *)
Lemma apply_clo_stmt v k cenv ps (results : list (name * ty)) fn xs vs log out log' :
  v_void_stmt v = true ->
  length ps = length vs ->
  eval res k (bind ps vs (bind (names results) (zeros (names results)) cenv)) (Call fn xs) log
    = Ok (out, log') ->
  length out = length results ->
  apply res (S k) (VClo cenv ps (names results) (call_stmt v results (Call fn xs))) vs log
    = Ok (out, log').
Proof.
  intros Hv Hl He Ho. rewrite apply_S, Hl, Nat.eqb_refl.
  unfold call_stmt. rewrite Hv. cbn [andb].
  assert (Hn : length (names results) = length results) by (unfold names; apply map_length).
  destruct (length results =? 0) eqn:E; cbv zeta.
  - rewrite He, Hn, E. apply Nat.eqb_eq in E. rewrite E in Ho. destruct out; [reflexivity|discriminate].
  - rewrite He, Hn, Ho, Nat.eqb_refl, E. reflexivity.
Qed.

(* applying a closure whose body returns a function literal *)
Lemma apply_clo_lam k cenv ps vs ps2 rs2 body2 log :
  length ps = length vs -> lam_ok ps2 rs2 = true ->
  apply res (2 + k) (VClo cenv ps [""] (SReturn1 (Lam ps2 rs2 body2))) vs log
  = Ok ([VClo (bind ps vs cenv) ps2 rs2 body2], log).
Proof.
  intros Hl Hok. cbn [Nat.add]. rewrite apply_S, Hl, Nat.eqb_refl. cbv zeta.
  rewrite eval_S, Hok. reflexivity.
Qed.

Lemma decl_value_lam k ps rs body :
  lam_ok ps rs = true -> decl_value res (S k) (Lam ps rs body) = Ok (VClo [] ps rs body).
Proof. intros H. unfold decl_value. rewrite eval_S, H. reflexivity. Qed.

Lemma lam_ok_single n : lam_ok [n] [""] = true.
Proof.
  unfold lam_ok, names_form. cbn. destruct (n =s ""); cbn; destruct (bindable n); reflexivity.
Qed.

Lemma in_names_results n rs : bindable n = true -> In n rs -> In n (filter bindable rs).
Proof. intros Hb Hi. apply filter_In. split; assumption. Qed.

Lemma eqb_false_of_neq a b : a <> b -> (a =s b) = false.
Proof. intros H. apply String.eqb_neq. exact H. Qed.

(* ---------- curry ---------- *)
Lemma curry_core v fn k (s : sig) p1 ps a1 rest t :
  v_void_stmt v = true ->
  s_params s = p1 :: ps ->
  guardf fn (names (s_params s)) (names (s_results s)) = true ->
  length rest = length ps ->
  curry_term_f fn v s = Some t ->
  run_term res (FUEL + k) t [[prim_flat s]; [a1]; rest]
  = ROk (prim_results res (length (s_results s)) [a1 :: rest]) [(0, a1 :: rest)].
Proof.
  intros Hv Hp Hg Hl Ht.
  unfold curry_term_f, curry_sig in Ht. rewrite Hp in Ht. injection Ht as <-. cbn [fst s_params s_results].
  apply guardf_spec in Hg as (Hbf & Hfp & Hf & Hbind & Hform & Hnd).
  rewrite Hp in Hfp, Hbind, Hnd. destruct p1 as [n1 t1]. cbn [names map fst] in Hfp, Hbind, Hnd |- *.
  change (map fst ps) with (names ps) in *. change (map fst (s_results s)) with (names (s_results s)) in *.
  cbn [forallb] in Hbind. apply andb_true_iff in Hbind as [Hb1 Hbps].
  cbn [app] in Hnd. apply NoDup_cons_iff in Hnd as [Hn1 Hnd].
  assert (Hn1ps : ~ In n1 (names ps)) by (intros Hi; apply Hn1, in_or_app; left; exact Hi).
  assert (Hn1rs : ~ In n1 (names (s_results s)))
    by (intros Hi; apply Hn1, in_or_app; right; apply in_names_results; assumption).
  assert (Hfps : ~ In fn (names ps)) by (intros Hi; apply Hfp; right; exact Hi).
  assert (Hn1f : (n1 =s fn) = false) by (apply eqb_false_of_neq; intros ->; apply Hfp; left; reflexivity).
  assert (Hlen : length (names ps) = length rest) by (unfold names; rewrite map_length; symmetry; exact Hl).
  assert (Hok : lam_ok (names ps) (names (s_results s)) = true) by (apply lam_ok_good; assumption).
  unfold run_term. change (FUEL + k) with (S (11 + k)) at 1.
  rewrite decl_value_lam by apply lam_ok_single.
  cbn [apply_chain].
  change (FUEL + k) with (2 + (10 + k)).
  rewrite apply_clo_lam by (try reflexivity; apply lam_ok_single).
  rewrite apply_clo_lam by (try reflexivity; exact Hok).
  cbn [bind]. rewrite Hb1, Hbf.
  change (2 + (10 + k)) with (S (3 + (8 + k))).
  erewrite apply_clo_stmt; [reflexivity|exact Hv|exact Hlen| |].
  - unfold prim_flat.
    eapply call_f_flat.
    + rewrite lookup_var_bind_skip by exact Hfps.
      rewrite lookup_var_bind_skip by exact Hf.
      unfold lookup_var. rewrite Hbf. cbn [lookup]. rewrite Hn1f, String.eqb_refl. reflexivity.
    + cbn [lookup_all].
      rewrite lookup_var_bind_skip by exact Hn1ps.
      rewrite lookup_var_bind_skip by exact Hn1rs.
      unfold lookup_var at 1. rewrite Hb1. cbn [lookup]. rewrite String.eqb_refl.
      rewrite lookup_all_bind; [reflexivity|assumption| |exact Hlen].
      apply NoDup_app_l in Hnd. exact Hnd.
    + cbn. rewrite Hp. cbn. f_equal. exact Hl.
  - apply prim_results_length.
Qed.

(* ---------- flip ---------- *)
Lemma flip_core v fn k (s : sig) p1 p2 ps x1 x2 xs t :
  v_void_stmt v = true ->
  s_params s = p1 :: p2 :: ps ->
  guardf fn (names (s_params s)) (names (s_results s)) = true ->
  length xs = length ps ->
  flip_term_f fn v s = Some t ->
  run_term res (FUEL + k) t [[prim_flat s]; x1 :: x2 :: xs]
  = ROk (prim_results res (length (s_results s)) [x2 :: x1 :: xs]) [(0, x2 :: x1 :: xs)].
Proof.
  intros Hv Hp Hg Hl Ht.
  unfold flip_term_f, flip_sig in Ht. rewrite Hp in Ht. injection Ht as <-. cbn [s_params s_results].
  apply guardf_spec in Hg as (Hbf & Hfp & Hf & Hbind & Hform & Hnd).
  rewrite Hp in Hfp, Hbind, Hnd. destruct p1 as [n1 t1], p2 as [n2 t2].
  cbn [names map fst] in Hfp, Hbind, Hnd |- *.
  change (map fst ps) with (names ps) in *. change (map fst (s_results s)) with (names (s_results s)) in *.
  cbn [forallb] in Hbind. apply andb_true_iff in Hbind as [Hb1 Hbind].
  apply andb_true_iff in Hbind as [Hb2 Hbps].
  assert (Hnd' : NoDup ((n2 :: n1 :: names ps) ++ filter bindable (names (s_results s)))).
  { eapply Permutation_NoDup; [|exact Hnd]. cbn [app]. apply perm_swap. }
  cbn [app] in Hnd. apply NoDup_cons_iff in Hnd as [Hn1 Hnd]. apply NoDup_cons_iff in Hnd as [Hn2 Hnd].
  assert (H12 : n1 <> n2) by (intros ->; apply Hn1; left; reflexivity).
  assert (Hn1ps : ~ In n1 (names ps)) by (intros Hi; apply Hn1; right; apply in_or_app; left; exact Hi).
  assert (Hn2ps : ~ In n2 (names ps)) by (intros Hi; apply Hn2, in_or_app; left; exact Hi).
  assert (Hfps : ~ In fn (names ps)) by (intros Hi; apply Hfp; right; right; exact Hi).
  assert (Hn1f : (n1 =s fn) = false) by (apply eqb_false_of_neq; intros ->; apply Hfp; left; reflexivity).
  assert (Hn2f : (n2 =s fn) = false) by (apply eqb_false_of_neq; intros ->; apply Hfp; right; left; reflexivity).
  assert (Hlen : length (names ps) = length xs) by (unfold names; rewrite map_length; symmetry; exact Hl).
  assert (Hok : lam_ok (n2 :: n1 :: names ps) (names (s_results s)) = true).
  { apply lam_ok_good; [|assumption|assumption]. cbn [forallb]. rewrite Hb1, Hb2. exact Hbps. }
  unfold run_term. change (FUEL + k) with (S (11 + k)) at 1.
  rewrite decl_value_lam by apply lam_ok_single.
  cbn [apply_chain].
  change (FUEL + k) with (2 + (10 + k)).
  rewrite apply_clo_lam by (try reflexivity; exact Hok).
  cbn [bind]. rewrite Hbf.
  change (2 + (10 + k)) with (S (3 + (8 + k))).
  erewrite apply_clo_stmt; [reflexivity|exact Hv|cbn [length]; rewrite Hlen; reflexivity| |].
  - unfold prim_flat. cbn [bind]. rewrite Hb1, Hb2.
    assert (E21 : (n2 =s n1) = false) by (apply eqb_false_of_neq; congruence).
    eapply call_f_flat.
    + unfold lookup_var. rewrite Hbf. cbn [lookup]. rewrite Hn1f, Hn2f.
      rewrite lookup_bind_skip by exact Hfps. rewrite lookup_bind_skip by exact Hf.
      cbn [lookup]. rewrite String.eqb_refl. reflexivity.
    + cbn [lookup_all]. unfold lookup_var at 1 2. rewrite Hb1, Hb2. cbn [lookup].
      rewrite E21, !String.eqb_refl.
      rewrite !lookup_all_cons_skip by assumption.
      rewrite lookup_all_bind; [reflexivity|assumption| |exact Hlen].
      apply NoDup_app_l in Hnd. exact Hnd.
    + cbn. rewrite Hp. cbn. do 2 f_equal. exact Hl.
  - apply prim_results_length.
Qed.

(* ---------- apply ---------- *)
Lemma lam_ok_f_last fn nl : bindable fn = true -> bindable nl = true -> fn <> nl -> lam_ok [fn; nl] [""] = true.
Proof.
  intros Hbf Hbl Hne. apply lam_ok_good.
  - cbn [forallb]. rewrite Hbf, Hbl. reflexivity.
  - reflexivity.
  - cbn. constructor; [intros [H|[]]; congruence|]. constructor; [intros []|constructor].
Qed.

Lemma apply_core v fn k (s : sig) init nl tl vs bound t :
  v_void_stmt v = true ->
  s_params s = init ++ [(nl, tl)] ->
  guardf fn (names (s_params s)) (names (s_results s)) = true ->
  length vs = length init ->
  apply_term_f fn v s = Some t ->
  run_term res (FUEL + k) t [[prim_flat s; bound]; vs]
  = ROk (prim_results res (length (s_results s)) [vs ++ [bound]]) [(0, vs ++ [bound])].
Proof.
  intros Hv Hp Hg Hl Ht.
  apply guardf_spec in Hg as (Hbf & Hfp & Hf & Hbind & Hform & Hnd). rewrite Hp in Hfp, Hbind, Hnd.
  unfold names in Hfp, Hbind, Hnd. rewrite map_app in Hfp, Hbind, Hnd. cbn [map fst] in Hfp, Hbind, Hnd.
  change (map fst init) with (names init) in *. change (map fst (s_results s)) with (names (s_results s)) in *.
  rewrite forallb_app in Hbind. apply andb_true_iff in Hbind as [Hbi Hbl].
  cbn [forallb] in Hbl. rewrite andb_true_r in Hbl.
  rewrite <- app_assoc in Hnd.
  assert (Hnli : ~ In nl (names init)).
  { intros Hi. apply in_split in Hi as (l1 & l2 & E).
    rewrite E in Hnd. rewrite <- app_assoc in Hnd. apply NoDup_app_r in Hnd. cbn [app] in Hnd.
    apply NoDup_cons_iff in Hnd as [Hx _]. apply Hx, in_or_app. right. left. reflexivity. }
  assert (Hnlr : ~ In nl (names (s_results s))).
  { intros Hi. apply NoDup_app_r in Hnd. cbn [app] in Hnd. apply NoDup_cons_iff in Hnd as [Hx _].
    apply Hx, in_names_results; assumption. }
  assert (Hndi : NoDup (names init ++ filter bindable (names (s_results s)))).
  { clear - Hnd. induction (names init) as [|x l IH]; cbn [app] in *.
    - apply NoDup_cons_iff in Hnd. tauto.
    - apply NoDup_cons_iff in Hnd as [Hx Hnd]. constructor; [|auto].
      intros Hi. apply Hx. apply in_app_or in Hi as [Hi|Hi]; apply in_or_app; [left; exact Hi|].
      right. right. exact Hi. }
  assert (Hfi : ~ In fn (names init)) by (intros Hi; apply Hfp, in_or_app; left; exact Hi).
  assert (Hfl : fn <> nl) by (intros ->; apply Hfp, in_or_app; right; left; reflexivity).
  assert (Hlen : length (names init) = length vs) by (unfold names; rewrite map_length; symmetry; exact Hl).
  assert (Hok : lam_ok (names init) (names (s_results s)) = true) by (apply lam_ok_good; assumption).
  assert (Hsl : split_last (s_params s) = Some (init, (nl, tl))).
  { rewrite Hp. clear. induction init as [|x l IH]; [reflexivity|]. cbn [app split_last].
    rewrite IH. destruct (l ++ [(nl, tl)]) eqn:E; [destruct l; discriminate|reflexivity]. }
  unfold apply_term_f, apply_sig in Ht. rewrite Hsl in Ht. injection Ht as <-. cbn [fst s_params s_results].
  unfold run_term. change (FUEL + k) with (S (11 + k)) at 1.
  rewrite decl_value_lam by (apply lam_ok_f_last; assumption).
  cbn [apply_chain].
  change (FUEL + k) with (2 + (10 + k)).
  rewrite apply_clo_lam by (try reflexivity; exact Hok).
  cbn [bind]. rewrite Hbf, Hbl.
  change (2 + (10 + k)) with (S (3 + (8 + k))).
  erewrite apply_clo_stmt; [reflexivity|exact Hv|exact Hlen| |].
  - unfold prim_flat. rewrite Hp at 2. unfold names at 4. rewrite map_app. cbn [map fst].
    change (map fst init) with (names init).
    eapply call_f_flat.
    + rewrite lookup_var_bind_skip by exact Hfi. rewrite lookup_var_bind_skip by exact Hf.
      unfold lookup_var. rewrite Hbf. cbn [lookup]. rewrite String.eqb_refl. reflexivity.
    + rewrite lookup_all_app.
      rewrite lookup_all_bind; [|assumption|apply NoDup_app_l in Hndi; exact Hndi|exact Hlen].
      cbn [lookup_all].
      rewrite lookup_var_bind_skip by exact Hnli. rewrite lookup_var_bind_skip by exact Hnlr.
      unfold lookup_var. rewrite Hbl. cbn [lookup].
      rewrite (eqb_false_of_neq _ _ Hfl), String.eqb_refl. reflexivity.
    + rewrite Hp, !app_length, Hl. reflexivity.
  - apply prim_results_length.
Qed.

(* ---------- uncurry ---------- *)
Lemma lookup_all_length e xs vs : lookup_all e xs = Some vs -> length vs = length xs.
Proof.
  revert vs; induction xs as [|x xs IH]; cbn; intros vs H.
  - injection H as <-. reflexivity.
  - destruct (lookup_var e x); [|discriminate]. destruct (lookup_all e xs); [|discriminate].
    injection H as <-. cbn. f_equal. apply IH. reflexivity.
Qed.

Lemma app_eq_length {A} (a a' b b' : list A) :
  length a = length a' -> a ++ b = a' ++ b' -> a = a' /\ b = b'.
Proof.
  revert a'; induction a as [|x a IH]; intros [|y a'] Hl H; try discriminate; [auto|].
  cbn in H. injection H as -> H. cbn in Hl. injection Hl as Hl. destruct (IH a' Hl H) as [-> ->]. auto.
Qed.

Lemma uncurry_core v fn k (c : csig) vo vi :
  v_void_stmt v = true ->
  guardf fn (names (c_outer c) ++ names (c_inner c)) (names (c_results c)) = true ->
  length vo = length (c_outer c) -> length vi = length (c_inner c) ->
  run_term res (FUEL + k) (uncurry_term_f fn v c) [[prim_curried c]; vo ++ vi]
  = ROk (prim_results res (length (c_results c)) [vo; vi]) [(0, vo); (1, vi)].
Proof.
  intros Hv Hg Hlo Hli.
  apply guardf_spec in Hg as (Hbf & Hfn & Hf & Hb & Hform & Hnd).
  set (no := names (c_outer c)) in *. set (ni := names (c_inner c)) in *.
  set (rs := names (c_results c)) in *.
  assert (Hlen : length (no ++ ni) = length (vo ++ vi)).
  { rewrite !app_length. unfold no, ni, names. rewrite !map_length. lia. }
  assert (Hok : lam_ok (no ++ ni) rs = true) by (apply lam_ok_good; assumption).
  unfold uncurry_term_f, uncurry_sig. cbn [s_params s_results].
  unfold names at 1. rewrite map_app. fold (names (c_outer c)) (names (c_inner c)). fold no ni rs.
  unfold run_term. change (FUEL + k) with (S (11 + k)) at 1.
  rewrite decl_value_lam by apply lam_ok_single.
  cbn [apply_chain].
  change (FUEL + k) with (2 + (10 + k)).
  rewrite apply_clo_lam by (try reflexivity; exact Hok).
  cbn [bind]. rewrite Hbf.
  change (2 + (10 + k)) with (S (4 + (7 + k))).
  pose proof (lookup_all_bind (no ++ ni) (vo ++ vi) (bind rs (zeros rs) [(fn, prim_curried c)]) Hb
                (NoDup_app_l _ _ Hnd) Hlen) as Hall.
  rewrite lookup_all_app in Hall.
  destruct (lookup_all _ no) as [a|] eqn:Ea; [|discriminate].
  destruct (lookup_all _ ni) as [b|] eqn:Eb; [|discriminate].
  injection Hall as Hall.
  apply app_eq_length in Hall as [-> ->].
  2:{ apply lookup_all_length in Ea. rewrite Ea. unfold no, names. rewrite map_length. symmetry. exact Hlo. }
  subst no ni rs.
  erewrite apply_clo_stmt; [reflexivity|exact Hv|exact Hlen| |].
  - unfold prim_curried. eapply call_f_curried; [|exact Ea|exact Eb|exact Hlo|exact Hli].
    rewrite lookup_var_bind_skip by exact Hfn. rewrite lookup_var_bind_skip by exact Hf.
    unfold lookup_var. rewrite Hbf. cbn [lookup]. rewrite String.eqb_refl. reflexivity.
  - apply prim_results_length.
Qed.

(* ---------- tuple ---------- *)
Lemma itoa_inj i j : itoa i = itoa j -> i = j.
Proof.
  unfold itoa. intros H.
  assert (E : Nat.to_uint i = Nat.to_uint j).
  { pose proof (NilEmpty.usu (Nat.to_uint i)) as Hi. rewrite H, NilEmpty.usu in Hi. congruence. }
  rewrite <- (Unsigned.of_to i), <- (Unsigned.of_to j), E. reflexivity.
Qed.

Lemma append_inj_l p a b : String.append p a = String.append p b -> a = b.
Proof. induction p as [|c p IH]; cbn; intros H; [exact H|]. injection H as H. auto. Qed.

Lemma tuple_vars_nodup n : NoDup (tuple_vars n).
Proof.
  unfold tuple_vars. apply FinFun.Injective_map_NoDup; [|apply seq_NoDup].
  intros i j H. apply append_inj_l in H. apply itoa_inj, H.
Qed.

Lemma tuple_vars_bindable n : forallb bindable (tuple_vars n) = true.
Proof.
  unfold tuple_vars. apply forallb_forall. intros x Hx. apply in_map_iff in Hx as (i & <- & _).
  reflexivity.
Qed.

Lemma tuple_vars_length n : length (tuple_vars n) = n.
Proof. unfold tuple_vars. rewrite map_length, seq_length. reflexivity. Qed.

Lemma names_form_repeat_empty n : names_form (repeat "" n) = true.
Proof.
  unfold names_form. replace (forallb (fun n0 => n0 =s "") (repeat "" n)) with true; [reflexivity|].
  symmetry. apply forallb_forall. intros x Hx. apply repeat_spec in Hx. subst. reflexivity.
Qed.

Lemma filter_bindable_repeat_empty n : filter bindable (repeat "" n) = [].
Proof. induction n; cbn; auto. Qed.

Lemma tuple_core k args :
  args <> [] ->
  run_tuple res (FUEL + k) args = ROk args [].
Proof.
  intros Hne. unfold run_tuple. destruct args as [|a0 args0] eqn:Eargs; [congruence|]. rewrite <- Eargs.
  set (n := length args).
  unfold run_term, tuple_term. change (FUEL + k) with (S (11 + k)) at 1.
  rewrite decl_value_lam.
  2:{ apply lam_ok_good; [apply tuple_vars_bindable|reflexivity|]. cbn. rewrite app_nil_r. apply tuple_vars_nodup. }
  cbn [apply_chain].
  change (FUEL + k) with (2 + (10 + k)).
  rewrite apply_clo_lam.
  2:{ rewrite tuple_vars_length. reflexivity. }
  2:{ unfold lam_ok. cbn [names_form forallb app orb andb]. rewrite names_form_repeat_empty.
      rewrite filter_bindable_repeat_empty. reflexivity. }
  cbn [Nat.add]. rewrite apply_S. cbn [length Nat.eqb]. cbv zeta.
  cbn [bind].
  replace (bind (repeat "" n) (zeros (repeat "" n)) (bind (tuple_vars n) args [])) with (bind (tuple_vars n) args []).
  2:{ generalize (bind (tuple_vars n) args []). intros e. induction n as [|m IH]; [reflexivity|]. cbn. exact IH. }
  rewrite lookup_all_bind; [|apply tuple_vars_bindable|apply tuple_vars_nodup|apply tuple_vars_length].
  rewrite repeat_length. unfold n. rewrite Nat.eqb_refl. reflexivity.
Qed.
End Steps.

(* ====================================================================================== *)
(* derive/params.go: RenameBlankIdentifierWith                                              *)

Lemma rename_from_length v pre i ps : length (rename_from v pre i ps) = length ps.
Proof. revert i; induction ps as [|[n t] r IH]; intros i; cbn; [reflexivity|]. rewrite IH. reflexivity. Qed.

Lemma rename_blank_length v pre ps : length (rename_blank v pre ps) = length ps.
Proof. unfold rename_blank. destruct (has_blank v ps); [apply rename_from_length|reflexivity]. Qed.

Lemma rename_from_types v pre i ps : map snd (rename_from v pre i ps) = map snd ps.
Proof.
  revert i; induction ps as [|[n t] r IH]; intros i; cbn; [reflexivity|]. rewrite IH.
  destruct (is_blank v n || prefix pre n); reflexivity.
Qed.

Lemma rename_from_names_in v pre i ps n :
  In n (names (rename_from v pre i ps)) ->
  (In n (names ps) /\ is_blank v n = false /\ prefix pre n = false)
  \/ (exists j, i <= j /\ n = String.append pre (itoa j)).
Proof.
  revert i; induction ps as [|[m t] r IH]; intros i; cbn; [tauto|].
  destruct (is_blank v m || prefix pre m) eqn:E; cbn; intros [H|H].
  - right. exists i. split; [lia|symmetry; exact H].
  - destruct (IH _ H) as [(Hi & Hb & Hp)|(j & Hj & ->)]; [left; tauto|right; exists j; split; [lia|reflexivity]].
  - subst. apply orb_false_iff in E. left. tauto.
  - destruct (IH _ H) as [(Hi & Hb & Hp)|(j & Hj & ->)]; [left; tauto|right; exists j; split; [lia|reflexivity]].
Qed.

Definition nonblank (v : version) (n : name) : bool := negb (is_blank v n).

Lemma rename_from_nodup v pre i ps :
  NoDup (filter (nonblank v) (names ps)) -> NoDup (names (rename_from v pre i ps)).
Proof.
  revert i; induction ps as [|[m t] r IH]; intros i Hn; cbn; [constructor|].
  cbn in Hn.
  destruct (is_blank v m || prefix pre m) eqn:E; cbn.
  - constructor.
    + intros Hi. apply rename_from_names_in in Hi as [(_ & _ & Hp)|(j & Hj & Hx)].
      * rewrite prefix_append in Hp. discriminate.
      * apply append_inj_l, itoa_inj in Hx. lia.
    + apply IH. destruct (nonblank v m); [inversion Hn; assumption|assumption].
  - apply orb_false_iff in E as [Eb Ep]. unfold nonblank in Hn at 1. rewrite Eb in Hn. cbn in Hn.
    inversion Hn as [|? ? Hnotin Hn']; subst. constructor; [|apply IH; assumption].
    intros Hi. apply rename_from_names_in in Hi as [(Hi & Hb & _)|(j & _ & Hx)].
    + apply Hnotin, filter_In. unfold nonblank. rewrite Hb. auto.
    + subst. rewrite prefix_append in Ep. discriminate.
Qed.

Lemma renamed_not_blank v c pre' s : c <> "_"%char -> is_blank v (String.append (String c pre') s) = false.
Proof.
  intros Hc. unfold is_blank. cbn [String.append].
  change (String c (String.append pre' s) =s "_")
    with (if Ascii.eqb c "_" then (String.append pre' s =s "") else false).
  change (String c (String.append pre' s) =s "") with false.
  destruct (Ascii.eqb c "_") eqn:E; [apply Ascii.eqb_eq in E; congruence|].
  cbn. apply andb_false_r.
Qed.

Lemma rename_from_no_blank v c pre' i ps :
  c <> "_"%char -> Forall (fun n => is_blank v n = false) (names (rename_from v (String c pre') i ps)).
Proof.
  intros Hc. revert i; induction ps as [|[m t] r IH]; intros i; cbn; [constructor|].
  destruct (is_blank v m || prefix (String c pre') m) eqn:E; cbn; constructor; auto.
  - apply (renamed_not_blank v c pre' (itoa i) Hc).
  - apply orb_false_iff in E. tauto.
Qed.

Lemma has_blank_false v ps : has_blank v ps = false -> Forall (fun n => is_blank v n = false) (names ps).
Proof.
  unfold has_blank. induction ps as [|[m t] r IH]; cbn; intros H; constructor;
    apply orb_false_iff in H; tauto.
Qed.

(* the contract of the renaming: types and length are kept; afterwards no parameter is blank
   (nor, in the fixed version, unnamed); if the names that can be referred to were pairwise
   distinct, all names are pairwise distinct afterwards (no clash is introduced, even with
   names that already look like param_N); without a blank parameter nothing changes *)
Theorem rename_blank_spec v c pre' ps :
  c <> "_"%char ->
  let out := rename_blank v (String c pre') ps in
  map snd out = map snd ps
  /\ length out = length ps
  /\ Forall (fun n => is_blank v n = false) (names out)
  /\ (NoDup (filter (nonblank v) (names ps)) -> NoDup (names out))
  /\ (has_blank v ps = false -> out = ps).
Proof.
  intros Hc out. subst out. unfold rename_blank.
  destruct (has_blank v ps) eqn:E.
  - repeat split.
    + apply rename_from_types.
    + apply rename_from_length.
    + apply rename_from_no_blank, Hc.
    + apply rename_from_nodup.
    + discriminate.
  - repeat split; auto.
    + apply has_blank_false, E.
    + intros Hn. rewrite filter_all in Hn; [exact Hn|].
      apply has_blank_false in E. rewrite Forall_forall in E. apply forallb_forall.
      intros x Hx. unfold nonblank. rewrite (E x Hx). reflexivity.
Qed.

(* ====================================================================================== *)
(* derive/params.go, current tree: RenameClashingIdentifierWith                             *)

Lemma is_blank_bindable v n : v_blank_empty v = true -> is_blank v n = negb (bindable n).
Proof.
  intros H. unfold is_blank, bindable. rewrite H. cbn.
  destruct (n =s "_"), (n =s ""); reflexivity.
Qed.

Lemma blank_not_bindable v n : is_blank v n = true -> bindable n = false.
Proof.
  unfold is_blank, bindable. intros H. apply orb_true_iff in H as [H|H].
  - rewrite H. apply andb_false_r.
  - apply andb_true_iff in H as [_ H]. rewrite H. reflexivity.
Qed.

Lemma filter_ext' {A} (f g : A -> bool) l : (forall a, f a = g a) -> filter f l = filter g l.
Proof. intros H. induction l as [|x r IH]; cbn; [reflexivity|]. rewrite H, IH. reflexivity. Qed.

Lemma rename_avoid_from_length v pre i taken done ps :
  length (rename_avoid_from v pre i taken done ps) = length ps.
Proof.
  revert i done; induction ps as [|[n t] r IH]; intros i done; cbn [rename_avoid_from length]; [reflexivity|].
  rewrite IH. reflexivity.
Qed.

Lemma rename_avoid_from_types v pre i taken done ps :
  map snd (rename_avoid_from v pre i taken done ps) = map snd ps.
Proof.
  revert i done; induction ps as [|[n t] r IH]; intros i done; cbn [rename_avoid_from map snd]; [reflexivity|].
  rewrite IH. reflexivity.
Qed.

(* every name of the output is either kept (a name of the input that can be referred to, does not
   carry the prefix and is not taken) or made up (carries the prefix, can be referred to, is not
   taken and is not one of the names decided before) *)
Lemma rename_avoid_from_in v c pre' i taken done ps x :
  c <> "_"%char ->
  In x (names (rename_avoid_from v (String c pre') i taken done ps)) ->
  (In x (names ps) /\ is_blank v x = false /\ prefix (String c pre') x = false /\ ~ In x taken)
  \/ (prefix (String c pre') x = true /\ bindable x = true /\ ~ In x taken /\ ~ In x done).
Proof.
  intros Hc. revert i done; induction ps as [|[m t] r IH]; intros i done; [intros []|].
  cbn [rename_avoid_from]. cbv zeta. unfold names. cbn [map fst]. fold (names r).
  fold (names (rename_avoid_from v (String c pre') (S i) taken
          (done ++ [if is_blank v m || prefix (String c pre') m || memb m taken
                    then unused_name (String.append (String c pre') (itoa i)) (done ++ taken) else m]) r)).
  intros [H|H].
  - destruct (is_blank v m || prefix (String c pre') m || memb m taken) eqn:E.
    + right. subst x. destruct (made_up c pre' i (done ++ taken) Hc) as (Hp & Hb & Hn).
      repeat split; auto; intros Hi; apply Hn, in_or_app; auto.
    + left. subst x. apply orb_false_iff in E as [E Et]. apply orb_false_iff in E as [Eb Ep].
      split; [left; reflexivity|]. split; [exact Eb|]. split; [exact Ep|]. apply memb_false. exact Et.
  - apply IH in H as [(Hi & Hb & Hp & Ht)|(Hp & Hb & Ht & Hd)].
    + left. split; [right; exact Hi|]. auto.
    + right. split; [exact Hp|]. split; [exact Hb|]. split; [exact Ht|]. intros Hi. apply Hd, in_or_app. left. exact Hi.
Qed.

Lemma rename_avoid_from_nodup v c pre' i taken done ps :
  c <> "_"%char ->
  NoDup (filter (nonblank v) (names ps)) ->
  NoDup (names (rename_avoid_from v (String c pre') i taken done ps)).
Proof.
  intros Hc. revert i done; induction ps as [|[m t] r IH]; intros i done Hn; [constructor|].
  cbn [rename_avoid_from]. cbv zeta. unfold names. cbn [map fst].
  set (m' := if is_blank v m || prefix (String c pre') m || memb m taken
             then unused_name (String.append (String c pre') (itoa i)) (done ++ taken) else m).
  fold (names (rename_avoid_from v (String c pre') (S i) taken (done ++ [m']) r)).
  unfold names in Hn. cbn [map fst filter] in Hn. fold (names r) in Hn.
  constructor.
  - intros Hi. apply rename_avoid_from_in in Hi as [(Hi & Hb & Hp & _)|(_ & _ & _ & Hd)]; [| |exact Hc].
    + subst m'. destruct (is_blank v m || prefix (String c pre') m || memb m taken) eqn:E.
      * destruct (made_up c pre' i (done ++ taken) Hc) as (Hp' & _). rewrite Hp' in Hp. discriminate.
      * unfold nonblank in Hn at 1. rewrite Hb in Hn. cbn [negb] in Hn.
        apply NoDup_cons_iff in Hn as [Hx _]. apply Hx, filter_In. split; [exact Hi|].
        unfold nonblank. rewrite Hb. reflexivity.
    + apply Hd, in_or_app. right. left. reflexivity.
  - apply IH. destruct (nonblank v m); [apply NoDup_cons_iff in Hn; tauto|exact Hn].
Qed.

Lemma needs_rename_false v taken ps :
  needs_rename v taken ps = false ->
  Forall (fun n => is_blank v n = false) (names ps) /\ (forall x, In x (names ps) -> ~ In x taken).
Proof.
  unfold needs_rename. intros H. apply orb_false_iff in H as [Hb Ht]. split.
  - apply has_blank_false, Hb.
  - intros x Hx. apply in_map_iff in Hx as (p & <- & Hp).
    apply memb_false. destruct (memb (fst p) taken) eqn:E; [|reflexivity].
    assert (existsb (fun p => memb (fst p) taken) ps = true) by (apply existsb_exists; eauto). congruence.
Qed.

(* the contract of the renaming of the current tree: types and length are kept; afterwards every
   parameter can be referred to and none has a taken name; parameters that were pairwise distinct
   (as far as they could be referred to) are pairwise distinct; nothing changes unless a
   parameter is blank, unnamed or has a taken name *)
Theorem rename_avoid_spec v c pre' taken ps :
  v_blank_empty v = true -> c <> "_"%char ->
  let out := rename_avoid v (String c pre') taken ps in
  map snd out = map snd ps
  /\ length out = length ps
  /\ forallb bindable (names out) = true
  /\ (forall x, In x (names out) -> ~ In x taken)
  /\ (NoDup (filter bindable (names ps)) -> NoDup (names out))
  /\ (needs_rename v taken ps = false -> out = ps).
Proof.
  intros Hv Hc out. subst out. unfold rename_avoid.
  assert (Hnb : forall n, nonblank v n = bindable n).
  { intros n. unfold nonblank. rewrite (is_blank_bindable v n Hv). apply negb_involutive. }
  destruct (needs_rename v taken ps) eqn:E.
  - split; [apply rename_avoid_from_types|]. split; [apply rename_avoid_from_length|].
    split; [|split; [|split; [|discriminate]]].
    + apply forallb_forall. intros x Hx.
      apply rename_avoid_from_in in Hx as [(_ & Hb & _)|(_ & Hb & _)]; [|exact Hb|exact Hc].
      rewrite (is_blank_bindable v x Hv) in Hb. apply negb_false_iff in Hb. exact Hb.
    + intros x Hx. apply rename_avoid_from_in in Hx as [(_ & _ & _ & Ht)|(_ & _ & Ht & _)]; [exact Ht|exact Ht|exact Hc].
    + intros Hn. apply rename_avoid_from_nodup; [exact Hc|].
      rewrite (filter_ext' _ _ _ Hnb). exact Hn.
  - destruct (needs_rename_false _ _ _ E) as [Hb Ht].
    assert (Hall : forallb bindable (names ps) = true).
    { apply forallb_forall. intros x Hx. rewrite Forall_forall in Hb. specialize (Hb x Hx).
      rewrite (is_blank_bindable v x Hv) in Hb. apply negb_false_iff in Hb. exact Hb. }
    repeat split; auto.
    intros Hn. rewrite filter_all in Hn by exact Hall. exact Hn.
Qed.

Lemma rename_avoid_length v pre taken ps : length (rename_avoid v pre taken ps) = length ps.
Proof. unfold rename_avoid. destruct (needs_rename v taken ps); [apply rename_avoid_from_length|reflexivity]. Qed.

Lemma rename_params_length v pre taken ps : length (rename_params v pre taken ps) = length ps.
Proof.
  unfold rename_params. destruct (v_hygiene v); [apply rename_avoid_length|apply rename_blank_length].
Qed.

(* names that are already usable and not taken are left alone *)
Lemma rename_avoid_id v pre taken ps :
  forallb bindable (names ps) = true -> (forall x, In x (names ps) -> ~ In x taken) ->
  rename_avoid v pre taken ps = ps.
Proof.
  intros Hb Ht. unfold rename_avoid.
  replace (needs_rename v taken ps) with false; [reflexivity|].
  symmetry. unfold needs_rename. apply orb_false_iff. split.
  - unfold has_blank. destruct (existsb _ ps) eqn:E; [|reflexivity].
    apply existsb_exists in E as (p & Hp & Hbl). apply blank_not_bindable in Hbl.
    rewrite forallb_forall in Hb. rewrite Hb in Hbl; [discriminate|]. apply in_map. exact Hp.
  - destruct (existsb _ ps) eqn:E; [|reflexivity].
    apply existsb_exists in E as (p & Hp & Hm). apply memb_In in Hm.
    exfalso. apply (Ht (fst p)); [apply in_map; exact Hp|exact Hm].
Qed.

(* ====================================================================================== *)
(* the names the current tree prints satisfy what the closure nests need                    *)

Lemma src_ok_spec ps rs :
  src_ok ps rs = true ->
  names_form rs = true /\ NoDup (filter bindable ps) /\ NoDup (filter bindable rs).
Proof. unfold src_ok. rewrite !andb_true_iff, !nodupb_NoDup. tauto. Qed.

Lemma guardf_intro fn ps rs :
  bindable fn = true -> ~ In fn ps -> ~ In fn rs -> forallb bindable ps = true ->
  names_form rs = true -> NoDup (ps ++ filter bindable rs) -> guardf fn ps rs = true.
Proof.
  intros. unfold guardf. rewrite !andb_true_iff, !negb_true_iff, !memb_false, nodupb_NoDup. tauto.
Qed.

(* curry, flip, apply: parameters renamed with "param_", the results taken *)
Lemma flat_guard c pre' (ps : list (name * ty)) (rs : list name) :
  c <> "_"%char -> src_ok (names ps) rs = true ->
  let ps' := names (rename_params hygienic (String c pre') rs ps) in
  guardf (fname hygienic ps' rs) ps' rs = true.
Proof.
  intros Hc Hsrc ps'. apply src_ok_spec in Hsrc as (Hform & Hndp & Hndr).
  destruct (rename_avoid_spec hygienic c pre' rs ps eq_refl Hc) as (_ & _ & Hb & Ht & Hnd & _).
  cbv zeta in Hb, Ht, Hnd.
  destruct (fname_fresh ps' rs) as (Hbf & Hfp & Hfr). cbv zeta in Hbf, Hfp, Hfr.
  apply guardf_intro; auto.
  apply NoDup_app_intro; [apply Hnd, Hndp|exact Hndr|].
  intros x Hx Hi. apply filter_In in Hi as [Hi _]. exact (Ht x Hx Hi).
Qed.

(* uncurry: inner parameters renamed with "innerParam_" (results taken), then the outer parameter
   with "param_" (its own result, the renamed inner parameters and the results taken) *)
Lemma uncurry_guard (c0 : csig) :
  NoDup (filter bindable (names (c_outer c0))) ->
  src_ok (names (c_inner c0)) (names (c_results c0)) = true ->
  let rs := names (c_results c0) in
  let inner := rename_params hygienic "innerParam_" rs (c_inner c0) in
  let outer := rename_params hygienic "param_" (c_rname c0 :: names inner ++ rs) (c_outer c0) in
  let c := mkCsig outer (c_rname c0) inner (c_results c0) (c_variadic c0) in
  guardf (fname hygienic (names outer ++ names inner) rs) (names outer ++ names inner) rs = true
  /\ csig_names_ok c = true.
Proof.
  intros Hndo Hsrc rs inner outer c. apply src_ok_spec in Hsrc as (Hform & Hndi & Hndr).
  destruct (rename_avoid_spec hygienic "i" "nnerParam_" rs (c_inner c0) eq_refl ltac:(discriminate))
    as (_ & _ & Hbi & Hti & Hni & _).
  destruct (rename_avoid_spec hygienic "p" "aram_" (c_rname c0 :: names inner ++ rs) (c_outer c0) eq_refl
              ltac:(discriminate)) as (_ & _ & Hbo & Hto & Hno & _).
  cbv zeta in Hbi, Hti, Hni, Hbo, Hto, Hno.
  change (rename_avoid hygienic "innerParam_" rs (c_inner c0)) with inner in *.
  change (rename_avoid hygienic "param_" (c_rname c0 :: names inner ++ rs) (c_outer c0)) with outer in *.
  specialize (Hni Hndi). specialize (Hno Hndo).
  assert (Hoi : forall x, In x (names outer) -> ~ In x (names inner)).
  { intros x Hx Hi. apply (Hto x Hx). right. apply in_or_app. left. exact Hi. }
  assert (Hor : forall x, In x (names outer) -> ~ In x rs).
  { intros x Hx Hi. apply (Hto x Hx). right. apply in_or_app. right. exact Hi. }
  assert (Hndoi : NoDup (names outer ++ names inner)) by (apply NoDup_app_intro; assumption).
  assert (Hndall : NoDup ((names outer ++ names inner) ++ filter bindable rs)).
  { apply NoDup_app_intro; [exact Hndoi|exact Hndr|].
    intros x Hx Hi. apply filter_In in Hi as [Hi _]. apply in_app_or in Hx as [Hx|Hx].
    - exact (Hor x Hx Hi).
    - exact (Hti x Hx Hi). }
  split.
  - destruct (fname_fresh (names outer ++ names inner) rs) as (Hbf & Hfp & Hfr). cbv zeta in Hbf, Hfp, Hfr.
    apply guardf_intro; auto. rewrite forallb_app, Hbo, Hbi. reflexivity.
  - unfold csig_names_ok. cbn [c_outer c_rname c_inner c_results c]. apply andb_true_iff. split.
    + apply lam_ok_good; [exact Hbo| |].
      * unfold names_form. cbn. destruct (c_rname c0 =s ""); reflexivity.
      * apply NoDup_app_intro; [exact Hno| |].
        -- cbn [filter]. destruct (bindable (c_rname c0)); repeat constructor. intros [].
        -- intros x Hx Hi. apply filter_In in Hi as [Hi _]. cbn in Hi. destruct Hi as [Hi|[]].
           apply (Hto x Hx). left. exact Hi.
    + apply lam_ok_good; [exact Hbi|exact Hform|].
      rewrite <- app_assoc in Hndall. apply NoDup_app_r in Hndall. exact Hndall.
Qed.

Lemma guard_sig_names_ok fn ps rs : guardf fn ps rs = true -> lam_ok ps rs = true.
Proof.
  intros Hg. apply guardf_spec in Hg as (_ & _ & _ & Hb & Hform & Hnd).
  apply lam_ok_good; assumption.
Qed.

Lemma split_last_some {A} (l : list A) i x : split_last l = Some (i, x) -> l = i ++ [x].
Proof.
  revert i; induction l as [|y r IH]; intros i H; [discriminate|]. cbn in H.
  destruct r as [|z r'].
  - injection H as <- <-. reflexivity.
  - destruct (split_last (z :: r')) as [[i' l']|] eqn:E; [|discriminate].
    injection H as <- <-. cbn. f_equal. apply IH. reflexivity.
Qed.

Lemma split_last_none {A} (l : list A) : split_last l = None -> l = [].
Proof.
  induction l as [|x r IH]; [reflexivity|]. intros H. exfalso.
  destruct r as [|y r']; [discriminate|].
  change (split_last (x :: y :: r'))
    with (match split_last (y :: r') with Some (i, l) => Some (x :: i, l) | None => None end) in H.
  destruct (split_last (y :: r')) as [[? ?]|] eqn:E; [discriminate|].
  specialize (IH eq_refl). discriminate.
Qed.

Section Theorems.
Variable res : nat -> list (list val) -> val.

(* Curry: deriveCurry(f)(a1)(a2..an) calls f once with (a1..an) and returns its results *)
Theorem plumb_correct_curry (s0 : sig) a1 rest k :
  s_variadic s0 = false ->
  src_ok (names (s_params s0)) (names (s_results s0)) = true ->
  2 <= length (s_params s0) ->
  length (a1 :: rest) = length (s_params s0) ->
  run_curry res hygienic (FUEL + k) s0 (prim_flat s0) (a1 :: rest)
  = ROk (prim_results res (length (s_results s0)) [a1 :: rest]) [(0, a1 :: rest)].
Proof.
  intros Hv Hsrc H2 Hl. unfold run_curry, add_curry.
  destruct (2 <=? length (s_params s0)) eqn:E; [|apply Nat.leb_gt in E; lia].
  set (s := rename_sig hygienic "param_" s0).
  assert (Hlen : length (s_params s) = length (s_params s0)) by apply rename_params_length.
  assert (Hpf : prim_flat s0 = prim_flat s) by (unfold prim_flat; rewrite Hlen; reflexivity).
  assert (Hgs : guardf (sig_fname hygienic s) (names (s_params s)) (names (s_results s)) = true).
  { apply (flat_guard "p" "aram_" (s_params s0) (names (s_results s0))); [discriminate|exact Hsrc]. }
  destruct (s_params s) as [|p1 ps] eqn:Hp; [cbn in Hlen; lia|].
  unfold curry_term.
  destruct (curry_term_f (sig_fname hygienic s) hygienic s) as [t|] eqn:Ht;
    [|unfold curry_term_f, curry_sig in Ht; rewrite Hp in Ht; discriminate].
  change (s_variadic s) with (s_variadic s0). rewrite Hv.
  unfold sig_names_ok. rewrite Hp. rewrite (guard_sig_names_ok _ _ _ Hgs). cbn [orb negb].
  rewrite Hpf.
  change (length (s_results s0)) with (length (s_results s)).
  eapply (curry_core res hygienic); [reflexivity|exact Hp| |cbn in Hl, Hlen; lia|exact Ht].
  rewrite Hp. exact Hgs.
Qed.

(* Flip: deriveFlip(f)(x1, x2, xs..) calls f once with (x2, x1, xs..) *)
Theorem plumb_correct_flip (s0 : sig) x1 x2 xs k :
  s_variadic s0 = false ->
  src_ok (names (s_params s0)) (names (s_results s0)) = true ->
  length (x1 :: x2 :: xs) = length (s_params s0) ->
  run_flip res hygienic (FUEL + k) s0 (prim_flat s0) (x1 :: x2 :: xs)
  = ROk (prim_results res (length (s_results s0)) [x2 :: x1 :: xs]) [(0, x2 :: x1 :: xs)].
Proof.
  intros Hv Hsrc Hl. unfold run_flip, add_flip.
  destruct (2 <=? length (s_params s0)) eqn:E; [|apply Nat.leb_gt in E; cbn in Hl; lia].
  set (s := rename_sig hygienic "param_" s0).
  assert (Hlen : length (s_params s) = length (s_params s0)) by apply rename_params_length.
  assert (Hpf : prim_flat s0 = prim_flat s) by (unfold prim_flat; rewrite Hlen; reflexivity).
  assert (Hgs : guardf (sig_fname hygienic s) (names (s_params s)) (names (s_results s)) = true).
  { apply (flat_guard "p" "aram_" (s_params s0) (names (s_results s0))); [discriminate|exact Hsrc]. }
  destruct (s_params s) as [|p1 [|p2 ps]] eqn:Hp; try (cbn in Hlen, Hl; lia).
  unfold flip_term.
  destruct (flip_term_f (sig_fname hygienic s) hygienic s) as [t|] eqn:Ht;
    [|unfold flip_term_f, flip_sig in Ht; rewrite Hp in Ht; discriminate].
  change (s_variadic s) with (s_variadic s0). rewrite Hv.
  unfold sig_names_ok. rewrite Hp. rewrite (guard_sig_names_ok _ _ _ Hgs). cbn [orb negb].
  rewrite Hpf.
  change (length (s_results s0)) with (length (s_results s)).
  eapply (flip_core res hygienic); [reflexivity|exact Hp| |cbn in Hl, Hlen; lia|exact Ht].
  rewrite Hp. exact Hgs.
Qed.

(* Apply: deriveApply(f, b)(a1..a(n-1)) calls f once with (a1..a(n-1), b) *)
Theorem plumb_correct_apply (s0 : sig) vs bound k :
  s_variadic s0 = false ->
  src_ok (names (s_params s0)) (names (s_results s0)) = true ->
  length (vs ++ [bound]) = length (s_params s0) ->
  run_apply res hygienic (FUEL + k) s0 (prim_flat s0) (vs ++ [bound])
  = ROk (prim_results res (length (s_results s0)) [vs ++ [bound]]) [(0, vs ++ [bound])].
Proof.
  intros Hv Hsrc Hl. unfold run_apply, add_apply. rewrite app_length in Hl. cbn in Hl.
  destruct (1 <=? length (s_params s0)) eqn:E; [|apply Nat.leb_gt in E; lia].
  set (s := rename_sig hygienic "param_" s0).
  assert (Hlen : length (s_params s) = length (s_params s0)) by apply rename_params_length.
  assert (Hpf : prim_flat s0 = prim_flat s) by (unfold prim_flat; rewrite Hlen; reflexivity).
  assert (Hgs : guardf (sig_fname hygienic s) (names (s_params s)) (names (s_results s)) = true).
  { apply (flat_guard "p" "aram_" (s_params s0) (names (s_results s0))); [discriminate|exact Hsrc]. }
  destruct (split_last (s_params s)) as [[init [nl tl]]|] eqn:Hs.
  2:{ apply split_last_none in Hs. rewrite Hs in Hlen. cbn in Hlen. lia. }
  apply split_last_some in Hs as Hp.
  unfold apply_term.
  destruct (apply_term_f (sig_fname hygienic s) hygienic s) as [t|] eqn:Ht;
    [|unfold apply_term_f, apply_sig in Ht; rewrite Hs in Ht; discriminate].
  assert (Hsa : split_last (vs ++ [bound]) = Some (vs, bound)).
  { clear. induction vs as [|x l IH]; [reflexivity|]. cbn [app split_last].
    rewrite IH. destruct (l ++ [bound]) eqn:E; [destruct l; discriminate|reflexivity]. }
  rewrite Hsa.
  change (s_variadic s) with (s_variadic s0). rewrite Hv.
  unfold sig_names_ok. rewrite (guard_sig_names_ok _ _ _ Hgs). cbn [orb negb].
  rewrite Hpf.
  change (length (s_results s0)) with (length (s_results s)).
  eapply (apply_core res hygienic); [reflexivity|exact Hp|exact Hgs| |exact Ht].
  rewrite Hp, app_length in Hlen. cbn in Hlen. lia.
Qed.

(* Uncurry: deriveUncurry(f)(a, b1..bm) calls f once with (a) and its result once with (b1..bm) *)
Theorem plumb_correct_uncurry (c0 : csig) vo vi k :
  c_variadic c0 = false ->
  nodupb (filter bindable (names (c_outer c0))) = true ->
  src_ok (names (c_inner c0)) (names (c_results c0)) = true ->
  length (c_outer c0) = 1 ->
  length vo = length (c_outer c0) -> length vi = length (c_inner c0) ->
  run_uncurry res hygienic (FUEL + k) c0 (prim_curried c0) (vo ++ vi)
  = ROk (prim_results res (length (c_results c0)) [vo; vi]) [(0, vo); (1, vi)].
Proof.
  intros Hv Hndo Hsrc H1 Hlo Hli. unfold run_uncurry, add_uncurry. rewrite H1. cbn [Nat.eqb]. cbv zeta.
  apply nodupb_NoDup in Hndo.
  destruct (uncurry_guard c0 Hndo Hsrc) as [Hgc Hok]. cbv zeta in Hgc, Hok.
  set (c := mkCsig _ _ _ _ _) in *.
  cbn [c_variadic c]. rewrite Hv. cbn [orb].
  rewrite Hok. cbn [negb].
  replace (prim_curried c0) with (prim_curried c).
  2:{ unfold prim_curried, c. cbn [c_outer c_inner c_results]. rewrite !rename_params_length. reflexivity. }
  change (length (c_results c0)) with (length (c_results c)).
  unfold uncurry_term.
  apply (uncurry_core res hygienic); [reflexivity| | |].
  - unfold sig_fname, uncurry_sig. cbn [s_params s_results].
    unfold names at 1. rewrite map_app. exact Hgc.
  - unfold c; cbn [c_outer]; rewrite rename_params_length; assumption.
  - unfold c; cbn [c_inner]; rewrite rename_params_length; assumption.
Qed.

(* Tuple: deriveTuple(a1..an)() returns exactly a1..an (and calls nothing) *)
Theorem tuple_spec args k : args <> [] -> run_tuple res (FUEL + k) args = ROk args [].
Proof. apply tuple_core. Qed.
End Theorems.

(* ====================================================================================== *)
(* Uncurry (Curry f) behaves as f                                                           *)
Section RoundTrip.
Variable res : nat -> list (list val) -> val.

Local Arguments eval : simpl never.
Local Arguments apply : simpl never.

(* the innermost closure Curry builds, applied to the remaining arguments *)
Lemma curry_inner v fn k (s : sig) n1 t1 ps a1 rest log :
  v_void_stmt v = true ->
  s_params s = (n1, t1) :: ps ->
  guardf fn (names (s_params s)) (names (s_results s)) = true ->
  length rest = length ps ->
  apply res (S (3 + k))
    (VClo [(n1, a1); (fn, prim_flat s)] (names ps) (names (s_results s))
       (call_stmt v (s_results s) (Call (Var fn) (n1 :: names ps)))) rest log
  = Ok (prim_results res (length (s_results s)) [a1 :: rest], log ++ [(0, a1 :: rest)]).
Proof.
  intros Hv Hp Hg Hl.
  apply guardf_spec in Hg as (Hbf & Hfp & Hf & Hbind & Hform & Hnd).
  rewrite Hp in Hfp, Hbind, Hnd. cbn [names map fst] in Hfp, Hbind, Hnd.
  change (map fst ps) with (names ps) in *. change (map fst (s_results s)) with (names (s_results s)) in *.
  cbn [forallb] in Hbind. apply andb_true_iff in Hbind as [Hb1 Hbps].
  cbn [app] in Hnd. apply NoDup_cons_iff in Hnd as [Hn1 Hnd].
  assert (Hn1ps : ~ In n1 (names ps)) by (intros Hi; apply Hn1, in_or_app; left; exact Hi).
  assert (Hn1rs : ~ In n1 (names (s_results s)))
    by (intros Hi; apply Hn1, in_or_app; right; apply in_names_results; assumption).
  assert (Hfps : ~ In fn (names ps)) by (intros Hi; apply Hfp; right; exact Hi).
  assert (Hn1f : (n1 =s fn) = false) by (apply eqb_false_of_neq; intros ->; apply Hfp; left; reflexivity).
  assert (Hlen : length (names ps) = length rest) by (unfold names; rewrite map_length; symmetry; exact Hl).
  erewrite apply_clo_stmt; [reflexivity|exact Hv|exact Hlen| |].
  - unfold prim_flat. eapply call_f_flat.
    + rewrite lookup_var_bind_skip by exact Hfps.
      rewrite lookup_var_bind_skip by exact Hf.
      unfold lookup_var. rewrite Hbf. cbn [lookup]. rewrite Hn1f, String.eqb_refl. reflexivity.
    + cbn [lookup_all].
      rewrite lookup_var_bind_skip by exact Hn1ps.
      rewrite lookup_var_bind_skip by exact Hn1rs.
      unfold lookup_var at 1. rewrite Hb1. cbn [lookup]. rewrite String.eqb_refl.
      rewrite lookup_all_bind; [reflexivity|assumption| |exact Hlen].
      apply NoDup_app_l in Hnd. exact Hnd.
    + cbn. rewrite Hp. cbn. f_equal. exact Hl.
  - apply prim_results_length.
Qed.

Theorem uncurry_curry_id (s0 : sig) a1 rest k :
  s_variadic s0 = false ->
  src_ok (names (s_params s0)) (names (s_results s0)) = true ->
  2 <= length (s_params s0) ->
  length (a1 :: rest) = length (s_params s0) ->
  run_roundtrip res hygienic (FUEL + k) s0 (prim_flat s0) (a1 :: rest)
  = ROk (prim_results res (length (s_results s0)) [a1 :: rest]) [(0, a1 :: rest)].
Proof.
  intros Hv Hsrc H2 Hl. unfold run_roundtrip, add_curry.
  destruct (2 <=? length (s_params s0)) eqn:E; [|apply Nat.leb_gt in E; lia].
  set (s := rename_sig hygienic "param_" s0).
  assert (Hlen : length (s_params s) = length (s_params s0)) by apply rename_params_length.
  assert (Hpf : prim_flat s0 = prim_flat s) by (unfold prim_flat; rewrite Hlen; reflexivity).
  assert (Hgs : guardf (sig_fname hygienic s) (names (s_params s)) (names (s_results s)) = true).
  { apply (flat_guard "p" "aram_" (s_params s0) (names (s_results s0))); [discriminate|exact Hsrc]. }
  remember (sig_fname hygienic s) as fn eqn:Hfn.
  destruct (s_params s) as [|[n1 t1] ps] eqn:Hp; [cbn in Hlen; lia|].
  unfold curry_term. rewrite <- Hfn.
  unfold curry_term_f, csig_of_curry, curry_sig. rewrite Hp. cbn [fst s_params s_results s_variadic].
  change (s_variadic s) with (s_variadic s0). rewrite Hv.
  unfold sig_names_ok. rewrite Hp.
  rewrite (guard_sig_names_ok _ _ _ Hgs). cbn [orb negb].
  (* facts about the names *)
  pose proof Hgs as Hgs'. cbn [names map fst] in Hgs'. change (map fst ps) with (names ps) in Hgs'.
  apply guardf_spec in Hgs' as (Hbf & Hfp & Hf & Hbind & Hform & Hnd).
  change (map fst (s_results s)) with (names (s_results s)) in *.
  cbn [forallb] in Hbind. apply andb_true_iff in Hbind as [Hb1 Hbps].
  assert (Hok_inner : lam_ok (names ps) (names (s_results s)) = true).
  { apply lam_ok_good; [assumption|assumption|].
    cbn [app] in Hnd. apply NoDup_cons_iff in Hnd. tauto. }
  assert (Hok_all : lam_ok (n1 :: names ps) (names (s_results s)) = true).
  { apply lam_ok_good; [cbn [forallb]; rewrite Hb1; assumption|assumption|exact Hnd]. }
  assert (Hn1ps : ~ In n1 (names ps)).
  { cbn [app] in Hnd. apply NoDup_cons_iff in Hnd as [Hx _]. intros Hi. apply Hx, in_or_app. left. exact Hi. }
  assert (Hn1rs : ~ In n1 (names (s_results s))).
  { cbn [app] in Hnd. apply NoDup_cons_iff in Hnd as [Hx _]. intros Hi. apply Hx, in_or_app. right.
    apply in_names_results; assumption. }
  assert (Hpsrs : forall x, In x (names ps) -> ~ In x (names (s_results s))).
  { intros x Hx Hi. cbn [app] in Hnd. apply NoDup_cons_iff in Hnd as [_ Hnd].
    assert (Hbx : bindable x = true) by (rewrite forallb_forall in Hbps; apply Hbps, Hx).
    apply in_split in Hx as (l1 & l2 & El). rewrite El, <- app_assoc in Hnd.
    apply NoDup_app_r in Hnd. cbn [app] in Hnd. apply NoDup_cons_iff in Hnd as [Hx _].
    apply Hx, in_or_app. right. apply in_names_results; assumption. }
  assert (Hfps : ~ In fn (names ps)) by (intros Hi; apply Hfp; right; exact Hi).
  assert (Hn1f : (n1 =s fn) = false) by (apply eqb_false_of_neq; intros ->; apply Hfp; left; reflexivity).
  (* Curry(F) *)
  change (FUEL + k) with (S (11 + k)) at 1.
  rewrite decl_value_lam by apply lam_ok_single.
  change (FUEL + k) with (2 + (10 + k)) at 1.
  rewrite apply_clo_lam by (try reflexivity; apply lam_ok_single).
  cbn [bind]. rewrite Hbf.
  (* Uncurry of that: nothing is renamed *)
  unfold run_uncurry, add_uncurry. cbn [c_outer c_inner c_results c_variadic c_rname length Nat.eqb]. cbv zeta.
  unfold rename_params. cbn [v_hygiene hygienic].
  rewrite (rename_avoid_id hygienic "innerParam_" (names (s_results s)) ps Hbps Hpsrs).
  rewrite (rename_avoid_id hygienic "param_" _ [(n1, t1)]).
  2:{ cbn [names map fst forallb]. rewrite Hb1. reflexivity. }
  2:{ intros x Hx Hi. cbn in Hx. destruct Hx as [<-|[]]. destruct Hi as [Hi|Hi].
      - rewrite <- Hi in Hb1. discriminate.
      - apply in_app_or in Hi as [Hi|Hi]; [exact (Hn1ps Hi)|exact (Hn1rs Hi)]. }
  cbn [orb].
  unfold csig_names_ok. cbn [c_outer c_inner c_results c_rname names map fst].
  change (map fst ps) with (names ps). change (map fst (s_results s)) with (names (s_results s)).
  rewrite lam_ok_single, Hok_inner. cbn [andb negb].
  unfold uncurry_term, sig_fname, uncurry_sig. cbn [s_params s_results c_outer c_inner c_results app].
  unfold sig_fname in Hfn. rewrite Hp in Hfn. rewrite <- Hfn.
  unfold uncurry_term_f, uncurry_sig. cbn [c_outer c_inner c_results s_params s_results app names map fst].
  change (map fst ps) with (names ps). change (map fst (s_results s)) with (names (s_results s)).
  unfold run_term. change (FUEL + k) with (S (11 + k)) at 1.
  rewrite decl_value_lam by apply lam_ok_single.
  cbn [apply_chain].
  change (FUEL + k) with (2 + (10 + k)) at 1.
  rewrite apply_clo_lam by (try reflexivity; exact Hok_all).
  cbn [bind]. rewrite Hbf.
  assert (Hlr : length rest = length ps) by (cbn in Hl, Hlen; lia).
  assert (Hlen' : length (names ps) = length rest) by (unfold names; rewrite map_length; symmetry; exact Hlr).
  change (FUEL + k) with (S (S (S (S (3 + (5 + k)))))).
  erewrite apply_clo_stmt; [reflexivity|reflexivity|cbn [length]; rewrite Hlen'; reflexivity| |apply prim_results_length].
  (* fn(n1)(names ps) in the environment of the uncurried closure, fn being Curry's closure *)
  rewrite eval_S, eval_S, eval_S.
  cbn [bind]. rewrite Hb1.
  assert (Ef : forall W, lookup_var ((n1, a1) :: bind (names ps) rest
               (bind (names (s_results s)) (zeros (names (s_results s))) [(fn, W)])) fn = Some W).
  { intros W. unfold lookup_var. rewrite Hbf. cbn [lookup]. rewrite Hn1f.
    rewrite lookup_bind_skip by exact Hfps. rewrite lookup_bind_skip by exact Hf.
    cbn [lookup]. rewrite String.eqb_refl. reflexivity. }
  rewrite Ef.
  cbn [lookup_all]. unfold lookup_var at 1. rewrite Hb1. cbn [lookup]. rewrite String.eqb_refl.
  change (S (3 + (5 + k))) with (2 + (7 + k)) at 1.
  rewrite apply_clo_lam by (try reflexivity; exact Hok_inner).
  cbn [bind]. rewrite Hb1.
  rewrite lookup_all_cons_skip by exact Hn1ps.
  rewrite lookup_all_bind; [|assumption| |exact Hlen'].
  2:{ cbn [app] in Hnd. apply NoDup_cons_iff in Hnd as [_ Hnd]. apply NoDup_app_l in Hnd. exact Hnd. }
  rewrite Hpf.
  change (S (S (3 + (5 + k)))) with (S (3 + (6 + k))).
  apply (curry_inner hygienic fn (6 + k) s n1 t1 ps a1 rest [] eq_refl Hp); [|exact Hlr].
  rewrite Hp. exact Hgs.
Qed.
End RoundTrip.

(* ====================================================================================== *)
(* witnesses                                                                                *)
Definition res0 : nat -> list (list val) -> val := fun j _ => VBase (Z.of_nat j).
Definition Ti : ty := TBase "int".
Definition Ts : ty := TBase "string".
Definition v1 : val := VBase 1.
Definition v2 : val := VBase 2.
Definition v3 : val := VBase 3.

(* --- the hypotheses of the theorems are satisfiable on non-trivial inputs: a blank parameter, a
       parameter called f, one called f_ that already carries the generator's prefix, a result
       with the name the renaming would make up and a result called f__; unnamed parameters; both
       levels of uncurry blank, the outer parameter named like an inner one's made-up name --- *)
Definition ex_sig : sig :=
  mkSig [("_", Ti); ("f", Ts); ("param_f_", Ti)] [("param_0", Ti); ("f__", Ts)] false.
Definition ex_unnamed : sig := mkSig [("", Ti); ("", Ts)] [] false.
Definition ex_csig : csig := mkCsig [("innerParam_0", Ti)] "f" [("_", Ts); ("f", Ti)] [("", Ti)] false.

Example ex_src_flat :
  src_ok (names (s_params ex_sig)) (names (s_results ex_sig)) = true
  /\ names (s_params (rename_sig hygienic "param_" ex_sig)) = ["param_0_"; "f"; "param_2"]
  /\ sig_fname hygienic (rename_sig hygienic "param_" ex_sig) = "f_".
Proof. repeat split; reflexivity. Qed.

Example ex_src_unnamed :
  src_ok (names (s_params ex_unnamed)) (names (s_results ex_unnamed)) = true.
Proof. reflexivity. Qed.

Example ex_src_uncurry :
  nodupb (filter bindable (names (c_outer ex_csig))) = true
  /\ src_ok (names (c_inner ex_csig)) (names (c_results ex_csig)) = true
  /\ option_map (fun c => (names (c_outer c), names (c_inner c))) (add_uncurry hygienic ex_csig)
     = Some (["param_0"], ["innerParam_0"; "f"]).
Proof. repeat split; reflexivity. Qed.

Example ex_curry : run_curry res0 hygienic FUEL ex_sig (prim_flat ex_sig) [v1; v2; v3]
                   = ROk [VBase 0; VBase 1] [(0, [v1; v2; v3])].
Proof. exact (plumb_correct_curry res0 ex_sig v1 [v2; v3] 0 eq_refl eq_refl (le_S _ _ (le_n 2)) eq_refl). Qed.

Example ex_flip : run_flip res0 hygienic FUEL ex_sig (prim_flat ex_sig) [v1; v2; v3]
                  = ROk [VBase 0; VBase 1] [(0, [v2; v1; v3])].
Proof. exact (plumb_correct_flip res0 ex_sig v1 v2 [v3] 0 eq_refl eq_refl eq_refl). Qed.

Example ex_apply : run_apply res0 hygienic FUEL ex_unnamed (prim_flat ex_unnamed) [v1; v2]
                   = ROk [] [(0, [v1; v2])].
Proof. exact (plumb_correct_apply res0 ex_unnamed [v1] v2 0 eq_refl eq_refl eq_refl). Qed.

Example ex_uncurry : run_uncurry res0 hygienic FUEL ex_csig (prim_curried ex_csig) [v1; v2; v3]
                     = ROk [VBase 0] [(0, [v1]); (1, [v2; v3])].
Proof. exact (plumb_correct_uncurry res0 ex_csig [v1] [v2; v3] 0 eq_refl eq_refl eq_refl eq_refl eq_refl eq_refl). Qed.

Example ex_roundtrip : run_roundtrip res0 hygienic FUEL ex_sig (prim_flat ex_sig) [v1; v2; v3]
                       = ROk [VBase 0; VBase 1] [(0, [v1; v2; v3])].
Proof. exact (uncurry_curry_id res0 ex_sig v1 [v2; v3] 0 eq_refl eq_refl (le_S _ _ (le_n 2)) eq_refl). Qed.

(* --- the pinned tree (before repo-patches/C15-fix-unnamed-params.patch): a signature without
       parameter names gives `return f(, )` in all four plugins --- *)
Definition w_unnamed : sig := mkSig [("", Ti); ("", Ts)] [("", Ti)] false.
Definition w_unnamed_c : csig := mkCsig [("a", Ti)] "" [("", Ti); ("", Ts)] [("", Ti)] false.

Theorem plumb_unnamed_refuted :
  run_curry res0 pinned FUEL w_unnamed (prim_flat w_unnamed) [v1; v2] = RIll
  /\ run_flip res0 pinned FUEL w_unnamed (prim_flat w_unnamed) [v1; v2] = RIll
  /\ run_apply res0 pinned FUEL w_unnamed (prim_flat w_unnamed) [v1; v2] = RIll
  /\ run_uncurry res0 pinned FUEL w_unnamed_c (prim_curried w_unnamed_c) [v1; v2; v3] = RIll
  /\ (* repaired: *)
     run_curry res0 fixed FUEL w_unnamed (prim_flat w_unnamed) [v1; v2] = ROk [VBase 0] [(0, [v1; v2])].
Proof. vm_compute. repeat split; reflexivity. Qed.

(* --- the pinned tree (before repo-patches/C15-fix-void-return.patch): `return f(a, b)` inside a
       function without results --- *)
Definition w_void : sig := mkSig [("a", Ti); ("b", Ts)] [] false.
Definition w_void_c : csig := mkCsig [("a", Ti)] "" [("b", Ti)] [] false.

Theorem plumb_void_refuted :
  run_curry res0 pinned FUEL w_void (prim_flat w_void) [v1; v2] = RIll
  /\ run_flip res0 pinned FUEL w_void (prim_flat w_void) [v1; v2] = RIll
  /\ run_apply res0 pinned FUEL w_void (prim_flat w_void) [v1; v2] = RIll
  /\ run_uncurry res0 pinned FUEL w_void_c (prim_curried w_void_c) [v1; v2] = RIll
  /\ run_curry res0 fixed FUEL w_void (prim_flat w_void) [v1; v2] = ROk [] [(0, [v1; v2])].
Proof. vm_compute. repeat split; reflexivity. Qed.

(* --- the old naming ([fixed], before repo-patches/C15-fix-1-param-named-f.patch): a parameter
       (or a named result) called f shadows the wrapper's own f; the current tree calls its own
       parameter f_ there and the same inputs are plumbed correctly --- *)
Definition w_f_first : sig := mkSig [("f", Ti); ("b", Ts)] [("", Ti)] false.
Definition w_f_last : sig := mkSig [("a", Ti); ("f", Ts)] [("", Ti)] false.
Definition w_f_result : sig := mkSig [("a", Ti); ("b", Ts)] [("r", Ti); ("f", Ts)] false.
Definition w_f_inner : csig := mkCsig [("a", Ti)] "" [("f", Ti)] [("", Ti)] false.

Theorem plumb_param_f_refuted :
  run_curry res0 fixed FUEL w_f_first (prim_flat w_f_first) [v1; v2] = RIll
  /\ run_flip res0 fixed FUEL w_f_last (prim_flat w_f_last) [v1; v2] = RIll
  /\ run_apply res0 fixed FUEL w_f_first (prim_flat w_f_first) [v1; v2] = RIll
  /\ run_apply res0 fixed FUEL w_f_last (prim_flat w_f_last) [v1; v2] = RIll
  /\ run_uncurry res0 fixed FUEL w_f_inner (prim_curried w_f_inner) [v1; v2] = RIll
  /\ run_curry res0 fixed FUEL w_f_result (prim_flat w_f_result) [v1; v2] = RIll
  /\ (* repaired: *)
     run_curry res0 hygienic FUEL w_f_first (prim_flat w_f_first) [v1; v2] = ROk [VBase 0] [(0, [v1; v2])]
  /\ run_flip res0 hygienic FUEL w_f_last (prim_flat w_f_last) [v1; v2] = ROk [VBase 0] [(0, [v2; v1])]
  /\ run_apply res0 hygienic FUEL w_f_last (prim_flat w_f_last) [v1; v2] = ROk [VBase 0] [(0, [v1; v2])]
  /\ run_uncurry res0 hygienic FUEL w_f_inner (prim_curried w_f_inner) [v1; v2] = ROk [VBase 0] [(0, [v1]); (1, [v2])]
  /\ run_curry res0 hygienic FUEL w_f_result (prim_flat w_f_result) [v1; v2] = ROk [VBase 0; VBase 1] [(0, [v1; v2])]
  /\ sig_fname hygienic w_f_first = "f_".
Proof. vm_compute. repeat split; reflexivity. Qed.

(* --- the old naming ([fixed], before repo-patches/C15-fix-2-uncurry-duplicate-names.patch):
       uncurry concatenates the two parameter lists without looking for a clash, also between a
       user's name and a name the generator made up itself; the current tree renames the outer
       parameter --- *)
Definition w_dup_a : csig := mkCsig [("a", Ti)] "" [("a", Ti)] [("", Ti)] false.
Definition w_dup_inner : csig := mkCsig [("innerParam_0", Ti)] "" [("_", Ti)] [("", Ti)] false.
Definition w_dup_param : csig := mkCsig [("_", Ti)] "" [("param_0", Ti)] [("", Ti)] false.

Definition outer_inner (c : option csig) : option (list name * list name) :=
  option_map (fun c => (names (c_outer c), names (c_inner c))) c.

Theorem plumb_uncurry_dup_refuted :
  run_uncurry res0 fixed FUEL w_dup_a (prim_curried w_dup_a) [v1; v2] = RIll
  /\ run_uncurry res0 fixed FUEL w_dup_inner (prim_curried w_dup_inner) [v1; v2] = RIll
  /\ run_uncurry res0 fixed FUEL w_dup_param (prim_curried w_dup_param) [v1; v2] = RIll
  /\ (* repaired: *)
     run_uncurry res0 hygienic FUEL w_dup_a (prim_curried w_dup_a) [v1; v2] = ROk [VBase 0] [(0, [v1]); (1, [v2])]
  /\ run_uncurry res0 hygienic FUEL w_dup_inner (prim_curried w_dup_inner) [v1; v2] = ROk [VBase 0] [(0, [v1]); (1, [v2])]
  /\ run_uncurry res0 hygienic FUEL w_dup_param (prim_curried w_dup_param) [v1; v2] = ROk [VBase 0] [(0, [v1]); (1, [v2])]
  /\ outer_inner (add_uncurry hygienic w_dup_a) = Some (["param_0"], ["a"])
  /\ outer_inner (add_uncurry hygienic w_dup_inner) = Some (["param_0"], ["innerParam_0"])
  /\ outer_inner (add_uncurry hygienic w_dup_param) = Some (["param_0_"], ["param_0"]).
Proof. vm_compute. repeat split; reflexivity. Qed.

(* --- the old naming ([fixed]), same patch: a made-up parameter name is the name of a result, and
       the outer parameter of uncurry is the name of an inner result or of the returned function --- *)
Definition w_res_prefix : sig := mkSig [("_", Ti); ("b", Ts)] [("param_0", Ti)] false.
Definition w_outer_res : csig := mkCsig [("a", Ti)] "" [("b", Ti)] [("a", Ti)] false.
Definition w_rname : csig := mkCsig [("_", Ti)] "param_0" [("b", Ti)] [("", Ti)] false.

Theorem plumb_result_clash_refuted :
  run_curry res0 fixed FUEL w_res_prefix (prim_flat w_res_prefix) [v1; v2] = RIll
  /\ run_flip res0 fixed FUEL w_res_prefix (prim_flat w_res_prefix) [v1; v2] = RIll
  /\ run_apply res0 fixed FUEL w_res_prefix (prim_flat w_res_prefix) [v1; v2] = RIll
  /\ run_uncurry res0 fixed FUEL w_outer_res (prim_curried w_outer_res) [v1; v2] = RIll
  /\ run_uncurry res0 fixed FUEL w_rname (prim_curried w_rname) [v1; v2] = RIll
  /\ (* repaired: *)
     run_curry res0 hygienic FUEL w_res_prefix (prim_flat w_res_prefix) [v1; v2] = ROk [VBase 0] [(0, [v1; v2])]
  /\ run_uncurry res0 hygienic FUEL w_outer_res (prim_curried w_outer_res) [v1; v2] = ROk [VBase 0] [(0, [v1]); (1, [v2])]
  /\ run_uncurry res0 hygienic FUEL w_rname (prim_curried w_rname) [v1; v2] = ROk [VBase 0] [(0, [v1]); (1, [v2])]
  /\ names (s_params (rename_sig hygienic "param_" w_res_prefix)) = ["param_0_"; "b"].
Proof. vm_compute. repeat split; reflexivity. Qed.
