(* Plumb/Shared.v — one derived function, several call sites.

   goderive identifies the function a call asks for by the *types* of its arguments
   (derive/typesmap.go: nameOf / eq, which ignore the names of parameters and results).  Two calls
   deriveCurry(g), deriveCurry(h) with g : func(a, b int, tag string) string and
   h : func(b, a int, tag string) string are therefore served by ONE generated function, printed
   from the signature of the call that registered the name first [s]; with --dedup the same happens
   for calls that ask for different names, with --autoname the name is made up, the function is not.
   The function printed for [s] is then applied to an original function of a signature [t] that
   has the same types and other names.

   Nothing in the evaluation of the closure nest depends on the names of [t]: the theorems below
   are the plumbing theorems of Proofs.v with the generating signature [s] and the signature [t]
   of the call site kept apart.  The only hypothesis on names is [src_ok] of the generating
   signature; the site's names are unconstrained (they never reach the printed text). *)
From Coq Require Import String List Bool Arith Lia.
From Verif Require Import Base Plumb.Model Plumb.Proofs.
Import ListNotations.
Open Scope string_scope.
Open Scope list_scope.

Definition same_sig_types (s t : sig) : Prop :=
  map snd (s_params s) = map snd (s_params t)
  /\ map snd (s_results s) = map snd (s_results t)
  /\ s_variadic s = s_variadic t.

Definition same_csig_types (c d : csig) : Prop :=
  map snd (c_outer c) = map snd (c_outer d)
  /\ map snd (c_inner c) = map snd (c_inner d)
  /\ map snd (c_results c) = map snd (c_results d)
  /\ c_variadic c = c_variadic d.

Lemma map_snd_length {A B} (l m : list (A * B)) : map snd l = map snd m -> length l = length m.
Proof. intro H. rewrite <- (map_length snd l), <- (map_length snd m), H. reflexivity. Qed.

Lemma prim_flat_same s t : same_sig_types s t -> prim_flat t = prim_flat s.
Proof.
  intros (Hp & Hr & _). unfold prim_flat.
  rewrite (map_snd_length _ _ Hp), (map_snd_length _ _ Hr). reflexivity.
Qed.

Lemma prim_curried_same c d : same_csig_types c d -> prim_curried d = prim_curried c.
Proof.
  intros (Ho & Hi & Hr & _). unfold prim_curried.
  rewrite (map_snd_length _ _ Ho), (map_snd_length _ _ Hi), (map_snd_length _ _ Hr). reflexivity.
Qed.

Section Shared.
Variable res : nat -> list (list val) -> val.

Theorem shared_curry (s t : sig) a1 rest k :
  same_sig_types s t ->
  s_variadic s = false ->
  src_ok (names (s_params s)) (names (s_results s)) = true ->
  2 <= length (s_params s) ->
  length (a1 :: rest) = length (s_params t) ->
  run_curry res hygienic (FUEL + k) s (prim_flat t) (a1 :: rest)
  = ROk (prim_results res (length (s_results t)) [a1 :: rest]) [(0, a1 :: rest)].
Proof.
  intros Hst Hv Hsrc H2 Hl. rewrite (prim_flat_same _ _ Hst).
  destruct Hst as (Hp & Hr & _).
  rewrite <- (map_snd_length _ _ Hr). rewrite <- (map_snd_length _ _ Hp) in Hl.
  now apply plumb_correct_curry.
Qed.

Theorem shared_flip (s t : sig) x1 x2 xs k :
  same_sig_types s t ->
  s_variadic s = false ->
  src_ok (names (s_params s)) (names (s_results s)) = true ->
  length (x1 :: x2 :: xs) = length (s_params t) ->
  run_flip res hygienic (FUEL + k) s (prim_flat t) (x1 :: x2 :: xs)
  = ROk (prim_results res (length (s_results t)) [x2 :: x1 :: xs]) [(0, x2 :: x1 :: xs)].
Proof.
  intros Hst Hv Hsrc Hl. rewrite (prim_flat_same _ _ Hst).
  destruct Hst as (Hp & Hr & _).
  rewrite <- (map_snd_length _ _ Hr). rewrite <- (map_snd_length _ _ Hp) in Hl.
  now apply plumb_correct_flip.
Qed.

Theorem shared_apply (s t : sig) vs bound k :
  same_sig_types s t ->
  s_variadic s = false ->
  src_ok (names (s_params s)) (names (s_results s)) = true ->
  length (vs ++ [bound]) = length (s_params t) ->
  run_apply res hygienic (FUEL + k) s (prim_flat t) (vs ++ [bound])
  = ROk (prim_results res (length (s_results t)) [vs ++ [bound]]) [(0, vs ++ [bound])].
Proof.
  intros Hst Hv Hsrc Hl. rewrite (prim_flat_same _ _ Hst).
  destruct Hst as (Hp & Hr & _).
  rewrite <- (map_snd_length _ _ Hr). rewrite <- (map_snd_length _ _ Hp) in Hl.
  now apply plumb_correct_apply.
Qed.

Theorem shared_uncurry (c d : csig) vo vi k :
  same_csig_types c d ->
  c_variadic c = false ->
  nodupb (filter bindable (names (c_outer c))) = true ->
  src_ok (names (c_inner c)) (names (c_results c)) = true ->
  length (c_outer c) = 1 ->
  length vo = length (c_outer d) -> length vi = length (c_inner d) ->
  run_uncurry res hygienic (FUEL + k) c (prim_curried d) (vo ++ vi)
  = ROk (prim_results res (length (c_results d)) [vo; vi]) [(0, vo); (1, vi)].
Proof.
  intros Hcd Hv Hnd Hsrc H1 Hlo Hli. rewrite (prim_curried_same _ _ Hcd).
  destruct Hcd as (Ho & Hi & Hr & _).
  rewrite <- (map_snd_length _ _ Hr).
  rewrite <- (map_snd_length _ _ Ho) in Hlo. rewrite <- (map_snd_length _ _ Hi) in Hli.
  now apply plumb_correct_uncurry.
Qed.

Theorem shared_roundtrip (s t : sig) a1 rest k :
  same_sig_types s t ->
  s_variadic s = false ->
  src_ok (names (s_params s)) (names (s_results s)) = true ->
  2 <= length (s_params s) ->
  length (a1 :: rest) = length (s_params t) ->
  run_roundtrip res hygienic (FUEL + k) s (prim_flat t) (a1 :: rest)
  = ROk (prim_results res (length (s_results t)) [a1 :: rest]) [(0, a1 :: rest)].
Proof.
  intros Hst Hv Hsrc H2 Hl. rewrite (prim_flat_same _ _ Hst).
  destruct Hst as (Hp & Hr & _).
  rewrite <- (map_snd_length _ _ Hr). rewrite <- (map_snd_length _ _ Hp) in Hl.
  now apply uncurry_curry_id.
Qed.

Theorem shared_call_sites (s t : sig) k :
  same_sig_types s t ->
  s_variadic s = false ->
  src_ok (names (s_params s)) (names (s_results s)) = true ->
  (forall a1 rest, 2 <= length (s_params s) -> length (a1 :: rest) = length (s_params t) ->
     run_curry res hygienic (FUEL + k) s (prim_flat t) (a1 :: rest)
     = ROk (prim_results res (length (s_results t)) [a1 :: rest]) [(0, a1 :: rest)])
  /\ (forall x1 x2 xs, length (x1 :: x2 :: xs) = length (s_params t) ->
     run_flip res hygienic (FUEL + k) s (prim_flat t) (x1 :: x2 :: xs)
     = ROk (prim_results res (length (s_results t)) [x2 :: x1 :: xs]) [(0, x2 :: x1 :: xs)])
  /\ (forall vs bound, length (vs ++ [bound]) = length (s_params t) ->
     run_apply res hygienic (FUEL + k) s (prim_flat t) (vs ++ [bound])
     = ROk (prim_results res (length (s_results t)) [vs ++ [bound]]) [(0, vs ++ [bound])])
  /\ (forall a1 rest, 2 <= length (s_params s) -> length (a1 :: rest) = length (s_params t) ->
     run_roundtrip res hygienic (FUEL + k) s (prim_flat t) (a1 :: rest)
     = ROk (prim_results res (length (s_results t)) [a1 :: rest]) [(0, a1 :: rest)]).
Proof.
  intros Hst Hv Hsrc. repeat split; intros.
  - now apply shared_curry.
  - now apply shared_flip.
  - now apply shared_apply.
  - now apply shared_roundtrip.
Qed.

End Shared.

(* ---------- the boolean the evaluator computes ---------- *)
(* the harness only writes base types; a function type is never "the same" for the evaluator *)
Definition ty_eqb (a b : ty) : bool :=
  match a, b with TBase x, TBase y => String.eqb x y | _, _ => false end.

Fixpoint tys_eqb (l m : list ty) : bool :=
  match l, m with
  | [], [] => true
  | a :: l', b :: m' => ty_eqb a b && tys_eqb l' m'
  | _, _ => false
  end.

Lemma ty_eqb_eq a b : ty_eqb a b = true -> a = b.
Proof.
  destruct a, b; cbn; try discriminate. intro H. apply String.eqb_eq in H. now subst.
Qed.

Lemma tys_eqb_eq l : forall m, tys_eqb l m = true -> l = m.
Proof.
  induction l as [|a l IH]; intros [|b m]; cbn; try discriminate; [reflexivity|].
  intro H. apply andb_prop in H. destruct H as [H1 H2].
  rewrite (ty_eqb_eq _ _ H1), (IH _ H2). reflexivity.
Qed.

Definition same_sig_typesb (s t : sig) : bool :=
  tys_eqb (map snd (s_params s)) (map snd (s_params t))
  && tys_eqb (map snd (s_results s)) (map snd (s_results t))
  && Bool.eqb (s_variadic s) (s_variadic t).

Definition same_csig_typesb (c d : csig) : bool :=
  tys_eqb (map snd (c_outer c)) (map snd (c_outer d))
  && tys_eqb (map snd (c_inner c)) (map snd (c_inner d))
  && tys_eqb (map snd (c_results c)) (map snd (c_results d))
  && Bool.eqb (c_variadic c) (c_variadic d).

Lemma same_sig_typesb_sound s t : same_sig_typesb s t = true -> same_sig_types s t.
Proof.
  unfold same_sig_typesb, same_sig_types. intro H.
  apply andb_prop in H. destruct H as [H Hv]. apply andb_prop in H. destruct H as [Hp Hr].
  repeat split; [now apply tys_eqb_eq | now apply tys_eqb_eq | now apply Bool.eqb_prop].
Qed.

Lemma same_csig_typesb_sound c d : same_csig_typesb c d = true -> same_csig_types c d.
Proof.
  unfold same_csig_typesb, same_csig_types. intro H.
  apply andb_prop in H. destruct H as [H Hv]. apply andb_prop in H. destruct H as [H Hr].
  apply andb_prop in H. destruct H as [Ho Hi].
  repeat split; [now apply tys_eqb_eq | now apply tys_eqb_eq | now apply tys_eqb_eq | now apply Bool.eqb_prop].
Qed.

(* the hypotheses are satisfiable on a non-trivial input: sub(a, b int, tag string) and
   ratio(b, a int, tag string) — the second site has the first site's names on other parameters *)
Definition ex_sub : sig :=
  mkSig [("a", TBase "int"); ("b", TBase "int"); ("tag", TBase "string")] [("", TBase "string")] false.
Definition ex_ratio : sig :=
  mkSig [("b", TBase "int"); ("a", TBase "int"); ("tag", TBase "string")] [("r", TBase "string")] false.

Example ex_same : same_sig_typesb ex_sub ex_ratio = true.
Proof. vm_compute. reflexivity. Qed.

Example ex_shared_curry :
  run_curry (fun j _ => VBase (Z.of_nat j)) hygienic FUEL ex_sub (prim_flat ex_ratio) [VBase 10; VBase 3; VBase 7]
  = ROk [VBase 0] [(0, [VBase 10; VBase 3; VBase 7])].
Proof. vm_compute. reflexivity. Qed.
