(* Eval04.v — evaluation of C04 observations: generated deriveHash vs the model; Equal => same hash. *)
From Coq Require Import String.
From Verif Require Import Base Sexp Go.Ty Go.Val Go.Equal Go.Compare Go.Hash Eval03.
Open Scope string_scope.

Definition nres_sexp (r : res N) : sexp :=
  match r with
  | Ok c => L [Sym "ret"; L [Sym "i"; Num (Z.of_N c)]]
  | Pan => Sym "panic" | Unsup => Sym "unsupported" | Stuck => Sym "stuck"
  end.

Definition nmok (m : res N) (real : sexp) : bool :=
  match m with Unsup => true | _ => sexp_eqb (nres_sexp m) real end.

Definition eval04 (e : sexp) : verdict :=
  match e with
  | L [Sym k; tys; xs; L [Sym _; ret; L [Sym _; Num same]]] =>
      if String.eqb k "hash+" then
        match parse_ty tys, parse_val xs with
        | Some t, Some x =>
            let typed := has_type [] t x in
            let m := hash_model t x in
            {| v_known := typed;
               v_model_ok := nmok m ret;
               v_spec_ok := Z.eqb same 1;      (* the argument is unchanged *)
               v_guard := typed; v_model := nres_sexp m;
               v_tag := "hash/" ++ node_tag t |}
        | _, _ => bad_line
        end
      else bad_line
  | L [Sym k; tys; xs; ys; L [Sym _; hx; hy; eq]] =>
      if String.eqb k "hasheq" then
        match parse_ty tys, parse_val xs, parse_val ys, get_i hx, get_i hy, get_b eq with
        | Some t, Some x, Some y, Some hx', Some hy', Some eq' =>
            let typed := (has_type [] t x && has_type [] t y)%bool in
            let se := spec_eq [] t x y in
            {| v_known := typed;
               v_model_ok := (nmok (hash_model t x) (L [Sym "ret"; hx])
                              && nmok (hash_model t y) (L [Sym "ret"; hy])
                              && match Equal.eqm [] Top t x y with Ok b => Bool.eqb b eq' | Unsup => true | _ => false end)%bool;
               (* values that derived Equal (and the structural reference) judge equal hash alike *)
               v_spec_ok := (negb (eq' || match se with Some b => b | None => false end) || Z.eqb hx' hy')%bool;
               v_guard := typed; v_model := nres_sexp (hash_model t x);
               v_tag := "hasheq/" ++ node_tag t ++ "/" ++ (if eq' then "equal" else "different")
                        ++ (if Z.eqb hx' hy' then "/same-hash" else "/different-hash") |}
        | _, _, _, _, _, _ => bad_line
        end
      else bad_line
  | L [Sym k; tys; Sym cls] =>
      if String.eqb k "sup-hash" then
        match parse_ty tys with
        | Some t =>
            let sup := (hash_sup t && eq_sup [] Top t)%bool in
            let real_ok := String.eqb cls "ok" in
            let real_err := String.eqb cls "generator-error" in
            let crash := (String.eqb cls "panic" || String.eqb cls "timeout")%bool in
            (* a type the model refuses can still be accepted by goderive when an identical named
               type of the package serves it by assignability (C08/C11's subject): not judged *)
            let ok := (crash || if sup then real_ok else (real_err || real_ok))%bool in
            {| v_known := true; v_model_ok := ok; v_spec_ok := ok; v_guard := true;
               v_model := Sym (if sup then "ok" else "generator-error");
               v_tag := "support/" ++ (if crash then "generator-crash-see-C09"
                                       else if sup then "supported"
                                       else if real_ok then "accepted-beyond-model" else "unsupported") |}
        | None => bad_line
        end
      else bad_line
  | _ => bad_line
  end.
