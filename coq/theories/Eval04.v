(* Eval04.v — evaluation of C04 observations (stub: replaced when C04 is built). *)
From Verif Require Import Base Sexp.
Open Scope string_scope.

Definition eval04 (e : sexp) : verdict := bad_line.
