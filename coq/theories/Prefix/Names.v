(* Prefix/Names.v — model of typesMap.newName (derive/typesmap.go): helper names are minted
   from the plugin's CURRENT prefix.

     i := 0; funcName := prefix
     for exists(funcName) || reserved(funcName) {
         if i > len(name) { funcName = prefix + "_" + name + strconv.Itoa(i) }
         else             { funcName = prefix + "_" + name[:i] }
         i++
     }

   so the candidates are  prefix, prefix_, prefix_N, prefix_Na, ..., prefix_Name, prefix_Name<len+1>, ...
   where Name is the name of the first argument type (named or basic), "" otherwise. *)
From Coq Require Import String.
From Coq Require Import List NArith Arith Bool Lia Decimal DecimalNat.
From Verif Require Import Prefix.Str.
Import ListNotations.

Fixpoint uint_bytes (d : Decimal.uint) : str :=
  match d with
  | Nil => []
  | D0 r => 48%N :: uint_bytes r | D1 r => 49%N :: uint_bytes r | D2 r => 50%N :: uint_bytes r
  | D3 r => 51%N :: uint_bytes r | D4 r => 52%N :: uint_bytes r | D5 r => 53%N :: uint_bytes r
  | D6 r => 54%N :: uint_bytes r | D7 r => 55%N :: uint_bytes r | D8 r => 56%N :: uint_bytes r
  | D9 r => 57%N :: uint_bytes r
  end.

(* strconv.Itoa on a non-negative int *)
Definition itoa (n : nat) : str := uint_bytes (Nat.to_uint n).

Lemma uint_bytes_inj a b : uint_bytes a = uint_bytes b -> a = b.
Proof.
  revert b; induction a; intros b H; destruct b; cbn in H; try discriminate; try reflexivity;
    inversion H; f_equal; auto.
Qed.

Lemma itoa_inj a b : itoa a = itoa b -> a = b.
Proof.
  unfold itoa. intros H. apply uint_bytes_inj in H.
  rewrite <- (Unsigned.of_to a), <- (Unsigned.of_to b), H. reflexivity.
Qed.

Definition underscore : str := [95%N].

(* the part of the i-th candidate after the prefix *)
Definition cand_suffix (name : str) (i : nat) : str :=
  match i with
  | 0 => []
  | S j => if length name <? j then underscore ++ name ++ itoa j else underscore ++ firstn j name
  end.

Definition cand (prefix name : str) (i : nat) : str := prefix ++ cand_suffix name i.

(* the loop, with explicit fuel; None = fuel exhausted (excluded by new_name_terminates) *)
Fixpoint new_name_from (fuel i : nat) (prefix name : str) (taken : str -> bool) : option str :=
  match fuel with
  | 0 => None
  | S f => let c := cand prefix name i in
           if taken c then new_name_from f (S i) prefix name taken else Some c
  end.

Definition new_name (fuel : nat) (prefix name : str) (taken : str -> bool) : option str :=
  new_name_from fuel 0 prefix name taken.

(* ---------- properties ---------- *)

Lemma new_name_from_spec fuel i prefix name taken r :
  new_name_from fuel i prefix name taken = Some r ->
  exists k, r = cand prefix name (i + k) /\ taken r = false /\
            forall j, j < k -> taken (cand prefix name (i + j)) = true.
Proof.
  revert i; induction fuel as [|f IH]; intros i H; cbn in H; [discriminate|].
  destruct (taken (cand prefix name i)) eqn:E.
  - destruct (IH _ H) as (k & Hr & Ht & Hj). exists (S k).
    rewrite Nat.add_succ_r. split; [exact Hr|]. split; [exact Ht|].
    intros [|j] Hlt; [rewrite Nat.add_0_r; exact E|].
    rewrite Nat.add_succ_r. apply Hj. lia.
  - inversion H; subst. exists 0. rewrite Nat.add_0_r. split; [reflexivity|]. split; [exact E|].
    intros j Hj; lia.
Qed.

Theorem new_name_fresh fuel prefix name taken r :
  new_name fuel prefix name taken = Some r -> taken r = false.
Proof. intros H. destruct (new_name_from_spec _ _ _ _ _ _ H) as (k & _ & Ht & _). exact Ht. Qed.

Theorem new_name_has_prefix fuel prefix name taken r :
  new_name fuel prefix name taken = Some r -> is_prefix prefix r = true.
Proof.
  intros H. destruct (new_name_from_spec _ _ _ _ _ _ H) as (k & -> & _). apply is_prefix_app.
Qed.

(* Equivariance: with another prefix and a taken-set that agrees suffix by suffix, the minted
   name is the same suffix on the new prefix.  (The suffixes never mention the prefix.) *)
Theorem new_name_equivariant fuel p p' name taken taken' :
  (forall x, taken' (p' ++ x) = taken (p ++ x)) ->
  new_name fuel p' name taken' =
  option_map (fun r => p' ++ skipn (length p) r) (new_name fuel p name taken).
Proof.
  intros Ht. unfold new_name. generalize 0 as i.
  induction fuel as [|f IH]; intros i; cbn; [reflexivity|].
  unfold cand at 1 3. rewrite Ht. fold (cand p name i).
  destruct (taken (cand p name i)); [apply IH|].
  cbn. unfold cand. rewrite skipn_app, skipn_all, Nat.sub_diag. reflexivity.
Qed.

(* A mutant that mints from a fixed default prefix instead is not equivariant *)
Theorem new_name_default_prefix_refuted :
  let dflt := s "deriveEqual"%string in
  let taken := fun _ : str => false in
  new_name 5 dflt [] taken <> option_map (fun r => s "eq"%string ++ skipn (length dflt) r) (new_name 5 dflt [] taken)
  /\ new_name 5 (s "eq"%string) [] taken = Some (s "eq"%string).
Proof. vm_compute. split; [discriminate | reflexivity]. Qed.

(* candidates are pairwise different, so the loop ends after at most |taken|+1 rounds *)
Lemma cand_suffix_length name i :
  length (cand_suffix name i) =
  match i with 0 => 0 | S j => if length name <? j then 1 + length name + length (itoa j) else 1 + j end.
Proof.
  destruct i as [|j]; cbn [cand_suffix]; [reflexivity|].
  destruct (length name <? j) eqn:E.
  - cbn. rewrite app_length. reflexivity.
  - apply Nat.ltb_ge in E. cbn. rewrite firstn_length. f_equal. lia.
Qed.

Lemma itoa_nonempty j : itoa j <> [].
Proof.
  unfold itoa. intros H.
  assert (E : Nat.to_uint j = Nil) by (apply uint_bytes_inj; exact H).
  pose proof (Unsigned.to_of (Nat.to_uint j)) as U. rewrite Unsigned.of_to, E in U.
  vm_compute in U. discriminate.
Qed.

Lemma cand_suffix_inj name i j : cand_suffix name i = cand_suffix name j -> i = j.
Proof.
  intros H. pose proof (f_equal (@length N) H) as HL. rewrite !cand_suffix_length in HL.
  destruct i as [|a], j as [|b]; try reflexivity.
  - destruct (length name <? b); lia.
  - destruct (length name <? a); lia.
  - cbn [cand_suffix] in H.
    destruct (length name <? a) eqn:Ea, (length name <? b) eqn:Eb;
      rewrite ?Nat.ltb_lt, ?Nat.ltb_ge in *.
    + inversion H as [H1]. apply app_inv_head in H1. apply itoa_inj in H1. congruence.
    + assert (0 < length (itoa a)) by (pose proof (itoa_nonempty a); destruct (itoa a); cbn; [congruence|lia]). lia.
    + assert (0 < length (itoa b)) by (pose proof (itoa_nonempty b); destruct (itoa b); cbn; [congruence|lia]). lia.
    + lia.
Qed.

Theorem cand_inj prefix name i j : cand prefix name i = cand prefix name j -> i = j.
Proof. unfold cand. intros H. apply app_inv_head in H. apply cand_suffix_inj in H. exact H. Qed.

(* non-vacuity: the sequence goderive really produces for a type named "Foo" *)
Example ex_cands :
  map (cand (s "eq"%string) (s "Foo"%string)) [0; 1; 2; 3; 4; 5; 6]
  = map s ["eq"; "eq_"; "eq_F"; "eq_Fo"; "eq_Foo"; "eq_Foo4"; "eq_Foo5"]%string.
Proof. vm_compute. reflexivity. Qed.

Example ex_new_name :
  new_name 10 (s "eq"%string) (s "Foo"%string)
           (fun c => existsb (str_eqb c) (map s ["eq"; "eq_"; "eq_Fo"]%string))
  = Some (s "eq_F"%string).
Proof. vm_compute. reflexivity. Qed.

(* ---------- minted names and other plugins ---------- *)
From Verif Require Import Prefix.Dispatch.
From Coq Require Import Permutation Sorted.

(* A name minted by plugin a is dispatched back to a (so it can neither be, nor ever be taken
   for, a name of another plugin) unless some other prefix is a's prefix followed by "_..." *)
Definition no_underscore_nesting (ps : list plugin) : Prop :=
  forall a b, In a ps -> In b ps -> is_prefix (pprefix a ++ underscore) (pprefix b) = false.

Lemma cand_suffix_shape name i : cand_suffix name i = [] \/ exists r, cand_suffix name i = underscore ++ r.
Proof.
  destruct i as [|j]; cbn [cand_suffix]; [left; reflexivity|right].
  destruct (length name <? j); eexists; reflexivity.
Qed.

Lemma is_prefix_app_split p q x :
  is_prefix q (p ++ x) = true -> length p < length q -> exists y, q = p ++ y /\ y <> [] /\ is_prefix y x = true.
Proof.
  revert q; induction p as [|a p IH]; intros q H L.
  - exists q. split; [reflexivity|]. split; [destruct q; [cbn in L; lia | discriminate] | exact H].
  - destruct q as [|b q]; [cbn in L; lia|]. cbn in H. apply andb_true_iff in H. destruct H as [E H].
    apply N.eqb_eq in E. subst b. cbn in L. destruct (IH q H ltac:(lia)) as (y & -> & Hy & Hp).
    exists y. split; [reflexivity|]. split; assumption.
Qed.

Lemma same_prefix_same_plugin_names ps p q :
  distinct_prefixes ps -> In p ps -> In q ps -> pprefix p = pprefix q -> p = q.
Proof.
  unfold distinct_prefixes. induction ps as [|a t IH]; intros Hd Hp Hq E; [contradiction|].
  cbn in Hd. inversion Hd as [|x l Hn Hd']; subst.
  destruct Hp as [<-|Hp]; destruct Hq as [<-|Hq]; auto.
  - exfalso. apply Hn. rewrite E. apply in_map; exact Hq.
  - exfalso. apply Hn. rewrite <- E. apply in_map; exact Hp.
Qed.

Theorem minted_dispatch_home ps ps' a name i :
  distinct_prefixes ps -> Permutation ps' ps -> no_underscore_nesting ps -> In a ps ->
  dispatch (sort_plugins ps') (cand (pprefix a) name i) = Some a.
Proof.
  intros Hd Hp Hn Ha.
  pose proof (dispatch_longest ps ps' (cand (pprefix a) name i) Hd Hp) as H.
  destruct (dispatch (sort_plugins ps') (cand (pprefix a) name i)) as [b|].
  - destruct H as (Hb & Hm & Hmax). f_equal.
    assert (Hma : matches (cand (pprefix a) name i) a) by apply is_prefix_app.
    specialize (Hmax a Ha Hma).
    destruct (Nat.eq_dec (length (pprefix b)) (length (pprefix a))) as [E|E].
    + eapply same_prefix_same_plugin_names; eauto. eapply is_prefix_same_length; eauto.
    + exfalso. unfold matches, cand in Hm.
      destruct (is_prefix_app_split _ _ _ Hm ltac:(lia)) as (y & Ey & Hy & Hpy).
      destruct (cand_suffix_shape name i) as [S|[r S]]; rewrite S in Hpy.
      * destruct y; [congruence | discriminate].
      * destruct y as [|c y]; [congruence|]. cbn in Hpy. apply andb_true_iff in Hpy. destruct Hpy as [Ec _].
        apply N.eqb_eq in Ec. subst c.
        specialize (Hn a b Ha Hb). rewrite Ey in Hn.
        replace (pprefix a ++ 95%N :: y) with ((pprefix a ++ underscore) ++ y) in Hn
          by (rewrite <- app_assoc; reflexivity).
        rewrite is_prefix_app in Hn. discriminate.
  - specialize (H a Ha). unfold cand in H. rewrite is_prefix_app in H. discriminate.
Qed.

(* The pinned tree: every plugin has its own table, so with equal=eq, sort=eq_ the helper that equal
   mints for a nested type IS the name of sort's function: two declarations of eq_ *)
Theorem minted_name_collision_refuted :
  let equal_table := [s "eq"%string] in          (* the user's call eq(a1, a2) *)
  let sort_name := s "eq_"%string in             (* the user's call eq_(ints), handled by sort=eq_ *)
  new_name 10 (s "eq"%string) [] (fun c => existsb (str_eqb c) equal_table) = Some sort_name.
Proof. vm_compute. reflexivity. Qed.

(* the repaired tree: names are reserved package wide, the helper moves on *)
Example minted_name_collision_fixed :
  new_name 10 (s "eq"%string) [] (fun c => existsb (str_eqb c) [s "eq"%string; s "eq_"%string]) = Some (s "eq_1"%string).
Proof. vm_compute. reflexivity. Qed.

Example ex_no_underscore_nesting :
  no_underscore_nesting [mkP (s "equal"%string) (s "derive"%string); mkP (s "sort"%string) (s "deriveS"%string)].
Proof.
  intros a b [<-|[<-|[]]] [<-|[<-|[]]]; vm_compute; reflexivity.
Qed.
