(* Prefix/Str.v — Go strings as byte lists: prefix test, byte-wise lexicographic order,
   strings.Replace(s, old, new, 1).  Standard library only. *)
From Coq Require Import Ascii String.
From Coq Require Import List NArith Arith Bool Lia.
Import ListNotations.

Definition str := list N.

(* readable literals for the translated plugin table and the examples *)
Definition s (x : string) : str := map N_of_ascii (list_ascii_of_string x).

Fixpoint str_eqb (a b : str) : bool :=
  match a, b with
  | [], [] => true
  | x :: a', y :: b' => N.eqb x y && str_eqb a' b'
  | _, _ => false
  end.

Lemma str_eqb_eq a b : str_eqb a b = true <-> a = b.
Proof.
  revert b; induction a as [|x a IH]; intros [|y b]; cbn; try (split; congruence).
  rewrite andb_true_iff, N.eqb_eq, IH. split; [intros [-> ->]; reflexivity | intros H; inversion H; auto].
Qed.

Lemma str_eqb_refl a : str_eqb a a = true.
Proof. apply str_eqb_eq; reflexivity. Qed.

Lemma str_eqb_neq a b : str_eqb a b = false <-> a <> b.
Proof.
  split; intros H.
  - intros E. apply str_eqb_eq in E. congruence.
  - destruct (str_eqb a b) eqn:E; [apply str_eqb_eq in E; contradiction | reflexivity].
Qed.

(* strings.HasPrefix(s, p) *)
Fixpoint is_prefix (p x : str) : bool :=
  match p, x with
  | [], _ => true
  | a :: p', b :: x' => N.eqb a b && is_prefix p' x'
  | _ :: _, [] => false
  end.

Lemma is_prefix_spec p x : is_prefix p x = true <-> exists r, x = p ++ r.
Proof.
  revert x; induction p as [|a p IH]; intros x; cbn.
  - split; [intros _; exists x; reflexivity | reflexivity].
  - destruct x as [|b x].
    + split; [discriminate | intros [r H]; discriminate].
    + rewrite andb_true_iff, N.eqb_eq, IH. split.
      * intros [-> [r ->]]. exists r; reflexivity.
      * intros [r H]. inversion H; subst. split; [reflexivity | exists r; reflexivity].
Qed.

Lemma is_prefix_app p r : is_prefix p (p ++ r) = true.
Proof. apply is_prefix_spec; exists r; reflexivity. Qed.

Lemma is_prefix_length p x : is_prefix p x = true -> length p <= length x.
Proof. intros H; apply is_prefix_spec in H; destruct H as [r ->]; rewrite app_length; lia. Qed.

Lemma is_prefix_same_head h x y : is_prefix (h ++ x) (h ++ y) = is_prefix x y.
Proof. induction h as [|a h IH]; cbn; [reflexivity|]. rewrite N.eqb_refl; exact IH. Qed.

(* two prefixes of one string that have the same length are the same string *)
Lemma is_prefix_same_length p q x :
  is_prefix p x = true -> is_prefix q x = true -> length p = length q -> p = q.
Proof.
  revert q x; induction p as [|a p IH]; intros [|b q] [|c x]; cbn; try discriminate; try reflexivity.
  rewrite !andb_true_iff, !N.eqb_eq. intros [-> Hp] [-> Hq] Hl. f_equal. eapply IH; eauto.
Qed.

(* Go's < on strings: byte-wise lexicographic, a proper prefix is smaller *)
Fixpoint str_cmp (a b : str) : comparison :=
  match a, b with
  | [], [] => Eq
  | [], _ :: _ => Lt
  | _ :: _, [] => Gt
  | x :: a', y :: b' => match N.compare x y with Eq => str_cmp a' b' | c => c end
  end.

Definition str_gtb (a b : str) : bool := match str_cmp a b with Gt => true | _ => false end.

Lemma str_cmp_antisym a b : str_cmp a b = CompOpp (str_cmp b a).
Proof.
  revert b; induction a as [|x a IH]; intros [|y b]; cbn; try reflexivity.
  rewrite (N.compare_antisym y x). destruct (N.compare y x); cbn; auto.
Qed.

Lemma str_cmp_eq a b : str_cmp a b = Eq <-> a = b.
Proof.
  revert b; induction a as [|x a IH]; intros [|y b]; cbn; try (split; congruence).
  destruct (N.compare x y) eqn:E.
  - apply N.compare_eq_iff in E; subst. rewrite IH. split; [congruence | intros H; inversion H; auto].
  - split; [discriminate | intros H; inversion H; subst; rewrite N.compare_refl in E; discriminate].
  - split; [discriminate | intros H; inversion H; subst; rewrite N.compare_refl in E; discriminate].
Qed.

Lemma str_cmp_gt_trans a b c : str_cmp a b = Gt -> str_cmp b c = Gt -> str_cmp a c = Gt.
Proof.
  revert b c; induction a as [|x a IH]; intros [|y b] [|z c]; cbn; try discriminate; try reflexivity.
  destruct (N.compare x y) eqn:E1; destruct (N.compare y z) eqn:E2; try discriminate; intros H1 H2.
  - apply N.compare_eq_iff in E1, E2; subst. rewrite N.compare_refl. eauto.
  - apply N.compare_eq_iff in E1; subst. rewrite E2; reflexivity.
  - apply N.compare_eq_iff in E2; subst. rewrite E1; reflexivity.
  - assert (H : N.compare x z = Gt) by (rewrite N.compare_gt_iff in *; lia). rewrite H; reflexivity.
Qed.

Lemma str_cmp_same_head h x y : str_cmp (h ++ x) (h ++ y) = str_cmp x y.
Proof. induction h as [|a h IH]; cbn; [reflexivity|]. rewrite N.compare_refl; exact IH. Qed.

(* strings.Replace(x, old, new, 1): the first occurrence of old, searched from the left
   (for old = "" Go inserts new in front, which is what the first case does) *)
Fixpoint replace_first (old new x : str) : str :=
  if is_prefix old x then new ++ skipn (length old) x
  else match x with
       | [] => []
       | c :: x' => c :: replace_first old new x'
       end.

Lemma replace_first_head old new r : replace_first old new (old ++ r) = new ++ r.
Proof.
  destruct (old ++ r) eqn:E; cbn [replace_first].
  - rewrite <- E, is_prefix_app. f_equal. rewrite E.
    destruct old; [|discriminate]. cbn in *. subst; reflexivity.
  - rewrite <- E, is_prefix_app. f_equal.
    rewrite skipn_app, skipn_all, Nat.sub_diag. reflexivity.
Qed.

Lemma replace_first_absent old new x :
  (forall a b, x <> a ++ old ++ b) -> replace_first old new x = x.
Proof.
  induction x as [|c x IH]; intros H; cbn [replace_first].
  - destruct (is_prefix old []) eqn:E; [|reflexivity].
    apply is_prefix_spec in E. destruct E as [r E]. exfalso. apply (H [] r). exact E.
  - destruct (is_prefix old (c :: x)) eqn:E.
    + apply is_prefix_spec in E. destruct E as [r E]. exfalso. apply (H [] r). exact E.
    + f_equal. apply IH. intros a b E'. apply (H (c :: a) b). cbn. f_equal. exact E'.
Qed.
