(* Prefix/Gen.v — a model of how names flow through generation (derive/generate.go: newPackage,
   pkg.Generate; derive/typesmap.go: SetFuncName, GetFuncName, nameOf, Generating, ToGenerate) and
   the theorem that prefixes only rename.

   Abstract in: the classes of argument-type lists [T] (decidable equality: the quantifier of the
   property fixes pairwise non-assignable argument types, as in C11), the name [tyname] newName
   derives from a class, and the helper requests [requests k t] a plugin's Generate makes through
   GetFuncName on itself and on deps[...].  An emitted function is recorded as
   (plugin, class, its name, the names of the helpers its body calls): the text of a body is a fixed
   template of exactly these, so equality of records up to renaming is textual equality up to renaming. *)
From Coq Require Import String.
From Coq Require Import List NArith Arith Bool Lia.
From Verif Require Import Prefix.Str Prefix.Names.
Import ListNotations.

Section Gen.
  Variable T : Type.
  Variable T_eqb : T -> T -> bool.
  Variable tyname : T -> str.
  Variable requests : nat -> T -> list (nat * T).
  Variable nfuel : nat.                      (* fuel of newName's loop *)

  Definition table := list (str * T).        (* insertion ordered: typss / funcToTyps *)
  Record pstate := mkS { tab : table; gen : list T }.
  Definition state := nat -> pstate.         (* plugin id -> its typesMap *)

  Definition upd (st : state) (k : nat) (v : pstate) : state :=
    fun j => if Nat.eqb j k then v else st j.

  Definition names (tb : table) : list str := map fst tb.
  Definition mem_str (l : list str) (x : str) : bool := existsb (str_eqb x) l.
  Definition memT (t : T) (l : list T) : bool := existsb (T_eqb t) l.

  (* nameOf *)
  Definition name_of (tb : table) (t : T) : option str :=
    match find (fun e => T_eqb t (snd e)) tb with Some e => Some (fst e) | None => None end.

  (* newName looks at the plugin's own table and at the shared reserved set *)
  Definition taken (res : str -> bool) (tb : table) (c : str) : bool := mem_str (names tb) c || res c.

  (* GetFuncName *)
  Definition get_func_name (p : str) (res : str -> bool) (tb : table) (t : T) : option (str * table) :=
    match name_of tb t with
    | Some n => Some (n, tb)
    | None => match new_name nfuel p (tyname t) (taken res tb) with
              | Some n => Some (n, tb ++ [(n, t)])
              | None => None
              end
    end.

  (* SetFuncName for a user call, both flags off; None = "ambigious"/"conflicting" error *)
  Definition set_func_name (tb : table) (name : str) (t : T) : option table :=
    match name_of tb t with
    | Some n => if str_eqb n name then Some tb else None
    | None => if mem_str (names tb) name then None else Some (tb ++ [(name, t)])
    end.

  Record emitted := mkE { e_plugin : nat; e_class : T; e_name : str; e_helpers : list (nat * str) }.

  Section Run.
    Variable pfx : nat -> str.               (* current prefix of every plugin *)
    Variable res : str -> bool.              (* reserved: user functions called in the package *)

    Fixpoint do_requests (st : state) (rs : list (nat * T)) : option (state * list (nat * str)) :=
      match rs with
      | [] => Some (st, [])
      | (k', t') :: r =>
          match get_func_name (pfx k') res (tab (st k')) t' with
          | None => None
          | Some (n, tb') =>
              match do_requests (upd st k' (mkS tb' (gen (st k')))) r with
              | None => None
              | Some (st'', ns) => Some (st'', (k', n) :: ns)
              end
          end
      end.

    (* Generate(typs): Generating marks, the body asks for its helpers, the function is printed *)
    Definition gen_one (k : nat) (t : T) (st : state) : option (state * emitted) :=
      match name_of (tab (st k)) t with
      | None => None                          (* Generating panics on an unknown class *)
      | Some own =>
          match do_requests (upd st k (mkS (tab (st k)) (t :: gen (st k)))) (requests k t) with
          | None => None
          | Some (st', hs) => Some (st', mkE k t own hs)
          end
      end.

    Definition to_generate (ps : pstate) : list T :=
      filter (fun t => negb (memT t (gen ps))) (map snd (tab ps)).

    Fixpoint gen_list (k : nat) (ts : list T) (st : state) (out : list emitted) : option (state * list emitted) :=
      match ts with
      | [] => Some (st, out)
      | t :: r => match gen_one k t st with
                  | None => None
                  | Some (st', e) => gen_list k r st' (out ++ [e])
                  end
      end.

    (* one pass of `for _, plugin := range pkg.plugins` with the ToGenerate snapshot per plugin *)
    Fixpoint round (ord : list nat) (st : state) (out : list emitted) : option (state * list emitted) :=
      match ord with
      | [] => Some (st, out)
      | k :: r => match gen_list k (to_generate (st k)) st out with
                  | None => None
                  | Some (st', out') => round r st' out'
                  end
      end.

    Definition done (ord : list nat) (st : state) : bool :=
      forallb (fun k => match to_generate (st k) with [] => true | _ => false end) ord.

    (* `for !pkg.Done()`; None = error or fuel exhausted *)
    Fixpoint loop (fuel : nat) (ord : list nat) (st : state) (out : list emitted) : option (list emitted) :=
      match fuel with
      | 0 => None
      | S f => if done ord st then Some out
               else match round ord st out with
                    | None => None
                    | Some (st', out') => loop f ord st' out'
                    end
      end.

    (* newPackage: every user call (already dispatched to plugin k) is added first *)
    Fixpoint add_calls (calls : list (nat * str * T)) (st : state) : option state :=
      match calls with
      | [] => Some st
      | (k, n, t) :: r =>
          match set_func_name (tab (st k)) n t with
          | None => None
          | Some tb' => add_calls r (upd st k (mkS tb' (gen (st k))))
          end
      end.

    Definition init : state := fun _ => mkS [] [].

    Definition run (fuel : nat) (ord : list nat) (calls : list (nat * str * T)) : option (list emitted) :=
      match add_calls calls init with
      | None => None
      | Some st => loop fuel ord st []
      end.
  End Run.

  (* ---------- renaming ---------- *)
  Variables pfx pfx' : nat -> str.
  Variables res res' : str -> bool.
  (* the reserved names agree suffix by suffix (e.g. no user function carries a plugin prefix in either
     package, or the user's functions were renamed along) *)
  Hypothesis res_ok : forall k x, res' (pfx' k ++ x) = res (pfx k ++ x).

  Definition rn (k : nat) (n : str) : str := pfx' k ++ skipn (length (pfx k)) n.
  Definition rn_tab (k : nat) (tb : table) : table := map (fun e => (rn k (fst e), snd e)) tb.
  Definition rn_e (e : emitted) : emitted :=
    mkE (e_plugin e) (e_class e) (rn (e_plugin e) (e_name e)) (map (fun h => (fst h, rn (fst h) (snd h))) (e_helpers e)).
  Definition rn_call (c : nat * str * T) : nat * str * T :=
    match c with (k, n, t) => (k, rn k n, t) end.

  Definition wf_tab (k : nat) (tb : table) : Prop := forall e, In e tb -> is_prefix (pfx k) (fst e) = true.
  Definition wf (st : state) : Prop := forall k, wf_tab k (tab (st k)).
  Definition sim (st st' : state) : Prop :=
    forall k, gen (st' k) = gen (st k) /\ tab (st' k) = rn_tab k (tab (st k)).

  Lemma rn_app k x : rn k (pfx k ++ x) = pfx' k ++ x.
  Proof. unfold rn. rewrite skipn_app, skipn_all, Nat.sub_diag. reflexivity. Qed.

  Lemma rn_eqb k a b :
    is_prefix (pfx k) a = true -> is_prefix (pfx k) b = true -> str_eqb (rn k a) (rn k b) = str_eqb a b.
  Proof.
    intros Ha Hb. apply is_prefix_spec in Ha, Hb. destruct Ha as [x ->], Hb as [y ->].
    rewrite !rn_app. destruct (str_eqb (pfx k ++ x) (pfx k ++ y)) eqn:E.
    - apply str_eqb_eq in E. apply app_inv_head in E. subst. apply str_eqb_refl.
    - apply str_eqb_neq. apply str_eqb_neq in E. intros H. apply E. apply app_inv_head in H. congruence.
  Qed.

  Lemma name_of_rn k tb t : name_of (rn_tab k tb) t = option_map (rn k) (name_of tb t).
  Proof.
    unfold name_of, rn_tab. induction tb as [|e tb IH]; cbn; [reflexivity|].
    destruct (T_eqb t (snd e)); cbn; [reflexivity | exact IH].
  Qed.

  Lemma mem_rn k tb c :
    wf_tab k tb -> is_prefix (pfx k) c = true ->
    mem_str (names (rn_tab k tb)) (rn k c) = mem_str (names tb) c.
  Proof.
    unfold mem_str, names, rn_tab. induction tb as [|e tb IH]; intros W Hc; cbn; [reflexivity|].
    rewrite rn_eqb by (auto; apply W; left; reflexivity).
    f_equal. apply IH; [intros x Hx; apply W; right; exact Hx | exact Hc].
  Qed.

  Lemma wf_tab_app k tb n t : wf_tab k tb -> is_prefix (pfx k) n = true -> wf_tab k (tb ++ [(n, t)]).
  Proof.
    intros W H e He. apply in_app_or in He. destruct He as [He|[<-|[]]]; [apply W; exact He | exact H].
  Qed.

  Lemma rn_tab_app k tb n t : rn_tab k (tb ++ [(n, t)]) = rn_tab k tb ++ [(rn k n, t)].
  Proof. unfold rn_tab. rewrite map_app. reflexivity. Qed.

  Lemma get_func_name_rn k tb t :
    wf_tab k tb ->
    match get_func_name (pfx k) res tb t, get_func_name (pfx' k) res' (rn_tab k tb) t with
    | Some (n, tb1), Some (n', tb1') => n' = rn k n /\ tb1' = rn_tab k tb1 /\ wf_tab k tb1
    | None, None => True
    | _, _ => False
    end.
  Proof.
    intros W. unfold get_func_name. rewrite name_of_rn.
    destruct (name_of tb t) as [n|]; cbn [option_map]; [auto|].
    assert (E : new_name nfuel (pfx' k) (tyname t) (taken res' (rn_tab k tb))
                = option_map (fun r => pfx' k ++ skipn (length (pfx k)) r)
                             (new_name nfuel (pfx k) (tyname t) (taken res tb))).
    { apply new_name_equivariant. intros x. unfold taken.
      rewrite <- (rn_app k x), mem_rn by (auto; apply is_prefix_app). rewrite rn_app, res_ok. reflexivity. }
    rewrite E. destruct (new_name nfuel (pfx k) (tyname t) (taken res tb)) as [n|] eqn:N; cbn [option_map]; [|exact I].
    split; [reflexivity|]. split; [symmetry; apply rn_tab_app|].
    apply wf_tab_app; [exact W | eapply new_name_has_prefix; exact N].
  Qed.

  Lemma set_func_name_rn k tb n t :
    wf_tab k tb -> is_prefix (pfx k) n = true ->
    match set_func_name tb n t, set_func_name (rn_tab k tb) (rn k n) t with
    | Some tb1, Some tb1' => tb1' = rn_tab k tb1 /\ wf_tab k tb1
    | None, None => True
    | _, _ => False
    end.
  Proof.
    intros W Hn. unfold set_func_name. rewrite name_of_rn.
    destruct (name_of tb t) as [m|] eqn:Nm; cbn [option_map].
    - assert (Hm : is_prefix (pfx k) m = true).
      { unfold name_of in Nm. destruct (find _ tb) as [e|] eqn:F; [|discriminate].
        inversion Nm; subst. apply find_some in F. apply W. apply F. }
      rewrite rn_eqb by assumption. destruct (str_eqb m n); auto.
    - rewrite mem_rn by assumption. destruct (mem_str (names tb) n); [exact I|].
      split; [symmetry; apply rn_tab_app | apply wf_tab_app; assumption].
  Qed.

  Lemma sim_upd st st' k tb g :
    sim st st' -> sim (upd st k (mkS tb g)) (upd st' k (mkS (rn_tab k tb) g)).
  Proof.
    intros S j. unfold upd. destruct (Nat.eqb j k) eqn:E; [|apply S].
    apply Nat.eqb_eq in E. subst. cbn. split; reflexivity.
  Qed.

  Lemma wf_upd st k tb g : wf st -> wf_tab k tb -> wf (upd st k (mkS tb g)).
  Proof.
    intros W Wt j. unfold upd. destruct (Nat.eqb j k) eqn:E; [|apply W].
    apply Nat.eqb_eq in E. subst. exact Wt.
  Qed.

  Definition rn_h (h : nat * str) : nat * str := (fst h, rn (fst h) (snd h)).

  Lemma do_requests_rn rs : forall st st',
    sim st st' -> wf st ->
    match do_requests pfx res st rs, do_requests pfx' res' st' rs with
    | Some (s1, hs), Some (s1', hs') => sim s1 s1' /\ wf s1 /\ hs' = map rn_h hs
    | None, None => True
    | _, _ => False
    end.
  Proof.
    induction rs as [|[k t] r IH]; intros st st' S W; cbn [do_requests].
    - auto.
    - destruct (S k) as [Sg St]. rewrite St.
      pose proof (get_func_name_rn k (tab (st k)) t (W k)) as G.
      destruct (get_func_name (pfx k) res (tab (st k)) t) as [[n tb1]|];
        destruct (get_func_name (pfx' k) res' (rn_tab k (tab (st k))) t) as [[n' tb1']|]; try contradiction; [|exact I].
      destruct G as (-> & -> & W1). rewrite Sg.
      specialize (IH (upd st k (mkS tb1 (gen (st k)))) (upd st' k (mkS (rn_tab k tb1) (gen (st k))))
                     (sim_upd _ _ _ _ _ S) (wf_upd _ _ _ _ W W1)).
      destruct (do_requests pfx res _ r) as [[s1 hs]|]; destruct (do_requests pfx' res' _ r) as [[s1' hs']|];
        try contradiction; [|exact I].
      destruct IH as (S1 & W1' & ->). split; [exact S1|]. split; [exact W1'|]. reflexivity.
  Qed.

  Lemma gen_one_rn k t st st' :
    sim st st' -> wf st ->
    match gen_one pfx res k t st, gen_one pfx' res' k t st' with
    | Some (s1, e), Some (s1', e') => sim s1 s1' /\ wf s1 /\ e' = rn_e e
    | None, None => True
    | _, _ => False
    end.
  Proof.
    intros S W. unfold gen_one. destruct (S k) as [Sg St]. rewrite St, name_of_rn, Sg.
    destruct (name_of (tab (st k)) t) as [own|]; cbn [option_map]; [|exact I].
    pose proof (do_requests_rn (requests k t)
                  (upd st k (mkS (tab (st k)) (t :: gen (st k))))
                  (upd st' k (mkS (rn_tab k (tab (st k))) (t :: gen (st k))))
                  (sim_upd _ _ _ _ _ S) (wf_upd _ _ _ _ W (W k))) as D.
    destruct (do_requests pfx res _ _) as [[s1 hs]|]; destruct (do_requests pfx' res' _ _) as [[s1' hs']|];
      try contradiction; [|exact I].
    destruct D as (S1 & W1 & ->). split; [exact S1|]. split; [exact W1|]. reflexivity.
  Qed.

  Lemma to_generate_rn k st st' : sim st st' -> to_generate (st' k) = to_generate (st k).
  Proof.
    intros S. destruct (S k) as [Sg St]. unfold to_generate. rewrite Sg, St. unfold rn_tab.
    rewrite map_map. reflexivity.
  Qed.

  Lemma gen_list_rn k ts : forall st st' out,
    sim st st' -> wf st ->
    match gen_list pfx res k ts st out, gen_list pfx' res' k ts st' (map rn_e out) with
    | Some (s1, o), Some (s1', o') => sim s1 s1' /\ wf s1 /\ o' = map rn_e o
    | None, None => True
    | _, _ => False
    end.
  Proof.
    induction ts as [|t r IH]; intros st st' out S W; cbn [gen_list]; [auto|].
    pose proof (gen_one_rn k t st st' S W) as G.
    destruct (gen_one pfx res k t st) as [[s1 e]|]; destruct (gen_one pfx' res' k t st') as [[s1' e']|];
      try contradiction; [|exact I].
    destruct G as (S1 & W1 & ->).
    replace (map rn_e out ++ [rn_e e]) with (map rn_e (out ++ [e])) by (rewrite map_app; reflexivity).
    apply IH; assumption.
  Qed.

  Lemma round_rn ord : forall st st' out,
    sim st st' -> wf st ->
    match round pfx res ord st out, round pfx' res' ord st' (map rn_e out) with
    | Some (s1, o), Some (s1', o') => sim s1 s1' /\ wf s1 /\ o' = map rn_e o
    | None, None => True
    | _, _ => False
    end.
  Proof.
    induction ord as [|k r IH]; intros st st' out S W; cbn [round]; [auto|].
    rewrite (to_generate_rn k st st' S).
    pose proof (gen_list_rn k (to_generate (st k)) st st' out S W) as G.
    destruct (gen_list pfx res k _ st out) as [[s1 o]|]; destruct (gen_list pfx' res' k _ st' _) as [[s1' o']|];
      try contradiction; [|exact I].
    destruct G as (S1 & W1 & ->). apply IH; assumption.
  Qed.

  Lemma done_rn ord st st' : sim st st' -> done ord st' = done ord st.
  Proof.
    intros S. unfold done. induction ord as [|k r IH]; cbn [forallb]; [reflexivity|].
    rewrite (to_generate_rn k st st' S), IH. reflexivity.
  Qed.

  Lemma loop_rn fuel ord : forall st st' out,
    sim st st' -> wf st ->
    loop pfx' res' fuel ord st' (map rn_e out) = option_map (map rn_e) (loop pfx res fuel ord st out).
  Proof.
    induction fuel as [|f IH]; intros st st' out S W; cbn [loop]; [reflexivity|].
    rewrite (done_rn ord st st' S). destruct (done ord st); [reflexivity|].
    pose proof (round_rn ord st st' out S W) as R.
    destruct (round pfx res ord st out) as [[s1 o]|]; destruct (round pfx' res' ord st' _) as [[s1' o']|];
      try contradiction; [|reflexivity].
    destruct R as (S1 & W1 & ->). apply IH; assumption.
  Qed.

  Lemma add_calls_rn calls : forall st st',
    sim st st' -> wf st ->
    (forall k n t, In (k, n, t) calls -> is_prefix (pfx k) n = true) ->
    match add_calls calls st, add_calls (map rn_call calls) st' with
    | Some s1, Some s1' => sim s1 s1' /\ wf s1
    | None, None => True
    | _, _ => False
    end.
  Proof.
    induction calls as [|[[k n] t] r IH]; intros st st' S W Hc; cbn [add_calls map rn_call]; [auto|].
    destruct (S k) as [Sg St]. rewrite St, Sg.
    pose proof (set_func_name_rn k (tab (st k)) n t (W k) (Hc k n t (or_introl eq_refl))) as G.
    destruct (set_func_name (tab (st k)) n t) as [tb1|];
      destruct (set_func_name (rn_tab k (tab (st k))) (rn k n) t) as [tb1'|]; try contradiction; [|exact I].
    destruct G as (-> & W1).
    apply IH; [apply sim_upd; exact S | apply wf_upd; assumption |].
    intros k0 n0 t0 H0. apply (Hc k0 n0 t0). right; exact H0.
  Qed.

  (* The prefix map enters generation only through names: with the same plugin order the whole
     emission sequence under (pfx', res') is the renaming of the one under (pfx, res). *)
  Theorem run_equivariant fuel ord calls :
    (forall k n t, In (k, n, t) calls -> is_prefix (pfx k) n = true) ->
    run pfx' res' fuel ord (map rn_call calls) = option_map (map rn_e) (run pfx res fuel ord calls).
  Proof.
    intros Hc. unfold run.
    assert (S0 : sim init init) by (intros k; split; reflexivity).
    assert (W0 : wf init) by (intros k e []).
    pose proof (add_calls_rn calls init init S0 W0 Hc) as A.
    destruct (add_calls calls init) as [s1|]; destruct (add_calls (map rn_call calls) init) as [s1'|];
      try contradiction; [|reflexivity].
    destruct A as (S1 & W1). apply (loop_rn fuel ord s1 s1' [] S1 W1).
  Qed.
End Gen.
