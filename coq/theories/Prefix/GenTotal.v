(* Prefix/GenTotal.v — nothing but fuel makes the generation model fail, in any plugin order.

   The model (Prefix/Gen.v) returns None when newName's loop or the generate-until-done loop runs out of
   fuel (both loops are unbounded in the Go code), when Generating meets an unknown class (excluded by the
   invariant) or when newPackage reports conflicting user calls (independent of the order and of the
   prefixes).  run_succeeds: if the closure of the calls lies in a finite universe, the reserved set is
   finite, newName's fuel exceeds |universe| + |reserved| (pigeonhole on the pairwise distinct
   candidates) and the loop fuel exceeds |universe| + 1 (Worklist.loop_terminates), the run returns.
   customised_run_succeeds: hence a successful default run (whose output IS such a universe) implies that
   the customised run succeeds too, for any plugin order and prefix map. *)
From Coq Require Import String.
From Coq Require Import List NArith Arith Bool Lia Permutation.
From Verif Require Import Prefix.Str Prefix.Names Prefix.Gen Prefix.GenClosure Prefix.GenCanon.
Import ListNotations.

(* ---------- newName finds a name among fuel candidates when fewer than fuel are taken ---------- *)
Lemma new_name_from_none fuel : forall i p name taken,
  new_name_from fuel i p name taken = None -> forall j, j < fuel -> taken (cand p name (i + j)) = true.
Proof.
  induction fuel as [|f IH]; intros i p name taken H j Hj; [lia|]. cbn in H.
  destruct (taken (cand p name i)) eqn:E; [|discriminate].
  destruct j as [|j]; [rewrite Nat.add_0_r; exact E|].
  rewrite Nat.add_succ_r. apply (IH (S i) p name taken H j). lia.
Qed.

Lemma NoDup_map_inj {A B} (f : A -> B) l : (forall a b, f a = f b -> a = b) -> NoDup l -> NoDup (map f l).
Proof.
  intros Inj ND. induction ND as [|a l Hn ND IH]; cbn; constructor; [|exact IH].
  intros Hin. apply in_map_iff in Hin. destruct Hin as (b & E & Hb). apply Inj in E. subst. contradiction.
Qed.

Lemma new_name_some fuel p name taken (M : list str) :
  (forall c, taken c = true -> In c M) -> length M < fuel -> exists n, new_name fuel p name taken = Some n.
Proof.
  intros HM L. destruct (new_name fuel p name taken) as [n|] eqn:E; [exists n; reflexivity|]. exfalso.
  unfold new_name in E. pose proof (new_name_from_none _ _ _ _ _ E) as A.
  assert (ND : NoDup (map (cand p name) (seq 0 fuel))) by (apply NoDup_map_inj; [apply cand_inj | apply seq_NoDup]).
  assert (I : incl (map (cand p name) (seq 0 fuel)) M).
  { intros c Hc. apply in_map_iff in Hc. destruct Hc as (j & <- & Hj). apply in_seq in Hj.
    apply HM. apply (A j). lia. }
  pose proof (NoDup_incl_length ND I) as Len. rewrite map_length, seq_length in Len. lia.
Qed.

Section Total.
  Variable T : Type.
  Variable T_eqb : T -> T -> bool.
  Hypothesis T_eqb_spec : forall a b, reflect (a = b) (T_eqb a b).
  Variable tyname : T -> str.
  Variable requests : nat -> T -> list (nat * T).
  Variable nfuel : nat.

  Notation key := (key T).
  Notation state := (state T).
  Notation kreq := (kreq T requests).
  Notation ekey := (ekey T).
  Notation tab := (tab T).
  Notation gen := (gen T).
  Notation R := (R T requests).
  Notation closure := (closure T requests).
  Notation known := (known T requests).
  Notation key_eqb := (key_eqb T T_eqb).
  Notation plugin_of := (plugin_of T).

  Lemma get_func_name_some p res (L : list str) tb t :
    (forall c, res c = true -> In c L) -> length tb + length L < nfuel ->
    exists n tb', get_func_name T T_eqb tyname nfuel p res tb t = Some (n, tb').
  Proof.
    intros HL Len. unfold get_func_name. destruct (name_of T T_eqb tb t) as [m|]; [eauto|].
    destruct (new_name_some nfuel p (tyname t) (taken T res tb) (names T tb ++ L)) as (n & E).
    - intros c Hc. unfold taken in Hc. apply orb_true_iff in Hc. apply in_or_app.
      destruct Hc as [Hc|Hc]; [left; apply mem_str_In; exact Hc | right; apply HL, Hc].
    - rewrite app_length. unfold names. rewrite map_length. exact Len.
    - rewrite E. eauto.
  Qed.

  Section Run.
    Variable calls : list (nat * str * T).
    Variable univ : list key.
    Hypothesis univ_ok : forall q, closure calls q -> In q univ.
    Variable pfx : nat -> str.
    Variable res : str -> bool.
    Variable L : list str.
    Hypothesis res_fin : forall c, res c = true -> In c L.
    Hypothesis nfuel_ok : length univ + length L < nfuel.

    Notation do_requests := (do_requests T T_eqb tyname nfuel pfx res).
    Notation gen_one := (gen_one T T_eqb tyname requests nfuel pfx res).
    Notation gen_list := (gen_list T T_eqb tyname requests nfuel pfx res).
    Notation round := (round T T_eqb tyname requests nfuel pfx res).
    Notation loop := (loop T T_eqb tyname requests nfuel pfx res).
    Notation run := (run T T_eqb tyname requests nfuel pfx res).

    Lemma R_table_bound st ws k : R calls st ws -> length (tab (st k)) <= length univ.
    Proof.
      intros H.
      assert (E : length (tab (st k)) = length (filter (onp T k) (W.registered key ws))).
      { rewrite (R_reg _ _ _ _ _ H k). unfold classes. rewrite !map_length. reflexivity. }
      rewrite E. eapply Nat.le_trans; [apply filter_len_le|].
      apply NoDup_incl_length; [apply (R_nd _ _ _ _ _ H)|].
      intros q Hq. apply univ_ok, (R_cl _ _ _ _ _ H), Hq.
    Qed.

    Lemma P_do_requests rs : forall st ws,
      R calls st ws -> (forall q, In q rs -> closure calls q) ->
      exists st' hs, do_requests st rs = Some (st', hs).
    Proof.
      induction rs as [|[k t] r IH]; intros st ws H Hc; cbn [Gen.do_requests]; [eauto|].
      destruct (get_func_name_some (pfx k) res L (tab (st k)) t res_fin) as (n & tb' & G).
      { pose proof (R_table_bound st ws k H). lia. }
      rewrite G.
      destruct (IH (upd T st k (mkS T tb' (gen (st k)))) (W.register key key_eqb (k, t) ws)) as (s2 & ns & D).
      - eapply R_get_func_name; [exact T_eqb_spec | exact H | apply Hc; left; reflexivity | exact G].
      - intros q Hq. apply Hc. right. exact Hq.
      - rewrite D. eauto.
    Qed.

    Lemma P_gen_one k t st ws :
      R calls st ws -> In t (classes T (st k)) -> exists st' e, gen_one k t st = Some (st', e).
    Proof.
      intros H Hin. unfold Gen.gen_one.
      destruct (name_of T T_eqb (tab (st k)) t) as [own|] eqn:Nm.
      - destruct (P_do_requests (requests k t) (upd T st k (mkS T (tab (st k)) (t :: gen (st k))))
                    {| W.registered := W.registered key ws; W.generated := (k, t) :: W.generated key ws |})
          as (s1 & hs & D).
        + apply R_mark, H.
        + intros q Hq. apply (W.c_req key kreq _ (k, t) q); [|exact Hq].
          apply (R_cl _ _ _ _ _ H). apply (R_in_reg T requests calls st ws k t H). exact Hin.
        + rewrite D. eauto.
      - exfalso. apply (name_of_none T T_eqb T_eqb_spec) in Nm. apply Nm. exact Hin.
    Qed.

    Lemma P_gen_list k ts : forall st ws out,
      R calls st ws -> NoDup ts -> pending T k st ts ->
      exists st' out', gen_list k ts st out = Some (st', out').
    Proof.
      induction ts as [|t r IH]; intros st ws out H ND Hts; cbn [Gen.gen_list]; [eauto|].
      destruct (Hts t (or_introl eq_refl)) as [Hc _].
      destruct (P_gen_one k t st ws H Hc) as (s1 & e & G1). rewrite G1.
      pose proof (R_gen_one T T_eqb T_eqb_spec tyname requests nfuel calls pfx res k t st ws s1 e H Hc G1) as H1.
      inversion ND as [|? ? Hnin ND']; subst.
      apply (IH s1 _ (out ++ [e]) H1 ND').
      exact (pending_step T T_eqb T_eqb_spec requests calls k t r st ws s1 H H1 Hnin Hts).
    Qed.

    Lemma P_round ord0 ord : forall st ws out,
      known calls ord0 -> R calls st ws -> W.generated key ws = rev (map ekey out) ->
      exists st' out', round ord st out = Some (st', out').
    Proof.
      induction ord as [|k r IH]; intros st ws out K H G; cbn [Gen.round]; [eauto|].
      destruct (to_generate_pending T T_eqb T_eqb_spec requests calls st ws k H) as [ND Pd].
      destruct (P_gen_list k _ st ws out H ND Pd) as (s1 & o1 & GL). rewrite GL.
      destruct (R_gen_list T T_eqb T_eqb_spec tyname requests nfuel calls pfx res k _ st ws out s1 o1 H ND Pd GL)
        as (H1 & G1 & O1).
      apply (IH s1 _ o1 K H1). rewrite G1, G, O1, rev_app_distr. reflexivity.
    Qed.

    Notation wloop ord := (W.loop key key_eqb kreq (plugin_of ord) ord).

    Lemma P_loop ord f : forall st ws out ws',
      known calls ord -> R calls st ws -> W.generated key ws = rev (map ekey out) ->
      wloop ord f ws = Some ws' -> exists out', loop (S f) ord st out = Some out'.
    Proof.
      induction f as [|f IH]; intros st ws out ws' K H G WL; cbn [Gen.loop];
        rewrite (done_eq T T_eqb T_eqb_spec requests calls ord st ws K H); cbn [W.loop] in WL;
        destruct (W.done key key_eqb ws) eqn:D; eauto; [discriminate|].
      destruct (P_round ord ord st ws out K H G) as (s1 & o1 & Rd). rewrite Rd.
      destruct (R_round T T_eqb T_eqb_spec tyname requests nfuel calls pfx res ord ord st ws out s1 o1 K H G Rd) as [H1 G1].
      exact (IH s1 _ o1 ws' K H1 G1 WL).
    Qed.

    Lemma loop_fuel_mono f : forall d ord st out out',
      loop f ord st out = Some out' -> loop (f + d) ord st out = Some out'.
    Proof.
      induction f as [|f IH]; intros d ord st out out' H; cbn [Gen.loop] in H; [discriminate|].
      cbn [Nat.add Gen.loop]. destruct (done T T_eqb ord st); [exact H|].
      destruct (round ord st out) as [[s1 o1]|]; [|discriminate]. apply IH, H.
    Qed.

    Theorem run_succeeds ord fuel :
      known calls ord -> S (length univ) < fuel ->
      add_calls T T_eqb calls (init T) <> None ->
      exists out, run fuel ord calls = Some out.
    Proof.
      intros K F A. unfold Gen.run. destruct (add_calls T T_eqb calls (init T)) as [st|] eqn:EA; [|congruence].
      destruct ord as [|k0 ord1] eqn:Eo.
      - (* no plugin: the closure, hence the list of calls, is empty *)
        destruct fuel as [|f]; [lia|]. cbn. eauto.
      - rewrite <- Eo in *.
        assert (Hne : ord <> []) by (rewrite Eo; discriminate).
        assert (H : R calls st (W.start key key_eqb (map (ckey T) calls))).
        { unfold W.start. eapply R_add_calls; [exact T_eqb_spec | apply R_init | | exact EA].
          intros c Hc. apply W.c_init. apply in_map. exact Hc. }
        destruct (W.loop_terminates key key_eqb (key_eqb_spec T T_eqb T_eqb_spec) kreq (plugin_of ord) ord
                    (plugin_known T ord Hne) (map (ckey T) calls) univ univ_ok) as (ws' & WL).
        destruct (P_loop ord (S (length univ)) st _ [] ws' K H) as (out' & Lp); [|exact WL|].
        { unfold W.start. rewrite W.reg_all_generated. reflexivity. }
        exists out'. replace fuel with (S (S (length univ)) + (fuel - S (S (length univ)))) by lia.
        apply loop_fuel_mono. exact Lp.
    Qed.
  End Run.

  (* a successful default run bounds the closure: the customised run (any order, any prefixes) succeeds *)
  Theorem customised_run_succeeds pfx pfx' res res' (L' : list str) fuel fuel' ord ord' calls out :
    known calls ord -> known calls ord' -> prefixed T pfx calls ->
    (forall c, res' c = true -> In c L') -> length out + length L' < nfuel -> S (length out) < fuel' ->
    run T T_eqb tyname requests nfuel pfx res fuel ord calls = Some out ->
    exists out', run T T_eqb tyname requests nfuel pfx' res' fuel' ord' (map (rn_call T pfx pfx') calls) = Some out'.
  Proof.
    intros K K' P RF NF F Rn.
    destruct (run_generates_closure T T_eqb T_eqb_spec tyname requests nfuel calls pfx res ord fuel out K Rn) as [C _].
    set (calls' := map (rn_call T pfx pfx') calls).
    assert (EK : map (ckey T) calls' = map (ckey T) calls) by apply rn_calls_keys.
    apply (run_succeeds calls' (map ekey out)) with (L := L').
    - intros q Hq. apply C. eapply closure_ext; [exact EK | exact Hq].
    - exact RF.
    - rewrite map_length. exact NF.
    - intros q Hq. apply K'. eapply closure_ext; [exact EK | exact Hq].
    - rewrite map_length. exact F.
    - unfold Gen.run in Rn. destruct (add_calls T T_eqb calls (init T)) as [s1|] eqn:A; [|discriminate].
      assert (S0 : sim T pfx pfx' (init T) (init T)) by (intros k; split; reflexivity).
      assert (W0 : wf T pfx (init T)) by (intros k e []).
      pose proof (add_calls_rn T T_eqb pfx pfx' calls (init T) (init T) S0 W0 P) as AR.
      rewrite A in AR. unfold calls'. destruct (add_calls T T_eqb (map (rn_call T pfx pfx') calls) (init T)); [discriminate | contradiction].
  Qed.
End Total.
