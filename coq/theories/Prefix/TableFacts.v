(* Prefix/TableFacts.v — boolean side conditions on a concrete plugin table (decided by vm_compute on
   the table TRANSLATED from main.go / plugin/*/*.go at every run) and the theorems they unlock. *)
From Coq Require Import String.
From Coq Require Import List NArith Arith Bool Lia Permutation.
From Verif Require Import Prefix.Str Prefix.Dispatch.
Import ListNotations.

Fixpoint nodup_b (l : list str) : bool :=
  match l with
  | [] => true
  | a :: t => negb (existsb (str_eqb a) t) && nodup_b t
  end.

Lemma nodup_b_spec l : nodup_b l = true -> NoDup l.
Proof.
  induction l as [|a t IH]; cbn; intros H; constructor;
    apply andb_true_iff in H; destruct H as [H1 H2]; auto.
  intros Hin. apply negb_true_iff in H1.
  assert (existsb (str_eqb a) t = true) by (apply existsb_exists; exists a; split; [exact Hin | apply str_eqb_refl]).
  congruence.
Qed.

Definition distinct_prefixes_b (ps : list plugin) : bool := nodup_b (map pprefix ps).
Definition distinct_names_b (ps : list plugin) : bool := nodup_b (map pname ps).

(* no default prefix is a proper prefix of another: in the default run a call has one candidate *)
Definition no_nesting_b (ps : list plugin) : bool :=
  forallb (fun a => forallb (fun b => str_eqb (pprefix a) (pprefix b)
                                      || negb (is_prefix (pprefix a) (pprefix b))) ps) ps.

(* main.go: strings.Replace(prefix, OLD, *flag, N) with OLD = "derive", N = 1, flag default "derive" *)
Definition flags_ok (old : str) (n : nat) (n_literal : bool) (dflt : str) : bool :=
  str_eqb old derive_head && (n =? 1) && n_literal && str_eqb dflt derive_head.

Definition table_ok (ps : list plugin) : bool :=
  distinct_prefixes_b ps && distinct_names_b ps && forallb (has_head derive_head) ps
  && negb (length ps =? 0).

Lemma is_prefix_of_shorter p q x :
  is_prefix p x = true -> is_prefix q x = true -> length p <= length q -> is_prefix p q = true.
Proof.
  revert q x; induction p as [|a p IH]; intros q x Hp Hq Hl; [reflexivity|].
  destruct q as [|b q]; [cbn in Hl; lia|]. destruct x as [|c x]; [discriminate|].
  cbn in *. apply andb_true_iff in Hp, Hq. destruct Hp as [E1 Hp], Hq as [E2 Hq].
  apply N.eqb_eq in E1, E2. subst. rewrite N.eqb_refl. cbn. eapply IH; eauto. lia.
Qed.

Lemma same_prefix_same_plugin ps p q :
  distinct_prefixes ps -> In p ps -> In q ps -> pprefix p = pprefix q -> p = q.
Proof.
  unfold distinct_prefixes. induction ps as [|a t IH]; intros Hd Hp Hq E; [contradiction|].
  cbn in Hd. inversion Hd as [|x l Hn Hd']; subst.
  destruct Hp as [<-|Hp]; destruct Hq as [<-|Hq]; auto.
  - exfalso. apply Hn. rewrite E. apply in_map; exact Hq.
  - exfalso. apply Hn. rewrite <- E. apply in_map; exact Hp.
Qed.

Section Table.
  Variable T : list plugin.
  Hypothesis ok : table_ok T = true.

  Let ok_parts : distinct_prefixes_b T = true /\ distinct_names_b T = true /\
                 forallb (has_head derive_head) T = true.
  Proof.
    unfold table_ok in ok. apply andb_true_iff in ok. destruct ok as [ok1 _].
    apply andb_true_iff in ok1. destruct ok1 as [ok1 H3].
    apply andb_true_iff in ok1. destruct ok1 as [H1 H2]. repeat split; assumption.
  Qed.

  Theorem table_default_unambiguous : distinct_prefixes T.
  Proof. apply nodup_b_spec. apply ok_parts. Qed.

  Theorem table_distinct_names : NoDup (map pname T).
  Proof. apply nodup_b_spec. apply ok_parts. Qed.

  (* default run: at most one plugin matches any call name, so no choice is ever made *)
  Theorem table_single_candidate name p q :
    no_nesting_b T = true ->
    In p T -> In q T -> matches name p -> matches name q -> p = q.
  Proof.
    intros Hn Hp Hq Mp Mq.
    unfold no_nesting_b in Hn. rewrite forallb_forall in Hn.
    assert (E : pprefix p = pprefix q).
    { destruct (Nat.le_ge_cases (length (pprefix p)) (length (pprefix q))) as [L|L].
      - pose proof (is_prefix_of_shorter _ _ _ Mp Mq L) as Hpq.
        specialize (Hn p Hp). rewrite forallb_forall in Hn. specialize (Hn q Hq).
        rewrite Hpq in Hn. cbn in Hn. rewrite orb_false_r in Hn. apply str_eqb_eq; exact Hn.
      - pose proof (is_prefix_of_shorter _ _ _ Mq Mp L) as Hqp.
        specialize (Hn q Hq). rewrite forallb_forall in Hn. specialize (Hn p Hp).
        rewrite Hqp in Hn. cbn in Hn. rewrite orb_false_r in Hn. symmetry. apply str_eqb_eq; exact Hn. }
    eapply same_prefix_same_plugin; eauto. apply table_default_unambiguous.
  Qed.

  Theorem table_dispatch_longest ps' name :
    Permutation ps' T ->
    match dispatch (sort_plugins ps') name with
    | Some p => is_longest_match T name p
    | None => forall q, In q T -> is_prefix (pprefix q) name = false
    end.
  Proof. apply dispatch_longest. apply table_default_unambiguous. Qed.

  Theorem table_registration_order_irrelevant ps' name :
    Permutation T ps' -> dispatch (sort_plugins T) name = dispatch (sort_plugins ps') name.
  Proof. apply dispatch_perm_invariant. apply table_default_unambiguous. Qed.

  Theorem table_global_order global :
    sort_plugins (map (effective global []) T) = map (effective global []) (sort_plugins T).
  Proof. apply global_flag_order. apply ok_parts. Qed.

  Theorem table_default_flag_identity : map (effective derive_head []) T = T.
  Proof.
    destruct ok_parts as (_ & _ & Hh). rewrite forallb_forall in Hh.
    rewrite <- (map_id T) at 2. apply map_ext_in. intros a Ha. apply effective_default. auto.
  Qed.

  (* under a global prefix the prefixes stay pairwise distinct, so dispatch_longest applies to the
     renamed table as well *)
  Theorem table_global_distinct global : distinct_prefixes (map (effective global []) T).
  Proof.
    destruct ok_parts as (_ & _ & Hh). rewrite forallb_forall in Hh.
    pose proof table_default_unambiguous as Hd. unfold distinct_prefixes in *.
    rewrite map_map.
    assert (E : map (fun x => pprefix (effective global [] x)) T
                = map (fun x => global ++ skipn (length derive_head) x) (map pprefix T)).
    { rewrite map_map. apply map_ext_in. intros a Ha. rewrite effective_global by auto. reflexivity. }
    rewrite E. clear E.
    assert (Hh' : forall x, In x (map pprefix T) -> is_prefix derive_head x = true).
    { intros x Hx. apply in_map_iff in Hx. destruct Hx as (a & <- & Ha). apply Hh; exact Ha. }
    revert Hd Hh'. generalize (map pprefix T) as l. induction l as [|x l IH]; intros Hd Hh'; cbn [map]; constructor.
    - inversion Hd as [|? ? Hn Hd']; subst. intros Hin. apply in_map_iff in Hin.
      destruct Hin as (y & Ey & Hy). apply Hn.
      apply app_inv_head in Ey.
      assert (Hx : is_prefix derive_head x = true) by (apply Hh'; left; reflexivity).
      assert (Hy' : is_prefix derive_head y = true) by (apply Hh'; right; exact Hy).
      apply is_prefix_spec in Hx, Hy'. destruct Hx as [rx ->], Hy' as [ry ->].
      rewrite !skipn_app, !skipn_all, !Nat.sub_diag in Ey. cbn [skipn app] in Ey. subst. exact Hy.
    - inversion Hd; subst. apply IH; auto. intros y Hy. apply Hh'. right; exact Hy.
  Qed.
End Table.

(* non-vacuity: a table in the shape of the real one satisfies the side conditions *)
Example ex_table_ok :
  table_ok [mkP (s "equal"%string) (s "deriveEqual"%string); mkP (s "sort"%string) (s "deriveSort"%string);
            mkP (s "set"%string) (s "deriveSet"%string); mkP (s "do"%string) (s "deriveDo"%string);
            mkP (s "dup"%string) (s "deriveDup"%string)] = true.
Proof. vm_compute. reflexivity. Qed.

(* a duplicated default prefix is rejected *)
Example ex_table_dup_rejected :
  table_ok [mkP (s "sort"%string) (s "deriveSort"%string); mkP (s "sorted"%string) (s "deriveSort"%string)] = false.
Proof. vm_compute. reflexivity. Qed.
