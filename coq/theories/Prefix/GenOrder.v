(* Prefix/GenOrder.v — the generation model (Gen.v) driven by a plugin table: the plugin order is
   sort_plugins of the table, the prefix of plugin k is that of the k-th table entry.
   global_prefix_textual: under a global -prefix the whole emission sequence is the default one with
   the head of every generated name replaced. *)
From Coq Require Import String.
From Coq Require Import List NArith Arith Bool Lia.
From Verif Require Import Prefix.Str Prefix.Names Prefix.Dispatch Prefix.Gen.
Import ListNotations.

Definition dummy : plugin := mkP [] [].
Definition pfx_of (ps : list plugin) (k : nat) : str := pprefix (nth k ps dummy).

Fixpoint pos_of (n : str) (ps : list plugin) : nat :=
  match ps with
  | [] => 0
  | a :: r => if str_eqb n (pname a) then 0 else S (pos_of n r)
  end.

(* pkg.plugins as plugin ids (positions in the registration list), in sorted order *)
Definition order (ps : list plugin) : list nat := map (fun a => pos_of (pname a) ps) (sort_plugins ps).

Lemma pos_of_map (f : plugin -> plugin) n ps :
  (forall a, pname (f a) = pname a) -> pos_of n (map f ps) = pos_of n ps.
Proof.
  intros Hf. induction ps as [|a r IH]; cbn; [reflexivity|]. rewrite Hf, IH. reflexivity.
Qed.

Lemma order_global h p ps :
  forallb (has_head h) ps = true -> order (map (rehead h p) ps) = order ps.
Proof.
  intros H. unfold order. rewrite (global_prefix_order h p ps H), map_map.
  apply map_ext. intros a. cbn [rehead pname]. apply pos_of_map. reflexivity.
Qed.

Lemma pfx_of_rehead h p ps k :
  forallb (has_head h) ps = true -> k < length ps ->
  exists r, pfx_of ps k = h ++ r /\ pfx_of (map (rehead h p) ps) k = p ++ r.
Proof.
  intros H Hk. rewrite forallb_forall in H. unfold pfx_of.
  assert (Hin : In (nth k ps dummy) ps) by (apply nth_In; exact Hk).
  specialize (H _ Hin). unfold has_head in H. apply is_prefix_spec in H. destruct H as [r Hr].
  exists r. split; [exact Hr|].
  rewrite (nth_indep _ dummy (rehead h p dummy)) by (rewrite map_length; exact Hk).
  rewrite map_nth. unfold rehead; cbn [pprefix]. rewrite Hr, skipn_app, skipn_all, Nat.sub_diag. reflexivity.
Qed.

Section Global.
  Variable T : Type.
  Variable T_eqb : T -> T -> bool.
  Variable tyname : T -> str.
  Variable requests : nat -> T -> list (nat * T).
  Variable nfuel : nat.
  Variables (h p : str) (ps : list plugin).
  Hypothesis heads : forallb (has_head h) ps = true.

  Let pfx := pfx_of ps.
  Let pfx' := pfx_of (map (rehead h p) ps).

  (* on a name of plugin k the per-plugin renaming is the one global renaming h… |-> p… *)
  Lemma rn_is_global k x :
    k < length ps -> rn pfx pfx' k (pfx k ++ x) = p ++ skipn (length h) (pfx k ++ x).
  Proof.
    intros Hk. destruct (pfx_of_rehead h p ps k heads Hk) as (r & E1 & E2).
    unfold pfx, pfx' in *. rewrite rn_app, E1, E2.
    rewrite <- (app_assoc h r x), skipn_app, skipn_all, Nat.sub_diag. cbn [skipn app].
    rewrite <- app_assoc. reflexivity.
  Qed.

  Variables res res' : str -> bool.
  Hypothesis res_ok : forall k x, res' (pfx' k ++ x) = res (pfx k ++ x).

  Theorem global_prefix_textual fuel calls :
    (forall k n t, In (k, n, t) calls -> is_prefix (pfx k) n = true) ->
    run T T_eqb tyname requests nfuel pfx' res' fuel (order (map (rehead h p) ps)) (map (rn_call T pfx pfx') calls)
    = option_map (map (rn_e T pfx pfx'))
                 (run T T_eqb tyname requests nfuel pfx res fuel (order ps) calls).
  Proof.
    intros Hc. rewrite (order_global h p ps heads).
    apply run_equivariant; assumption.
  Qed.
End Global.

(* ---------- non-vacuity: a small package, evaluated ---------- *)
Module Example.
  (* classes: 0 = ptr A, 1 = ptr B, 2 = slice of int;  plugins (registration order): 0 equal, 1 sort, 2 compare *)
  Definition tyname (t : nat) : str := match t with 0 => s "A"%string | _ => [] end.   (* as newName does for a pointer/slice: the empty name, except class 0 (for variety) *)
  Definition requests (k t : nat) : list (nat * nat) :=
    match k, t with
    | 0, 0 => [(0, 1)]            (* equal on ptr A calls equal on ptr B *)
    | 1, 2 => [(2, 2)]            (* sort on the slice calls compare on it (shape only) *)
    | _, _ => []
    end.
  Definition ps := [mkP (s "equal"%string) (s "deriveEqual"%string); mkP (s "sort"%string) (s "deriveSort"%string);
                    mkP (s "compare"%string) (s "deriveCompare"%string)].
  Definition calls : list (nat * str * nat) := [(0, s "deriveEqual"%string, 0); (1, s "deriveSortInts"%string, 2)].
  Definition none (_ : str) : bool := false.

  Definition out (q : list plugin) (cs : list (nat * str * nat)) :=
    option_map (map (fun e => (e_plugin nat e, e_class nat e, e_name nat e, e_helpers nat e)))
               (run nat Nat.eqb tyname requests 20 (pfx_of q) none 10 (order q) cs).

  Example default_run :
    (* sorted order: compare, equal, sort.  Pass 1: equal, sort (each requesting a helper); pass 2: the helpers *)
    out ps calls = Some [ (0, 0, s "deriveEqual"%string, [(0, s "deriveEqual_"%string)]);
                          (1, 2, s "deriveSortInts"%string, [(2, s "deriveCompare"%string)]);
                          (2, 2, s "deriveCompare"%string, []);
                          (0, 1, s "deriveEqual_"%string, []) ].
  Proof. vm_compute. reflexivity. Qed.

  Example default_run_value :
    out ps calls <> None /\
    out (map (rehead (s "derive"%string) (s "my"%string)) ps)
        (map (rn_call nat (pfx_of ps) (pfx_of (map (rehead (s "derive"%string) (s "my"%string)) ps))) calls) <> None.
  Proof. vm_compute. split; discriminate. Qed.
End Example.
