(* Prefix/Dispatch.v — model of derive/generate.go: sortPlugins, pkg.Add's dispatch, and of
   main.go's computation of the effective prefixes from -prefix / -pluginprefix.

   sortPlugins is `sort.Slice(ps, less)` with
       less i j = if len(pi) == len(pj) then pi > pj else len(pi) > len(pj)
   (longest prefix first, ties by descending byte order).  sort.Slice is not stable and its
   algorithm is not specified; its contract is "a permutation of the input, sorted by less when
   less is a strict weak order".  [sort_plugins] below is an insertion sort; [sorted_unique]
   shows that for plugins with pairwise distinct prefixes EVERY sorted permutation is that list,
   so the model covers every implementation of sort.Slice that meets its contract. *)
From Coq Require Import String.
From Coq Require Import List NArith Arith Bool Lia Permutation Sorted.
From Verif Require Import Prefix.Str.
Import ListNotations.

Record plugin := mkP { pname : str; pprefix : str }.

(* the less function of sortPlugins *)
Definition before (a b : plugin) : bool :=
  if length (pprefix a) =? length (pprefix b)
  then str_gtb (pprefix a) (pprefix b)
  else length (pprefix b) <? length (pprefix a).

Fixpoint insert (a : plugin) (l : list plugin) : list plugin :=
  match l with
  | [] => [a]
  | b :: t => if before a b then a :: l else b :: insert a t
  end.

Definition sort_plugins (ps : list plugin) : list plugin := fold_right insert [] ps.

(* pkg.Add / the undefined-call filter of newPackage: first plugin whose prefix is a prefix of the name *)
Fixpoint dispatch (ps : list plugin) (name : str) : option plugin :=
  match ps with
  | [] => None
  | p :: r => if is_prefix (pprefix p) name then Some p else dispatch r name
  end.

(* ---------- specification ---------- *)

Definition matches (name : str) (p : plugin) : Prop := is_prefix (pprefix p) name = true.

Definition is_longest_match (ps : list plugin) (name : str) (p : plugin) : Prop :=
  In p ps /\ matches name p /\
  forall q, In q ps -> matches name q -> length (pprefix q) <= length (pprefix p).

(* independent executable specification: scan the UNSORTED list, keep the longest match *)
Definition spec_dispatch (ps : list plugin) (name : str) : option plugin :=
  fold_left (fun best p =>
               if is_prefix (pprefix p) name then
                 match best with
                 | None => Some p
                 | Some b => if length (pprefix b) <? length (pprefix p) then Some p else best
                 end
               else best) ps None.

Definition distinct_prefixes (ps : list plugin) : Prop := NoDup (map pprefix ps).

(* ---------- [before] is a strict total order up to equality of prefixes ---------- *)

Lemma before_irrefl a : before a a = false.
Proof.
  unfold before. rewrite Nat.eqb_refl. unfold str_gtb.
  replace (str_cmp (pprefix a) (pprefix a)) with Eq; [reflexivity|].
  symmetry; apply str_cmp_eq; reflexivity.
Qed.

Lemma before_asym a b : before a b = true -> before b a = false.
Proof.
  unfold before. rewrite (Nat.eqb_sym (length (pprefix b))).
  destruct (length (pprefix a) =? length (pprefix b)) eqn:E.
  - unfold str_gtb. rewrite (str_cmp_antisym (pprefix b)).
    destruct (str_cmp (pprefix a) (pprefix b)); cbn; congruence.
  - rewrite !Nat.ltb_lt. intros H. apply Nat.ltb_ge. lia.
Qed.

Lemma before_trans a b c : before a b = true -> before b c = true -> before a c = true.
Proof.
  unfold before.
  destruct (length (pprefix a) =? length (pprefix b)) eqn:E1;
  destruct (length (pprefix b) =? length (pprefix c)) eqn:E2;
  destruct (length (pprefix a) =? length (pprefix c)) eqn:E3;
  repeat match goal with
         | H : (_ =? _) = true |- _ => apply Nat.eqb_eq in H
         | H : (_ =? _) = false |- _ => apply Nat.eqb_neq in H
         end;
  rewrite ?Nat.ltb_lt; unfold str_gtb; try lia.
  destruct (str_cmp (pprefix a) (pprefix b)) eqn:C1; try discriminate.
  destruct (str_cmp (pprefix b) (pprefix c)) eqn:C2; try discriminate.
  rewrite (str_cmp_gt_trans _ _ _ C1 C2). reflexivity.
Qed.

Lemma before_total a b :
  before a b = false -> before b a = true \/ pprefix a = pprefix b.
Proof.
  unfold before. rewrite (Nat.eqb_sym (length (pprefix b))).
  destruct (length (pprefix a) =? length (pprefix b)) eqn:E.
  - unfold str_gtb. rewrite (str_cmp_antisym (pprefix b)).
    destruct (str_cmp (pprefix a) (pprefix b)) eqn:C; cbn; try discriminate; auto.
    right. apply str_cmp_eq; exact C.
  - apply Nat.eqb_neq in E. rewrite Nat.ltb_ge, Nat.ltb_lt. intros H. left; lia.
Qed.

Lemma before_length a b : before a b = true -> length (pprefix b) <= length (pprefix a).
Proof.
  unfold before. destruct (length (pprefix a) =? length (pprefix b)) eqn:E.
  - apply Nat.eqb_eq in E. lia.
  - rewrite Nat.ltb_lt. lia.
Qed.

(* ---------- the insertion sort returns a sorted permutation ---------- *)

Definition sortedP (l : list plugin) : Prop := StronglySorted (fun a b => before a b = true) l.

Lemma insert_perm a l : Permutation (insert a l) (a :: l).
Proof.
  induction l as [|b t IH]; cbn; [reflexivity|].
  destruct (before a b); [reflexivity|].
  rewrite IH. apply perm_swap.
Qed.

Lemma sort_plugins_perm ps : Permutation (sort_plugins ps) ps.
Proof.
  induction ps as [|a t IH]; cbn; [reflexivity|].
  rewrite insert_perm. constructor. exact IH.
Qed.

Lemma insert_sorted a l :
  sortedP l -> (forall b, In b l -> pprefix b <> pprefix a) -> sortedP (insert a l).
Proof.
  unfold sortedP. induction l as [|b t IH]; intros Hs Hd; cbn.
  - constructor; constructor.
  - apply StronglySorted_inv in Hs. destruct Hs as [Hs Hb].
    destruct (before a b) eqn:E.
    + constructor; [constructor; assumption|].
      constructor; [exact E|].
      rewrite Forall_forall in *. intros c Hc. eapply before_trans; eauto.
    + constructor.
      * apply IH; [exact Hs | intros c Hc; apply Hd; right; exact Hc].
      * assert (Hba : before b a = true).
        { destruct (before_total _ _ E) as [H|H]; [exact H|].
          exfalso. apply (Hd b); [left; reflexivity | symmetry; exact H]. }
        rewrite Forall_forall in *. intros c Hc.
        apply (Permutation_in _ (insert_perm a t)) in Hc. destruct Hc as [<-|Hc]; auto.
Qed.

Lemma sort_plugins_sorted ps : distinct_prefixes ps -> sortedP (sort_plugins ps).
Proof.
  unfold distinct_prefixes. induction ps as [|a t IH]; cbn; intros Hd.
  - constructor.
  - inversion Hd as [|x l Hn Hd']; subst. apply insert_sorted; [auto|].
    intros b Hb E. apply Hn. rewrite <- E. apply in_map.
    eapply Permutation_in; [apply sort_plugins_perm | exact Hb].
Qed.

(* every sorted permutation is the same list: the result of sort.Slice is determined *)
Lemma sorted_unique l l' : sortedP l -> sortedP l' -> Permutation l l' -> l = l'.
Proof.
  unfold sortedP. revert l'. induction l as [|a t IH]; intros l' Hs Hs' Hp.
  - apply Permutation_nil in Hp. congruence.
  - destruct l' as [|b t']; [apply Permutation_sym, Permutation_nil in Hp; discriminate|].
    apply StronglySorted_inv in Hs. destruct Hs as [Hs Ha].
    apply StronglySorted_inv in Hs'. destruct Hs' as [Hs' Hb].
    rewrite Forall_forall in Ha, Hb.
    assert (E : a = b).
    { assert (Ia : In a (b :: t')) by (eapply Permutation_in; [exact Hp | left; reflexivity]).
      assert (Ib : In b (a :: t)) by (eapply Permutation_in; [apply Permutation_sym; exact Hp | left; reflexivity]).
      destruct Ia as [Ia|Ia]; [congruence|]. destruct Ib as [Ib|Ib]; [congruence|].
      apply Hb in Ia. apply Ha in Ib. apply before_asym in Ia. congruence. }
    subst b. f_equal. apply IH; auto. eapply Permutation_cons_inv; exact Hp.
Qed.

Lemma distinct_perm ps ps' : Permutation ps ps' -> distinct_prefixes ps -> distinct_prefixes ps'.
Proof.
  unfold distinct_prefixes. intros Hp Hd.
  eapply Permutation_NoDup; [apply Permutation_map; exact Hp | exact Hd].
Qed.

(* C08/C12: the order in which plugins are registered does not matter *)
Theorem sort_plugins_perm_invariant ps ps' :
  distinct_prefixes ps -> Permutation ps ps' -> sort_plugins ps = sort_plugins ps'.
Proof.
  intros Hd Hp. apply sorted_unique.
  - apply sort_plugins_sorted; exact Hd.
  - apply sort_plugins_sorted. eapply distinct_perm; eauto.
  - rewrite sort_plugins_perm, Hp. symmetry. apply sort_plugins_perm.
Qed.

(* any implementation of sort.Slice meeting its contract gives the model's list *)
Theorem any_sorter_agrees ps out :
  distinct_prefixes ps -> Permutation out ps -> sortedP out -> out = sort_plugins ps.
Proof.
  intros Hd Hp Hs. apply sorted_unique; [exact Hs | apply sort_plugins_sorted; exact Hd|].
  rewrite Hp. symmetry. apply sort_plugins_perm.
Qed.

(* ---------- dispatch on a sorted list picks the longest match ---------- *)

Lemma dispatch_sorted l name :
  sortedP l ->
  match dispatch l name with
  | Some p => is_longest_match l name p
  | None => forall q, In q l -> is_prefix (pprefix q) name = false
  end.
Proof.
  unfold sortedP. induction l as [|a t IH]; intros Hs; cbn.
  - intros q [].
  - apply StronglySorted_inv in Hs. destruct Hs as [Hs Ha]. rewrite Forall_forall in Ha.
    destruct (is_prefix (pprefix a) name) eqn:E.
    + split; [left; reflexivity|]. split; [exact E|].
      intros q [<-|Hq] _; [lia|]. apply before_length. auto.
    + specialize (IH Hs). destruct (dispatch t name) as [p|].
      * destruct IH as (Hin & Hm & Hmax). split; [right; exact Hin|]. split; [exact Hm|].
        intros q [<-|Hq] Hqm; [unfold matches in Hqm; congruence | auto].
      * intros q [<-|Hq]; auto.
Qed.

Lemma is_longest_match_perm l l' name p :
  Permutation l l' -> is_longest_match l name p -> is_longest_match l' name p.
Proof.
  intros Hp (Hin & Hm & Hmax). split; [eapply Permutation_in; eauto|]. split; [exact Hm|].
  intros q Hq. apply Hmax. eapply Permutation_in; [apply Permutation_sym; exact Hp | exact Hq].
Qed.

Theorem dispatch_longest ps ps' name :
  distinct_prefixes ps -> Permutation ps' ps ->
  match dispatch (sort_plugins ps') name with
  | Some p => is_longest_match ps name p
  | None => forall q, In q ps -> is_prefix (pprefix q) name = false
  end.
Proof.
  intros Hd Hp.
  assert (Hd' : distinct_prefixes ps') by (eapply distinct_perm; [apply Permutation_sym; exact Hp | exact Hd]).
  pose proof (dispatch_sorted (sort_plugins ps') name (sort_plugins_sorted ps' Hd')) as H.
  assert (Hpp : Permutation (sort_plugins ps') ps) by (rewrite sort_plugins_perm; exact Hp).
  destruct (dispatch (sort_plugins ps') name) as [p|].
  - eapply is_longest_match_perm; eauto.
  - intros q Hq. apply H. eapply Permutation_in; [apply Permutation_sym; exact Hpp | exact Hq].
Qed.

Theorem longest_match_unique ps name p q :
  distinct_prefixes ps -> is_longest_match ps name p -> is_longest_match ps name q -> p = q.
Proof.
  intros Hd (Hp & Hpm & Hpmax) (Hq & Hqm & Hqmax).
  assert (El : length (pprefix p) = length (pprefix q)).
  { specialize (Hpmax q Hq Hqm). specialize (Hqmax p Hp Hpm). lia. }
  assert (E : pprefix p = pprefix q) by (eapply is_prefix_same_length; eauto).
  clear - Hd Hp Hq E. unfold distinct_prefixes in Hd.
  induction ps as [|a t IH]; [contradiction|].
  cbn in Hd. inversion Hd as [|x l Hn Hd']; subst.
  destruct Hp as [<-|Hp]; destruct Hq as [<-|Hq]; auto.
  - exfalso. apply Hn. rewrite E. apply in_map; exact Hq.
  - exfalso. apply Hn. rewrite <- E. apply in_map; exact Hp.
Qed.

Theorem dispatch_perm_invariant ps ps' name :
  distinct_prefixes ps -> Permutation ps ps' ->
  dispatch (sort_plugins ps) name = dispatch (sort_plugins ps') name.
Proof. intros Hd Hp. rewrite (sort_plugins_perm_invariant ps ps' Hd Hp). reflexivity. Qed.

(* the executable specification agrees *)
Lemma spec_dispatch_fold l name best :
  match best with
  | Some b => matches name b
  | None => True
  end ->
  match fold_left (fun best p =>
               if is_prefix (pprefix p) name then
                 match best with
                 | None => Some p
                 | Some b => if length (pprefix b) <? length (pprefix p) then Some p else best
                 end
               else best) l best with
  | Some r => (In r l \/ best = Some r) /\ matches name r /\
              (forall q, In q l -> matches name q -> length (pprefix q) <= length (pprefix r)) /\
              (forall b, best = Some b -> length (pprefix b) <= length (pprefix r))
  | None => best = None /\ forall q, In q l -> is_prefix (pprefix q) name = false
  end.
Proof.
  revert best. induction l as [|a t IH]; intros best Hb; cbn [fold_left].
  - destruct best as [b|].
    + split; [right; reflexivity|]. split; [exact Hb|]. split; [intros q []|]. intros b' E; inversion E; lia.
    + split; [reflexivity | intros q []].
  - destruct (is_prefix (pprefix a) name) eqn:E.
    + set (best' := match best with None => Some a
                    | Some b => if length (pprefix b) <? length (pprefix a) then Some a else best end).
      assert (Hb' : match best' with Some b => matches name b | None => True end).
      { unfold best'. destruct best as [b|]; [|exact E].
        destruct (length (pprefix b) <? length (pprefix a)); [exact E | exact Hb]. }
      specialize (IH best' Hb'). fold best'.
      destruct (fold_left _ t best') as [r|].
      * destruct IH as (Hin & Hm & Hmax & Hbest). split.
        { destruct Hin as [Hin|Hin]; [left; right; exact Hin|].
          unfold best' in Hin. destruct best as [b|].
          - destruct (length (pprefix b) <? length (pprefix a)); inversion Hin; subst; auto.
            left; left; reflexivity.
          - inversion Hin; subst. left; left; reflexivity. }
        split; [exact Hm|]. split.
        { intros q [<-|Hq] Hqm; [|auto].
          unfold best' in Hbest. destruct best as [b|].
          - destruct (length (pprefix b) <? length (pprefix a)) eqn:L.
            + apply (Hbest a); reflexivity.
            + apply Nat.ltb_ge in L. specialize (Hbest b eq_refl). lia.
          - apply (Hbest a); reflexivity. }
        { intros b Eb; subst best. unfold best' in Hbest.
          destruct (length (pprefix b) <? length (pprefix a)) eqn:L.
          - apply Nat.ltb_lt in L. specialize (Hbest a eq_refl). lia.
          - apply Hbest; reflexivity. }
      * destruct IH as (Hnone & _). unfold best' in Hnone. destruct best as [b|]; [|discriminate].
        destruct (length (pprefix b) <? length (pprefix a)); discriminate.
    + specialize (IH best Hb). destruct (fold_left _ t best) as [r|].
      * destruct IH as (Hin & Hm & Hmax & Hbest). split; [destruct Hin; auto; left; right; assumption|].
        split; [exact Hm|]. split; [|exact Hbest].
        intros q [<-|Hq] Hqm; [unfold matches in Hqm; congruence | auto].
      * destruct IH as (Hnone & Hall). split; [exact Hnone|]. intros q [<-|Hq]; auto.
Qed.

Theorem dispatch_is_spec ps ps' name :
  distinct_prefixes ps -> Permutation ps' ps ->
  dispatch (sort_plugins ps') name = spec_dispatch ps name.
Proof.
  intros Hd Hp. pose proof (dispatch_longest ps ps' name Hd Hp) as H.
  pose proof (spec_dispatch_fold ps name None I) as S. unfold spec_dispatch.
  destruct (fold_left _ ps None) as [r|].
  - destruct S as (Hin & Hm & Hmax & _). destruct Hin as [Hin|Hin]; [|discriminate].
    destruct (dispatch (sort_plugins ps') name) as [p|].
    + f_equal. eapply longest_match_unique; eauto. split; [exact Hin|]. split; assumption.
    + specialize (H r Hin). unfold matches in Hm. congruence.
  - destruct S as (_ & Hall). destruct (dispatch (sort_plugins ps') name) as [p|]; [|reflexivity].
    destruct H as (Hin & Hm & _). specialize (Hall p Hin). unfold matches in Hm. congruence.
Qed.

(* ---------- a global -prefix keeps the order ---------- *)

Lemma insert_map (f : plugin -> plugin) :
  (forall a b, before (f a) (f b) = before a b) ->
  forall a l, insert (f a) (map f l) = map f (insert a l).
Proof.
  intros Hf a l. induction l as [|b t IH]; cbn; [reflexivity|].
  rewrite Hf. destruct (before a b); cbn; [reflexivity|]. rewrite IH; reflexivity.
Qed.

Lemma sort_plugins_map (f : plugin -> plugin) :
  (forall a b, before (f a) (f b) = before a b) ->
  forall ps, sort_plugins (map f ps) = map f (sort_plugins ps).
Proof.
  intros Hf ps. unfold sort_plugins. induction ps as [|a t IH]; cbn [map fold_right]; [reflexivity|].
  rewrite IH. apply insert_map; exact Hf.
Qed.

(* the common head [h] (= "derive") of every default prefix replaced by [p] *)
Definition has_head (h : str) (a : plugin) : bool := is_prefix h (pprefix a).
Definition rehead (h p : str) (a : plugin) : plugin :=
  mkP (pname a) (p ++ skipn (length h) (pprefix a)).

Lemma before_same_head h x y na nb :
  before (mkP na (h ++ x)) (mkP nb (h ++ y)) = before (mkP na x) (mkP nb y).
Proof.
  unfold before; cbn [pprefix]. rewrite !app_length. unfold str_gtb. rewrite str_cmp_same_head.
  replace (length h + length x =? length h + length y) with (length x =? length y)
    by (destruct (length x =? length y) eqn:E; symmetry;
        [apply Nat.eqb_eq in E; apply Nat.eqb_eq; lia | apply Nat.eqb_neq in E; apply Nat.eqb_neq; lia]).
  replace (length h + length y <? length h + length x) with (length y <? length x)
    by (destruct (length y <? length x) eqn:E; symmetry;
        [apply Nat.ltb_lt in E; apply Nat.ltb_lt; lia | apply Nat.ltb_ge in E; apply Nat.ltb_ge; lia]).
  reflexivity.
Qed.

Lemma before_rehead h p a b :
  has_head h a = true -> has_head h b = true ->
  before (rehead h p a) (rehead h p b) = before a b.
Proof.
  unfold has_head. intros Ha Hb.
  apply is_prefix_spec in Ha, Hb. destruct Ha as [x Ha], Hb as [y Hb].
  destruct a as [na pa], b as [nb pb]; cbn in *. subst. unfold rehead; cbn.
  rewrite !skipn_app, !skipn_all, !Nat.sub_diag. cbn.
  rewrite !before_same_head. reflexivity.
Qed.

Lemma insert_map_on (f : plugin -> plugin) (P : plugin -> Prop) :
  (forall a b, P a -> P b -> before (f a) (f b) = before a b) ->
  forall a l, P a -> Forall P l -> insert (f a) (map f l) = map f (insert a l).
Proof.
  intros Hf a l Pa Pl. induction Pl as [|b t Pb Pt IH]; cbn; [reflexivity|].
  rewrite Hf by assumption. destruct (before a b); cbn; [reflexivity|]. rewrite IH; reflexivity.
Qed.

Theorem global_prefix_order h p ps :
  forallb (has_head h) ps = true ->
  sort_plugins (map (rehead h p) ps) = map (rehead h p) (sort_plugins ps).
Proof.
  intros H. rewrite forallb_forall in H.
  induction ps as [|a t IH]; [reflexivity|].
  change (insert (rehead h p a) (sort_plugins (map (rehead h p) t))
          = map (rehead h p) (insert a (sort_plugins t))).
  rewrite IH by (intros x Hx; apply H; right; exact Hx).
  apply (insert_map_on (rehead h p) (fun a => has_head h a = true)).
  - intros x y Hx Hy. apply before_rehead; assumption.
  - apply H; left; reflexivity.
  - apply Forall_forall. intros x Hx. apply H. right.
    eapply Permutation_in; [apply sort_plugins_perm | exact Hx].
Qed.

(* dispatch commutes with the global renaming too: a name h++x goes, renamed to p++x, to the
   renamed plugin *)
Theorem global_prefix_dispatch h p l x :
  forallb (has_head h) l = true ->
  dispatch (map (rehead h p) l) (p ++ x) = option_map (rehead h p) (dispatch l (h ++ x)).
Proof.
  intros H. rewrite forallb_forall in H.
  induction l as [|a t IH]; cbn; [reflexivity|].
  assert (Ha : has_head h a = true) by (apply H; left; reflexivity).
  unfold has_head in Ha. apply is_prefix_spec in Ha. destruct Ha as [r Ha].
  rewrite Ha at 1 2. rewrite skipn_app, skipn_all, Nat.sub_diag. cbn [skipn app].
  rewrite !is_prefix_same_head.
  destruct (is_prefix r x); [reflexivity|].
  apply IH. intros y Hy. apply H. right; exact Hy.
Qed.

(* ---------- main.go: effective prefixes from the flags ---------- *)

(* overridePrefixes is a Go map filled pair by pair: the last pair for a key wins *)
Fixpoint lookup_last (k : str) (ovs : list (str * str)) : option str :=
  match ovs with
  | [] => None
  | (k', v) :: r =>
      match lookup_last k r with
      | Some v' => Some v'
      | None => if str_eqb k k' then Some v else None
      end
  end.

Definition derive_head : str := s "derive"%string.

Definition effective (global : str) (ovs : list (str * str)) (a : plugin) : plugin :=
  let p := replace_first derive_head global (pprefix a) in
  match lookup_last (pname a) ovs with
  | Some o => mkP (pname a) o
  | None => mkP (pname a) p
  end.

Lemma effective_global global a :
  has_head derive_head a = true -> effective global [] a = rehead derive_head global a.
Proof.
  unfold has_head, effective, rehead. intros H. cbn [lookup_last].
  apply is_prefix_spec in H. destruct H as [r H]. rewrite H.
  rewrite replace_first_head, skipn_app, skipn_all, Nat.sub_diag. reflexivity.
Qed.

Theorem global_flag_order global ps :
  forallb (has_head derive_head) ps = true ->
  sort_plugins (map (effective global []) ps) = map (effective global []) (sort_plugins ps).
Proof.
  intros H.
  assert (E : forall l, (forall x, In x l -> has_head derive_head x = true) ->
                        map (effective global []) l = map (rehead derive_head global) l).
  { intros l Hl. apply map_ext_in. intros a Ha. apply effective_global. auto. }
  rewrite forallb_forall in H.
  rewrite (E ps H), (E (sort_plugins ps)).
  - apply global_prefix_order. apply forallb_forall; exact H.
  - intros x Hx. apply H. eapply Permutation_in; [apply sort_plugins_perm | exact Hx].
Qed.

(* the default flag value leaves the table as it is *)
Lemma effective_default a :
  has_head derive_head a = true -> effective derive_head [] a = a.
Proof.
  intros H. rewrite effective_global by exact H. unfold rehead, has_head in *.
  apply is_prefix_spec in H. destruct H as [r H]. destruct a as [n p]; cbn [pprefix pname] in *. subst p.
  rewrite skipn_app, skipn_all, Nat.sub_diag. reflexivity.
Qed.

(* ---------- non-vacuity and boundaries ---------- *)

Definition ex_sort := mkP (s "sort"%string) (s "deriveSort"%string).
Definition ex_sorted := mkP (s "sorted"%string) (s "deriveSorted"%string).
Definition ex_set := mkP (s "set"%string) (s "deriveSet"%string).
Definition ex_equal := mkP (s "equal"%string) (s "derive"%string).

Example ex_distinct : distinct_prefixes [ex_sort; ex_sorted; ex_set; ex_equal].
Proof.
  unfold distinct_prefixes. repeat constructor; cbn; intuition discriminate.
Qed.

(* generate.go's own example: deriveSorted... goes to sorted, not to sort, in either registration order,
   and the all-matching override equal=derive catches only what nothing longer matches *)
Example ex_nested_1 :
  dispatch (sort_plugins [ex_sort; ex_sorted; ex_set; ex_equal]) (s "deriveSortedInts"%string) = Some ex_sorted /\
  dispatch (sort_plugins [ex_equal; ex_sorted; ex_set; ex_sort]) (s "deriveSortedInts"%string) = Some ex_sorted /\
  dispatch (sort_plugins [ex_equal; ex_sorted; ex_set; ex_sort]) (s "deriveSortInts"%string) = Some ex_sort /\
  dispatch (sort_plugins [ex_equal; ex_sorted; ex_set; ex_sort]) (s "deriveS"%string) = Some ex_equal /\
  dispatch (sort_plugins [ex_equal; ex_sorted; ex_set; ex_sort]) (s "deriv"%string) = None.
Proof. vm_compute. repeat split. Qed.

(* without the sort, first-match depends on the registration order: sortPlugins is needed *)
Theorem dispatch_unsorted_refuted :
  dispatch [ex_sort; ex_sorted] (s "deriveSortedInts"%string) <> dispatch [ex_sorted; ex_sort] (s "deriveSortedInts"%string).
Proof. vm_compute. discriminate. Qed.

(* two plugins given the SAME prefix (possible through -pluginprefix) are outside the theorems:
   the comparison cannot separate them, the model's (and any) sort keeps an input-dependent order *)
Theorem dispatch_duplicate_prefix_refuted :
  let a := mkP (s "sort"%string) (s "deriveS"%string) in
  let b := mkP (s "set"%string) (s "deriveS"%string) in
  dispatch (sort_plugins [a; b]) (s "deriveSX"%string) <> dispatch (sort_plugins [b; a]) (s "deriveSX"%string).
Proof. vm_compute. discriminate. Qed.

(* a per-plugin override can change the order (hence the order of functions in derived.gen.go):
   textual identity is claimed for the global prefix only *)
Theorem plugin_prefix_order_refuted :
  let ps := [mkP (s "keys"%string) (s "deriveKeys"%string); mkP (s "set"%string) (s "deriveSet"%string)] in
  let ov := [(s "set"%string, s "deriveSetOf"%string)] in
  map pname (sort_plugins (map (effective derive_head ov) ps)) <> map pname (sort_plugins ps).
Proof. vm_compute. discriminate. Qed.

Example ex_global_order :
  map pprefix (sort_plugins (map (effective (s "my"%string) []) [ex_sort; ex_sorted; ex_set]))
  = [s "mySorted"%string; s "mySort"%string; s "mySet"%string].
Proof. vm_compute. reflexivity. Qed.
