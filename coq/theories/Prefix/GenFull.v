(* Prefix/GenFull.v — C12 for per-plugin prefixes, any plugin order.

   plugin_prefix_equivariant_full: if the default run (prefix map pfx, plugin order ord) returns [out] then
   the customised run — ANY prefix map pfx', ANY order ord' that is a permutation of ord, the user's calls
   renamed, any finite reserved set, enough fuel — returns some [out'] and [out'] is a permutation of
   [out] renamed by a per-plugin map sigma: sigma is the prefix renaming on the names the user called,
   injective on every plugin's names (helper names correspond one to one), and lands in the new prefix.
   The emitted keys are the closure of the calls under [requests], each exactly once.

   table_plugin_prefix_equivariant: the same with the orders and prefixes induced by a plugin table and
   by ANY transformation of it that keeps the plugin names (e.g. [effective global overrides] for any
   -prefix and any -pluginprefix list), the order being [sort_plugins] of the transformed table. *)
From Coq Require Import String.
From Coq Require Import List NArith Arith Bool Lia Permutation.
From Verif Require Import Prefix.Str Prefix.Names Prefix.Dispatch Prefix.Gen Prefix.GenOrder
  Prefix.GenClosure Prefix.GenCanon Prefix.GenTotal.
Import ListNotations.

Section Full.
  Variable T : Type.
  Variable T_eqb : T -> T -> bool.
  Hypothesis T_eqb_spec : forall a b, reflect (a = b) (T_eqb a b).
  Variable tyname : T -> str.
  Variable requests : nat -> T -> list (nat * T).
  Variable nfuel : nat.
  Notation run := (run T T_eqb tyname requests nfuel).

  Lemma known_perm calls ord ord' : Permutation ord ord' -> known T requests calls ord -> known T requests calls ord'.
  Proof. intros P K q Hq. eapply Permutation_in; [exact P | apply K, Hq]. Qed.

  (* [out'] is [out] up to the order of the functions, the prefix renaming of the called names and a
     one-to-one renaming of the helper names inside each plugin's name space *)
  Definition renamed_output (pfx pfx' : nat -> str) (calls : list (nat * str * T)) (out out' : list (emitted T)) : Prop :=
    exists sigma : nat -> str -> str,
      Permutation out' (map (ren T sigma) out) /\
      (forall k n t, In (k, n, t) calls -> sigma k n = rn pfx pfx' k n) /\
      (forall e1 e2, In e1 out -> In e2 out -> e_plugin T e1 = e_plugin T e2 ->
         sigma (e_plugin T e1) (e_name T e1) = sigma (e_plugin T e2) (e_name T e2) -> e_name T e1 = e_name T e2) /\
      (forall e, In e out -> is_prefix (pfx' (e_plugin T e)) (sigma (e_plugin T e) (e_name T e)) = true).

  Theorem plugin_prefix_equivariant_full
      (pfx pfx' : nat -> str) (res res' : str -> bool) (L' : list str) fuel fuel' ord ord' calls out :
    Permutation ord ord' ->
    known T requests calls ord ->
    prefixed T pfx calls ->
    (forall c, res' c = true -> In c L') -> length out + length L' < nfuel -> S (length out) < fuel' ->
    run pfx res fuel ord calls = Some out ->
    exists out',
      run pfx' res' fuel' ord' (map (rn_call T pfx pfx') calls) = Some out' /\
      renamed_output pfx pfx' calls out out' /\
      (forall q, In q (map (ekey T) out) <-> closure T requests calls q) /\ NoDup (map (ekey T) out) /\
      Permutation (map (ekey T) out') (map (ekey T) out).
  Proof.
    intros P K Pf RF NF F Rn.
    pose proof (known_perm calls ord ord' P K) as K'.
    destruct (customised_run_succeeds T T_eqb T_eqb_spec tyname requests nfuel pfx pfx' res res' L' fuel fuel'
                ord ord' calls out K K' Pf RF NF F Rn) as (out' & Rn').
    exists out'. split; [exact Rn'|].
    destruct (plugin_prefix_equivariant T T_eqb T_eqb_spec tyname requests nfuel pfx pfx' res res' fuel fuel'
                ord ord' calls out out' K K' Pf Rn Rn') as (sigma & S1 & S2 & S3 & S4 & C & ND).
    split; [exists sigma; auto|]. split; [exact C|]. split; [exact ND|].
    symmetry. eapply run_order_independent; [exact T_eqb_spec | | exact K | | exact Rn | exact Rn'].
    - symmetry. apply rn_calls_keys.
    - exact K'.
  Qed.

  (* ---------- the orders induced by plugin tables ---------- *)
  Lemma order_perm_base ps : Permutation (order ps) (map (fun a => pos_of (pname a) ps) ps).
  Proof. unfold order. apply Permutation_map, sort_plugins_perm. Qed.

  Lemma order_map_perm (f : plugin -> plugin) ps :
    (forall a, pname (f a) = pname a) -> Permutation (order ps) (order (map f ps)).
  Proof.
    intros Hf. eapply Permutation_trans; [apply order_perm_base|]. symmetry.
    eapply Permutation_trans; [apply order_perm_base|]. rewrite map_map.
    assert (E : map (fun x => pos_of (pname (f x)) (map f ps)) ps = map (fun a => pos_of (pname a) ps) ps).
    { apply map_ext. intros a. rewrite Hf. apply pos_of_map. exact Hf. }
    rewrite E. apply Permutation_refl.
  Qed.

  Lemma pos_of_nth ps : forall k, NoDup (map pname ps) -> k < length ps -> pos_of (pname (nth k ps dummy)) ps = k.
  Proof.
    induction ps as [|a r IH]; intros k ND Hk; [cbn in Hk; lia|]. cbn [map] in ND. inversion ND as [|? ? Hn ND']; subst.
    destruct k as [|j]; cbn [nth pos_of]; [rewrite str_eqb_refl; reflexivity|].
    cbn [length] in Hk. assert (Hj : j < length r) by lia.
    destruct (str_eqb (pname (nth j r dummy)) (pname a)) eqn:E.
    - exfalso. apply str_eqb_eq in E. apply Hn. rewrite <- E. apply in_map. apply nth_In. exact Hj.
    - f_equal. apply IH; assumption.
  Qed.

  Lemma order_known ps k : NoDup (map pname ps) -> k < length ps -> In k (order ps).
  Proof.
    intros ND Hk. eapply Permutation_in; [symmetry; apply order_perm_base|].
    apply in_map_iff. exists (nth k ps dummy). split; [apply pos_of_nth; assumption | apply nth_In; exact Hk].
  Qed.

  Lemma effective_pname global ovs a : pname (effective global ovs a) = pname a.
  Proof. unfold effective. destruct (lookup_last (pname a) ovs); reflexivity. Qed.

  Theorem table_plugin_prefix_equivariant
      (ps : list plugin) (f : plugin -> plugin) (res res' : str -> bool) (L' : list str) fuel fuel' calls out :
    (forall a, pname (f a) = pname a) ->
    NoDup (map pname ps) ->
    (forall q, closure T requests calls q -> fst q < length ps) ->
    prefixed T (pfx_of ps) calls ->
    (forall c, res' c = true -> In c L') -> length out + length L' < nfuel -> S (length out) < fuel' ->
    run (pfx_of ps) res fuel (order ps) calls = Some out ->
    exists out',
      run (pfx_of (map f ps)) res' fuel' (order (map f ps)) (map (rn_call T (pfx_of ps) (pfx_of (map f ps))) calls) = Some out' /\
      renamed_output (pfx_of ps) (pfx_of (map f ps)) calls out out' /\
      (forall q, In q (map (ekey T) out) <-> closure T requests calls q) /\ NoDup (map (ekey T) out) /\
      Permutation (map (ekey T) out') (map (ekey T) out).
  Proof.
    intros Hf ND Hk. apply plugin_prefix_equivariant_full.
    - apply order_map_perm. exact Hf.
    - intros q Hq. apply order_known; [exact ND | apply Hk, Hq].
  Qed.
End Full.

(* ---------- non-vacuity: two different plugin orders, a helper requested by two plugins, helper names
   that depend on the order ---------- *)
Module ExampleFull.
  (* plugins (registration order): 0 equal, 1 sort, 2 compare.
     classes: 0 = ptr A, 1 = ptr B, 2 = slice of int, 3 = ptr C.
     equal on A asks for equal on B and compare on the slice; sort on the slice asks for compare on the
     slice (the shared helper) and equal on C.  equal's two helpers are minted in the order in which
     equal and sort have their turns: deriveEqual_ / deriveEqual_1 swap. *)
  Definition tyname (t : nat) : str := [].
  Definition requests (k t : nat) : list (nat * nat) :=
    match k, t with
    | 0, 0 => [(0, 1); (2, 2)]
    | 1, 2 => [(2, 2); (0, 3)]
    | _, _ => []
    end.
  Definition ps := [mkP (s "equal"%string) (s "deriveEqual"%string); mkP (s "sort"%string) (s "deriveSort"%string);
                    mkP (s "compare"%string) (s "deriveCompare"%string)].
  (* -pluginprefix=equal=eq,sort=sortedBy: equal's prefix becomes the shortest, sort now comes before equal *)
  Definition ovs := [(s "equal"%string, s "eq"%string); (s "sort"%string, s "sortedBy"%string)].
  Definition ps' := map (effective derive_head ovs) ps.
  Definition calls : list (nat * str * nat) := [(0, s "deriveEqual"%string, 0); (1, s "deriveSortInts"%string, 2)].
  Definition none (_ : str) : bool := false.

  Definition view (o : option (list (emitted nat))) :=
    option_map (map (fun e => (e_plugin nat e, e_class nat e, e_name nat e, e_helpers nat e))) o.
  Definition default_run := run nat Nat.eqb tyname requests 20 (pfx_of ps) none 10 (order ps) calls.
  Definition custom_run :=
    run nat Nat.eqb tyname requests 20 (pfx_of ps') none 10 (order ps') (map (rn_call nat (pfx_of ps) (pfx_of ps')) calls).

  Example orders_differ : order ps = [2; 0; 1] /\ order ps' = [2; 1; 0].
  Proof. vm_compute. split; reflexivity. Qed.

  Example default_out :
    view default_run = Some [ (0, 0, s "deriveEqual"%string, [(0, s "deriveEqual_"%string); (2, s "deriveCompare"%string)]);
                              (1, 2, s "deriveSortInts"%string, [(2, s "deriveCompare"%string); (0, s "deriveEqual_1"%string)]);
                              (2, 2, s "deriveCompare"%string, []);
                              (0, 1, s "deriveEqual_"%string, []);
                              (0, 3, s "deriveEqual_1"%string, []) ].
  Proof. vm_compute. reflexivity. Qed.

  (* sort goes first now: the helper for ptr C is minted before the one for ptr B, the two names swap *)
  Example custom_out :
    view custom_run = Some [ (1, 2, s "sortedByInts"%string, [(2, s "deriveCompare"%string); (0, s "eq_"%string)]);
                             (0, 0, s "eq"%string, [(0, s "eq_1"%string); (2, s "deriveCompare"%string)]);
                             (0, 3, s "eq_"%string, []);
                             (2, 2, s "deriveCompare"%string, []);
                             (0, 1, s "eq_1"%string, []) ].
  Proof. vm_compute. reflexivity. Qed.

  Lemma closure_enum q : closure nat requests calls q -> In q [(0, 0); (1, 2); (0, 1); (2, 2); (0, 3)].
  Proof.
    intros C. induction C as [q Hq|k q _ IH Hq].
    - cbn in Hq. destruct Hq as [<-|[<-|[]]]; cbn; auto.
    - cbn in IH. destruct IH as [<-|[<-|[<-|[<-|[<-|[]]]]]]; cbn in Hq;
        repeat (destruct Hq as [<-|Hq]; [cbn; auto 6|]); destruct Hq.
  Qed.

  Lemma nat_eqb_spec a b : reflect (a = b) (Nat.eqb a b).
  Proof. apply Nat.eqb_spec. Qed.

  (* the hypotheses of the theorem hold here, and its conclusion is about two really different runs *)
  Example ex_table_plugin_prefix_equivariant :
    exists out out',
      default_run = Some out /\ custom_run = Some out' /\
      map (ekey nat) out <> map (ekey nat) out' /\
      renamed_output nat (pfx_of ps) (pfx_of ps') calls out out' /\
      Permutation (map (ekey nat) out') (map (ekey nat) out).
  Proof.
    destruct default_run as [out|] eqn:D; [|vm_compute in D; discriminate].
    destruct (table_plugin_prefix_equivariant nat Nat.eqb nat_eqb_spec tyname requests 20 ps
                (effective derive_head ovs) none none [] 10 10 calls out) as (out' & R' & RO & _ & _ & Pm).
    - intros a. apply effective_pname.
    - vm_compute. repeat constructor; cbn; intuition discriminate.
    - intros q Hq. apply closure_enum in Hq. cbn in Hq.
      destruct Hq as [<-|[<-|[<-|[<-|[<-|[]]]]]]; cbn; lia.
    - intros k n t H. cbn in H. destruct H as [E|[E|[]]]; inversion E; subst; vm_compute; reflexivity.
    - intros c H. discriminate.
    - vm_compute in D. inversion D; subst. vm_compute. lia.
    - vm_compute in D. inversion D; subst. vm_compute. lia.
    - exact D.
    - exists out, out'. split; [reflexivity|]. split; [exact R'|]. split; [|split; [exact RO | exact Pm]].
      unfold custom_run in *. fold ps' in R'. vm_compute in D. vm_compute in R'. inversion D; inversion R'; subst.
      vm_compute. discriminate.
  Qed.
End ExampleFull.
