(* Prefix/GenClosure.v — the generation model of Prefix/Gen.v (per-plugin typesMaps, names, prefixes)
   refines the generate-until-done work list of Gen/Worklist.v (proved complete and terminating for
   every request relation, Properties/C01.v).  Consequences, for EVERY plugin order that contains the
   plugins the closure mentions, every prefix map and every request relation:

     run_refines              the run is a run of Worklist.loop on the abstracted state;
     run_generates_closure    a successful run emits exactly the closure of the user's calls under
                              [requests], each (plugin, class) exactly once (Worklist.loop_complete);
     run_order_independent    the set of emitted keys does not depend on the order, prefixes, reserved set.

   (GenCanon.v: the names in the output; GenTotal.v: the run only fails for lack of fuel; GenFull.v: the
   per-plugin theorem of C12.)

   The keys are (plugin id, class); the abstraction relates the merged, insertion-ordered work list of
   Worklist.v with the per-plugin tables by projection ([filter] on the plugin id). *)
From Coq Require Import String.
From Coq Require Import List NArith Arith Bool Lia Permutation.
From Verif Require Import Prefix.Str Prefix.Names Prefix.Gen.
From Verif Require Gen.Worklist.
Import ListNotations.

Module W := Verif.Gen.Worklist.

(* ---------- list lemmas ---------- *)
Lemma filter_comm {A} (f g : A -> bool) l : filter f (filter g l) = filter g (filter f l).
Proof.
  induction l as [|a l IH]; cbn; [reflexivity|].
  destruct (f a) eqn:F, (g a) eqn:G; cbn; rewrite ?F, ?G, IH; reflexivity.
Qed.

Lemma filter_map_comm {A B} (g : B -> bool) (f : A -> B) l :
  filter g (map f l) = map f (filter (fun x => g (f x)) l).
Proof.
  induction l as [|a l IH]; cbn; [reflexivity|]. destruct (g (f a)); cbn; rewrite IH; reflexivity.
Qed.

Lemma filter_len_le {A} (f : A -> bool) l : length (filter f l) <= length l.
Proof. induction l as [|a l IH]; cbn; [lia|]. destruct (f a); cbn; lia. Qed.

Lemma NoDup_map_inv' {A B} (f : A -> B) l : NoDup (map f l) -> NoDup l.
Proof.
  induction l as [|a l IH]; cbn; intros H; [constructor|]. inversion H; subst.
  constructor; [|auto]. intros Hin. apply H2. apply in_map. exact Hin.
Qed.

Lemma NoDup_filter' {A} (f : A -> bool) l : NoDup l -> NoDup (filter f l).
Proof.
  induction l as [|a l IH]; cbn; intros H; [constructor|]. inversion H; subst.
  destruct (f a); [constructor|]; auto. intros Hin. apply filter_In in Hin. tauto.
Qed.

Section Refine.
  Variable T : Type.
  Variable T_eqb : T -> T -> bool.
  Hypothesis T_eqb_spec : forall a b, reflect (a = b) (T_eqb a b).
  Variable tyname : T -> str.
  Variable requests : nat -> T -> list (nat * T).
  Variable nfuel : nat.

  Definition key : Type := (nat * T)%type.
  Definition key_eqb (a b : key) : bool := Nat.eqb (fst a) (fst b) && T_eqb (snd a) (snd b).
  Lemma key_eqb_spec a b : reflect (a = b) (key_eqb a b).
  Proof.
    destruct a as [k t], b as [k' t']. unfold key_eqb. cbn [fst snd].
    destruct (Nat.eqb_spec k k') as [->|N]; cbn.
    - destruct (T_eqb_spec t t') as [->|N]; constructor; congruence.
    - constructor. congruence.
  Qed.
  Definition kreq (q : key) : list key := requests (fst q) (snd q).
  Definition ckey (c : nat * str * T) : key := match c with (k, _, t) => (k, t) end.
  Definition ekey (e : emitted T) : key := (e_plugin T e, e_class T e).
  Definition closure (calls : list (nat * str * T)) : key -> Prop := W.closure key kreq (map ckey calls).

  (* every key's plugin must be in the list Worklist's plugins take turns in; ids outside [ord] (no key
     of the closure has one) are sent to the head of [ord] *)
  Definition inb (k : nat) (ord : list nat) : bool := existsb (Nat.eqb k) ord.
  Definition plugin_of (ord : list nat) (q : key) : nat := if inb (fst q) ord then fst q else hd 0 ord.
  Lemma inb_In k ord : inb k ord = true <-> In k ord.
  Proof.
    unfold inb. rewrite existsb_exists. split.
    - intros (x & Hx & E). apply Nat.eqb_eq in E. subst. exact Hx.
    - intros H. exists k. split; [exact H | apply Nat.eqb_refl].
  Qed.
  Lemma plugin_of_in ord q : In (fst q) ord -> plugin_of ord q = fst q.
  Proof. intros H. unfold plugin_of. apply inb_In in H. rewrite H. reflexivity. Qed.
  Lemma plugin_known ord : ord <> [] -> forall q, In (plugin_of ord q) ord.
  Proof.
    intros Hne q. unfold plugin_of. destruct (inb (fst q) ord) eqn:E; [apply inb_In; exact E|].
    destruct ord; [congruence | left; reflexivity].
  Qed.

  Notation wstate := (W.state key).
  Notation wreg := (W.registered key).
  Notation wgen := (W.generated key).
  Notation wregister := (W.register key key_eqb).
  Notation wgenerate := (W.generate key key_eqb kreq).
  Notation wmem := (W.mem key key_eqb).
  Notation pstate := (pstate T).
  Notation state := (state T).

  Definition classes (ps : pstate) : list T := map snd (tab T ps).
  Definition onp (p : nat) (q : key) : bool := Nat.eqb (fst q) p.

  Lemma memT_In t l : memT T T_eqb t l = true <-> In t l.
  Proof.
    unfold memT. rewrite existsb_exists. split.
    - intros (x & Hx & E). destruct (T_eqb_spec t x); [subst; exact Hx | discriminate].
    - intros H. exists t. split; [exact H|]. destruct (T_eqb_spec t t); [reflexivity | contradiction].
  Qed.
  Lemma wmem_In q l : wmem q l = true <-> In q l.
  Proof. apply W.mem_In. exact key_eqb_spec. Qed.

  Lemma name_of_none tb t : name_of T T_eqb tb t = None <-> ~ In t (map snd tb).
  Proof.
    unfold name_of. destruct (find (fun e => T_eqb t (snd e)) tb) as [e|] eqn:F.
    - split; [discriminate|]. intros H. exfalso. apply H. apply find_some in F. destruct F as [Hin E].
      destruct (T_eqb_spec t (snd e)); [subst; apply in_map; exact Hin | discriminate].
    - split; [|reflexivity]. intros _ Hin. apply in_map_iff in Hin. destruct Hin as (e & <- & He).
      pose proof (find_none _ _ F e He) as E. cbn in E. destruct (T_eqb_spec (snd e) (snd e)); [discriminate | contradiction].
  Qed.
  Lemma name_of_some tb t n : name_of T T_eqb tb t = Some n -> In (n, t) tb.
  Proof.
    unfold name_of. destruct (find (fun e => T_eqb t (snd e)) tb) as [e|] eqn:F; [|discriminate].
    intros H. inversion H; subst. apply find_some in F. destruct F as [Hin E].
    destruct (T_eqb_spec t (snd e)); [subst; destruct e; exact Hin | discriminate].
  Qed.
  Lemma name_of_app_some tb l t n : name_of T T_eqb tb t = Some n -> name_of T T_eqb (tb ++ l) t = Some n.
  Proof.
    unfold name_of. induction tb as [|e tb IH]; cbn; [discriminate|].
    destruct (T_eqb t (snd e)); [auto | exact IH].
  Qed.
  Lemma name_of_app_new tb n t : name_of T T_eqb tb t = None -> name_of T T_eqb (tb ++ [(n, t)]) t = Some n.
  Proof.
    unfold name_of. induction tb as [|e tb IH]; cbn.
    - intros _. destruct (T_eqb_spec t t); [reflexivity | contradiction].
    - destruct (T_eqb t (snd e)); [discriminate | exact IH].
  Qed.

  (* ---------- the abstraction relation ---------- *)
  Section Sim.
    Variable calls : list (nat * str * T).

    Record R (st : state) (ws : wstate) : Prop := {
      R_reg : forall p, filter (onp p) (wreg ws) = map (pair p) (classes (st p));
      R_gen : forall p, filter (onp p) (wgen ws) = map (pair p) (gen T (st p));
      R_nd : NoDup (wreg ws);
      R_cl : forall q, In q (wreg ws) -> closure calls q }.

    Lemma on_pair_iff (l : list key) p t (m : list T) :
      filter (onp p) l = map (pair p) m -> (In (p, t) l <-> In t m).
    Proof.
      intros E. split.
      - intros H. assert (H' : In (p, t) (filter (onp p) l))
          by (apply filter_In; split; [exact H | unfold onp; cbn; apply Nat.eqb_refl]).
        rewrite E in H'. apply in_map_iff in H'. destruct H' as (x & Ex & Hx). inversion Ex; subst. exact Hx.
      - intros H. assert (H' : In (p, t) (filter (onp p) l)) by (rewrite E; apply in_map; exact H).
        apply filter_In in H'. apply H'.
    Qed.

    Lemma R_in_reg st ws p t : R st ws -> (In (p, t) (wreg ws) <-> In t (classes (st p))).
    Proof. intros H. apply on_pair_iff, (R_reg _ _ H). Qed.
    Lemma R_in_gen st ws p t : R st ws -> (In (p, t) (wgen ws) <-> In t (gen T (st p))).
    Proof. intros H. apply on_pair_iff, (R_gen _ _ H). Qed.
    Lemma R_classes_nodup st ws p : R st ws -> NoDup (classes (st p)).
    Proof.
      intros H. apply (NoDup_map_inv' (pair p)). rewrite <- (R_reg _ _ H). apply NoDup_filter', (R_nd _ _ H).
    Qed.
    Lemma R_mem_gen st ws p t : R st ws -> wmem (p, t) (wgen ws) = memT T T_eqb t (gen T (st p)).
    Proof.
      intros H. pose proof (R_in_gen st ws p t H) as E. rewrite <- wmem_In, <- memT_In in E.
      destruct (wmem (p, t) (wgen ws)), (memT T T_eqb t (gen T (st p))); try reflexivity;
        destruct E as [E1 E2]; [symmetry; apply E1; reflexivity | apply E2; reflexivity].
    Qed.
    Lemma R_mem_reg st ws p t : R st ws -> wmem (p, t) (wreg ws) = true <-> In t (classes (st p)).
    Proof. intros H. rewrite wmem_In. apply R_in_reg, H. Qed.

    Lemma R_ext st st' ws :
      (forall p, tab T (st' p) = tab T (st p) /\ gen T (st' p) = gen T (st p)) -> R st ws -> R st' ws.
    Proof.
      intros E H. constructor; [| |apply (R_nd _ _ H)|apply (R_cl _ _ H)]; intros p; destruct (E p) as [E1 E2].
      - unfold classes. rewrite E1. apply (R_reg _ _ H).
      - rewrite E2. apply (R_gen _ _ H).
    Qed.

    Lemma filter_onp_single p k t : filter (onp p) [(k, t)] = if Nat.eqb p k then [(k, t)] else [].
    Proof. cbn. unfold onp. cbn. rewrite (Nat.eqb_sym k p). destruct (Nat.eqb p k); reflexivity. Qed.

    (* a new class is appended to plugin k's table / to the work list *)
    Lemma R_append st ws k t n :
      R st ws -> ~ In t (classes (st k)) -> closure calls (k, t) ->
      R (upd T st k (mkS T (tab T (st k) ++ [(n, t)]) (gen T (st k))))
        {| W.registered := wreg ws ++ [(k, t)]; W.generated := wgen ws |}.
    Proof.
      intros H Hn Hc. constructor; cbn [W.registered W.generated].
      - intros p. rewrite filter_app, filter_onp_single, (R_reg _ _ H). unfold upd.
        destruct (Nat.eqb p k) eqn:E.
        + apply Nat.eqb_eq in E. subst p. unfold classes. cbn [tab]. rewrite !map_app. reflexivity.
        + rewrite app_nil_r. reflexivity.
      - intros p. rewrite (R_gen _ _ H). unfold upd. destruct (Nat.eqb p k) eqn:E; [|reflexivity].
        apply Nat.eqb_eq in E. subst p. reflexivity.
      - apply W.NoDup_snoc; [apply (R_nd _ _ H)|]. intros Hin. apply Hn. apply (R_in_reg st ws k t H). exact Hin.
      - intros q Hq. apply in_app_or in Hq. destruct Hq as [Hq|[<-|[]]]; [apply (R_cl _ _ H q Hq) | exact Hc].
    Qed.

    Lemma R_upd_same st ws k : R st ws -> R (upd T st k (mkS T (tab T (st k)) (gen T (st k)))) ws.
    Proof.
      apply R_ext. intros p. unfold upd. destruct (Nat.eqb p k) eqn:E; [|split; reflexivity].
      apply Nat.eqb_eq in E. subst. split; reflexivity.
    Qed.

    (* GetFuncName = register *)
    Lemma R_get_func_name p res st ws k t n tb' :
      R st ws -> closure calls (k, t) ->
      get_func_name T T_eqb tyname nfuel p res (tab T (st k)) t = Some (n, tb') ->
      R (upd T st k (mkS T tb' (gen T (st k)))) (wregister (k, t) ws).
    Proof.
      intros H Hc G. unfold get_func_name in G. unfold W.register.
      destruct (name_of T T_eqb (tab T (st k)) t) as [m|] eqn:Nm.
      - inversion G; subst. apply name_of_some in Nm.
        assert (M : wmem (k, t) (wreg ws) = true).
        { apply (R_mem_reg st ws k t H). unfold classes. apply in_map_iff. exists (n, t). split; [reflexivity | exact Nm]. }
        rewrite M. apply R_upd_same, H.
      - destruct (new_name nfuel p (tyname t) _) as [m|]; [|discriminate]. inversion G; subst.
        apply name_of_none in Nm.
        assert (M : wmem (k, t) (wreg ws) = false).
        { destruct (wmem (k, t) (wreg ws)) eqn:M; [|reflexivity]. exfalso. apply Nm. apply (R_mem_reg st ws k t H). exact M. }
        rewrite M. apply R_append; assumption.
    Qed.

    (* SetFuncName = register *)
    Lemma R_set_func_name st ws k t n tb' :
      R st ws -> closure calls (k, t) ->
      set_func_name T T_eqb (tab T (st k)) n t = Some tb' ->
      R (upd T st k (mkS T tb' (gen T (st k)))) (wregister (k, t) ws).
    Proof.
      intros H Hc G. unfold set_func_name in G. unfold W.register.
      destruct (name_of T T_eqb (tab T (st k)) t) as [m|] eqn:Nm.
      - destruct (str_eqb m n); [|discriminate]. inversion G; subst. apply name_of_some in Nm.
        assert (M : wmem (k, t) (wreg ws) = true).
        { apply (R_mem_reg st ws k t H). unfold classes. apply in_map_iff. exists (m, t). split; [reflexivity | exact Nm]. }
        rewrite M. apply R_upd_same, H.
      - destruct (mem_str _ n); [discriminate|]. inversion G; subst. apply name_of_none in Nm.
        assert (M : wmem (k, t) (wreg ws) = false).
        { destruct (wmem (k, t) (wreg ws)) eqn:M; [|reflexivity]. exfalso. apply Nm. apply (R_mem_reg st ws k t H). exact M. }
        rewrite M. apply R_append; assumption.
    Qed.

    Section Run.
      Variable pfx : nat -> str.
      Variable res : str -> bool.

      Notation do_requests := (do_requests T T_eqb tyname nfuel pfx res).
      Notation gen_one := (gen_one T T_eqb tyname requests nfuel pfx res).
      Notation gen_list := (gen_list T T_eqb tyname requests nfuel pfx res).
      Notation round := (round T T_eqb tyname requests nfuel pfx res).
      Notation loop := (loop T T_eqb tyname requests nfuel pfx res).
      Notation run := (run T T_eqb tyname requests nfuel pfx res).

      Lemma R_do_requests rs : forall st ws st' hs,
        R st ws -> (forall q, In q rs -> closure calls q) ->
        do_requests st rs = Some (st', hs) ->
        R st' (fold_left (fun s q => wregister q s) rs ws).
      Proof.
        induction rs as [|[k t] r IH]; intros st ws st' hs H Hc D; cbn [Gen.do_requests] in D; cbn [fold_left].
        - inversion D; subst. exact H.
        - destruct (get_func_name T T_eqb tyname nfuel (pfx k) res (tab T (st k)) t) as [[n tb']|] eqn:G; [|discriminate].
          destruct (do_requests (upd T st k (mkS T tb' (gen T (st k)))) r) as [[s2 ns]|] eqn:D2; [|discriminate].
          inversion D; subst. eapply IH; [| |exact D2].
          + eapply R_get_func_name; [exact H | apply Hc; left; reflexivity | exact G].
          + intros q Hq. apply Hc. right. exact Hq.
      Qed.

      Lemma R_mark st ws k t :
        R st ws -> R (upd T st k (mkS T (tab T (st k)) (t :: gen T (st k))))
                     {| W.registered := wreg ws; W.generated := (k, t) :: wgen ws |}.
      Proof.
        intros H. constructor; cbn [W.registered W.generated]; [| |apply (R_nd _ _ H)|apply (R_cl _ _ H)].
        - intros p. rewrite (R_reg _ _ H). unfold upd. destruct (Nat.eqb p k) eqn:E; [|reflexivity].
          apply Nat.eqb_eq in E. subst. reflexivity.
        - intros p. cbn [filter]. unfold onp at 1. cbn [fst]. rewrite (Nat.eqb_sym k p). unfold upd.
          destruct (Nat.eqb p k) eqn:E.
          + apply Nat.eqb_eq in E. subst. cbn [gen map]. rewrite (R_gen _ _ H). reflexivity.
          + apply (R_gen _ _ H).
      Qed.

      Lemma gen_one_key k t st st' e : gen_one k t st = Some (st', e) -> ekey e = (k, t).
      Proof.
        unfold Gen.gen_one. destruct (name_of T T_eqb (tab T (st k)) t); [|discriminate].
        destruct (do_requests _ _) as [[s1 hs]|]; [|discriminate]. intros H. inversion H; subst. reflexivity.
      Qed.

      (* Generate = generate *)
      Lemma R_gen_one k t st ws st' e :
        R st ws -> In t (classes (st k)) ->
        gen_one k t st = Some (st', e) -> R st' (wgenerate (k, t) ws).
      Proof.
        intros H Hin G. unfold Gen.gen_one in G.
        destruct (name_of T T_eqb (tab T (st k)) t) as [own|]; [|discriminate].
        destruct (do_requests _ (requests k t)) as [[s1 hs]|] eqn:D; [|discriminate].
        inversion G; subst. unfold W.generate.
        eapply R_do_requests; [apply R_mark, H | | exact D].
        intros q Hq. apply (W.c_req key kreq _ (k, t) q); [|exact Hq].
        apply (R_cl _ _ H). apply (R_in_reg st ws k t H). exact Hin.
      Qed.

      Lemma wgenerate_generated q ws : wgen (wgenerate q ws) = q :: wgen ws.
      Proof. unfold W.generate. rewrite W.reg_all_generated. reflexivity. Qed.
      Lemma wgenerate_registered q ws x : In x (wreg ws) -> In x (wreg (wgenerate q ws)).
      Proof. intros H. unfold W.generate. apply (W.reg_all_spec key key_eqb key_eqb_spec kreq). left. exact H. Qed.

      (* what a snapshot ToGenerate() satisfies, and keeps satisfying while its keys are generated *)
      Definition pending (k : nat) (st : state) (ts : list T) : Prop :=
        forall t, In t ts -> In t (classes (st k)) /\ ~ In t (gen T (st k)).

      Lemma to_generate_pending st ws k :
        R st ws -> NoDup (to_generate T T_eqb (st k)) /\ pending k st (to_generate T T_eqb (st k)).
      Proof.
        intros H. split.
        - unfold Gen.to_generate. apply NoDup_filter', (R_classes_nodup st ws k H).
        - intros t Ht. unfold Gen.to_generate in Ht. apply filter_In in Ht. destruct Ht as [Hc Hm].
          split; [exact Hc|]. intros Hin. apply memT_In in Hin. rewrite Hin in Hm. discriminate.
      Qed.

      Lemma pending_step k t r st ws s1 :
        R st ws -> R s1 (wgenerate (k, t) ws) -> ~ In t r -> pending k st (t :: r) -> pending k s1 r.
      Proof.
        intros H H1 Hnin Hts t' Ht'. destruct (Hts t' (or_intror Ht')) as [Hc' Hg']. split.
        - apply (R_in_reg s1 _ k t' H1). apply wgenerate_registered. apply (R_in_reg st ws k t' H). exact Hc'.
        - intros Hin. apply (R_in_gen s1 _ k t' H1) in Hin. rewrite wgenerate_generated in Hin.
          destruct Hin as [E|Hin]; [inversion E; subst; contradiction|].
          apply Hg'. apply (R_in_gen st ws k t' H). exact Hin.
      Qed.

      (* one plugin's snapshot = gen_all *)
      Lemma R_gen_list k ts : forall st ws out st' out',
        R st ws -> NoDup ts -> pending k st ts ->
        gen_list k ts st out = Some (st', out') ->
        R st' (W.gen_all key key_eqb kreq (map (pair k) ts) ws) /\
        wgen (W.gen_all key key_eqb kreq (map (pair k) ts) ws) = rev (map (pair k) ts) ++ wgen ws /\
        map ekey out' = map ekey out ++ map (pair k) ts.
      Proof.
        induction ts as [|t r IH]; intros st ws out st' out' H ND Hts G; cbn [Gen.gen_list] in G.
        - inversion G; subst. cbn. rewrite app_nil_r. auto.
        - destruct (gen_one k t st) as [[s1 e]|] eqn:G1; [|discriminate].
          destruct (Hts t (or_introl eq_refl)) as [Hc Hg].
          pose proof (R_gen_one k t st ws s1 e H Hc G1) as H1.
          unfold W.gen_all. cbn [map fold_left].
          assert (M : wmem (k, t) (wgen ws) = false).
          { rewrite (R_mem_gen st ws k t H). destruct (memT T T_eqb t (gen T (st k))) eqn:M; [|reflexivity].
            exfalso. apply Hg. apply memT_In. exact M. }
          rewrite M. inversion ND as [|? ? Hnin ND']; subst.
          destruct (IH s1 (wgenerate (k, t) ws) (out ++ [e]) st' out' H1 ND') as (H2 & G2 & O2); [|exact G|].
          + exact (pending_step k t r st ws s1 H H1 Hnin Hts).
          + unfold W.gen_all in H2, G2. split; [exact H2|]. split.
            * rewrite G2, wgenerate_generated. cbn [rev]. rewrite <- app_assoc. reflexivity.
            * rewrite O2, map_app. cbn [map]. rewrite (gen_one_key k t st s1 e G1), <- app_assoc. reflexivity.
      Qed.

      Lemma to_generate_filter st ws p :
        R st ws ->
        filter (onp p) (W.to_generate key key_eqb ws) = map (pair p) (to_generate T T_eqb (st p)).
      Proof.
        intros H. unfold W.to_generate, Gen.to_generate. rewrite filter_comm, (R_reg _ _ H), filter_map_comm.
        f_equal. apply filter_ext. intros t. rewrite (R_mem_gen st ws p t H). reflexivity.
      Qed.

      Definition known (ord : list nat) : Prop := forall q, closure calls q -> In (fst q) ord.

      Lemma turn_filter ord st ws p :
        known ord -> R st ws ->
        filter (fun q => Nat.eqb (plugin_of ord q) p) (W.to_generate key key_eqb ws)
        = map (pair p) (to_generate T T_eqb (st p)).
      Proof.
        intros K H. rewrite <- (to_generate_filter st ws p H). apply filter_ext_in. intros q Hq.
        unfold W.to_generate in Hq. apply filter_In in Hq. destruct Hq as [Hq _].
        rewrite plugin_of_in; [reflexivity|]. apply K, (R_cl _ _ H), Hq.
      Qed.

      (* one pass over the plugins *)
      Lemma R_round ord0 ord : forall st ws out st' out',
        known ord0 -> R st ws -> wgen ws = rev (map ekey out) ->
        round ord st out = Some (st', out') ->
        R st' (fold_left (W.turn key key_eqb kreq (plugin_of ord0)) ord ws) /\
        wgen (fold_left (W.turn key key_eqb kreq (plugin_of ord0)) ord ws) = rev (map ekey out').
      Proof.
        induction ord as [|k r IH]; intros st ws out st' out' K H G Rd; cbn [Gen.round] in Rd; cbn [fold_left].
        - inversion Rd; subst. auto.
        - destruct (gen_list k (to_generate T T_eqb (st k)) st out) as [[s1 o1]|] eqn:GL; [|discriminate].
          unfold W.turn at 2 4. rewrite (turn_filter ord0 st ws k K H).
          destruct (R_gen_list k (to_generate T T_eqb (st k)) st ws out s1 o1 H) as (H1 & G1 & O1);
            [apply (to_generate_pending st ws k H) | apply (to_generate_pending st ws k H) | exact GL |].
          apply (IH s1 _ o1 st' out' K H1); [|exact Rd].
            rewrite G1, G, O1, rev_app_distr. reflexivity.
      Qed.

      Lemma done_eq ord st ws :
        known ord -> R st ws -> done T T_eqb ord st = W.done key key_eqb ws.
      Proof.
        intros K H. unfold Gen.done, W.done.
        destruct (forallb (fun k => wmem k (wgen ws)) (wreg ws)) eqn:D.
        - rewrite forallb_forall in D. apply forallb_forall. intros k Hk.
          destruct (to_generate T T_eqb (st k)) as [|t l] eqn:E; [reflexivity|]. exfalso.
          assert (Ht : In t (to_generate T T_eqb (st k))) by (rewrite E; left; reflexivity).
          unfold Gen.to_generate in Ht. apply filter_In in Ht. destruct Ht as [Hc Hm].
          apply (R_in_reg st ws k t H) in Hc. apply D in Hc. rewrite (R_mem_gen st ws k t H) in Hc.
          rewrite Hc in Hm. discriminate.
        - destruct (forallb _ ord) eqn:D'; [|reflexivity]. exfalso.
          rewrite forallb_forall in D'.
          assert (F : forallb (fun k => wmem k (wgen ws)) (wreg ws) = true); [|congruence].
          apply forallb_forall. intros [k t] Hq.
          assert (Hk : In k ord) by (apply (K (k, t)), (R_cl _ _ H), Hq).
          specialize (D' k Hk). rewrite (R_mem_gen st ws k t H).
          destruct (memT T T_eqb t (gen T (st k))) eqn:M; [reflexivity|]. exfalso.
          assert (Ht : In t (to_generate T T_eqb (st k))).
          { unfold Gen.to_generate. apply filter_In. split; [apply (R_in_reg st ws k t H), Hq | rewrite M; reflexivity]. }
          destruct (to_generate T T_eqb (st k)); [destruct Ht | discriminate].
      Qed.

      Notation wloop ord := (W.loop key key_eqb kreq (plugin_of ord) ord).

      Lemma R_loop ord fuel : forall st ws out out',
        known ord -> R st ws -> wgen ws = rev (map ekey out) ->
        loop fuel ord st out = Some out' ->
        exists ws', wloop ord fuel ws = Some ws' /\ wgen ws' = rev (map ekey out').
      Proof.
        induction fuel as [|f IH]; intros st ws out out' K H G L; cbn [Gen.loop] in L; [discriminate|].
        rewrite (done_eq ord st ws K H) in L.
        destruct (W.done key key_eqb ws) eqn:D.
        - inversion L; subst. exists ws. split; [|exact G]. destruct f; cbn; rewrite D; reflexivity.
        - destruct (round ord st out) as [[s1 o1]|] eqn:Rd; [|discriminate].
          destruct (R_round ord ord st ws out s1 o1 K H G Rd) as [H1 G1].
          destruct (IH s1 _ o1 out' K H1 G1 L) as (ws' & L' & G').
          exists ws'. split; [|exact G']. cbn [W.loop]. rewrite D. exact L'.
      Qed.

      Lemma R_init : R (init T) {| W.registered := []; W.generated := [] |}.
      Proof. constructor; cbn; try reflexivity; [constructor | intros q []]. Qed.

      (* newPackage = start *)
      Lemma R_add_calls cs : forall st ws st',
        R st ws -> (forall c, In c cs -> closure calls (ckey c)) ->
        add_calls T T_eqb cs st = Some st' ->
        R st' (fold_left (fun s q => wregister q s) (map ckey cs) ws).
      Proof.
        induction cs as [|[[k n] t] r IH]; intros st ws st' H Hc A; cbn [Gen.add_calls] in A; cbn [map fold_left].
        - inversion A; subst. exact H.
        - destruct (set_func_name T T_eqb (tab T (st k)) n t) as [tb'|] eqn:S; [|discriminate].
          eapply IH; [| |exact A].
          + eapply R_set_func_name; [exact H | apply (Hc (k, n, t)); left; reflexivity | exact S].
          + intros c Hin. apply Hc. right. exact Hin.
      Qed.

      Theorem run_refines ord fuel out :
        known ord -> run fuel ord calls = Some out ->
        exists ws', wloop ord fuel (W.start key key_eqb (map ckey calls)) = Some ws' /\ wgen ws' = rev (map ekey out).
      Proof.
        intros K Rn. unfold Gen.run in Rn. destruct (add_calls T T_eqb calls (init T)) as [st|] eqn:A; [|discriminate].
        assert (H : R st (W.start key key_eqb (map ckey calls))).
        { unfold W.start. eapply R_add_calls; [apply R_init | | exact A].
          intros c Hc. apply W.c_init. apply in_map. exact Hc. }
        eapply R_loop; [exact K | exact H | | exact Rn].
        unfold W.start. rewrite W.reg_all_generated. reflexivity.
      Qed.

      (* a successful run emits exactly the closure of the user's calls, each key once *)
      Theorem run_generates_closure ord fuel out :
        known ord -> run fuel ord calls = Some out ->
        (forall q, In q (map ekey out) <-> closure calls q) /\ NoDup (map ekey out).
      Proof.
        intros K Rn. destruct (run_refines ord fuel out K Rn) as (ws' & L & G).
        destruct (W.loop_complete key key_eqb key_eqb_spec kreq (plugin_of ord) ord _ _ _ L) as [C ND].
        rewrite G in C, ND. split.
        - intros q. unfold closure. rewrite <- C. rewrite <- in_rev. reflexivity.
        - apply NoDup_rev in ND. rewrite rev_involutive in ND. exact ND.
      Qed.
    End Run.
  End Sim.

  Lemma closure_ext calls calls' q : map ckey calls = map ckey calls' -> closure calls q -> closure calls' q.
  Proof. unfold closure. intros ->. auto. Qed.

  (* the SET of emitted (plugin, class) does not depend on the plugin order, the prefixes, the reserved
     names or the names the user gave to the calls *)
  Theorem run_order_independent pfx res pfx' res' fuel fuel' ord ord' calls calls' out out' :
    map ckey calls = map ckey calls' -> known calls ord -> known calls ord' ->
    run T T_eqb tyname requests nfuel pfx res fuel ord calls = Some out ->
    run T T_eqb tyname requests nfuel pfx' res' fuel' ord' calls' = Some out' ->
    Permutation (map ekey out) (map ekey out').
  Proof.
    intros E K K' R1 R2.
    assert (K2 : known calls' ord') by (intros q Hq; apply K'; eapply closure_ext; [symmetry; exact E | exact Hq]).
    destruct (run_generates_closure calls pfx res ord fuel out K R1) as [C1 N1].
    destruct (run_generates_closure calls' pfx' res' ord' fuel' out' K2 R2) as [C2 N2].
    apply NoDup_Permutation; [exact N1 | exact N2|]. intros q. rewrite C1, C2.
    split; apply closure_ext; [exact E | symmetry; exact E].
  Qed.
End Refine.
