(* Prefix/GenCanon.v — the names in the output of the generation model (Prefix/Gen.v).

   run_canonical: the output of a successful run is determined by its list of keys and ONE naming
   function N (the final typesMaps): every record is [render N key] — its name is N key and the helper
   names in its body are N of the keys it requests — N is the user's name on the user's calls, injective
   on each plugin, and every name carries its plugin's prefix.

   plugin_prefix_equivariant: two successful runs — ANY two plugin orders that contain the plugins of the
   closure, any two prefix maps, any reserved sets, the second run on the renamed calls — emit the same
   functions up to order: out' is a permutation of [map (ren sigma) out] for a per-plugin renaming sigma
   that is the prefix renaming [rn] on the names the user called, injective on each plugin's names and
   lands in the new prefix (helper names correspond one to one; with the same order and agreeing
   reserved sets sigma is [rn] itself on every name and the sequences agree: Gen.run_equivariant). *)
From Coq Require Import String.
From Coq Require Import List NArith Arith Bool Lia Permutation.
From Verif Require Import Prefix.Str Prefix.Names Prefix.Gen Prefix.GenClosure.
Import ListNotations.

Lemma mem_str_In l x : mem_str l x = true <-> In x l.
Proof.
  unfold mem_str. rewrite existsb_exists. split.
  - intros (y & Hy & E). apply str_eqb_eq in E. subst. exact Hy.
  - intros H. exists x. split; [exact H | apply str_eqb_refl].
Qed.

Section Canon.
  Variable T : Type.
  Variable T_eqb : T -> T -> bool.
  Hypothesis T_eqb_spec : forall a b, reflect (a = b) (T_eqb a b).
  Variable tyname : T -> str.
  Variable requests : nat -> T -> list (nat * T).
  Variable nfuel : nat.

  Notation key := (key T).
  Notation state := (state T).
  Notation table := (table T).
  Notation emitted := (emitted T).
  Notation name_of := (name_of T T_eqb).
  Notation kreq := (kreq T requests).
  Notation ekey := (ekey T).
  Notation names := (names T).
  Notation tab := (tab T).
  Notation gen := (gen T).
  Notation upd := (upd T).
  Notation mkS := (mkS T).

  Definition nameof (st : state) (q : key) : option str := name_of (tab (st (fst q))) (snd q).
  Definition ext (st st' : state) : Prop := forall q n, nameof st q = Some n -> nameof st' q = Some n.
  Definition has_pfx (p : str) (tb : table) : Prop := forall e, In e tb -> is_prefix p (fst e) = true.
  Definition tab_ext (tb tb' : table) : Prop := forall t m, name_of tb t = Some m -> name_of tb' t = Some m.

  Lemma ext_refl st : ext st st.
  Proof. intros q n H. exact H. Qed.
  Lemma ext_trans a b c : ext a b -> ext b c -> ext a c.
  Proof. intros H1 H2 q n H. apply H2, H1, H. Qed.

  Lemma has_pfx_app p tb n t : has_pfx p tb -> is_prefix p n = true -> has_pfx p (tb ++ [(n, t)]).
  Proof. intros W H e He. apply in_app_or in He. destruct He as [He|[<-|[]]]; [apply W, He | exact H]. Qed.

  Lemma names_snoc_nodup (tb : table) n t :
    NoDup (names tb) -> mem_str (names tb) n = false -> NoDup (names (tb ++ [(n, t)])).
  Proof.
    intros ND M. unfold Gen.names. rewrite map_app. cbn [map fst].
    apply W.NoDup_snoc; [exact ND|]. intros Hin. apply mem_str_In in Hin. unfold Gen.names in M. congruence.
  Qed.

  (* GetFuncName on one table *)
  Lemma get_func_name_tab p res tb t n tb' :
    get_func_name T T_eqb tyname nfuel p res tb t = Some (n, tb') ->
    name_of tb' t = Some n /\ tab_ext tb tb' /\
    (NoDup (names tb) -> NoDup (names tb')) /\ (has_pfx p tb -> has_pfx p tb').
  Proof.
    unfold get_func_name. destruct (name_of tb t) as [m|] eqn:Nm.
    - intros H. inversion H; subst. repeat split; auto. intros t' m' H'. exact H'.
    - destruct (new_name nfuel p (tyname t) (taken T res tb)) as [m|] eqn:NN; [|discriminate].
      intros H. inversion H; subst. split; [apply name_of_app_new; assumption|]. split; [|split].
      + intros t' m' H'. apply name_of_app_some. exact H'.
      + intros ND. apply names_snoc_nodup; [exact ND|].
        apply new_name_fresh in NN. unfold taken in NN. apply orb_false_iff in NN. apply NN.
      + intros W. apply has_pfx_app; [exact W | eapply new_name_has_prefix; exact NN].
  Qed.

  (* SetFuncName on one table *)
  Lemma set_func_name_tab p tb n t tb' :
    set_func_name T T_eqb tb n t = Some tb' ->
    name_of tb' t = Some n /\ tab_ext tb tb' /\
    (NoDup (names tb) -> NoDup (names tb')) /\ (is_prefix p n = true -> has_pfx p tb -> has_pfx p tb').
  Proof.
    unfold set_func_name. destruct (name_of tb t) as [m|] eqn:Nm.
    - destruct (str_eqb m n) eqn:E; [|discriminate]. apply str_eqb_eq in E. subst m.
      intros H. inversion H; subst. repeat split; auto. intros t' m' H'. exact H'.
    - destruct (mem_str (names tb) n) eqn:M; [discriminate|].
      intros H. inversion H; subst. split; [apply name_of_app_new; assumption|]. split; [|split].
      + intros t' m' H'. apply name_of_app_some. exact H'.
      + intros ND. apply names_snoc_nodup; assumption.
      + intros Hp W. apply has_pfx_app; assumption.
  Qed.

  Section Run.
    Variable pfx : nat -> str.
    Variable res : str -> bool.

    Definition good (st : state) : Prop :=
      (forall k, NoDup (names (tab (st k)))) /\ (forall k, has_pfx (pfx k) (tab (st k))).

    Lemma nameof_upd st k tb g q :
      nameof (upd st k (mkS tb g)) q = if Nat.eqb (fst q) k then name_of tb (snd q) else nameof st q.
    Proof. unfold nameof, Gen.upd. destruct (Nat.eqb (fst q) k); reflexivity. Qed.

    Lemma ext_upd st k tb g : tab_ext (tab (st k)) tb -> ext st (upd st k (mkS tb g)).
    Proof.
      intros E q n H. rewrite nameof_upd. destruct (Nat.eqb (fst q) k) eqn:Ek; [|exact H].
      apply Nat.eqb_eq in Ek. apply E. unfold nameof in H. rewrite Ek in H. exact H.
    Qed.

    Lemma good_upd st k tb g :
      good st -> (NoDup (names (tab (st k))) -> NoDup (names tb)) ->
      (has_pfx (pfx k) (tab (st k)) -> has_pfx (pfx k) tb) -> good (upd st k (mkS tb g)).
    Proof.
      intros [G1 G2] H1 H2. split; intros j; unfold Gen.upd; destruct (Nat.eqb j k) eqn:E;
        try apply G1; try apply G2; apply Nat.eqb_eq in E; subst j; cbn [Gen.tab]; auto.
    Qed.

    Definition hs_ok (st : state) (rs : list key) (hs : list (nat * str)) : Prop :=
      Forall2 (fun q h => fst h = fst q /\ nameof st q = Some (snd h)) rs hs.
    Definition e_ok (st : state) (e : emitted) : Prop :=
      nameof st (ekey e) = Some (e_name T e) /\ hs_ok st (kreq (ekey e)) (e_helpers T e).

    Lemma hs_ok_ext st st' rs hs : ext st st' -> hs_ok st rs hs -> hs_ok st' rs hs.
    Proof.
      intros E H. induction H as [|q h rs hs [H1 H2] _ IH]; constructor; [|exact IH].
      split; [exact H1 | apply E, H2].
    Qed.
    Lemma e_ok_ext st st' e : ext st st' -> e_ok st e -> e_ok st' e.
    Proof. intros E [H1 H2]. split; [apply E, H1 | eapply hs_ok_ext; eauto]. Qed.

    Notation do_requests := (do_requests T T_eqb tyname nfuel pfx res).
    Notation gen_one := (gen_one T T_eqb tyname requests nfuel pfx res).
    Notation gen_list := (gen_list T T_eqb tyname requests nfuel pfx res).
    Notation round := (round T T_eqb tyname requests nfuel pfx res).
    Notation loop := (loop T T_eqb tyname requests nfuel pfx res).
    Notation run := (run T T_eqb tyname requests nfuel pfx res).

    Lemma do_requests_names rs : forall st st' hs,
      do_requests st rs = Some (st', hs) -> good st ->
      ext st st' /\ good st' /\ hs_ok st' rs hs.
    Proof.
      induction rs as [|[k t] r IH]; intros st st' hs D G; cbn [Gen.do_requests] in D.
      - inversion D; subst. split; [apply ext_refl|]. split; [exact G | constructor].
      - destruct (get_func_name T T_eqb tyname nfuel (pfx k) res (tab (st k)) t) as [[n tb']|] eqn:GF; [|discriminate].
        destruct (do_requests (upd st k (mkS tb' (gen (st k)))) r) as [[s2 ns]|] eqn:D2; [|discriminate].
        inversion D; subst. destruct (get_func_name_tab _ _ _ _ _ _ GF) as (N1 & E1 & ND1 & P1).
        destruct (IH _ _ _ D2) as (E2 & G2 & H2); [apply good_upd; assumption|].
        split; [eapply ext_trans; [apply ext_upd; exact E1 | exact E2]|]. split; [exact G2|].
        constructor; [|exact H2]. cbn [fst snd]. split; [reflexivity|]. apply E2.
        rewrite nameof_upd. cbn [fst snd]. rewrite Nat.eqb_refl. exact N1.
    Qed.

    Lemma gen_one_names k t st st' e :
      gen_one k t st = Some (st', e) -> good st -> ext st st' /\ good st' /\ e_ok st' e.
    Proof.
      unfold Gen.gen_one. destruct (name_of (tab (st k)) t) as [own|] eqn:Nm; [|discriminate].
      destruct (do_requests _ (requests k t)) as [[s1 hs]|] eqn:D; [|discriminate].
      intros H G. inversion H; subst.
      destruct (do_requests_names _ _ _ _ D) as (E & G' & Hs); [apply good_upd; auto|].
      assert (E0 : ext st (upd st k (mkS (tab (st k)) (t :: gen (st k))))) by (apply ext_upd; intros t' m H'; exact H').
      split; [eapply ext_trans; eassumption|]. split; [exact G'|]. split.
      - cbn. apply E, E0. unfold nameof. cbn. exact Nm.
      - exact Hs.
    Qed.

    Lemma gen_list_names k ts : forall st out st' out',
      gen_list k ts st out = Some (st', out') -> good st -> Forall (e_ok st) out ->
      ext st st' /\ good st' /\ Forall (e_ok st') out'.
    Proof.
      induction ts as [|t r IH]; intros st out st' out' GL G F; cbn [Gen.gen_list] in GL.
      - inversion GL; subst. split; [apply ext_refl | auto].
      - destruct (gen_one k t st) as [[s1 e]|] eqn:G1; [|discriminate].
        destruct (gen_one_names _ _ _ _ _ G1 G) as (E1 & G1' & Ok).
        destruct (IH _ _ _ _ GL G1') as (E2 & G2 & F2).
        + apply Forall_app. split; [|constructor; [exact Ok | constructor]].
          eapply Forall_impl; [|exact F]. intros a Ha. eapply e_ok_ext; eauto.
        + split; [eapply ext_trans; eassumption | auto].
    Qed.

    Lemma round_names ord : forall st out st' out',
      round ord st out = Some (st', out') -> good st -> Forall (e_ok st) out ->
      ext st st' /\ good st' /\ Forall (e_ok st') out'.
    Proof.
      induction ord as [|k r IH]; intros st out st' out' Rd G F; cbn [Gen.round] in Rd.
      - inversion Rd; subst. split; [apply ext_refl | auto].
      - destruct (gen_list k (to_generate T T_eqb (st k)) st out) as [[s1 o1]|] eqn:GL; [|discriminate].
        destruct (gen_list_names _ _ _ _ _ _ GL G F) as (E1 & G1 & F1).
        destruct (IH _ _ _ _ Rd G1 F1) as (E2 & G2 & F2).
        split; [eapply ext_trans; eassumption | auto].
    Qed.

    Lemma loop_names fuel ord : forall st out out',
      loop fuel ord st out = Some out' -> good st -> Forall (e_ok st) out ->
      exists st', ext st st' /\ good st' /\ Forall (e_ok st') out'.
    Proof.
      induction fuel as [|f IH]; intros st out out' L G F; cbn [Gen.loop] in L; [discriminate|].
      destruct (done T T_eqb ord st).
      - inversion L; subst. exists st. split; [apply ext_refl | auto].
      - destruct (round ord st out) as [[s1 o1]|] eqn:Rd; [|discriminate].
        destruct (round_names _ _ _ _ _ Rd G F) as (E1 & G1 & F1).
        destruct (IH _ _ _ L G1 F1) as (st' & E2 & G2 & F2).
        exists st'. split; [eapply ext_trans; eassumption | auto].
    Qed.

    Definition prefixed (calls : list (nat * str * T)) : Prop :=
      forall k n t, In (k, n, t) calls -> is_prefix (pfx k) n = true.

    Lemma add_calls_names cs : forall st st',
      add_calls T T_eqb cs st = Some st' -> prefixed cs -> good st ->
      ext st st' /\ good st' /\ forall k n t, In (k, n, t) cs -> nameof st' (k, t) = Some n.
    Proof.
      induction cs as [|[[k n] t] r IH]; intros st st' A P G; cbn [Gen.add_calls] in A.
      - inversion A; subst. split; [apply ext_refl|]. split; [exact G | intros k n t []].
      - destruct (set_func_name T T_eqb (tab (st k)) n t) as [tb'|] eqn:S; [|discriminate].
        destruct (set_func_name_tab (pfx k) _ _ _ _ S) as (N1 & E1 & ND1 & P1).
        destruct (IH _ _ A) as (E2 & G2 & C2).
        + intros k0 n0 t0 H0. apply (P k0 n0 t0). right. exact H0.
        + apply good_upd; [exact G | exact ND1 | apply P1, (P k n t); left; reflexivity].
        + split; [eapply ext_trans; [apply ext_upd; exact E1 | exact E2]|]. split; [exact G2|].
          intros k0 n0 t0 [H0|H0]; [|apply C2, H0]. inversion H0; subst. apply E2.
          rewrite nameof_upd. cbn [fst snd]. rewrite Nat.eqb_refl. exact N1.
    Qed.

    (* ---------- canonical form ---------- *)
    Definition nm (N : key -> option str) (q : key) : str := match N q with Some n => n | None => [] end.
    Definition render (N : key -> option str) (q : key) : emitted :=
      mkE T (fst q) (snd q) (nm N q) (map (fun q' => (fst q', nm N q')) (kreq q)).

    Lemma hs_ok_render st rs hs : hs_ok st rs hs -> hs = map (fun q' => (fst q', nm (nameof st) q')) rs.
    Proof.
      intros H. induction H as [|q h rs hs [H1 H2] _ IH]; [reflexivity|]. cbn [map]. rewrite <- IH. f_equal.
      unfold nm. rewrite H2. destruct h; cbn in *; congruence.
    Qed.

    Lemma e_ok_render st e : e_ok st e -> e = render (nameof st) (ekey e).
    Proof.
      intros [H1 H2]. apply hs_ok_render in H2. destruct e as [k t n hs].
      change (ekey (mkE T k t n hs)) with (k, t) in *. cbn [e_name e_helpers] in *.
      unfold render. cbn [fst snd]. f_equal; [unfold nm; rewrite H1; reflexivity | exact H2].
    Qed.

    Lemma tab_name_inj (tb : table) t t' n :
      NoDup (names tb) -> name_of tb t = Some n -> name_of tb t' = Some n -> t = t'.
    Proof.
      intros ND H1 H2. apply (name_of_some T T_eqb T_eqb_spec) in H1, H2. unfold Gen.names in ND.
      induction tb as [|[m u] tb IH]; [destruct H1|]. cbn in ND. inversion ND as [|? ? Hn ND']; subst.
      destruct H1 as [H1|H1], H2 as [H2|H2].
      - congruence.
      - inversion H1; subst. exfalso. apply Hn. apply in_map_iff. exists (n, t'). split; [reflexivity | exact H2].
      - inversion H2; subst. exfalso. apply Hn. apply in_map_iff. exists (n, t). split; [reflexivity | exact H1].
      - apply IH; assumption.
    Qed.

    Lemma good_init : good (init T).
    Proof. split; intros k; cbn; [constructor | intros e []]. Qed.

    Theorem run_canonical fuel ord calls out :
      prefixed calls -> run fuel ord calls = Some out ->
      exists N : key -> option str,
        (forall e, In e out -> e = render N (ekey e)) /\
        (forall e, In e out -> N (ekey e) = Some (e_name T e)) /\
        (forall e q, In e out -> In q (kreq (ekey e)) -> N q <> None) /\
        (forall k n t, In (k, n, t) calls -> N (k, t) = Some n) /\
        (forall k t t' n, N (k, t) = Some n -> N (k, t') = Some n -> t = t') /\
        (forall k t n, N (k, t) = Some n -> is_prefix (pfx k) n = true).
    Proof.
      intros P Rn. unfold Gen.run in Rn. destruct (add_calls T T_eqb calls (init T)) as [st|] eqn:A; [|discriminate].
      destruct (add_calls_names _ _ _ A P good_init) as (_ & G1 & C1).
      destruct (loop_names _ _ _ _ _ Rn G1 (Forall_nil _)) as (stf & E & [ND PF] & F).
      rewrite Forall_forall in F.
      exists (nameof stf). split; [|split; [|split; [|split; [|split]]]].
      - intros e He. apply e_ok_render, F, He.
      - intros e He. apply (F e He).
      - intros e q He Hq. destruct (F e He) as [_ Hs]. clear - Hs Hq.
        induction Hs as [|q0 h rs hs [H1 H2] _ IH]; [destruct Hq|].
        destruct Hq as [<-|Hq]; [congruence | apply IH, Hq].
      - intros k n t Hc. apply E, C1, Hc.
      - intros k t t' n H1 H2. unfold nameof in H1, H2. cbn [fst snd] in H1, H2. eapply tab_name_inj; eauto.
      - intros k t n H. unfold nameof in H. cbn [fst snd] in H.
        apply (name_of_some T T_eqb T_eqb_spec) in H. apply (PF k _ H).
    Qed.
  End Run.

  Lemma canonical_list (N : key -> option str) (l : list emitted) :
    (forall e, In e l -> e = render N (ekey e)) -> l = map (render N) (map ekey l).
  Proof.
    intros H. rewrite map_map. rewrite <- (map_id l) at 1. apply map_ext_in. exact H.
  Qed.

  (* ---------- two runs ---------- *)
  Definition ren (sigma : nat -> str -> str) (e : emitted) : emitted :=
    mkE T (e_plugin T e) (e_class T e) (sigma (e_plugin T e) (e_name T e))
        (map (fun h => (fst h, sigma (fst h) (snd h))) (e_helpers T e)).

  Definition opt_is (o : option str) (n : str) : bool :=
    match o with Some m => str_eqb m n | None => false end.
  (* the renaming read off two outputs: the name N1 gives to a key |-> the name N2 gives to it *)
  Definition sigma_of (N1 N2 : key -> option str) (keys : list key) (k : nat) (n : str) : str :=
    match find (fun q => Nat.eqb (fst q) k && opt_is (N1 q) n) keys with
    | Some q => nm N2 q
    | None => n
    end.

  Lemma sigma_of_spec N1 N2 keys q n :
    (forall k t t' m, N1 (k, t) = Some m -> N1 (k, t') = Some m -> t = t') ->
    In q keys -> N1 q = Some n -> sigma_of N1 N2 keys (fst q) n = nm N2 q.
  Proof.
    intros Inj Hq Hn. unfold sigma_of.
    destruct (find (fun q0 => Nat.eqb (fst q0) (fst q) && opt_is (N1 q0) n) keys) as [q0|] eqn:F.
    - apply find_some in F. destruct F as [_ F]. apply andb_true_iff in F. destruct F as [F1 F2].
      apply Nat.eqb_eq in F1. unfold opt_is in F2. destruct (N1 q0) as [m|] eqn:E0; [|discriminate].
      apply str_eqb_eq in F2. subst m. destruct q0 as [k0 t0], q as [k t]. cbn [fst] in F1. subst k0.
      rewrite (Inj k t0 t n E0 Hn). reflexivity.
    - exfalso. pose proof (find_none _ _ F q Hq) as E. cbn beta in E.
      rewrite Nat.eqb_refl in E. unfold opt_is in E. rewrite Hn, str_eqb_refl in E. discriminate.
  Qed.

  Section Two.
    Variables pfx pfx' : nat -> str.
    Variables res res' : str -> bool.
    Notation run := (run T T_eqb tyname requests nfuel).

    Lemma rn_calls_keys calls : map (ckey T) (map (rn_call T pfx pfx') calls) = map (ckey T) calls.
    Proof. rewrite map_map. apply map_ext. intros [[k n] t]. reflexivity. Qed.

    Lemma rn_calls_prefixed calls : prefixed pfx' (map (rn_call T pfx pfx') calls).
    Proof.
      intros k n t H. apply in_map_iff in H. destruct H as ([[k0 n0] t0] & E & _). cbn in E. inversion E; subst.
      unfold rn. apply is_prefix_app.
    Qed.

    Theorem plugin_prefix_equivariant fuel fuel' ord ord' calls out out' :
      known T requests calls ord -> known T requests calls ord' ->
      prefixed pfx calls ->
      run pfx res fuel ord calls = Some out ->
      run pfx' res' fuel' ord' (map (rn_call T pfx pfx') calls) = Some out' ->
      exists sigma : nat -> str -> str,
        Permutation out' (map (ren sigma) out) /\
        (forall k n t, In (k, n, t) calls -> sigma k n = rn pfx pfx' k n) /\
        (forall e1 e2, In e1 out -> In e2 out -> e_plugin T e1 = e_plugin T e2 ->
           sigma (e_plugin T e1) (e_name T e1) = sigma (e_plugin T e2) (e_name T e2) -> e_name T e1 = e_name T e2) /\
        (forall e, In e out -> is_prefix (pfx' (e_plugin T e)) (sigma (e_plugin T e) (e_name T e)) = true) /\
        (forall q, In q (map ekey out) <-> closure T requests calls q) /\ NoDup (map ekey out).
    Proof.
      intros K K' P R1 R2.
      set (calls' := map (rn_call T pfx pfx') calls) in *.
      assert (EK : map (ckey T) calls = map (ckey T) calls') by (symmetry; apply rn_calls_keys).
      assert (K2 : known T requests calls' ord').
      { intros q Hq. apply K'. eapply closure_ext; [symmetry; exact EK | exact Hq]. }
      destruct (run_generates_closure T T_eqb T_eqb_spec tyname requests nfuel calls pfx res ord fuel out K R1) as [C1 ND1].
      destruct (run_generates_closure T T_eqb T_eqb_spec tyname requests nfuel calls' pfx' res' ord' fuel' out' K2 R2) as [C2 ND2].
      assert (C2' : forall q, In q (map ekey out') <-> closure T requests calls q).
      { intros q. rewrite C2. split; apply closure_ext; [symmetry; exact EK | exact EK]. }
      destruct (run_canonical pfx res fuel ord calls out P R1) as (N1 & El1 & Nm1 & _ & Cl1 & Inj1 & _).
      destruct (run_canonical pfx' res' fuel' ord' calls' out' (rn_calls_prefixed calls) R2)
        as (N2 & El2 & Nm2 & _ & Cl2 & Inj2 & Pf2).
      set (keys := map ekey out) in *.
      set (sigma := sigma_of N1 N2 keys).
      (* every key of the closure has a name in both runs *)
      assert (A1 : forall q, In q keys -> exists e, In e out /\ ekey e = q /\ N1 q = Some (e_name T e)).
      { intros q Hq. apply in_map_iff in Hq. destruct Hq as (e & <- & He). exists e. auto. }
      assert (A2 : forall q, In q keys -> exists m, N2 q = Some m).
      { intros q Hq. apply C1, C2' in Hq. apply in_map_iff in Hq. destruct Hq as (e & <- & He).
        exists (e_name T e). apply Nm2, He. }
      assert (S : forall q, In q keys -> sigma (fst q) (nm N1 q) = nm N2 q).
      { intros q Hq. destruct (A1 q Hq) as (e & _ & _ & En). unfold sigma.
        apply sigma_of_spec; [exact Inj1 | exact Hq |]. unfold nm. rewrite En. reflexivity. }
      assert (RR : forall q, In q keys -> ren sigma (render N1 q) = render N2 q).
      { intros q Hq. unfold ren, render. cbn [e_plugin e_class e_name e_helpers]. f_equal; [apply S, Hq|].
        rewrite map_map. apply map_ext_in. intros q' Hq'. cbn [fst snd]. f_equal. apply S.
        apply C1. apply (W.c_req _ _ _ q q'); [apply C1, Hq | exact Hq']. }
      exists sigma. split; [|split; [|split; [|split; [|split]]]].
      - rewrite (canonical_list N2 out' El2).
        assert (Eo : map (ren sigma) out = map (render N2) keys).
        { unfold keys. rewrite map_map. apply map_ext_in. intros e He.
          rewrite (El1 e He) at 1. apply RR. unfold keys. apply in_map. exact He. }
        rewrite Eo. apply Permutation_map.
        apply NoDup_Permutation; [exact ND2 | exact ND1|]. intros q. rewrite C2'. symmetry. apply C1.
      - intros k n t Hc.
        assert (Hq : In (k, t) keys) by (apply C1, W.c_init; apply (in_map (ckey T) calls (k, n, t)), Hc).
        pose proof (S (k, t) Hq) as E. unfold nm in E at 1. rewrite (Cl1 k n t Hc) in E. cbn [fst] in E.
        rewrite E. unfold nm. rewrite (Cl2 k (rn pfx pfx' k n) t); [reflexivity|].
        unfold calls'. apply (in_map (rn_call T pfx pfx') calls (k, n, t)), Hc.
      - intros e1 e2 H1 H2 Ep Es.
        assert (Q1 : In (ekey e1) keys) by (apply in_map; exact H1).
        assert (Q2 : In (ekey e2) keys) by (apply in_map; exact H2).
        pose proof (S _ Q1) as S1. pose proof (S _ Q2) as S2.
        unfold nm in S1 at 1. unfold nm in S2 at 1. rewrite (Nm1 e1 H1) in S1. rewrite (Nm1 e2 H2) in S2.
        cbn [fst GenClosure.ekey] in S1, S2. rewrite S1, S2 in Es.
        destruct (A2 _ Q1) as (m1 & M1). destruct (A2 _ Q2) as (m2 & M2).
        unfold nm in Es. rewrite M1, M2 in Es. subst m2.
        unfold GenClosure.ekey in M1, M2. rewrite Ep in M1.
        pose proof (Inj2 _ _ _ _ M1 M2) as Et.
        assert (Ek : ekey e1 = ekey e2) by (unfold GenClosure.ekey; congruence).
        pose proof (Nm1 e1 H1) as X1. pose proof (Nm1 e2 H2) as X2. rewrite Ek in X1. congruence.
      - intros e He.
        assert (Q : In (ekey e) keys) by (apply in_map; exact He).
        pose proof (S _ Q) as S1. unfold nm in S1 at 1. rewrite (Nm1 e He) in S1.
        cbn [fst GenClosure.ekey] in S1. rewrite S1. destruct (A2 _ Q) as (m & M). unfold nm. rewrite M.
        apply (Pf2 (e_plugin T e) (e_class T e) m). exact M.
      - exact C1.
      - exact ND1.
    Qed.
  End Two.
End Canon.
