(* Eval01.v — evaluation of C01 observations: what goderive and the Go type checker say about a
   type and a type-recursive plugin vs the model's support predicates. *)
From Coq Require Import String.
From Coq Require Import Ascii.
From Verif Require Import Base Sexp Go.Ty Go.Equal Go.Compare Go.CompareSpec Go.Hash Gen.Support Gen.Worklist Gen.Imports.
Open Scope string_scope.

Definition plugin_sup (p : string) (t : ty) : option bool :=
  if String.eqb p "equal" then Some (eq_sup [] Top t)
  else if String.eqb p "compare" then Some (cmp_sup false t)
  else if String.eqb p "hash" then Some (hash_sup t)
  else if String.eqb p "deepcopy" then Some (dc_top t)
  else if String.eqb p "clone" then Some (clone_sup t)
  else if String.eqb p "gostring" then Some (gs_sup t)
  else None.

(* ---------- in-process observations of the work list and of the import table ---------- *)
Definition nat_list (e : sexp) : option (list nat) := option_map (map Z.to_nat) (get_zs e).
Definition req_table (e : sexp) : option (list (nat * list nat)) :=
  match e with
  | L l => map_opt (fun x => match x with
                             | L [Num k; qs] => option_map (fun q => (Z.to_nat k, q)) (nat_list qs)
                             | _ => None end) l
  | _ => None
  end.
Fixpoint assoc (k : nat) (t : list (nat * list nat)) : list nat :=
  match t with [] => [] | (k', v) :: t' => if Nat.eqb k k' then v else assoc k t' end.
Definition nat_mem (k : nat) (l : list nat) : bool := existsb (Nat.eqb k) l.
(* closure of init under the request table, by iteration (independent of the loop model) *)
Fixpoint close (fuel : nat) (t : list (nat * list nat)) (acc : list nat) : list nat :=
  match fuel with
  | O => acc
  | S f =>
      let new := filter (fun q => negb (nat_mem q acc)) (flat_map (fun k => assoc k t) acc) in
      match new with [] => acc | q :: _ => close f t (acc ++ [q])%list end
  end.
Fixpoint nat_nodup (l : list nat) : bool :=
  match l with [] => true | a :: l' => (negb (nat_mem a l') && nat_nodup l')%bool end.
Definition same_set (a b : list nat) : bool :=
  (forallb (fun x => nat_mem x b) a && forallb (fun x => nat_mem x a) b)%bool.

Definition str_of (e : sexp) : option string :=
  option_map (fun l => fold_right (fun z s => String (ascii_of_N (Z.to_N z)) s) EmptyString l) (get_zs e).
Definition call_of (e : sexp) : option (string * string * string) :=
  match e with
  | L [n; p; f] => match str_of n, str_of p, str_of f with
                   | Some n', Some p', Some f' => Some (n', p', f') | _, _, _ => None end
  | _ => None
  end.
Definition pair_of (e : sexp) : option (string * string) :=
  match e with
  | L [a; p] => match str_of a, str_of p with Some a', Some p' => Some (a', p') | _, _ => None end
  | _ => None
  end.
Definition str_list_eqb (a b : list string) : bool :=
  (Nat.eqb (List.length a) (List.length b) && forallb (fun p => String.eqb (fst p) (snd p)) (combine a b))%bool.
Definition table_sub (a b : list (string * string)) : bool :=
  forallb (fun x => existsb (fun y => (String.eqb (fst x) (fst y) && String.eqb (snd x) (snd y))%bool) b) a.

Definition eval01_inproc (e : sexp) : option verdict :=
  match e with
  | L [Sym k; Num np; ini; reqs; Sym status; log] =>
      if String.eqb k "worklist" then
        match nat_list ini, req_table reqs, nat_list log with
        | Some init, Some tab, Some lg =>
            let plugins := seq 0 (Z.to_nat np) in
            let m := loop nat Nat.eqb (fun k => assoc k tab) (fun k => Nat.div k 16) plugins 64
                          (start nat Nat.eqb init) in
            let expect := match m with Some s => Some (rev (generated nat s)) | None => None end in
            let cl := close 256 tab (fold_left (fun acc k => if nat_mem k acc then acc else (acc ++ [k])%list) init []) in
            Some {| v_known := true;
                    v_model_ok := match expect with
                                  | Some l => (String.eqb status "ok" && sexp_eqb (L (map (fun n => Num (Z.of_nat n)) l)) log)%bool
                                  | None => false end;
                    (* specification: every helper needed transitively, each exactly once *)
                    v_spec_ok := (String.eqb status "ok" && nat_nodup lg && same_set lg cl)%bool;
                    v_guard := true;
                    v_model := match expect with Some l => L (map (fun n => Num (Z.of_nat n)) l) | None => Sym "out-of-fuel" end;
                    v_tag := "worklist/" ++ (if Nat.ltb (List.length lg) 4 then "short" else if Nat.ltb (List.length lg) 12 then "medium" else "long") |}
        | _, _, _ => None
        end
      else None
  | L [Sym k; L calls; res] =>
      if String.eqb k "imports" then
        match map_opt call_of calls with
        | Some cs =>
            let m := run cs [] in
            match res, m with
            | Sym _, None => Some {| v_known := true; v_model_ok := true; v_spec_ok := true; v_guard := true;
                                     v_model := Sym "crash"; v_tag := "imports/crash" |}
            | L [Sym _; L als; L tab], Some (mas, mt) =>
                match map_opt str_of als, map_opt pair_of tab with
                | Some ras, Some rtab =>
                    let ok := (str_list_eqb ras mas && table_sub rtab mt && table_sub mt rtab)%bool in
                    Some {| v_known := true; v_model_ok := ok;
                            (* specification: every returned alias is in the import block and denotes the requested path *)
                            v_spec_ok := forallb (fun ac => existsb (fun y => (String.eqb (fst ac) (fst y)
                                             && String.eqb (snd (fst (snd ac))) (snd y))%bool) rtab)
                                           (combine ras cs);
                            v_guard := true; v_model := Sym "ok";
                            v_tag := "imports/" ++ (if Nat.ltb (List.length rtab) (List.length ras) then "aliases-reused" else "all-distinct") |}
                | _, _ => None
                end
            | _, _ => Some {| v_known := true; v_model_ok := false; v_spec_ok := true; v_guard := true;
                              v_model := match m with None => Sym "crash" | Some _ => Sym "ok" end; v_tag := "imports/mismatch" |}
            end
        | None => None
        end
      else None
  | _ => None
  end.

Definition eval01 (e : sexp) : verdict :=
  match eval01_inproc e with Some v => v | None =>
  match e with
  | L [Sym k; Sym p; tys; Sym cls; Num vet] =>
      if String.eqb k "gen" then
        match parse_ty tys, option_map (fun f => f) (match parse_ty tys with Some t => plugin_sup p t | None => None end) with
        | Some t, Some sup =>
            let crash := (String.eqb cls "panic" || String.eqb cls "timeout")%bool in
            let ok := (String.eqb cls "ok" && Z.eqb vet 1)%bool in
            let generr := String.eqb cls "generator-error" in
            (* supported: generated and type-checks; unsupported: reported as a generator error
               (a crash, or exit 0 with a broken file, on an unsupported type is C09's subject) *)
            {| v_known := true;
               v_model_ok := if sup then (ok || crash || negb generr)%bool else (generr || crash || String.eqb cls "ok")%bool;
               v_spec_ok := if sup then (ok || crash)%bool else true;
               v_guard := sup;
               v_model := Sym (if sup then "ok" else "generator-error");
               v_tag := p ++ "/" ++ (if sup then "supported" else "unsupported") ++ "/" ++ cls
                        ++ (if Z.eqb vet 1 then "" else if String.eqb cls "ok" then "/does-not-typecheck" else "") |}
        | _, _ => bad_line
        end
      else bad_line
  | _ => bad_line
  end
  end.
