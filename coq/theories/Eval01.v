(* Eval01.v — evaluation of C01 observations: what goderive and the Go type checker say about a
   type and a type-recursive plugin vs the model's support predicates. *)
From Coq Require Import String.
From Verif Require Import Base Sexp Go.Ty Go.Equal Go.Compare Go.CompareSpec Go.Hash Gen.Support.
Open Scope string_scope.

Definition plugin_sup (p : string) (t : ty) : option bool :=
  if String.eqb p "equal" then Some (eq_sup [] Top t)
  else if String.eqb p "compare" then Some (cmp_sup false t)
  else if String.eqb p "hash" then Some (hash_sup t)
  else if String.eqb p "deepcopy" then Some (dc_top t)
  else if String.eqb p "clone" then Some (clone_sup t)
  else if String.eqb p "gostring" then Some (gs_sup t)
  else None.

Definition eval01 (e : sexp) : verdict :=
  match e with
  | L [Sym k; Sym p; tys; Sym cls; Num vet] =>
      if String.eqb k "gen" then
        match parse_ty tys, option_map (fun f => f) (match parse_ty tys with Some t => plugin_sup p t | None => None end) with
        | Some t, Some sup =>
            let crash := (String.eqb cls "panic" || String.eqb cls "timeout")%bool in
            let ok := (String.eqb cls "ok" && Z.eqb vet 1)%bool in
            let generr := String.eqb cls "generator-error" in
            (* supported: generated and type-checks; unsupported: reported as a generator error
               (a crash, or exit 0 with a broken file, on an unsupported type is C09's subject) *)
            {| v_known := true;
               v_model_ok := if sup then (ok || crash || negb generr)%bool else (generr || crash || String.eqb cls "ok")%bool;
               v_spec_ok := if sup then (ok || crash)%bool else true;
               v_guard := sup;
               v_model := Sym (if sup then "ok" else "generator-error");
               v_tag := p ++ "/" ++ (if sup then "supported" else "unsupported") ++ "/" ++ cls
                        ++ (if Z.eqb vet 1 then "" else if String.eqb cls "ok" then "/does-not-typecheck" else "") |}
        | _, _ => bad_line
        end
      else bad_line
  | _ => bad_line
  end.
