(* Eval01.v — evaluation of C01 observations (stub: replaced when C01 is built). *)
From Verif Require Import Base Sexp.
Open Scope string_scope.

Definition eval01 (e : sexp) : verdict := bad_line.
