(* Mem/ReInst.v — the re-entrant theorems of C18 for the emitted deriveMem: Mem/ReProofs.v
   instantiated with Go's ==, derived Equal and derived Hash (as Mem/Inst.v does for flat
   histories); the flat model as the special case without inner calls; the stale-bucket store
   refuted; rule-table functions; non-vacuity examples. *)
From Coq Require Import Permutation.
From Verif Require Import Go.EqualProofs Go.Canon Go.HashProofs Mem.Model Mem.Proofs Mem.HashTotal Mem.Inst
  Mem.Reentrant Mem.ReProofs.
Open Scope list_scope.

(* the un-memoised recursive function defined by inner/fin (rank bounds its recursion depth) *)
Definition rfun (inner : list val -> list (list val)) (fin : list val -> list (list val) -> outcome (list val))
    (rank : list val -> nat) : list val -> outcome (list val) := F inner fin rank.

(* f's recursion is well-founded on well-typed argument tuples: inner arguments are well-typed
   and of smaller rank, and Equal tuples have the same rank (so an inner argument is never Equal
   to an argument whose evaluation is in progress) *)
Definition wf_reentrant (ps : list ty) (inner : list val -> list (list val)) (rank : list val -> nat) : Prop :=
  (forall a b, args_typed ps a = true -> In b (inner a) -> args_typed ps b = true)
  /\ (forall a b, args_typed ps a = true -> In b (inner a) -> (rank b < rank a)%nat)
  /\ (forall a b, args_typed ps a = true -> args_typed ps b = true -> args_equal ps a b = true -> rank a = rank b).

(* the fuel covers the recursion depth of every outer call *)
Definition enough_fuel (rank : list val -> nat) (n : nat) (h : list (list val)) : Prop :=
  forall a, In a h -> (rank a < n)%nat.

Lemma rfun_unfold ps inner fin rank a : wf_reentrant ps inner rank -> args_typed ps a = true ->
  rfun inner fin rank a = finish fin a (map (rfun inner fin rank) (inner a)).
Proof.
  intros (W1 & W2 & W3) Ha.
  exact (F_unfold inner fin (fun a => args_typed ps a = true) rank W1 W2 a Ha).
Qed.

Section RThms.
Variable ps : list ty.
Variable inner : list val -> list (list val).
Variable fin : list val -> list (list val) -> outcome (list val).
Variable rank : list val -> nat.
Variable hashr : val -> res N.

Notation Fn := (rfun inner fin rank).

(* every call returns what the un-memoised recursive function returns *)
Theorem rmem_observational n h st outs :
  wf_reentrant ps inner rank -> hash_respects ps hashr -> f_respects_classes ps Fn ->
  typed_history ps h -> enough_fuel rank n h ->
  rmem_run_with hashr ps inner fin n h = ROk (st, outs) -> outs = map Fn h.
Proof.
  intros (W1 & W2 & W3) HH FR V Ln R.
  exact (rrun_observational inner fin key_val go_eqeq _ hashr (form_of ps) (args_equal ps) _ rank
           (Hz ps) (args_equal_refl ps) (args_equal_sym ps) (args_equal_trans ps) (map_key_eq ps)
           (fun _ => bucket_key_eq ps) (fun _ => HH) W1 W2 W3 n h st outs FR Ln V R).
Qed.

(* the table is the emitted form's layout of the ideal memoiser's cache — one entry per class,
   holding F of its arguments — and f's invocation log is the ideal memoiser's *)
Theorem rmem_refines_ideal n h st outs :
  wf_reentrant ps inner rank -> hash_respects ps hashr -> f_respects_classes ps Fn ->
  typed_history ps h -> enough_fuel rank n h ->
  rmem_run_with hashr ps inner fin n h = ROk (st, outs) ->
  exists it, irun inner fin (args_equal ps) n h = ROk (it, outs)
    /\ tinv key_val hashr (form_of ps) (itab it) (tbl st)
    /\ f_calls st = icalls it
    /\ pairwise (fun e1 e2 => args_equal ps (fst e1) (fst e2) = false) (itab it)
    /\ (forall s rs, In (s, rs) (itab it) -> args_typed ps s = true /\ Fn s = Ret rs).
Proof.
  intros (W1 & W2 & W3) HH FR V Ln R.
  exact (rrun_ideal inner fin key_val go_eqeq _ hashr (form_of ps) (args_equal ps) _ rank
           (Hz ps) (args_equal_refl ps) (args_equal_sym ps) (args_equal_trans ps) (map_key_eq ps)
           (fun _ => bucket_key_eq ps) (fun _ => HH) W1 W2 W3 n h st outs FR Ln V R).
Qed.

(* at most one invocation per class on which f returns, inner and outer invocations together;
   exactly one for the class of every outer call *)
Theorem rmem_at_most_once n h st outs c :
  wf_reentrant ps inner rank -> hash_respects ps hashr -> f_respects_classes ps Fn ->
  typed_history ps h -> enough_fuel rank n h ->
  rmem_run_with hashr ps inner fin n h = ROk (st, outs) ->
  args_typed ps c = true -> returns Fn c = true ->
  (count_class (args_equal ps) c (f_calls st) <= 1)%nat
  /\ (In c h -> count_class (args_equal ps) c (f_calls st) = 1%nat).
Proof.
  intros (W1 & W2 & W3) HH FR V Ln R.
  exact (rrun_at_most_once inner fin key_val go_eqeq _ hashr (form_of ps) (args_equal ps) _ rank
           (Hz ps) (args_equal_refl ps) (args_equal_sym ps) (args_equal_trans ps) (map_key_eq ps)
           (fun _ => bucket_key_eq ps) (fun _ => HH) W1 W2 W3 n h st outs c FR Ln V R).
Qed.

(* exactly one for the class of every inner call of an invocation that returned *)
Theorem rmem_inner_once n h st outs x b :
  wf_reentrant ps inner rank -> hash_respects ps hashr -> f_respects_classes ps Fn ->
  typed_history ps h -> enough_fuel rank n h ->
  rmem_run_with hashr ps inner fin n h = ROk (st, outs) ->
  In x (f_calls st) -> returns Fn x = true -> In b (inner x) ->
  returns Fn b = true /\ count_class (args_equal ps) b (f_calls st) = 1%nat.
Proof.
  intros (W1 & W2 & W3) HH FR V Ln R.
  exact (rrun_inner_once inner fin key_val go_eqeq _ hashr (form_of ps) (args_equal ps) _ rank
           (Hz ps) (args_equal_refl ps) (args_equal_sym ps) (args_equal_trans ps) (map_key_eq ps)
           (fun _ => bucket_key_eq ps) (fun _ => HH) W1 W2 W3 n h st outs x b FR Ln V R).
Qed.

(* f is invoked only on arguments of outer calls and of their (transitive) inner calls *)
Theorem rmem_no_spurious_calls n h st outs x :
  wf_reentrant ps inner rank -> hash_respects ps hashr -> typed_history ps h ->
  rmem_run_with hashr ps inner fin n h = ROk (st, outs) -> In x (f_calls st) ->
  exists a, In a h /\ desc inner a x.
Proof.
  intros (W1 & W2 & W3) HH V R.
  exact (rrun_no_spurious_calls inner fin key_val go_eqeq _ hashr (form_of ps) (args_equal ps) _ rank
           (Hz ps) (args_equal_refl ps) (args_equal_sym ps) (args_equal_trans ps) (map_key_eq ps)
           (fun _ => bucket_key_eq ps) (fun _ => HH) W1 W2 W3 n h st outs x V R).
Qed.

(* with enough fuel a run ends normally — never a panic of the closure itself, never stuck,
   never out of fuel — unless the generator refused Equal/Hash of the key type *)
Theorem rmem_progress n h :
  wf_reentrant ps inner rank -> hash_respects ps hashr ->
  (forall b, args_typed ps b = true -> ok_or_unsup (hashr (key_val b))) ->
  typed_history ps h -> enough_fuel rank n h ->
  rok_or_unsup (rmem_run_with hashr ps inner fin n h).
Proof.
  intros (W1 & W2 & W3) HH HT V Ln.
  exact (rrun_progress inner fin key_val go_eqeq _ hashr (form_of ps) (args_equal ps) _ rank
           (Hz ps) (args_equal_refl ps) (args_equal_sym ps) (args_equal_trans ps) (map_key_eq ps)
           (fun _ => bucket_key_eq ps) (fun _ => HH) W1 W2 W3 n h (fun _ => HT) Ln V).
Qed.
End RThms.

(* ---------- the emitted code (derived Hash) and the collision variant ---------- *)
Corollary rmem_derived ps inner fin rank n h st outs :
  wf_reentrant ps inner rank -> f_respects_classes ps (rfun inner fin rank) ->
  typed_history ps h -> enough_fuel rank n h ->
  rmem_run ps inner fin n h = ROk (st, outs) ->
  outs = map (rfun inner fin rank) h
  /\ (forall c, args_typed ps c = true -> returns (rfun inner fin rank) c = true ->
        (count_class (args_equal ps) c (f_calls st) <= 1)%nat
        /\ (In c h -> count_class (args_equal ps) c (f_calls st) = 1%nat)).
Proof.
  intros W FR V Ln R. split.
  - exact (rmem_observational ps inner fin rank _ n h st outs W (derived_hash_respects ps) FR V Ln R).
  - intros c. exact (rmem_at_most_once ps inner fin rank _ n h st outs c W (derived_hash_respects ps) FR V Ln R).
Qed.

Corollary rmem_collisions_harmless k ps inner fin rank n h st outs :
  wf_reentrant ps inner rank -> f_respects_classes ps (rfun inner fin rank) ->
  typed_history ps h -> enough_fuel rank n h ->
  rmem_run_consthash k ps inner fin n h = ROk (st, outs) ->
  outs = map (rfun inner fin rank) h
  /\ (forall c, args_typed ps c = true -> returns (rfun inner fin rank) c = true ->
        (count_class (args_equal ps) c (f_calls st) <= 1)%nat
        /\ (In c h -> count_class (args_equal ps) c (f_calls st) = 1%nat)).
Proof.
  intros W FR V Ln R. split.
  - exact (rmem_observational ps inner fin rank _ n h st outs W (const_hash_respects ps k) FR V Ln R).
  - intros c. exact (rmem_at_most_once ps inner fin rank _ n h st outs c W (const_hash_respects ps k) FR V Ln R).
Qed.

Corollary rmem_never_panics ps inner fin rank n h :
  wf_reentrant ps inner rank -> typed_history ps h -> enough_fuel rank n h ->
  rok_or_unsup (rmem_run ps inner fin n h).
Proof.
  intros W V Ln. apply (rmem_progress ps inner fin rank); try assumption; [apply derived_hash_respects|].
  intros b Hb. apply hashm_total, key_typed, Hb.
Qed.

(* ================= flat histories are the special case without inner calls ================= *)
Section Flat.
Variable f : list val -> outcome (list val).
Variable keyof : list val -> val.
Variable eqq : val -> val -> bool.
Variable eqr : val -> val -> res bool.
Variable hashr : val -> res N.
Variable fm : form.

Notation rcall0 := (rcall (fun _ => []) (fun a _ => f a) keyof eqq eqr hashr false fm).

Lemma map_replace_fresh k rs m : assoc eqq k m = None -> map_replace eqq k rs m = None.
Proof.
  induction m as [|[k' r'] m IH]; cbn; [reflexivity|].
  destruct (eqq k' k); [discriminate|]. intros H. rewrite (IH H). reflexivity.
Qed.

Lemma rcall_flat n st a : rcall0 (S n) st a = of_res (step f keyof eqq eqr hashr fm st a).
Proof.
  cbn [rcall]. unfold step, eval_miss, invoke, finish. cbn [run_seq rrbind fst snd all_ret tbl log].
  destruct fm; destruct (tbl st) as [memo rs|m|m] eqn:T; try reflexivity.
  - destruct memo; [reflexivity|]. destruct (f a); reflexivity.
  - destruct (assoc eqq (keyof a) m) eqn:A; [reflexivity|].
    destruct (f a); [|reflexivity]. cbn. unfold map_set. rewrite (map_replace_fresh _ _ _ A). reflexivity.
  - destruct (hashr (keyof a)) as [h| | |]; cbn; try reflexivity.
    destruct (scan eqr (keyof a) (bucket h m)) as [[rs|]| | |]; cbn; try reflexivity.
    destruct (f a); reflexivity.
Qed.

Lemma fold_run_step_err (e : res (mst * list (outcome (list val)))) h :
  (forall x, e <> Ok x) -> fold_left (run_step f keyof eqq eqr hashr fm) h e = e.
Proof.
  intros H. induction h as [|a h IH]; [reflexivity|]. cbn.
  destruct e as [x| | |]; [destruct (H x eq_refl)| | |]; exact IH.
Qed.

Lemma rrun_flat n : forall h st acc,
  of_res (fold_left (run_step f keyof eqq eqr hashr fm) h (Ok (st, acc)))
  = rrdo r <- run_seq (rcall0 (S n)) false h st; ROk (fst r, acc ++ snd r).
Proof.
  induction h as [|a h IH]; intros st acc.
  - cbn. rewrite app_nil_r. reflexivity.
  - cbn [fold_left run_seq]. rewrite rcall_flat. unfold run_step at 2. cbn [rbind fst snd].
    destruct (step f keyof eqq eqr hashr fm st a) as [[st1 o1]| | |]; cbn [rbind of_res rrbind fst snd andb].
    + rewrite IH. destruct (run_seq (rcall0 (S n)) false h st1) as [[st2 os]|e]; cbn; [|reflexivity].
      rewrite <- app_assoc. reflexivity.
    + rewrite fold_run_step_err; [reflexivity| discriminate].
    + rewrite fold_run_step_err; [reflexivity| discriminate].
    + rewrite fold_run_step_err; [reflexivity| discriminate].
Qed.
End Flat.

(* the flat model of Mem/Model.v is the re-entrant model for a function that makes no inner calls *)
Theorem rmem_flat hashr ps f n h :
  rmem_run_with hashr ps (fun _ => []) (fun a _ => f a) (S n) h = of_res (mem_run_with hashr ps f h).
Proof.
  unfold rmem_run_with, rmem_run_gen, rrun, mem_run_with, run_from.
  rewrite (rrun_flat f key_val go_eqeq _ hashr (form_of ps) n h (init (form_of ps)) []).
  destruct (run_seq _ false h (init (form_of ps))) as [[st os]|e]; reflexivity.
Qed.

(* ================= functions given by a table of rules ================= *)
Lemma args_equal_cong ps a b c : args_typed ps a = true -> args_typed ps b = true -> args_typed ps c = true ->
  args_equal ps a b = true -> args_equal ps c a = args_equal ps c b.
Proof.
  intros Ha Hb Hc E.
  destruct (args_equal ps c a) eqn:A; destruct (args_equal ps c b) eqn:B; try reflexivity; exfalso.
  - rewrite (args_equal_trans ps c a b Hc Ha Hb A E) in B. discriminate.
  - rewrite (args_equal_sym ps a b Ha Hb) in E.
    rewrite (args_equal_trans ps c b a Hc Hb Ha B E) in A. discriminate.
Qed.

Lemma rule_find_class ps rules a b : forall i,
  forallb (fun r => args_typed ps (fst r)) rules = true ->
  args_typed ps a = true -> args_typed ps b = true -> args_equal ps a b = true ->
  rule_find (args_equal ps) rules a i = rule_find (args_equal ps) rules b i.
Proof.
  induction rules as [|[k bs] rules IH]; intros i T Ha Hb E; [reflexivity|].
  cbn in T. apply andb_prop in T as [Tk T]. cbn.
  rewrite (args_equal_cong ps a b k Ha Hb Tk E).
  destruct (args_equal ps k b); [reflexivity|]. apply IH; assumption.
Qed.

Lemma rule_find_in keq rules a : forall i j bs, rule_find keq rules a i = Some (j, bs) ->
  exists k, In (k, bs) rules /\ keq k a = true.
Proof.
  induction rules as [|[k bs0] rules IH]; intros i j bs; cbn; [discriminate|].
  destruct (keq k a) eqn:K.
  - intros E. injection E as <- <-. exists k. split; [left; reflexivity| exact K].
  - intros E. destruct (IH _ _ _ E) as (k' & I & K'). exists k'. split; [right; exact I| exact K'].
Qed.

Lemma rules_typed_keys ps rules : rules_wf ps rules = true -> forallb (fun r => args_typed ps (fst r)) rules = true.
Proof.
  unfold rules_wf. intros H. apply andb_prop in H as [H _]. rewrite forallb_forall in *.
  intros r Hr. apply H in Hr. apply andb_prop in Hr as [Hr _]. exact Hr.
Qed.

(* the decidable check implies the hypothesis of the theorems *)
Theorem rules_wf_sound ps rules : rules_wf ps rules = true ->
  wf_reentrant ps (rule_inner ps rules) (rule_rank ps rules).
Proof.
  intros W. pose proof (rules_typed_keys ps rules W) as TK.
  unfold rules_wf in W. apply andb_prop in W as [W1 W2]. rewrite forallb_forall in W1, W2.
  assert (C : forall a b, args_typed ps a = true -> args_typed ps b = true -> args_equal ps a b = true ->
              rule_rank ps rules a = rule_rank ps rules b).
  { intros a b Ha Hb E. unfold rule_rank. rewrite (rule_find_class ps rules a b 0 TK Ha Hb E). reflexivity. }
  split; [|split; [|exact C]].
  - intros a b Ha Hb. unfold rule_inner in Hb.
    destruct (rule_find (args_equal ps) rules a 0) as [[i bs]|] eqn:Fd; [|destruct Hb].
    destruct (rule_find_in _ _ _ _ _ _ Fd) as (k & I & _).
    apply W1 in I. apply andb_prop in I as [_ I]. cbn in I. rewrite forallb_forall in I. exact (I b Hb).
  - intros a b Ha Hb. unfold rule_inner in Hb.
    destruct (rule_find (args_equal ps) rules a 0) as [[i bs]|] eqn:Fd; [|destruct Hb].
    destruct (rule_find_in _ _ _ _ _ _ Fd) as (k & I & K).
    pose proof (W2 _ I) as L. cbn in L. rewrite forallb_forall in L. specialize (L b Hb).
    apply PeanoNat.Nat.ltb_lt in L.
    assert (Tk : args_typed ps k = true) by (apply W1 in I; apply andb_prop in I as [I _]; exact I).
    rewrite <- (C k a Tk Ha K). exact L.
Qed.

(* a rule-table function whose result depends on its arguments only through their rank (and on
   the inner results) gives the same outcome on Equal argument tuples *)
Lemma rule_fun_respects ps rules (g : nat -> list (list val) -> outcome (list val)) :
  rules_wf ps rules = true ->
  f_respects_classes ps (rfun (rule_inner ps rules) (fun a => g (rule_rank ps rules a)) (rule_rank ps rules)).
Proof.
  intros W a b Ha Hb E. pose proof (rules_typed_keys ps rules W) as TK.
  unfold rfun, F, rule_rank, rule_inner. rewrite (rule_find_class ps rules a b 0 TK Ha Hb E).
  destruct (rule_find (args_equal ps) rules b 0) as [[i bs]|] eqn:Fd.
  - cbn [Fspec]. unfold finish, rule_inner, rule_rank.
    rewrite (rule_find_class ps rules a b 0 TK Ha Hb E), Fd. reflexivity.
  - cbn [Fspec]. unfold finish, rule_inner, rule_rank.
    rewrite (rule_find_class ps rules a b 0 TK Ha Hb E), Fd. reflexivity.
Qed.

(* ================= the stale-bucket store is refuted ================= *)
Open Scope Z_scope.
(* weight([]int{1,0}) = 1 + weight([]int{0,31}); both slices hash to 16368 (seeded/C18-m4) *)
Definition w_ps : list ty := [t_ints].
Definition w_a10 (l : N) : list val := [ints l [1; 0]].
Definition w_a31 (l : N) : list val := [ints l [0; 31]].
Definition w_rules : list (list val * list (list val)) := [(w_a10 1%N, [w_a31 2%N])].
Definition w_g (r : nat) (rss : list (list val)) : outcome (list val) :=
  match rss with
  | [[VInt z]] => Ret [VInt (z + 1)]
  | _ => Ret [VInt (Z.of_nat r)]
  end.
Definition w_inner := rule_inner w_ps w_rules.
Definition w_rank := rule_rank w_ps w_rules.
Definition w_fin (a : list val) := w_g (w_rank a).
(* the outer call with {1,0}; then the inner argument {0,31} again (fresh slices each time) *)
Definition w_h : list (list val) := [w_a10 3%N; w_a31 4%N; w_a10 5%N; w_a31 6%N].

(* `m[h] = append(vs, mem{..})` with vs read before f was called: every hypothesis of
   rmem_at_most_once holds, the results are f's, and the class of {0,31} is evaluated twice
   (the entry stored by the inner call is overwritten by the outer call's store); the emitted
   `m[h] = append(m[h], mem{..})` evaluates it once *)
Theorem rmem_stale_bucket_refuted :
  form_of w_ps = FBuck
  /\ hashm [] (key_ty w_ps) (key_val (w_a10 3%N)) = hashm [] (key_ty w_ps) (key_val (w_a31 4%N))
  /\ args_equal w_ps (w_a10 3%N) (w_a31 4%N) = false
  /\ wf_reentrant w_ps w_inner w_rank /\ f_respects_classes w_ps (rfun w_inner w_fin w_rank)
  /\ typed_history w_ps w_h /\ enough_fuel w_rank 3 w_h
  /\ returns (rfun w_inner w_fin w_rank) (w_a31 4%N) = true
  /\ (exists st, rmem_run_stale w_ps w_inner w_fin 3 w_h = ROk (st, map (rfun w_inner w_fin w_rank) w_h)
        /\ f_calls st = [w_a10 3%N; w_a31 2%N; w_a31 4%N]
        /\ count_class (args_equal w_ps) (w_a31 4%N) (f_calls st) = 2%nat)
  /\ (exists st, rmem_run w_ps w_inner w_fin 3 w_h = ROk (st, map (rfun w_inner w_fin w_rank) w_h)
        /\ f_calls st = [w_a10 3%N; w_a31 2%N]
        /\ count_class (args_equal w_ps) (w_a31 4%N) (f_calls st) = 1%nat).
Proof.
  split; [reflexivity|]. split; [vm_compute; reflexivity|]. split; [vm_compute; reflexivity|].
  split; [apply rules_wf_sound; vm_compute; reflexivity|].
  split; [apply (rule_fun_respects w_ps w_rules w_g); vm_compute; reflexivity|].
  split; [repeat constructor|].
  split; [intros a Ha; repeat (destruct Ha as [<-|Ha]; [vm_compute; repeat constructor|]); destruct Ha|].
  split; [vm_compute; reflexivity|].
  split; eexists; (split; [vm_compute; reflexivity|]); split; vm_compute; reflexivity.
Qed.

(* ================= non-vacuity ================= *)
(* the bucket form with a real hash collision between an argument and its inner argument *)
Example rmem_bucket_collision_ex :
  wf_reentrant w_ps w_inner w_rank /\ f_respects_classes w_ps (rfun w_inner w_fin w_rank)
  /\ typed_history w_ps w_h /\ enough_fuel w_rank 3 w_h
  /\ map (rfun w_inner w_fin w_rank) w_h = [Ret [VInt 1]; Ret [VInt 0]; Ret [VInt 1]; Ret [VInt 0]]
  /\ exists st, rmem_run w_ps w_inner w_fin 3 w_h = ROk (st, map (rfun w_inner w_fin w_rank) w_h)
       /\ match tbl st with TBuck [(16368%N, vs)] => List.length vs = 2%nat | _ => False end.
Proof.
  split; [apply rules_wf_sound; vm_compute; reflexivity|].
  split; [apply (rule_fun_respects w_ps w_rules w_g); vm_compute; reflexivity|].
  split; [repeat constructor|].
  split; [intros a Ha; repeat (destruct Ha as [<-|Ha]; [vm_compute; repeat constructor|]); destruct Ha|].
  split; [vm_compute; reflexivity|].
  eexists. split; vm_compute; reflexivity.
Qed.

(* fib over *int (pointers are not ==-comparable for goderive: bucket form, classes by the
   referent), recursion depth 3, every argument forced into one bucket *)
Definition p_ps : list ty := [TP t_int].
Definition p_arg (l : N) (z : Z) : list val := [VPtr l (VInt z)].
Definition p_rules : list (list val * list (list val)) :=
  [(p_arg 1%N 2, [p_arg 2%N 1; p_arg 3%N 0]);
   (p_arg 4%N 3, [p_arg 5%N 2; p_arg 6%N 1]);
   (p_arg 7%N 4, [p_arg 8%N 3; p_arg 9%N 2])].
Definition p_g (r : nat) (rss : list (list val)) : outcome (list val) :=
  match rss with
  | [[VInt x]; [VInt y]] => Ret [VInt (x + y)]
  | _ => Ret [VInt 1]
  end.
Definition p_inner := rule_inner p_ps p_rules.
Definition p_rank := rule_rank p_ps p_rules.
Definition p_fin (a : list val) := p_g (p_rank a).
Definition p_h : list (list val) := [p_arg 10%N 4; p_arg 11%N 3; p_arg 12%N 0; p_arg 13%N 4].

Example rmem_fib_pointers_ex :
  form_of p_ps = FBuck
  /\ wf_reentrant p_ps p_inner p_rank /\ f_respects_classes p_ps (rfun p_inner p_fin p_rank)
  /\ typed_history p_ps p_h /\ enough_fuel p_rank 5 p_h
  /\ map (rfun p_inner p_fin p_rank) p_h = [Ret [VInt 5]; Ret [VInt 3]; Ret [VInt 1]; Ret [VInt 5]]
  /\ exists st, rmem_run_consthash 7%N p_ps p_inner p_fin 5 p_h = ROk (st, map (rfun p_inner p_fin p_rank) p_h)
       (* fib(4), fib(3), fib(2), fib(1), fib(0): five invocations instead of nine *)
       /\ f_calls st = [p_arg 10%N 4; p_arg 8%N 3; p_arg 5%N 2; p_arg 2%N 1; p_arg 3%N 0]
       /\ match tbl st with TBuck [(7%N, vs)] => List.length vs = 5%nat | _ => False end.
Proof.
  split; [reflexivity|].
  split; [apply rules_wf_sound; vm_compute; reflexivity|].
  split; [apply (rule_fun_respects p_ps p_rules p_g); vm_compute; reflexivity|].
  split; [repeat constructor|].
  split; [intros a Ha; repeat (destruct Ha as [<-|Ha]; [vm_compute; repeat constructor|]); destruct Ha|].
  split; [vm_compute; reflexivity|].
  eexists. split; [vm_compute; reflexivity|]. split; vm_compute; reflexivity.
Qed.

(* the map form (fib over uint, example/talk/07_fib), and an inner panic that propagates:
   nothing is cached for the panicking classes, the returning inner class is cached *)
Definition u_ps : list ty := [TB (KInt 64 false)].
Definition u_rules : list (list val * list (list val)) :=
  [([VInt 2], [[VInt 1]; [VInt 0]]); ([VInt 3], [[VInt 2]; [VInt 1]]); ([VInt 9], [[VInt 1]; [VInt 8]; [VInt 0]])].
Definition u_g (r : nat) (rss : list (list val)) : outcome (list val) :=
  match rss with
  | [[VInt x]; [VInt y]] => Ret [VInt (x + y)]
  | [] => Ret [VInt 1]
  | _ => Panic
  end.
Definition u_inner := rule_inner u_ps u_rules.
Definition u_rank := rule_rank u_ps u_rules.
(* f(8) panics; f(9) calls f(1), f(8), f(0): the panic of f(8) propagates, f(0) is not called *)
Definition u_fin (a : list val) (rss : list (list val)) : outcome (list val) :=
  match a with [VInt 8] => Panic | _ => u_g (u_rank a) rss end.
Example rmem_map_panic_ex :
  form_of u_ps = FMap /\ wf_reentrant u_ps u_inner u_rank
  /\ exists st, rmem_run u_ps u_inner u_fin 4 [[VInt 9]; [VInt 3]; [VInt 9]; [VInt 1]]
                = ROk (st, [Panic; Ret [VInt 3]; Panic; Ret [VInt 1]])
       /\ map (rfun u_inner u_fin u_rank) [[VInt 9]; [VInt 3]; [VInt 9]; [VInt 1]] = [Panic; Ret [VInt 3]; Panic; Ret [VInt 1]]
       /\ f_calls st = [[VInt 9]; [VInt 1]; [VInt 8]; [VInt 3]; [VInt 2]; [VInt 0]; [VInt 9]; [VInt 8]].
Proof.
  split; [reflexivity|]. split; [apply rules_wf_sound; vm_compute; reflexivity|].
  eexists. split; [vm_compute; reflexivity|]. split; vm_compute; reflexivity.
Qed.
