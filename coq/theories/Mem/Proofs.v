(* Mem/Proofs.v — the memo table is an ideal memoiser over classes of Equal argument tuples:
   invariant, observational equivalence, evaluation once per class.  Generic part: proved for
   any key function, any Go-== / derived-Equal / derived-Hash on keys satisfying the stated
   contracts; Mem/Inst.v instantiates them with the models of plugin/equal and plugin/hash. *)
From Coq Require Import Permutation.
From Verif Require Import Mem.Model.
Open Scope list_scope.

(* ---------- small list facts ---------- *)
Fixpoint pairwise {A} (R : A -> A -> Prop) (l : list A) : Prop :=
  match l with [] => True | x :: l' => (forall y, In y l' -> R x y) /\ pairwise R l' end.

Lemma pairwise_snoc {A} (R : A -> A -> Prop) l a :
  pairwise R l -> (forall x, In x l -> R x a) -> pairwise R (l ++ [a]).
Proof.
  induction l as [|x l IH]; cbn; intros P H.
  - split; [intros y []| exact I].
  - destruct P as [P1 P2]. split.
    + intros y Hy. apply in_app_or in Hy as [Hy|[<-|[]]]; [apply P1; exact Hy| apply H; left; reflexivity].
    + apply IH; [exact P2| intros z Hz; apply H; right; exact Hz].
Qed.

Lemma existsb_false_iff {A} (p : A -> bool) l : existsb p l = false <-> forall x, In x l -> p x = false.
Proof.
  induction l as [|y l IH]; cbn; [split; [intros _ x []| reflexivity]|].
  rewrite orb_false_iff, IH. split.
  - intros [H1 H2] x [<-|Hx]; [exact H1| apply H2; exact Hx].
  - intros H. split; [apply H; left; reflexivity| intros x Hx; apply H; right; exact Hx].
Qed.

Lemma filter_snoc {A} (p : A -> bool) l a : filter p (l ++ [a]) = filter p l ++ (if p a then [a] else []).
Proof. rewrite filter_app. reflexivity. Qed.

(* ---------- buckets ---------- *)
Lemma bucket_set_bucket h vs m hh :
  bucket hh (set_bucket h vs m) = if N.eqb h hh then vs else bucket hh m.
Proof.
  induction m as [|[h' vs'] m IH]; cbn.
  - destruct (N.eqb h hh); reflexivity.
  - destruct (N.eqb h' h) eqn:E; cbn.
    + apply N.eqb_eq in E. subst h'. destruct (N.eqb h hh); reflexivity.
    + rewrite IH. destruct (N.eqb h' hh) eqn:E2; [|reflexivity].
      apply N.eqb_eq in E2. subst h'. rewrite N.eqb_sym, E. reflexivity.
Qed.

Lemma set_bucket_perm h e m :
  Permutation (concat (map snd (set_bucket h (bucket h m ++ [e]) m))) (e :: concat (map snd m)).
Proof.
  induction m as [|[h' vs'] m IH]; cbn.
  - reflexivity.
  - destruct (N.eqb h' h) eqn:E; cbn.
    + rewrite <- app_assoc. cbn. symmetry. apply Permutation_middle.
    + rewrite IH. symmetry. apply (Permutation_middle vs' (concat (map snd m)) e).
Qed.

Lemma bucket_in_entries h m e : In e (bucket h m) -> In e (concat (map snd m)).
Proof.
  induction m as [|[h' vs'] m IH]; cbn; [intros []|].
  destruct (N.eqb h' h); intros H; apply in_or_app; [left; exact H| right; apply IH; exact H].
Qed.

Section Generic.
Variable f : list val -> outcome (list val).
Variable keyof : list val -> val.
Variable eqq : val -> val -> bool.
Variable eqr : val -> val -> res bool.
Variable hashr : val -> res N.
Variable fm : form.
Variable keq : list val -> list val -> bool.       (* the class relation of the specification *)
Variable valid : list val -> Prop.                 (* well-typed argument tuples *)

Notation step := (step f keyof eqq eqr hashr).
Notation run_from := (run_from f keyof eqq eqr hashr).
Notation run_step := (run_step f keyof eqq eqr hashr).
Notation reps := (reps f keq).
Notation spec_calls := (spec_calls f keq).
Notation returns := (returns f).
Notation results := (results f).

(* contracts of the ingredients, each needed only for the form that uses it *)
Hypothesis Hzero : fm = FZero -> forall a, valid a -> a = [].
Hypothesis Hkey0 : keyof [] = VSt [].
Hypothesis Hrefl : forall a, valid a -> keq a a = true.
(* Go's == on keys decides the class (map forms) *)
Hypothesis Heqq : fm = FMap -> forall a b, valid a -> valid b -> eqq (keyof a) (keyof b) = keq a b.
(* derived Equal decides the class, or the generator refuses the type (bucket form) *)
Hypothesis Heqr : fm = FBuck -> forall a b, valid a -> valid b ->
  eqr (keyof a) (keyof b) = Unsup \/ eqr (keyof a) (keyof b) = Ok (keq a b).

Definition entry_of (a : list val) : entry := (keyof a, results a).

(* ---------- histories grow at the end ---------- *)
Lemma run_snoc st h a : run_from fm st (h ++ [a]) = run_step fm (run_from fm st h) a.
Proof. unfold Model.run_from. rewrite fold_left_app. reflexivity. Qed.

Lemma run_snoc_inv st h a st' outs' :
  run_from fm st (h ++ [a]) = Ok (st', outs') ->
  exists st1 outs o, run_from fm st h = Ok (st1, outs) /\ step fm st1 a = Ok (st', o) /\ outs' = outs ++ [o].
Proof.
  rewrite run_snoc. unfold Model.run_step.
  destruct (run_from fm st h) as [[st1 outs]| | |]; cbn; try discriminate.
  destruct (step fm st1 a) as [[st2 o]| | |] eqn:S; cbn; try discriminate.
  intros H. inversion H; subst. exists st1, outs, o. split; [reflexivity|]. split; [exact S| reflexivity].
Qed.

Lemma reps_snoc h a : reps (h ++ [a]) = reps_step f keq (reps h) a.
Proof. unfold Model.reps. rewrite fold_left_app. reflexivity. Qed.

Lemma calls_fst h : fst (fold_left (calls_step f keq) h ([], [])) = reps h.
Proof.
  induction h as [|a h IH] using rev_ind; [reflexivity|].
  rewrite fold_left_app, reps_snoc. cbn. rewrite IH. reflexivity.
Qed.

Lemma calls_snoc h a :
  spec_calls (h ++ [a]) = if existsb (fun s => keq s a) (reps h) then spec_calls h else spec_calls h ++ [a].
Proof.
  unfold Model.spec_calls. rewrite fold_left_app. cbn. rewrite calls_fst. reflexivity.
Qed.

(* ---------- facts about the specification alone ---------- *)
Lemma reps_incl h s : In s (reps h) -> In s h.
Proof.
  induction h as [|a h IH] using rev_ind; [intros []|].
  rewrite reps_snoc. unfold reps_step. intros H. apply in_or_app.
  destruct (existsb (fun s0 => keq s0 a) (reps h)); [left; apply IH; exact H|].
  destruct (returns a); [|left; apply IH; exact H].
  apply in_app_or in H as [H|[<-|[]]]; [left; apply IH; exact H| right; left; reflexivity].
Qed.

Lemma reps_mono h a s : In s (reps h) -> In s (reps (h ++ [a])).
Proof.
  rewrite reps_snoc. unfold reps_step. intros H.
  destruct (existsb _ (reps h)); [exact H|]. destruct (returns a); [apply in_or_app; left; exact H| exact H].
Qed.

Lemma reps_return h s : In s (reps h) -> returns s = true.
Proof.
  induction h as [|a h IH] using rev_ind; [intros []|].
  rewrite reps_snoc. unfold reps_step.
  destruct (existsb _ (reps h)); [exact IH|]. destruct (returns a) eqn:R; [|exact IH].
  intros H. apply in_app_or in H as [H|[<-|[]]]; [apply IH; exact H| exact R].
Qed.

(* one representative per class: representatives are pairwise not Equal *)
Lemma reps_inequiv h : pairwise (fun s a => keq s a = false) (reps h).
Proof.
  induction h as [|a h IH] using rev_ind; [exact I|].
  rewrite reps_snoc. unfold reps_step.
  destruct (existsb (fun s => keq s a) (reps h)) eqn:E; [exact IH|].
  destruct (returns a); [|exact IH].
  apply pairwise_snoc; [exact IH|]. apply existsb_false_iff. exact E.
Qed.

(* every class on which f returned has its representative *)
Lemma reps_complete h a : Forall valid h -> In a h -> returns a = true ->
  exists s, In s (reps h) /\ keq s a = true.
Proof.
  induction h as [|b h IH] using rev_ind; [intros _ []|].
  intros V Ha R. apply Forall_app in V as [V Vb]. inversion Vb as [|? ? Vb' _]; subst.
  apply in_app_or in Ha as [Ha|[<-|[]]].
  - destruct (IH V Ha R) as (s & Hs & E). exists s. split; [apply reps_mono; exact Hs| exact E].
  - rewrite reps_snoc. unfold reps_step.
    destruct (existsb (fun s => keq s b) (reps h)) eqn:E.
    + apply existsb_exists in E as (s & Hs & E). exists s. split; assumption.
    + rewrite R. exists b. split; [apply in_or_app; right; left; reflexivity| apply Hrefl; exact Vb'].
Qed.

(* ---------- look-ups ---------- *)
Lemma assoc_none k m : assoc eqq k m = None -> forall e, In e m -> eqq (fst e) k = false.
Proof.
  induction m as [|[k' rs] m IH]; cbn; [intros _ e []|].
  destruct (eqq k' k) eqn:E; [discriminate|]. intros H e [<-|He]; [exact E| apply IH; assumption].
Qed.
Lemma assoc_some k m rs : assoc eqq k m = Some rs -> exists k', In (k', rs) m /\ eqq k' k = true.
Proof.
  induction m as [|[k' rs'] m IH]; cbn; [discriminate|].
  destruct (eqq k' k) eqn:E.
  - intros H. inversion H; subst. exists k'. split; [left; reflexivity| exact E].
  - intros H. destruct (IH H) as (k2 & I & E2). exists k2. split; [right; exact I| exact E2].
Qed.
Lemma scan_none k vs : scan eqr k vs = Ok None -> forall e, In e vs -> eqr (fst e) k = Ok false.
Proof.
  induction vs as [|[kin out] vs IH]; cbn; [intros _ e []|].
  destruct (eqr kin k) as [[|]| | |] eqn:E; cbn; try discriminate.
  intros H e [<-|He]; [exact E| apply IH; assumption].
Qed.
Lemma scan_some k vs rs : scan eqr k vs = Ok (Some rs) -> exists k', In (k', rs) vs /\ eqr k' k = Ok true.
Proof.
  induction vs as [|[kin out] vs IH]; cbn; [discriminate|].
  destruct (eqr kin k) as [[|]| | |] eqn:E; cbn; try discriminate.
  - intros H. inversion H; subst. exists kin. split; [left; reflexivity| exact E].
  - intros H. destruct (IH H) as (k2 & I & E2). exists k2. split; [right; exact I| exact E2].
Qed.

(* ================= observational equivalence ================= *)
(* f respects the classes: Equal argument tuples give the same outcome.  Without this the two
   halves of the property contradict each other (f(x) = 1/x separates +0 from -0, which are
   one key of map[float64]V). *)
Definition f_respects : Prop := forall a b, valid a -> valid b -> keq a b = true -> f a = f b.

(* every stored entry is the key of an earlier call together with what f returned on it *)
Definition InvObs (st : mst) : Prop :=
  forall k rs, In (k, rs) (tbl_entries (tbl st)) -> exists s, valid s /\ k = keyof s /\ f s = Ret rs.

Lemma init_obs : InvObs (init fm).
Proof. intros k rs. destruct fm; cbn; intros []. Qed.

Lemma invoke_obs st store a st' o :
  valid a -> InvObs st ->
  (forall rs, f a = Ret rs -> Permutation (tbl_entries (store rs)) ((keyof a, rs) :: tbl_entries (tbl st))) ->
  invoke f st store a = (st', o) -> InvObs st' /\ o = f a.
Proof.
  intros Va I P. unfold invoke. destruct (f a) as [rs|] eqn:F; intros H; inversion H; subst; clear H.
  - split; [|reflexivity]. intros k rs' Hin. cbn in Hin.
    apply (Permutation_in _ (P rs eq_refl)) in Hin as [E|Hin].
    + inversion E; subst. exists a. repeat split; assumption.
    + apply I; exact Hin.
  - split; [|reflexivity]. exact I.
Qed.

Lemma step_obs st a st' o :
  f_respects -> valid a -> InvObs st -> step fm st a = Ok (st', o) -> InvObs st' /\ o = f a.
Proof.
  intros FR Va I. unfold Model.step.
  destruct fm eqn:Fm; destruct (tbl st) as [memo rs|m|m] eqn:T; try discriminate.
  - (* zero-argument form *)
    destruct memo.
    + intros H. inversion H; subst. split; [exact I|].
      destruct (I (VSt []) rs) as (s & Vs & _ & Fs); [rewrite T; left; reflexivity|].
      rewrite (Hzero eq_refl a Va). rewrite (Hzero eq_refl s Vs) in Fs. symmetry. exact Fs.
    + intros H. inversion H as [H']. apply (invoke_obs _ _ _ _ _ Va I) in H'; [exact H'|].
      intros rs' _. rewrite T. cbn. rewrite (Hzero eq_refl a Va), Hkey0. reflexivity.
  - (* map forms *)
    destruct (assoc eqq (keyof a) m) as [rs|] eqn:A.
    + intros H. inversion H; subst. split; [exact I|].
      apply assoc_some in A as (k' & Hin & E).
      destruct (I k' rs) as (s & Vs & -> & Fs); [rewrite T; exact Hin|].
      rewrite (Heqq eq_refl s a Vs Va) in E. rewrite <- (FR s a Vs Va E). symmetry. exact Fs.
    + intros H. inversion H as [H']. apply (invoke_obs _ _ _ _ _ Va I) in H'; [exact H'|].
      intros rs' _. rewrite T. reflexivity.
  - (* bucket form *)
    destruct (hashr (keyof a)) as [hh| | |]; cbn; try discriminate.
    destruct (scan eqr (keyof a) (bucket hh m)) as [[rs|]| | |] eqn:S; cbn; try discriminate.
    + intros H. inversion H; subst. split; [exact I|].
      apply scan_some in S as (k' & Hin & E).
      destruct (I k' rs) as (s & Vs & -> & Fs); [rewrite T; cbn; eapply bucket_in_entries; exact Hin|].
      destruct (Heqr eq_refl s a Vs Va) as [U|U]; rewrite U in E; [discriminate|].
      inversion E as [E']. rewrite <- (FR s a Vs Va E'). symmetry. exact Fs.
    + intros H. inversion H as [H']. apply (invoke_obs _ _ _ _ _ Va I) in H'; [exact H'|].
      intros rs' _. rewrite T. cbn. apply set_bucket_perm.
Qed.

Theorem run_observational h st outs :
  f_respects -> Forall valid h -> run_from fm (init fm) h = Ok (st, outs) -> outs = map f h /\ InvObs st.
Proof.
  intros FR. revert st outs. induction h as [|a h IH] using rev_ind; intros st outs V R.
  - cbn in R. inversion R; subst. split; [reflexivity| apply init_obs].
  - apply Forall_app in V as [V Va]. inversion Va as [|? ? Va' _]; subst.
    apply run_snoc_inv in R as (st1 & outs1 & o & R1 & S & ->).
    destruct (IH st1 outs1 V R1) as [E I].
    destruct (step_obs _ _ _ _ FR Va' I S) as [I' ->].
    split; [|exact I']. rewrite map_app, E. reflexivity.
Qed.

(* ================= the table invariant and the invocations of f ================= *)
(* Equal argument tuples hash alike (C04) *)
Hypothesis Hhash : fm = FBuck -> forall a b, valid a -> valid b -> keq a b = true ->
  hashr (keyof a) = hashr (keyof b).

Definition hash_is (hh : N) (a : list val) : bool :=
  match hashr (keyof a) with Ok n => N.eqb n hh | _ => false end.

(* the table, exactly: what each form holds for the representatives rp *)
Definition tbl_inv (rp : list (list val)) (t : table) : Prop :=
  match fm with
  | FZero => match rp with
             | [] => t = TZero false []
             | [s] => t = TZero true (results s)
             | _ => False
             end
  | FMap => t = TMap (rev (map entry_of rp))
  | FBuck => exists m, t = TBuck m /\ forall hh, bucket hh m = map entry_of (filter (hash_is hh) rp)
  end.

Definition Inv (h : list (list val)) (st : mst) : Prop :=
  log st = rev (spec_calls h)
  /\ tbl_inv (reps h) (tbl st)
  /\ Permutation (tbl_entries (tbl st)) (map entry_of (reps h)).

Lemma init_inv : Inv [] (init fm).
Proof.
  unfold Inv, tbl_inv. cbn. destruct fm; cbn; repeat split; try reflexivity.
  exists []. split; reflexivity.
Qed.

(* the call is answered from the table exactly when the class has a representative *)
Lemma step_inv h st a st' o :
  Forall valid h -> valid a -> Inv h st -> step fm st a = Ok (st', o) -> Inv (h ++ [a]) st'.
Proof.
  intros V Va (L & TI & P). unfold Inv. rewrite reps_snoc, calls_snoc. unfold reps_step.
  assert (VR : forall s, In s (reps h) -> valid s).
  { intros s Hs. apply reps_incl in Hs. rewrite Forall_forall in V. apply V; exact Hs. }
  unfold Model.step, tbl_inv in *.
  destruct fm eqn:Fm; destruct (tbl st) as [memo rs|m|m] eqn:T.
  all: try (destruct TI as (m' & TI & Bk)); try discriminate.
  all: try (destruct (reps h) as [|? [|? ?]]; try discriminate; contradiction).
  - (* zero-argument form *)
    pose proof (Hzero eq_refl a Va) as ->.
    destruct (reps h) as [|s [|s2 r]] eqn:RP; [| |contradiction].
    + inversion TI; subst. cbn [existsb]. unfold invoke, Model.returns.
      destruct (f []) as [rs'|] eqn:F; intros H; inversion H; subst; cbn [tbl log].
      * cbn [app]. split; [rewrite L, rev_app_distr; reflexivity|].
        split; [unfold Model.results; rewrite F; reflexivity|].
        cbn [tbl_entries map]. unfold entry_of, Model.results. rewrite F, Hkey0. reflexivity.
      * split; [rewrite L, rev_app_distr; reflexivity|]. split; [exact T| rewrite T; reflexivity].
    + inversion TI; subst. assert (s = []) as -> by (apply (Hzero eq_refl), VR; left; reflexivity).
      cbn [existsb]. rewrite (Hrefl [] Va). cbn [orb].
      intros H. inversion H; subst. split; [exact L|]. split; [rewrite T; reflexivity| rewrite T; exact P].
  - (* map forms *)
    inversion TI; subst m.
    destruct (assoc eqq (keyof a) (rev (map entry_of (reps h)))) as [rs|] eqn:A.
    + apply assoc_some in A as (k' & Hin & E).
      apply in_rev, in_map_iff in Hin as (s & Es & Hs). inversion Es; subst.
      rewrite (Heqq eq_refl s a (VR s Hs) Va) in E.
      assert (X : existsb (fun s0 => keq s0 a) (reps h) = true) by (apply existsb_exists; exists s; split; assumption).
      rewrite X. intros H. inversion H; subst. split; [exact L|]. split; [exact T| rewrite T; exact P].
    + assert (X : existsb (fun s0 => keq s0 a) (reps h) = false).
      { apply existsb_false_iff. intros s Hs. rewrite <- (Heqq eq_refl s a (VR s Hs) Va).
        apply (assoc_none _ _ A (entry_of s)). apply -> in_rev. apply in_map. exact Hs. }
      rewrite X. unfold invoke, Model.returns.
      destruct (f a) as [rs'|] eqn:F; intros H; inversion H; subst; cbn [tbl log].
      * assert (EA : entry_of a = (keyof a, rs')) by (unfold entry_of, Model.results; rewrite F; reflexivity).
        split; [rewrite L, rev_app_distr; reflexivity|]. split.
        -- rewrite map_app, rev_app_distr. cbn. rewrite EA. reflexivity.
        -- cbn [tbl_entries]. rewrite map_app. cbn. rewrite EA, <- Permutation_cons_append.
           apply perm_skip. exact P.
      * split; [rewrite L, rev_app_distr; reflexivity|]. split; [exact T| rewrite T; exact P].
  - (* bucket form *)
    inversion TI; subst m'.
    destruct (hashr (keyof a)) as [hh| | |] eqn:HA; cbn; try discriminate.
    destruct (scan eqr (keyof a) (bucket hh m)) as [[rs|]| | |] eqn:S; cbn; try discriminate.
    + apply scan_some in S as (k' & Hin & E). rewrite Bk in Hin.
      apply in_map_iff in Hin as (s & Es & Hs). inversion Es; subst.
      apply filter_In in Hs as [Hs _].
      destruct (Heqr eq_refl s a (VR s Hs) Va) as [U|U]; rewrite U in E; [discriminate|]. inversion E as [E'].
      assert (X : existsb (fun s0 => keq s0 a) (reps h) = true) by (apply existsb_exists; exists s; split; assumption).
      rewrite X. intros H. inversion H; subst. split; [exact L|]. split; [|rewrite T; exact P].
      rewrite T. exists m. split; [reflexivity| exact Bk].
    + assert (X : existsb (fun s0 => keq s0 a) (reps h) = false).
      { apply existsb_false_iff. intros s Hs. destruct (keq s a) eqn:K; [|reflexivity]. exfalso.
        pose proof (Hhash eq_refl s a (VR s Hs) Va K) as HH. rewrite HA in HH.
        assert (Hin : In (entry_of s) (bucket hh m)).
        { rewrite Bk. apply in_map. apply filter_In. split; [exact Hs|].
          unfold hash_is. rewrite HH. apply N.eqb_refl. }
        pose proof (scan_none _ _ S _ Hin) as E. cbn in E.
        destruct (Heqr eq_refl s a (VR s Hs) Va) as [U|U]; rewrite U in E; [discriminate|].
        rewrite K in E. discriminate. }
      rewrite X. unfold invoke, Model.returns.
      destruct (f a) as [rs'|] eqn:F; intros H; inversion H; subst; cbn [tbl log].
      * assert (EA : entry_of a = (keyof a, rs')) by (unfold entry_of, Model.results; rewrite F; reflexivity).
        split; [rewrite L, rev_app_distr; reflexivity|]. split.
        -- eexists. split; [reflexivity|]. intros h2. rewrite bucket_set_bucket, filter_snoc, map_app.
           unfold hash_is at 2. rewrite HA. destruct (N.eqb hh h2) eqn:E2.
           ++ apply N.eqb_eq in E2. subst h2. rewrite Bk. cbn. rewrite EA. reflexivity.
           ++ cbn. rewrite app_nil_r. apply Bk.
        -- cbn [tbl_entries]. rewrite set_bucket_perm, map_app. cbn. rewrite EA, <- Permutation_cons_append.
           apply perm_skip. exact P.
      * split; [rewrite L, rev_app_distr; reflexivity|]. split; [|rewrite T; exact P].
        rewrite T. exists m. split; [reflexivity| exact Bk].
Qed.

Theorem run_inv h st outs :
  Forall valid h -> run_from fm (init fm) h = Ok (st, outs) -> Inv h st.
Proof.
  revert st outs. induction h as [|a h IH] using rev_ind; intros st outs V R.
  - cbn in R. inversion R; subst. apply init_inv.
  - apply Forall_app in V as [V Va]. inversion Va as [|? ? Va' _]; subst.
    apply run_snoc_inv in R as (st1 & outs1 & o & R1 & S & ->).
    eapply step_inv; [exact V| exact Va'| eapply IH; [exact V| exact R1]| exact S].
Qed.

(* ---------- progress: the memoised closure never panics or gets stuck by itself ----------
   (a panic can only come out of f; Unsup = the generator refuses Equal/Hash of the key type) *)
Definition ok_or_unsup {A} (r : res A) : Prop := r = Unsup \/ exists a, r = Ok a.

Lemma scan_progress k vs :
  (forall e, In e vs -> ok_or_unsup (eqr (fst e) k)) -> ok_or_unsup (scan eqr k vs).
Proof.
  induction vs as [|[kin out] vs IH]; cbn; intros H; [right; eexists; reflexivity|].
  destruct (H (kin, out) (or_introl eq_refl)) as [U|[b E]]; cbn in *.
  - rewrite U. left; reflexivity.
  - rewrite E. cbn. destruct b; [right; eexists; reflexivity|]. apply IH. intros e He. apply H. right; exact He.
Qed.

Lemma step_progress h st a :
  (fm = FBuck -> forall b, valid b -> ok_or_unsup (hashr (keyof b))) ->
  Forall valid h -> valid a -> Inv h st -> ok_or_unsup (step fm st a).
Proof.
  intros HT V Va (_ & TI & _).
  assert (VR : forall s, In s (reps h) -> valid s).
  { intros s Hs. apply reps_incl in Hs. rewrite Forall_forall in V. apply V; exact Hs. }
  unfold Model.step, tbl_inv in *. destruct fm eqn:Fm.
  - destruct (reps h) as [|s [|s2 r]]; try contradiction; rewrite TI; [|right; eexists; reflexivity].
    cbn. right; eexists; reflexivity.
  - rewrite TI. destruct (assoc eqq (keyof a) _); right; eexists; reflexivity.
  - destruct TI as (m & -> & Bk).
    destruct (HT eq_refl a Va) as [U|[hh E]]; [rewrite U; left; reflexivity|]. rewrite E. cbn.
    assert (SP : ok_or_unsup (scan eqr (keyof a) (bucket hh m))).
    { apply scan_progress. intros e He. rewrite Bk in He. apply in_map_iff in He as (s & <- & Hs).
      apply filter_In in Hs as [Hs _]. cbn.
      destruct (Heqr eq_refl s a (VR s Hs) Va) as [U|O]; [left; exact U| right; eexists; exact O]. }
    destruct SP as [U|[found E2]]; [rewrite U; left; reflexivity|]. rewrite E2. cbn.
    destruct found; right; eexists; reflexivity.
Qed.

Theorem run_progress h :
  (fm = FBuck -> forall b, valid b -> ok_or_unsup (hashr (keyof b))) ->
  Forall valid h -> ok_or_unsup (run_from fm (init fm) h).
Proof.
  intros HT. induction h as [|a h IH] using rev_ind; intros V.
  - right. eexists. reflexivity.
  - apply Forall_app in V as [V Va]. inversion Va as [|? ? Va' _]; subst.
    rewrite run_snoc. destruct (IH V) as [U|[[st outs] E]].
    + rewrite U. left; reflexivity.
    + rewrite E. unfold Model.run_step. cbn.
      destruct (step_progress h st a HT V Va' (run_inv h st outs V E)) as [U|[[st' o] E']].
      * rewrite U. left; reflexivity.
      * rewrite E'. right. eexists. reflexivity.
Qed.

(* ---------- how often the ideal memoiser invokes f ---------- *)
Hypothesis Hsym : forall a b, valid a -> valid b -> keq a b = keq b a.
Hypothesis Htrans : forall a b c, valid a -> valid b -> valid c -> keq a b = true -> keq b c = true -> keq a c = true.

Notation count_class := (count_class keq).

Lemma count_snoc a l b : count_class a (l ++ [b]) = (count_class a l + if keq b a then 1 else 0)%nat.
Proof. unfold Model.count_class. rewrite filter_snoc, app_length. destruct (keq b a); reflexivity. Qed.

(* whether f returns is a property of the class (true when f respects the classes, and when f
   never panics) *)
Definition returns_by_class : Prop := forall a b, valid a -> valid b -> keq a b = true -> returns a = returns b.

Lemma spec_calls_count h a :
  returns_by_class -> Forall valid h -> valid a ->
  count_class a (spec_calls h) =
    if returns a then (if existsb (fun b => keq b a) h then 1%nat else 0%nat) else count_class a h.
Proof.
  intros RC. induction h as [|b h IH] using rev_ind; intros V Va.
  - cbn. destruct (returns a); reflexivity.
  - apply Forall_app in V as [V Vb]. inversion Vb as [|? ? Vb' _]; subst. specialize (IH V Va).
    assert (VH : forall c, In c h -> valid c) by (rewrite Forall_forall in V; exact V).
    rewrite calls_snoc, existsb_app, count_snoc. cbn [existsb]. rewrite orb_false_r.
    destruct (keq b a) eqn:K.
    + pose proof (RC b a Vb' Va K) as Rb.
      destruct (returns a) eqn:Ra.
      * (* the class returns: f is invoked on b iff it is the first of its class *)
        rewrite orb_true_r.
        destruct (existsb (fun s => keq s b) (reps h)) eqn:X.
        -- apply existsb_exists in X as (s & Hs & Ks).
           assert (Y : existsb (fun c => keq c a) h = true).
           { apply existsb_exists. exists s. split; [apply reps_incl; exact Hs|].
             apply (Htrans s b a); try assumption. apply VH, reps_incl, Hs. }
           rewrite IH, Y. reflexivity.
        -- assert (Y : existsb (fun c => keq c a) h = false).
           { apply existsb_false_iff. intros c Hc. destruct (keq c a) eqn:Kc; [|reflexivity]. exfalso.
             assert (Rc : returns c = true) by (rewrite (RC c a (VH c Hc) Va Kc); exact Ra).
             destruct (reps_complete h c V Hc Rc) as (s & Hs & Ks).
             assert (Vs : valid s) by (apply VH, reps_incl, Hs).
             assert (Kab : keq a b = true) by (rewrite (Hsym a b Va Vb'); exact K).
             pose proof (Htrans s c a Vs (VH c Hc) Va Ks Kc) as K1.
             pose proof (Htrans s a b Vs Va Vb' K1 Kab) as K2.
             rewrite existsb_false_iff in X. rewrite (X s Hs) in K2. discriminate. }
           rewrite count_snoc, K, IH, Y. reflexivity.
      * (* the class panics: nothing is ever stored for it, f is invoked every time *)
        assert (X : existsb (fun s => keq s b) (reps h) = false).
        { apply existsb_false_iff. intros s Hs. destruct (keq s b) eqn:Ks; [|reflexivity]. exfalso.
          pose proof (reps_return h s Hs) as Rs.
          rewrite (RC s b (VH s (reps_incl h s Hs)) Vb' Ks), Rb in Rs. discriminate. }
        rewrite X, count_snoc, K, IH. reflexivity.
    + rewrite orb_false_r, Nat.add_0_r.
      destruct (existsb (fun s => keq s b) (reps h)); [exact IH|].
      rewrite count_snoc, K, Nat.add_0_r. exact IH.
Qed.

(* the stored result is f of the first member of the class on which f returned *)
Lemma reps_first h s : Forall valid h -> In s (reps h) ->
  exists h1 h2, h = h1 ++ s :: h2 /\ forall b, In b h1 -> keq b s = true -> returns b = false.
Proof.
  induction h as [|a h IH] using rev_ind; [intros _ []|].
  intros V. apply Forall_app in V as [V Va]. inversion Va as [|? ? Va' _]; subst.
  assert (VH : forall c, In c h -> valid c) by (rewrite Forall_forall in V; exact V).
  rewrite reps_snoc. unfold reps_step.
  assert (Old : In s (reps h) -> exists h1 h2, h ++ [a] = h1 ++ s :: h2 /\ forall b, In b h1 -> keq b s = true -> returns b = false).
  { intros Hs. destruct (IH V Hs) as (h1 & h2 & -> & F). exists h1, (h2 ++ [a]). split; [|exact F].
    rewrite <- app_assoc. reflexivity. }
  destruct (existsb (fun s0 => keq s0 a) (reps h)) eqn:X; [exact Old|].
  destruct (returns a) eqn:Ra; [|exact Old].
  intros Hs. apply in_app_or in Hs as [Hs|[<-|[]]]; [exact (Old Hs)|].
  exists h, []. split; [reflexivity|]. intros b Hb Kb. destruct (returns b) eqn:Rb; [|reflexivity]. exfalso.
  destruct (reps_complete h b V Hb Rb) as (r & Hr & Kr).
  pose proof (Htrans r b a (VH r (reps_incl h r Hr)) (VH b Hb) Va' Kr Kb) as K.
  rewrite existsb_false_iff in X. rewrite (X r Hr) in K. discriminate.
Qed.

(* the invocations of f, oldest first *)
Definition f_calls (st : mst) : list (list val) := rev (log st).

Theorem run_calls h st outs :
  Forall valid h -> run_from fm (init fm) h = Ok (st, outs) -> f_calls st = spec_calls h.
Proof.
  intros V R. destruct (run_inv h st outs V R) as (L & _). unfold f_calls. rewrite L. apply rev_involutive.
Qed.

(* f is invoked exactly once for each class of Equal argument tuples that occurs in the history
   (on which f returns); a class on which f panics is recomputed — and panics — on every call *)
Theorem run_at_most_once h st outs a :
  returns_by_class -> Forall valid h -> run_from fm (init fm) h = Ok (st, outs) -> In a h ->
  count_class a (f_calls st) = if returns a then 1%nat else count_class a h.
Proof.
  intros RC V R Ha. rewrite (run_calls h st outs V R).
  assert (Va : valid a) by (rewrite Forall_forall in V; apply V; exact Ha).
  rewrite (spec_calls_count h a RC V Va).
  destruct (returns a); [|reflexivity].
  assert (X : existsb (fun b => keq b a) h = true) by (apply existsb_exists; exists a; split; [exact Ha| apply Hrefl; exact Va]).
  rewrite X. reflexivity.
Qed.

(* a class that does not occur is never evaluated *)
Theorem run_no_spurious_calls h st outs a :
  Forall valid h -> run_from fm (init fm) h = Ok (st, outs) -> In a (f_calls st) -> In a h.
Proof.
  intros V R. rewrite (run_calls h st outs V R). clear R.
  induction h as [|b h IH] using rev_ind; [intros []|].
  apply Forall_app in V as [V _]. rewrite calls_snoc. intros H. apply in_or_app.
  destruct (existsb _ (reps h)); [left; apply IH; assumption|].
  apply in_app_or in H as [H|[<-|[]]]; [left; apply IH; assumption| right; left; reflexivity].
Qed.

End Generic.
