(* Mem/Reentrant.v — re-entrant call sequences of the function returned by deriveMem (C18).

   Mem/Model.v treats the user function f as a pure oracle, so only FLAT call sequences are
   modelled there.  The usual way to memoise a recursive function (example/talk/07_fib) is

       fib = deriveMem(func(i uint) uint { ... return fib(i-1) + fib(i-2) })

   i.e. f's body itself calls the memoised closure.  Then the emitted code

       h := deriveHash(param0)
       vs, ok := m[h]                      (1) read BEFORE f is called
       if ok { for _, v := range vs { if deriveEqual(v.in, param0) { return v.out } } }
       res0 := f(param0)                   (2) f runs: inner calls of this very closure, which
                                               look up and STORE into the same captured table
       m[h] = append(m[h], mem{param0, res0})   (3) store: m[h] is read AGAIN here
       return res0

   runs its steps (1) and (3) on different tables.  Here f is given by

       inner : args -> list args                   the memoised calls f's body makes, in order
       fin   : args -> list results -> outcome     what f returns once those calls have returned
                                                   (f's result MAY depend on the inner results)

   and a panic of an inner call propagates through f (f does not recover).  The un-memoised
   recursive function these equations define is [Fspec]; that the memoised closure computes it
   is a theorem (Mem/ReProofs.v), not an assumption.  Recursion is on explicit fuel; [EFuel] is
   the explicit error of an exhausted run, excluded in the theorems by a rank function
   (rank(inner argument) < rank(argument): real Go would recurse for ever otherwise).

   [rcall] = one call of the closure.  On a miss it (a) keeps what the emitted code holds in
   local variables when it calls f (the key, the hash h, the bucket slice vs), (b) logs the
   invocation, runs the inner calls against the CURRENT state, computes f's result, (c) stores
   into the table AS IT IS THEN, exactly as the emitted statement does: [store_zero]
   (res0 = ..; memoized = true), [store_map] (m[k] = v: Go's map assignment, replacing the
   value of an ==-equal key), [store_buck] (m[h] = append(m[h], mem{..})).  The parameter
   [stale] selects the variant `m[h] = append(vs, mem{..})` that re-uses the slice read at (1):
   the same definition, so that its refutation is about this model and not another one. *)
From Coq Require Import String.
From Verif Require Export Mem.Model.
Open Scope list_scope.

(* ---------- results of a fuelled run ---------- *)
Inductive rerr := EPan | EUnsup | EStuck | EFuel.
Inductive rres (A : Type) : Type :=
| ROk (a : A)
| RErr (e : rerr).
Arguments ROk {A} a.
Arguments RErr {A} e.

Definition of_res {A} (r : res A) : rres A :=
  match r with Ok a => ROk a | Pan => RErr EPan | Unsup => RErr EUnsup | Stuck => RErr EStuck end.
Definition rrbind {A B} (r : rres A) (k : A -> rres B) : rres B :=
  match r with ROk a => k a | RErr e => RErr e end.
Notation "'rrdo' x <- r ; k" := (rrbind r (fun x => k))
  (at level 200, x pattern, r at level 100, k at level 200, right associativity).

Definition is_panic {A} (o : outcome A) : bool := match o with Panic => true | Ret _ => false end.

(* the results, when every call returned *)
Fixpoint all_ret {A} (os : list (outcome A)) : option (list A) :=
  match os with
  | [] => Some []
  | Ret x :: os' => option_map (cons x) (all_ret os')
  | Panic :: _ => None
  end.

(* a sequence of calls against a state, left to right.  stop = true: the calls made by f's body
   (a panic propagates: the remaining calls are not made); stop = false: an outer call history
   (the caller recovers and goes on). *)
Section Seq.
Context {S : Type}.
Variable call : S -> list val -> rres (S * outcome (list val)).
Fixpoint run_seq (stop : bool) (bs : list (list val)) (st : S) : rres (S * list (outcome (list val))) :=
  match bs with
  | [] => ROk (st, [])
  | b :: bs' =>
      rrdo so <- call st b;
      if (stop && is_panic (snd so))%bool then ROk (fst so, [snd so])
      else rrdo r <- run_seq stop bs' (fst so); ROk (fst r, snd so :: snd r)
  end.
End Seq.

(* ---------- the re-entrant user function ---------- *)
Section Fun.
Variable inner : list val -> list (list val).
Variable fin : list val -> list (list val) -> outcome (list val).

(* f's result from the outcomes of its inner calls *)
Definition finish (a : list val) (os : list (outcome (list val))) : outcome (list val) :=
  match all_ret os with Some rss => fin a rss | None => Panic end.

(* the un-memoised recursive function: every inner call is a call of the function itself *)
Fixpoint Fspec (n : nat) (a : list val) : outcome (list val) :=
  match n with
  | O => Panic
  | S n' => finish a (map (Fspec n') (inner a))
  end.
End Fun.

(* ---------- the emitted closure ---------- *)
Section RMachine.
Variable inner : list val -> list (list val).
Variable fin : list val -> list (list val) -> outcome (list val).
Variable keyof : list val -> val.
Variable eqq : val -> val -> bool.
Variable eqr : val -> val -> res bool.
Variable hashr : val -> res N.
Variable stale : bool.          (* false: the emitted code; true: m[h] = append(vs, ..) *)
Variable fm : form.

(* m[k] = v of map[K]V: the value of an ==-equal key is replaced (the old key stays), otherwise
   the key is added *)
Fixpoint map_replace (k : val) (rs : list val) (m : list entry) : option (list entry) :=
  match m with
  | [] => None
  | (k', rs') :: m' =>
      if eqq k' k then Some ((k', rs) :: m')
      else option_map (cons (k', rs')) (map_replace k rs m')
  end.
Definition map_set (k : val) (rs : list val) (m : list entry) : list entry :=
  match map_replace k rs m with Some m' => m' | None => (k, rs) :: m end.

(* the three store statements; the table argument is the table at the time of the store *)
Definition store_zero (t : table) (rs : list val) : table := TZero true rs.
Definition store_map (k : val) (t : table) (rs : list val) : table :=
  match t with TMap m => TMap (map_set k rs m) | _ => t end.
Definition store_buck (k : val) (h : N) (vs : list entry) (t : table) (rs : list val) : table :=
  match t with
  | TBuck m => TBuck (set_bucket h ((if stale then vs else bucket h m) ++ [(k, rs)]) m)
  | _ => t
  end.

(* a miss: f is entered (logged), its inner calls run against the current state, f returns or
   panics; only when it returns is anything stored *)
Definition eval_miss (call : mst -> list val -> rres (mst * outcome (list val)))
    (st : mst) (a : list val) (store : table -> list val -> table) : rres (mst * outcome (list val)) :=
  rrdo sr <- run_seq call true (inner a) {| tbl := tbl st; log := a :: log st |};
  match finish fin a (snd sr) with
  | Ret rs => ROk ({| tbl := store (tbl (fst sr)) rs; log := log (fst sr) |}, Ret rs)
  | Panic => ROk (fst sr, Panic)
  end.

(* one call of the memoised closure *)
Fixpoint rcall (n : nat) (st : mst) (a : list val) {struct n} : rres (mst * outcome (list val)) :=
  match n with
  | O => RErr EFuel
  | S n' =>
      match fm, tbl st with
      | FZero, TZero memo rs =>
          if memo then ROk (st, Ret rs) else eval_miss (rcall n') st a store_zero
      | FMap, TMap m =>
          let k := keyof a in
          match assoc eqq k m with
          | Some rs => ROk (st, Ret rs)
          | None => eval_miss (rcall n') st a (store_map k)
          end
      | FBuck, TBuck m =>
          let k := keyof a in
          rrdo h <- of_res (hashr k);
          let vs := bucket h m in
          rrdo found <- of_res (scan eqr k vs);
          match found with
          | Some rs => ROk (st, Ret rs)
          | None => eval_miss (rcall n') st a (store_buck k h vs)
          end
      | _, _ => RErr EStuck
      end
  end.

(* an outer call history *)
Definition rrun (n : nat) (st : mst) (h : list (list val)) : rres (mst * list (outcome (list val))) :=
  run_seq (rcall n) false h st.
End RMachine.

(* deriveMem(f) for a signature with parameter types ps, f given by inner/fin; n = fuel *)
Definition rmem_run_gen (stale : bool) (hashr : val -> res N) (ps : list ty)
    (inner : list val -> list (list val)) (fin : list val -> list (list val) -> outcome (list val))
    (n : nat) (h : list (list val)) :=
  rrun inner fin key_val go_eqeq (fun kin k => Equal.eqm [] Top (key_ty ps) kin k) hashr stale
       (form_of ps) n (init (form_of ps)) h.
Definition rmem_run_with := rmem_run_gen false.
Definition rmem_run (ps : list ty) := rmem_run_with (fun k => hashm [] (key_ty ps) k) ps.
Definition rmem_run_consthash (c : N) := rmem_run_with (fun _ => Ok c).
(* the variant that stores the bucket slice read before f was called *)
Definition rmem_run_stale (ps : list ty) := rmem_run_gen true (fun k => hashm [] (key_ty ps) k) ps.

(* ---------- specification: an ideal memoiser over classes, with re-entrant f ----------
   One cache entry (arguments, results) per evaluation that returned, found by the class
   relation keq; the invocations of f in the order in which f is entered; the evaluations that
   panicked.  No table layout, no hash. *)
Record ist := { itab : list (list val * list val); icalls : list (list val); ipanics : list (list val) }.
Definition iinit : ist := {| itab := []; icalls := []; ipanics := [] |}.

Section Ideal.
Variable inner : list val -> list (list val).
Variable fin : list val -> list (list val) -> outcome (list val).
Variable keq : list val -> list val -> bool.      (* stored first, new second *)

Fixpoint ilookup (a : list val) (tab : list (list val * list val)) : option (list val) :=
  match tab with
  | [] => None
  | (s, rs) :: t => if keq s a then Some rs else ilookup a t
  end.

Fixpoint icall (n : nat) (it : ist) (a : list val) {struct n} : rres (ist * outcome (list val)) :=
  match n with
  | O => RErr EFuel
  | S n' =>
      match ilookup a (itab it) with
      | Some rs => ROk (it, Ret rs)
      | None =>
          rrdo sr <- run_seq (icall n') true (inner a)
                       {| itab := itab it; icalls := icalls it ++ [a]; ipanics := ipanics it |};
          match finish fin a (snd sr) with
          | Ret rs => ROk ({| itab := itab (fst sr) ++ [(a, rs)]; icalls := icalls (fst sr);
                              ipanics := ipanics (fst sr) |}, Ret rs)
          | Panic => ROk ({| itab := itab (fst sr); icalls := icalls (fst sr);
                             ipanics := ipanics (fst sr) ++ [a] |}, Panic)
          end
      end
  end.

Definition irun (n : nat) (h : list (list val)) : rres (ist * list (outcome (list val))) :=
  run_seq (icall n) false h iinit.

(* x is a itself or an argument of a (transitively) inner call of a *)
Inductive desc : list val -> list val -> Prop :=
| desc_refl a : desc a a
| desc_step a b x : In b (inner a) -> desc b x -> desc a x.
End Ideal.

(* ---------- re-entrant functions given by a finite table of rules ----------
   rules = [(key_0, inner_0); (key_1, inner_1); ...] in rank order: an argument tuple Equal to
   key_i (and to no earlier key) makes the inner calls inner_i and has rank i+1; any other tuple
   makes none and has rank 0.  [rules_wf] is the decidable well-foundedness check (every tuple
   well-typed; every inner tuple of smaller rank than its key); Mem/ReInst.v proves that it
   implies the hypothesis of the theorems.  The evaluator (Eval18.v) uses exactly these. *)
Fixpoint rule_find (keq : list val -> list val -> bool) (rules : list (list val * list (list val)))
    (a : list val) (i : nat) : option (nat * list (list val)) :=
  match rules with
  | [] => None
  | (k, bs) :: rs => if keq k a then Some (i, bs) else rule_find keq rs a (S i)
  end.
Definition rule_inner (ps : list ty) (rules : list (list val * list (list val))) (a : list val) : list (list val) :=
  match rule_find (args_equal ps) rules a 0 with Some (_, bs) => bs | None => [] end.
Definition rule_rank (ps : list ty) (rules : list (list val * list (list val))) (a : list val) : nat :=
  match rule_find (args_equal ps) rules a 0 with Some (i, _) => S i | None => O end.
Definition rules_wf (ps : list ty) (rules : list (list val * list (list val))) : bool :=
  (forallb (fun r => args_typed ps (fst r) && forallb (args_typed ps) (snd r)) rules
   && forallb (fun r => forallb (fun b => Nat.ltb (rule_rank ps rules b) (rule_rank ps rules (fst r))) (snd r)) rules)%bool.
