(* Mem/Model.v — model of the code emitted by plugin/mem (deriveMem), C18.

   plugin/mem/mem.go: genFunc chooses one of four emitted forms from the parameter types:

     len(params) = 0                                -> a `memoized` flag and result variables
     len(params) = 1 && IsComparable(param0)        -> map[T0]V          keyed by the argument
     IsComparable(struct{Param0 T0; Param1 T1 ...}) -> map[input]V       keyed by input{param0, ...}
     otherwise                                      -> map[uint64][]mem  keyed by derived Hash of the
                                                       argument (one parameter) or of input{...}; the
                                                       bucket is scanned in order with derived Equal

   (V = struct{} / the result / an `output` struct for 0 / 1 / >= 2 results; the model stores the
   list of results — the storage layout is validated by the correspondence run over 0..3 results.)

   The closure returned by deriveMem is a state machine over the captured table.  [step] is one
   call of that closure; the user function f is an oracle whose invocations are logged.  f may
   panic: the emitted code then stores nothing (the assignment from f's results, the store and
   `memoized = true` all come after the call), and the panic propagates to the caller.

   Go's map is modelled by an association list searched with Go's == ([go_eqeq]): the model only
   inserts a key after a failed look-up, as the emitted code does, so keys stay pairwise
   different and "first match" is "the match". *)
From Coq Require Import String.
From Verif Require Export Go.Val Go.Equal Go.Hash.
Open Scope N_scope.

(* ---------- which form the generator emits ---------- *)
Inductive form := FZero | FMap | FBuck.

(* struct{ Param0 T0; Param1 T1; ... } (exported fields) *)
Definition param_struct (ps : list ty) : ty := TSt (map (fun t => (false, t)) ps).

(* the type / value the table is keyed (or hashed and compared) by: the single argument, or
   input{param0, param1, ...} *)
Definition key_ty (ps : list ty) : ty :=
  match ps with [t] => t | _ => param_struct ps end.
Definition key_val (args : list val) : val :=
  match args with [a] => a | _ => VSt args end.

Definition form_of (ps : list ty) : form :=
  match ps with
  | [] => FZero
  | [t] => if can_equal t then FMap else FBuck
  | _ => if can_equal (param_struct ps) then FMap else FBuck
  end.

(* ---------- well-formedness of the emitted text (the statement that calls f) ----------
   The bucket form printed, for every number of results,
        <res0, res1, ...> := f(<params>)
        m[h] = append(m[h], mem{<key>, output{<res...>}})      (for != 1 results)
   while declaring `output` only for >= 2 results.  With no results the left-hand side is empty
   (" := f(param0)") and `output` is undefined: the file does not parse. *)
Inductive call_stmt := CallOnly | CallAssign (lhs : list nat).   (* f(..)  /  res_i,.. := f(..) *)
Inductive store_expr := StoreKeyOnly | StoreRes | StoreOutput.  (* mem{k} / mem{k, res0} / mem{k, output{..}} *)

Definition emitted_call_old (fm : form) (nres : nat) : call_stmt :=
  match fm, nres with
  | FBuck, _ => CallAssign (seq 0 nres)
  | _, O => CallOnly
  | _, _ => CallAssign (seq 0 nres)
  end.
Definition emitted_store_old (fm : form) (nres : nat) : store_expr :=
  match fm, nres with
  | FBuck, 1%nat => StoreRes
  | FBuck, _ => StoreOutput
  | _, O => StoreKeyOnly
  | _, 1%nat => StoreRes
  | _, _ => StoreOutput
  end.
(* repaired generator (repo-patches/C18-fix-mem-noresult-noncomparable.patch) *)
Definition emitted_call (fm : form) (nres : nat) : call_stmt :=
  match nres with O => CallOnly | _ => CallAssign (seq 0 nres) end.
Definition emitted_store (fm : form) (nres : nat) : store_expr :=
  match nres with O => StoreKeyOnly | 1%nat => StoreRes | _ => StoreOutput end.

(* `output` is declared iff there are >= 2 results *)
Definition output_declared (nres : nat) : bool := Nat.leb 2 nres.
Definition stmt_wellformed (c : call_stmt) (s : store_expr) (nres : nat) : bool :=
  (match c with CallOnly => Nat.eqb nres 0 | CallAssign lhs => negb (Nat.eqb (List.length lhs) 0) && Nat.eqb (List.length lhs) nres end
   && match s with StoreOutput => output_declared nres | StoreRes => Nat.eqb nres 1 | StoreKeyOnly => Nat.eqb nres 0 end)%bool.

Definition gen_wellformed_old (ps : list ty) (nres : nat) : bool :=
  stmt_wellformed (emitted_call_old (form_of ps) nres) (emitted_store_old (form_of ps) nres) nres.
Definition gen_wellformed (ps : list ty) (nres : nat) : bool :=
  stmt_wellformed (emitted_call (form_of ps) nres) (emitted_store (form_of ps) nres) nres.

(* ---------- the memo table ---------- *)
Definition entry := (val * list val)%type.          (* key, stored results *)

Inductive table :=
| TZero (memoized : bool) (rs : list val)            (* memoized flag, result variables *)
| TMap (m : list entry)                              (* map[K]V *)
| TBuck (m : list (N * list entry)).                 (* map[uint64][]mem *)

Record mst := { tbl : table; log : list (list val) }.  (* log: arguments of every invocation of f, latest first *)

Definition init_table (fm : form) : table :=
  match fm with FZero => TZero false [] | FMap => TMap [] | FBuck => TBuck [] end.
Definition init (fm : form) : mst := {| tbl := init_table fm; log := [] |}.

(* m[h] of map[uint64][]mem: the nil slice when absent *)
Fixpoint bucket (h : N) (m : list (N * list entry)) : list entry :=
  match m with
  | [] => []
  | (h', vs) :: m' => if N.eqb h' h then vs else bucket h m'
  end.
(* m[h] = vs *)
Fixpoint set_bucket (h : N) (vs : list entry) (m : list (N * list entry)) : list (N * list entry) :=
  match m with
  | [] => [(h, vs)]
  | (h', vs') :: m' => if N.eqb h' h then (h, vs) :: m' else (h', vs') :: set_bucket h vs m'
  end.

Section Machine.
Variable f : list val -> outcome (list val).   (* the memoised user function (instrumented) *)
Variable keyof : list val -> val.
Variable eqq : val -> val -> bool.             (* Go's == on keys (map forms) *)
Variable eqr : val -> val -> res bool.         (* derived Equal on keys: deriveEqual(v.in, key) *)
Variable hashr : val -> res N.                 (* derived Hash on keys *)

(* v, ok := m[k] *)
Fixpoint assoc (k : val) (m : list entry) : option (list val) :=
  match m with
  | [] => None
  | (k', rs) :: m' => if eqq k' k then Some rs else assoc k m'
  end.

(* for _, v := range vs { if deriveEqual(v.in, k) { return v.out } } *)
Fixpoint scan (k : val) (vs : list entry) : res (option (list val)) :=
  match vs with
  | [] => Ok None
  | (kin, out) :: vs' =>
      rdo b <- eqr kin k;
      if b then Ok (Some out) else scan k vs'
  end.

(* res := f(args); <store>; return res   — nothing is stored when f panics *)
Definition invoke (st : mst) (store : list val -> table) (args : list val) : mst * outcome (list val) :=
  match f args with
  | Ret rs => ({| tbl := store rs; log := args :: log st |}, Ret rs)
  | Panic => ({| tbl := tbl st; log := args :: log st |}, Panic)
  end.

(* one call of the memoised closure *)
Definition step (fm : form) (st : mst) (args : list val) : res (mst * outcome (list val)) :=
  match fm, tbl st with
  | FZero, TZero memo rs =>
      if memo then Ok (st, Ret rs)
      else Ok (invoke st (fun rs' => TZero true rs') args)
  | FMap, TMap m =>
      let k := keyof args in
      match assoc k m with
      | Some rs => Ok (st, Ret rs)
      | None => Ok (invoke st (fun rs => TMap ((k, rs) :: m)) args)
      end
  | FBuck, TBuck m =>
      let k := keyof args in
      rdo h <- hashr k;
      let vs := bucket h m in
      rdo found <- scan k vs;
      match found with
      | Some rs => Ok (st, Ret rs)
      | None => Ok (invoke st (fun rs => TBuck (set_bucket h (vs ++ [(k, rs)])%list m)) args)
      end
  | _, _ => Stuck
  end.

(* a call history, left to right; the outputs are collected in call order *)
Definition run_step (fm : form) (acc : res (mst * list (outcome (list val)))) (args : list val)
  : res (mst * list (outcome (list val))) :=
  rdo so <- acc;
  rdo so' <- step fm (fst so) args;
  Ok (fst so', (snd so ++ [snd so'])%list).
Definition run_from (fm : form) (st : mst) (h : list (list val)) : res (mst * list (outcome (list val))) :=
  fold_left (run_step fm) h (Ok (st, [])).
End Machine.

(* the memoised function deriveMem(f) for a signature with parameter types ps *)
Definition mem_step (ps : list ty) (f : list val -> outcome (list val)) :=
  step f key_val go_eqeq (fun kin k => Equal.eqm [] Top (key_ty ps) kin k) (fun k => hashm [] (key_ty ps) k) (form_of ps).
(* the emitted code with an arbitrary hash function on keys in place of derived Hash *)
Definition mem_run_with (hashr : val -> res N) (ps : list ty) (f : list val -> outcome (list val)) (h : list (list val)) :=
  run_from f key_val go_eqeq (fun kin k => Equal.eqm [] Top (key_ty ps) kin k) hashr
           (form_of ps) (init (form_of ps)) h.
Definition mem_run (ps : list ty) := mem_run_with (fun k => hashm [] (key_ty ps) k) ps.

(* the same emitted code with the hash call replaced by a constant (the harness-side
   transformation that forces every argument into one bucket) *)
Definition mem_run_consthash (c : N) := mem_run_with (fun _ => Ok c).

(* all stored entries *)
Definition tbl_entries (t : table) : list entry :=
  match t with
  | TZero memo rs => if memo then [(VSt [], rs)] else []
  | TMap m => m
  | TBuck m => concat (map snd m)
  end.

(* ---------- specification: an ideal memoiser over classes of argument tuples ---------- *)
Section Spec.
Variable f : list val -> outcome (list val).
Variable keq : list val -> list val -> bool.   (* "the argument tuples are Equal": stored first, new second *)

Definition returns (a : list val) : bool := match f a with Ret _ => true | Panic => false end.
Definition results (a : list val) : list val := match f a with Ret rs => rs | Panic => [] end.

(* representatives: the calls whose result an ideal memoiser keeps — the first call of each
   class on which f returns *)
Definition reps_step (seen : list (list val)) (a : list val) : list (list val) :=
  if existsb (fun s => keq s a) seen then seen
  else if returns a then (seen ++ [a])%list else seen.
Definition reps (h : list (list val)) : list (list val) := fold_left reps_step h [].

(* the invocations of f an ideal memoiser makes: every call whose class has no stored result yet *)
Definition calls_step (sc : list (list val) * list (list val)) (a : list val) :=
  (reps_step (fst sc) a, if existsb (fun s => keq s a) (fst sc) then snd sc else (snd sc ++ [a])%list).
Definition spec_calls (h : list (list val)) : list (list val) := snd (fold_left calls_step h ([], [])).

(* number of members of a's class in l *)
Definition count_class (a : list val) (l : list (list val)) : nat :=
  List.length (filter (fun b => keq b a) l).
End Spec.

(* argument tuples of the signature: each argument well-typed (acyclic, NaN-free) *)
Definition args_typed (ps : list ty) (args : list val) : bool :=
  fields_ok (has_type []) (map (fun t => (false, t)) ps) args.

(* two argument tuples are Equal: structural equality of the keys — by C02 this is what derived
   Equal computes, and on ==-comparable types it is Go's == *)
Definition args_equal (ps : list ty) (a b : list val) : bool :=
  match spec_eq [] (key_ty ps) (key_val a) (key_val b) with Some true => true | _ => false end.
