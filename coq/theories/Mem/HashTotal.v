(* Mem/HashTotal.v — the model of derived Hash never panics and never gets stuck on a well-typed
   value: it returns a number, or the generator refused the type (unsortable map key).  Needed
   for "the memoised closure does not panic by itself" (C18_mem_never_panics). *)
From Verif Require Import Go.Ty Go.Val Go.Equal Go.EqualProofs Go.Compare Go.SortLemmas Go.Hash Go.HashProofs
  Mem.Model Mem.Proofs.
Open Scope list_scope.

Lemma oou_ok {A} (a : A) : ok_or_unsup (Ok a).
Proof. right. eexists. reflexivity. Qed.
Lemma oou_unsup {A} : ok_or_unsup (@Unsup A).
Proof. left. reflexivity. Qed.

Lemma oou_bind {A B} (r : res A) (k : A -> res B) :
  ok_or_unsup r -> (forall a, ok_or_unsup (k a)) -> ok_or_unsup (rbind r k).
Proof. intros [->|[a ->]] H; cbn; [apply oou_unsup| apply H]. Qed.

Lemma elems_h_total (f : val -> res N) xs :
  Forall (fun a => ok_or_unsup (f a)) xs -> forall h, ok_or_unsup (elems_h f h xs).
Proof.
  induction 1 as [|a xs Ha _ IH]; intros h; cbn; [apply oou_ok|].
  apply oou_bind; [exact Ha| intros c; apply IH].
Qed.

Lemma fields_h_total (f : ty -> val -> res N) (ht : ty -> val -> bool) skip xs :
  Forall (fun a => forall t, ht t a = true -> ok_or_unsup (f t a)) xs ->
  forall fs h, fields_ok ht fs xs = true -> ok_or_unsup (fields_h f skip h fs xs).
Proof.
  induction 1 as [|a xs Ha _ IH]; intros fs h T; destruct fs as [|fd fs]; cbn in *; try discriminate; [apply oou_ok|].
  apply andb_prop in T as [Ta T].
  destruct (skip && fst fd)%bool; [apply IH; exact T|].
  apply oou_bind; [apply Ha; exact Ta| intros c; apply IH; exact T].
Qed.

Lemma struct_hash_total (f : ty -> val -> res N) (ht : ty -> val -> bool) skip xs fs :
  Forall (fun a => forall t, ht t a = true -> ok_or_unsup (f t a)) xs ->
  fields_ok ht fs xs = true -> ok_or_unsup (struct_hash f skip fs xs).
Proof.
  intros H T. unfold struct_hash. destruct fs, xs; try apply oou_ok; apply (fields_h_total f ht); assumption.
Qed.

Lemma entries_h_total es : Forall (fun e => ok_or_unsup (fst (snd e)) /\ ok_or_unsup (snd (snd e))) es ->
  forall h, ok_or_unsup (entries_h h es).
Proof.
  induction 1 as [|[k [hk hv]] es [H1 H2] _ IH]; intros h; cbn in *; [apply oou_ok|].
  apply oou_bind; [exact H1| intros a]. apply oou_bind; [exact H2| intros b; apply IH].
Qed.

Lemma leaf_hash_total k x : basic_ok k x = true -> exists n, leaf_hash k x = Some n.
Proof. destruct k, x; cbn; try discriminate; intros _; eexists; reflexivity. Qed.

Theorem hashm_total : forall x e t, has_type e t x = true -> ok_or_unsup (hashm e t x).
Proof.
  induction x using val_ind'; intros e t Hx; rewrite hashm_unfold; rewrite has_type_unfold in Hx;
  destruct (resolve e t) as [r|] eqn:R; try discriminate; cbn zeta in *;
  destruct (r_node r) eqn:Nd; try discriminate;
  try (destruct (leaf_hash_total _ _ Hx) as [hv0 ->]; apply oou_ok).
  - (* nil pointer *) destruct (resolve (r_env r) t0); [apply oou_ok| discriminate].
  - (* pointer *)
    pose proof Hx as Hx'. rewrite has_type_unfold in Hx'.
    destruct (resolve (r_env r) t0) as [rr|] eqn:RR; [|discriminate]. cbn zeta in Hx'.
    pose proof (IHx (r_env r) t0 Hx) as IH. rewrite hashm_unfold, RR in IH. cbn zeta in IH.
    destruct (r_node rr) eqn:Nr; try (apply oou_bind; [apply IHx; exact Hx| intros c; apply oou_ok]).
    destruct (is_named rr) eqn:Nm.
    + cbn [andb] in IH. exact IH.
    + apply oou_bind; [apply IHx; exact Hx| intros c; apply oou_ok].
  - (* nil slice *) apply oou_ok.
  - (* slice *) apply andb_prop in Hx as [He _]. apply elems_h_total.
    rewrite Forall_forall in *. intros a Ha. apply H; [exact Ha|]. rewrite forallb_forall in He. apply He; exact Ha.
  - (* nil map *) apply oou_ok.
  - (* map *)
    destruct (key_sup t0_1); cbn [negb]; [|apply oou_unsup].
    apply andb_prop in Hx as [_ Hkv]. apply entries_h_total.
    rewrite Forall_forall. intros [k [hk hv]] Hin. apply sort_by_In in Hin.
    apply in_map_iff in Hin as (kv & E & Hkvin). inversion E; subst. cbn.
    rewrite Forall_forall in H. destruct (H kv Hkvin) as [Pk Pv].
    rewrite forallb_forall in Hkv. specialize (Hkv kv Hkvin). apply andb_prop in Hkv as [Tk Tv].
    split; [apply Pk; exact Tk| apply Pv; exact Tv].
  - (* array *) apply andb_prop in Hx as [_ He]. apply elems_h_total.
    rewrite Forall_forall in *. intros a Ha. apply H; [exact Ha|]. rewrite forallb_forall in He. apply He; exact Ha.
  - (* struct *)
    apply (struct_hash_total _ (has_type (r_env r))); [|exact Hx].
    rewrite Forall_forall in *. intros a Ha ft Ta. apply H; assumption.
Qed.
