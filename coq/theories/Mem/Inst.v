(* Mem/Inst.v — the theorems of C18 for the emitted deriveMem: the generic development of
   Mem/Proofs.v instantiated with Go's == (KeyOrder/EqualProofs), the model of derived Equal
   (C02: eqm_spec) and the model of derived Hash (C04: hash_respects_equal). *)
From Coq Require Import Permutation.
From Verif Require Import Go.EqualProofs Go.Canon Go.HashProofs Mem.Model Mem.Proofs Mem.HashTotal.
Open Scope list_scope.

Definition typed_history (ps : list ty) (h : list (list val)) : Prop :=
  Forall (fun a => args_typed ps a = true) h.

(* f gives the same outcome on Equal argument tuples *)
Definition f_respects_classes (ps : list ty) (f : list val -> outcome (list val)) : Prop :=
  forall a b, args_typed ps a = true -> args_typed ps b = true -> args_equal ps a b = true -> f a = f b.
(* weaker: whether f returns or panics is the same on Equal argument tuples *)
Definition f_returns_by_class (ps : list ty) (f : list val -> outcome (list val)) : Prop :=
  forall a b, args_typed ps a = true -> args_typed ps b = true -> args_equal ps a b = true ->
    returns f a = returns f b.
(* a hash function on keys under which Equal argument tuples collide (anything else may collide too) *)
Definition hash_respects (ps : list ty) (hashr : val -> res N) : Prop :=
  forall a b, args_typed ps a = true -> args_typed ps b = true -> args_equal ps a b = true ->
    hashr (key_val a) = hashr (key_val b).

(* ---------- shapes ---------- *)
Lemma form_zero ps : form_of ps = FZero -> ps = [].
Proof.
  destruct ps as [|t [|t2 ps]]; cbn; [reflexivity| |].
  - destruct (can_equal t); discriminate.
  - destruct (can_equal t && _)%bool; discriminate.
Qed.

Lemma args_typed_nil a : args_typed [] a = true -> a = [].
Proof. destruct a; [reflexivity| discriminate]. Qed.

Lemma key_typed ps a : args_typed ps a = true -> has_type [] (key_ty ps) (key_val a) = true.
Proof.
  unfold args_typed. destruct ps as [|t [|t2 ps]].
  - destruct a; [reflexivity| discriminate].
  - destruct a as [|x [|y a]]; cbn; try discriminate.
    + rewrite andb_true_r. trivial.
    + intros H. apply andb_prop in H as [_ H]. discriminate.
  - destruct a as [|x [|y a]]; try discriminate.
    + cbn. intros H. apply andb_prop in H as [_ H]. discriminate.
    + intros H. unfold key_ty, key_val, param_struct. rewrite has_type_unfold. exact H.
Qed.

Lemma form_map_can_equal ps : form_of ps = FMap -> can_equal (key_ty ps) = true.
Proof.
  destruct ps as [|t [|t2 ps]]; cbn [form_of key_ty]; [discriminate| |].
  - destruct (can_equal t); [reflexivity| discriminate].
  - destruct (can_equal (param_struct (t :: t2 :: ps))); [reflexivity| discriminate].
Qed.

(* ---------- the class relation is an equivalence on typed argument tuples ---------- *)
Lemma args_equal_refl ps a : args_typed ps a = true -> args_equal ps a a = true.
Proof. intros H. unfold args_equal. rewrite (spec_eq_refl _ _ _ (key_typed ps a H)). reflexivity. Qed.

Lemma args_equal_sym ps a b : args_typed ps a = true -> args_typed ps b = true ->
  args_equal ps a b = args_equal ps b a.
Proof.
  intros Ha Hb. unfold args_equal.
  rewrite (spec_eq_sym _ _ _ _ (key_typed ps a Ha) (key_typed ps b Hb)). reflexivity.
Qed.

Lemma args_equal_true ps a b : args_equal ps a b = true <-> spec_eq [] (key_ty ps) (key_val a) (key_val b) = Some true.
Proof.
  unfold args_equal. destruct (spec_eq [] (key_ty ps) (key_val a) (key_val b)) as [[|]|]; split; congruence.
Qed.

Lemma args_equal_trans ps a b c : args_typed ps a = true -> args_typed ps b = true -> args_typed ps c = true ->
  args_equal ps a b = true -> args_equal ps b c = true -> args_equal ps a c = true.
Proof.
  intros Ha Hb Hc. rewrite !args_equal_true.
  apply spec_eq_trans; apply key_typed; assumption.
Qed.

(* Go's == on the keys of the map forms *)
Lemma map_key_eq ps : form_of ps = FMap -> forall a b, args_typed ps a = true -> args_typed ps b = true ->
  go_eqeq (key_val a) (key_val b) = args_equal ps a b.
Proof.
  intros F a b Ha Hb. unfold args_equal.
  rewrite (go_eqeq_spec _ (form_map_can_equal ps F) [] _ _ (key_typed ps a Ha) (key_typed ps b Hb)).
  destruct (go_eqeq (key_val a) (key_val b)); reflexivity.
Qed.

(* derived Equal on the keys of the bucket form *)
Lemma bucket_key_eq ps : forall a b, args_typed ps a = true -> args_typed ps b = true ->
  Equal.eqm [] Top (key_ty ps) (key_val a) (key_val b) = Unsup
  \/ Equal.eqm [] Top (key_ty ps) (key_val a) (key_val b) = Ok (args_equal ps a b).
Proof.
  intros a b Ha Hb.
  destruct (eqm_spec (key_val a) [] Top (key_ty ps) (key_val b) (key_typed ps a Ha) (key_typed ps b Hb)) as [[c Hc] [U|L]].
  - left; exact U.
  - right. rewrite L. unfold args_equal. rewrite Hc. destruct c; reflexivity.
Qed.

(* derived Hash respects Equal: C04 *)
Lemma derived_hash_respects ps : hash_respects ps (fun k => hashm [] (key_ty ps) k).
Proof.
  intros a b Ha Hb E. apply hash_respects_equal; try (apply key_typed; assumption).
  apply args_equal_true. exact E.
Qed.
Lemma const_hash_respects ps c : hash_respects ps (fun _ => Ok c).
Proof. intros a b _ _ _. reflexivity. Qed.

(* ================= the theorems ================= *)
Section Thms.
Variable ps : list ty.
Variable f : list val -> outcome (list val).
Variable hashr : val -> res N.

Let valid (a : list val) : Prop := args_typed ps a = true.

Lemma Hz : form_of ps = FZero -> forall a, valid a -> a = [].
Proof. intros F a Va. apply form_zero in F. unfold valid in Va. rewrite F in Va. apply args_typed_nil; exact Va. Qed.

(* every call returns what f returns (for any hash function whatsoever on the keys) *)
Theorem mem_observational h st outs :
  f_respects_classes ps f -> typed_history ps h ->
  mem_run_with hashr ps f h = Ok (st, outs) -> outs = map f h.
Proof.
  intros FR V R.
  refine (proj1 (run_observational f key_val go_eqeq _ hashr (form_of ps) (args_equal ps) valid
                   Hz eq_refl (map_key_eq ps) (fun _ => bucket_key_eq ps) h st outs FR V R)).
Qed.

Definition spec_entries (h : list (list val)) : list entry :=
  map (fun a => (key_val a, results f a)) (reps f (args_equal ps) h).

(* the table holds exactly one entry per class of Equal argument tuples seen so far (on which f
   returned), storing f of the first such member; the log of f's invocations is that of the
   ideal memoiser *)
Theorem mem_inv h st outs :
  hash_respects ps hashr -> typed_history ps h ->
  mem_run_with hashr ps f h = Ok (st, outs) ->
  let rp := reps f (args_equal ps) h in
  Permutation (tbl_entries (tbl st)) (spec_entries h)
  /\ pairwise (fun s a => args_equal ps s a = false) rp
  /\ (forall a, In a h -> returns f a = true -> exists s, In s rp /\ args_equal ps s a = true)
  /\ (forall s, In s rp -> returns f s = true /\
        exists h1 h2, h = h1 ++ s :: h2 /\ forall b, In b h1 -> args_equal ps b s = true -> returns f b = false)
  /\ f_calls st = spec_calls f (args_equal ps) h.
Proof.
  intros HH V R rp.
  pose proof (run_inv f key_val go_eqeq _ hashr (form_of ps) (args_equal ps) valid
                Hz eq_refl (args_equal_refl ps) (map_key_eq ps) (fun _ => bucket_key_eq ps) (fun _ => HH) h st outs V R) as (L & _ & P).
  split; [exact P|]. split; [apply reps_inequiv|].
  split; [intros a Ha Ra; apply (reps_complete f (args_equal ps) valid (args_equal_refl ps) h a V Ha Ra)|].
  split.
  - intros s Hs. split; [apply (reps_return f (args_equal ps) h s Hs)|].
    apply (reps_first f (args_equal ps) valid (args_equal_refl ps) (args_equal_trans ps) h s V Hs).
  - unfold f_calls. rewrite L. apply rev_involutive.
Qed.

(* f is invoked exactly once for each class of Equal argument tuples in the history; on a class
   where f panics nothing is cached: it is invoked (and panics) on every call *)
Theorem mem_at_most_once h st outs a :
  hash_respects ps hashr -> f_returns_by_class ps f -> typed_history ps h ->
  mem_run_with hashr ps f h = Ok (st, outs) -> In a h ->
  count_class (args_equal ps) a (f_calls st)
  = if returns f a then 1%nat else count_class (args_equal ps) a h.
Proof.
  intros HH RC V R Ha.
  exact (run_at_most_once f key_val go_eqeq _ hashr (form_of ps) (args_equal ps) valid
           Hz eq_refl (args_equal_refl ps) (map_key_eq ps) (fun _ => bucket_key_eq ps) (fun _ => HH)
           (args_equal_sym ps) (args_equal_trans ps) h st outs a RC V R Ha).
Qed.

(* f is only ever invoked on argument tuples that were passed in *)
Theorem mem_no_spurious_calls h st outs a :
  hash_respects ps hashr -> typed_history ps h ->
  mem_run_with hashr ps f h = Ok (st, outs) -> In a (f_calls st) -> In a h.
Proof.
  intros HH V R.
  exact (run_no_spurious_calls f key_val go_eqeq _ hashr (form_of ps) (args_equal ps) valid
           Hz eq_refl (args_equal_refl ps) (map_key_eq ps) (fun _ => bucket_key_eq ps) (fun _ => HH) h st outs a V R).
Qed.
(* the memoised closure never panics and never gets stuck by itself: a run ends normally, or
   the generator refused Equal/Hash of the key type — for any hash function that respects Equal
   and does not itself fail *)
Theorem mem_progress h :
  hash_respects ps hashr ->
  (forall b, args_typed ps b = true -> ok_or_unsup (hashr (key_val b))) -> typed_history ps h ->
  ok_or_unsup (mem_run_with hashr ps f h).
Proof.
  intros HH HT V.
  exact (run_progress f key_val go_eqeq _ hashr (form_of ps) (args_equal ps) valid
           Hz eq_refl (args_equal_refl ps) (map_key_eq ps) (fun _ => bucket_key_eq ps) (fun _ => HH)
           h (fun _ => HT) V).
Qed.
End Thms.

(* ---------- corollaries for the emitted code (derived Hash) and the collision variant ---------- *)
Corollary mem_observational_derived ps f h st outs :
  f_respects_classes ps f -> typed_history ps h -> mem_run ps f h = Ok (st, outs) -> outs = map f h.
Proof. apply mem_observational. Qed.

Corollary mem_inv_derived ps f h st outs :
  typed_history ps h -> mem_run ps f h = Ok (st, outs) ->
  Permutation (tbl_entries (tbl st)) (spec_entries ps f h)
  /\ pairwise (fun s a => args_equal ps s a = false) (reps f (args_equal ps) h)
  /\ f_calls st = spec_calls f (args_equal ps) h.
Proof.
  intros V R. destruct (mem_inv ps f _ h st outs (derived_hash_respects ps) V R) as (P & I & _ & _ & C).
  repeat split; assumption.
Qed.

Lemma respects_returns ps f : f_respects_classes ps f -> f_returns_by_class ps f.
Proof. intros FR a b Ha Hb E. unfold returns. rewrite (FR a b Ha Hb E). reflexivity. Qed.
Lemma total_returns ps f : (forall a, returns f a = true) -> f_returns_by_class ps f.
Proof. intros T a b _ _ _. rewrite !T. reflexivity. Qed.

(* a function that never panics is evaluated exactly once per class — no assumption that it
   respects the classes is needed for this half *)
Corollary mem_at_most_once_total ps f h st outs a :
  (forall a, returns f a = true) -> typed_history ps h -> mem_run ps f h = Ok (st, outs) -> In a h ->
  count_class (args_equal ps) a (f_calls st) = 1%nat.
Proof.
  intros T V R Ha.
  rewrite (mem_at_most_once ps f _ h st outs a (derived_hash_respects ps) (total_returns ps f T) V R Ha), T. reflexivity.
Qed.

Corollary mem_at_most_once_derived ps f h st outs a :
  f_respects_classes ps f -> typed_history ps h -> mem_run ps f h = Ok (st, outs) -> In a h ->
  count_class (args_equal ps) a (f_calls st) = if returns f a then 1%nat else count_class (args_equal ps) a h.
Proof.
  intros FR V R Ha.
  exact (mem_at_most_once ps f _ h st outs a (derived_hash_respects ps) (respects_returns ps f FR) V R Ha).
Qed.

(* all arguments forced into one bucket: nothing changes *)
Corollary mem_collisions_harmless c ps f h st outs a :
  f_respects_classes ps f -> typed_history ps h -> mem_run_consthash c ps f h = Ok (st, outs) ->
  outs = map f h /\ (In a h -> count_class (args_equal ps) a (f_calls st) = if returns f a then 1%nat else count_class (args_equal ps) a h).
Proof.
  intros FR V R. split; [exact (mem_observational ps f _ h st outs FR V R)|].
  intros Ha. exact (mem_at_most_once ps f _ h st outs a (const_hash_respects ps c) (respects_returns ps f FR) V R Ha).
Qed.

(* with derived Hash: the emitted closure itself never panics, whatever the history *)
Corollary mem_never_panics ps f h :
  typed_history ps h -> ok_or_unsup (mem_run ps f h).
Proof.
  intros V. apply mem_progress; [apply derived_hash_respects| |exact V].
  intros b Hb. apply hashm_total, key_typed, Hb.
Qed.

Corollary mem_collision_progress c ps f h :
  typed_history ps h -> ok_or_unsup (mem_run_consthash c ps f h).
Proof.
  intros V. apply mem_progress; [apply const_hash_respects| |exact V].
  intros b _. right. eexists. reflexivity.
Qed.

(* the zero-argument form: f is evaluated once, whatever the number of calls *)
Corollary mem_zero_arg f h st outs rs :
  f [] = Ret rs -> typed_history [] h -> mem_run [] f h = Ok (st, outs) ->
  outs = repeat (Ret rs) (List.length h) /\ List.length (f_calls st) = Nat.min 1 (List.length h).
Proof.
  intros F V R.
  assert (HN : forall a, In a h -> a = []).
  { intros a Ha. unfold typed_history in V. rewrite Forall_forall in V. apply args_typed_nil, V, Ha. }
  assert (FR : f_respects_classes [] f).
  { intros a b Ha Hb _. rewrite (args_typed_nil a Ha), (args_typed_nil b Hb). reflexivity. }
  split.
  - rewrite (mem_observational_derived [] f h st outs FR V R).
    clear R V. induction h as [|a h IH]; [reflexivity|]. cbn.
    rewrite (HN a (or_introl eq_refl)), F. f_equal. apply IH. intros b Hb. apply HN. right; exact Hb.
  - destruct h as [|a h].
    + cbn in R. inversion R; subst. reflexivity.
    + pose proof (mem_at_most_once_derived [] f (a :: h) st outs a FR V R (or_introl eq_refl)) as C.
      assert (Ea : a = []) by (apply HN; left; reflexivity). subst a.
      unfold returns in C. rewrite F in C. unfold count_class in C.
      assert (AllNil : forall b, In b (f_calls st) -> b = []).
      { intros b Hb. apply HN. eapply (mem_no_spurious_calls [] f); [apply derived_hash_respects| exact V| exact R| exact Hb]. }
      assert (Fl : filter (fun b => args_equal [] b []) (f_calls st) = f_calls st).
      { clear C. induction (f_calls st) as [|b l IHl]; [reflexivity|].
        cbn [filter]. rewrite (AllNil b (or_introl eq_refl)). cbn. f_equal. apply IHl. intros x Hx. apply AllNil. right; exact Hx. }
      rewrite Fl in C. rewrite C. reflexivity.
Qed.

(* the no-result forms: the call returns nothing, f's effect happens once per class *)
Corollary mem_noresult ps f h st outs a :
  (forall a, f a = Ret []) -> typed_history ps h -> mem_run ps f h = Ok (st, outs) ->
  outs = repeat (Ret []) (List.length h) /\ (In a h -> count_class (args_equal ps) a (f_calls st) = 1%nat).
Proof.
  intros F V R.
  assert (FR : f_respects_classes ps f) by (intros x y _ _ _; rewrite !F; reflexivity).
  split.
  - rewrite (mem_observational_derived ps f h st outs FR V R). clear - F.
    induction h as [|x h IH]; [reflexivity|]. cbn. rewrite F, IH. reflexivity.
  - intros Ha. apply (mem_at_most_once_total ps f h st outs a); try assumption.
    intros x. unfold returns. rewrite F. reflexivity.
Qed.

(* ---------- the hypothesis on f is needed: the two halves of the property contradict each
   other for a function that separates Equal arguments ---------- *)
Definition recip_sign (a : list val) : outcome (list val) :=       (* sign of 1/x *)
  match a with [VF neg _] => Ret [VBool neg] | _ => Ret [] end.
Lemma mem_observational_needs_respect :
  let ps := [TB KF64] in let h := [[VF false 0]; [VF true 0]] in
  typed_history ps h
  /\ args_equal ps [VF false 0] [VF true 0] = true                    (* +0 == -0: one key *)
  /\ recip_sign [VF false 0] <> recip_sign [VF true 0]
  /\ (exists st, mem_run ps recip_sign h = Ok (st, [Ret [VBool false]; Ret [VBool false]])
                 /\ f_calls st = [[VF false 0]])                       (* evaluated once ... *)
  /\ map recip_sign h = [Ret [VBool false]; Ret [VBool true]].         (* ... so the second answer is not f's *)
Proof.
  cbn zeta. split; [repeat constructor|]. split; [reflexivity|]. split; [discriminate|].
  split; [|reflexivity]. eexists. split; vm_compute; reflexivity.
Qed.

(* ---------- well-formedness of the emitted text ---------- *)
(* pinned tree: the no-result form with a non-comparable argument is ` := f(param0)` and
   `mem{param0, output{}}` with `output` undeclared *)
Lemma mem_noresult_noncomparable_old_refuted :
  form_of [TSl (TB (KInt 64 true))] = FBuck
  /\ emitted_call_old FBuck 0 = CallAssign []
  /\ emitted_store_old FBuck 0 = StoreOutput /\ output_declared 0 = false
  /\ gen_wellformed_old [TSl (TB (KInt 64 true))] 0 = false
  /\ gen_wellformed_old [TSl (TB (KInt 64 true)); TB KStr] 0 = false.
Proof. repeat split; reflexivity. Qed.

(* the old generator was ill-formed exactly there *)
Lemma gen_wellformed_old_iff ps nres :
  gen_wellformed_old ps nres = negb (match form_of ps with FBuck => Nat.eqb nres 0 | _ => false end).
Proof.
  unfold gen_wellformed_old, stmt_wellformed, emitted_call_old, emitted_store_old, output_declared.
  destruct (form_of ps); destruct nres as [|[|n]]; cbn; rewrite ?seq_length, ?Nat.eqb_refl; reflexivity.
Qed.

(* repaired generator: every form, every number of results *)
Theorem mem_gen_wellformed ps nres : gen_wellformed ps nres = true.
Proof.
  unfold gen_wellformed, stmt_wellformed, emitted_call, emitted_store, output_declared.
  destruct nres as [|[|n]]; cbn; rewrite ?seq_length, ?Nat.eqb_refl; reflexivity.
Qed.

(* ================= non-vacuity ================= *)
Open Scope Z_scope.
Definition t_int : ty := TB (KInt 64 true).
Definition t_ints : ty := TSl t_int.
Definition ints (l : N) (zs : list Z) : val := VSl l (map VInt zs) [].
(* f(xs []int, s string) (int, string) = (len xs, s) — deterministic, respects the classes *)
Definition ex_f (a : list val) : outcome (list val) :=
  match a with
  | [VSl _ es _; s] => Ret [VInt (Z.of_nat (List.length es)); s]
  | [VNilS; s] => Ret [VInt (-1); s]
  | _ => Panic
  end.
Definition ex_ps : list ty := [t_ints; TB KStr].
Definition ex_h : list (list val) :=
  [[ints 1%N [1; 2]; VStr []]; [ints 2%N [1; 2]; VStr []]; [VNilS; VStr []]; [ints 3%N [] ; VStr []]; [ints 4%N [1; 2]; VStr []]].

(* bucket form, Equal-but-not-identical arguments (distinct addresses), nil vs empty distinguished *)
Example mem_bucket_ex :
  form_of ex_ps = FBuck /\ typed_history ex_ps ex_h
  /\ exists st, mem_run ex_ps ex_f ex_h = Ok (st, map ex_f ex_h)
     /\ f_calls st = [[ints 1%N [1; 2]; VStr []]; [VNilS; VStr []]; [ints 3%N []; VStr []]]
     /\ List.length (tbl_entries (tbl st)) = 3%nat.
Proof.
  split; [reflexivity|]. split; [repeat constructor|].
  eexists. split; [vm_compute; reflexivity|]. split; vm_compute; reflexivity.
Qed.

(* the same history with every argument in one bucket *)
Example mem_collision_ex :
  exists st, mem_run_consthash 7%N ex_ps ex_f ex_h = Ok (st, map ex_f ex_h)
     /\ f_calls st = [[ints 1%N [1; 2]; VStr []]; [VNilS; VStr []]; [ints 3%N []; VStr []]]
     /\ match tbl st with TBuck [(7%N, vs)] => List.length vs = 3%nat | _ => False end.
Proof. eexists. split; [vm_compute; reflexivity|]. split; vm_compute; reflexivity. Qed.

(* a function that respects the classes and separates them (is this argument tuple Equal to a
   fixed one?): the guard of mem_observational is satisfiable by a non-constant function *)
Definition ex_a0 : list val := [ints 9%N [1; 2]; VStr []].
Definition ex_g (a : list val) : outcome (list val) := Ret [VBool (args_equal ex_ps a ex_a0)].
Example ex_g_respects : f_respects_classes ex_ps ex_g.
Proof.
  intros a b Ha Hb E. unfold ex_g. do 3 f_equal.
  assert (H0 : args_typed ex_ps ex_a0 = true) by reflexivity.
  destruct (args_equal ex_ps a ex_a0) eqn:A; destruct (args_equal ex_ps b ex_a0) eqn:B; try reflexivity; exfalso.
  - rewrite (args_equal_sym ex_ps a b Ha Hb) in E.
    rewrite (args_equal_trans ex_ps b a ex_a0 Hb Ha H0 E A) in B. discriminate.
  - rewrite (args_equal_trans ex_ps a b ex_a0 Ha Hb H0 E B) in A. discriminate.
Qed.
Example mem_observational_ex :
  exists st, mem_run ex_ps ex_g ex_h = Ok (st, map ex_g ex_h)
     /\ map ex_g ex_h = [Ret [VBool true]; Ret [VBool true]; Ret [VBool false]; Ret [VBool false]; Ret [VBool true]].
Proof. eexists. split; vm_compute; reflexivity. Qed.

(* zero-argument form *)
Example mem_zero_ex :
  exists st, mem_run [] (fun _ => Ret [VInt 5; VStr []]) [[]; []; []] = Ok (st, repeat (Ret [VInt 5; VStr []]) 3)
             /\ f_calls st = [[]].
Proof. eexists. split; vm_compute; reflexivity. Qed.

(* map form keyed by input{float64, string}: +0 and -0 are one key *)
Example mem_map_ex :
  form_of [TB KF64; TB KStr] = FMap
  /\ exists st, mem_run [TB KF64; TB KStr] (fun _ => Ret []) [[VF false 0%N; VStr []]; [VF true 0%N; VStr []]; [VF false 1%N; VStr []]]
                = Ok (st, repeat (Ret []) 3)
     /\ f_calls st = [[VF false 0%N; VStr []]; [VF false 1%N; VStr []]].
Proof. split; [reflexivity|]. eexists. split; vm_compute; reflexivity. Qed.

(* a panicking f: nothing is cached, the memoised function panics every time as f does *)
Example mem_panic_ex :
  exists st, mem_run [t_int] (fun a => match a with [VInt 0] => Panic | _ => Ret a end) [[VInt 0]; [VInt 1]; [VInt 0]; [VInt 1]]
             = Ok (st, [Panic; Ret [VInt 1]; Panic; Ret [VInt 1]])
     /\ f_calls st = [[VInt 0]; [VInt 1]; [VInt 0]].
Proof. eexists. split; vm_compute; reflexivity. Qed.

(* hardening round 5 (seeded change C18-m13): [][]byte — the element type is compared by an inline
   expression that derived Equal negates.  {"Aa"} and {"BB"} have the same derived hash (one bucket of the
   EMITTED table, no constant-hash copy needed) and are not Equal: two entries in that bucket, two
   evaluations, every answer f's. *)
Definition t_bytess : ty := TSl (TSl (TB (KInt 8 false))).
Definition bytes1 (l l' : N) (zs : list Z) : val := VSl l [VSl l' (map VInt zs) []] [].
Definition ex_w (a : list val) : outcome (list val) :=      (* the first byte of the first element *)
  match a with
  | [VSl _ [VSl _ (VInt x :: _) _] _] => Ret [VInt x]
  | _ => Ret [VInt 0]
  end.
Definition ex_hb : list (list val) :=
  [[bytes1 1 2 [65; 97]]; [bytes1 3 4 [66; 66]]; [bytes1 5 6 [65; 97]]; [bytes1 7 8 [66; 66]]].
Example mem_nested_bytes_collision_ex :
  form_of [t_bytess] = FBuck /\ typed_history [t_bytess] ex_hb
  /\ hashm [] t_bytess (bytes1 1 2 [65; 97]) = hashm [] t_bytess (bytes1 3 4 [66; 66])
  /\ args_equal [t_bytess] [bytes1 1 2 [65; 97]] [bytes1 3 4 [66; 66]] = false
  /\ exists st, mem_run [t_bytess] ex_w ex_hb = Ok (st, map ex_w ex_hb)
       /\ f_calls st = [[bytes1 1 2 [65; 97]]; [bytes1 3 4 [66; 66]]]
       /\ match tbl st with TBuck [(_, vs)] => List.length vs = 2%nat | _ => False end.
Proof.
  split; [reflexivity|]. split; [repeat constructor|]. split; [vm_compute; reflexivity|].
  split; [vm_compute; reflexivity|].
  eexists. split; [vm_compute; reflexivity|]. split; vm_compute; reflexivity.
Qed.
