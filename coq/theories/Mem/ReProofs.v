(* Mem/ReProofs.v — re-entrant call sequences: the emitted closure refines an ideal memoiser
   over classes; the ideal memoiser computes the un-memoised recursive function and evaluates
   every class at most once.  Generic part (any key function, ==, Equal, Hash satisfying the
   contracts of Mem/Proofs.v); Mem/ReInst.v instantiates it.

   Three inductions on the fuel, each with a companion induction over the list of calls:
     icall_S   structure of an ideal run: the cache grows by pairwise non-Equal keys that are
               descendants of the call; every invocation is cached or panicked; counts
     icall_F   ... and returns what the un-memoised function F returns (F respects the classes)
     rcall_refine  the emitted closure (all four forms) and the ideal memoiser run in lockstep:
               same outcomes, same invocation log, table = layout of the ideal cache
   The well-foundedness of the recursion (rank) is what makes the store after f's return sound:
   no entry Equal to the argument can have been stored by the inner calls. *)
From Coq Require Import Permutation.
From Verif Require Import Mem.Model Mem.Proofs Mem.Reentrant.
Open Scope list_scope.

(* ---------- sequences of calls ---------- *)
Lemma run_seq_all_ret {S} (call : S -> list val -> rres (S * outcome (list val))) stop :
  forall bs st st' outs rss,
  run_seq call stop bs st = ROk (st', outs) -> all_ret outs = Some rss -> List.length outs = List.length bs.
Proof.
  induction bs as [|b bs IH]; intros st st' outs rss R A; cbn in R.
  - injection R as <- <-. reflexivity.
  - destruct (call st b) as [[s1 o1]|e]; cbn in R; [|discriminate].
    destruct (stop && is_panic o1)%bool eqn:SP.
    + injection R as <- <-. apply andb_prop in SP as [_ SP]. destruct o1; [discriminate|]. discriminate.
    + destruct (run_seq call stop bs s1) as [[s2 os2]|e] eqn:R2; cbn in R; [|discriminate].
      injection R as <- <-. destruct o1 as [x|]; [|discriminate]. cbn in A.
      destruct (all_ret os2) as [rss2|] eqn:A2; [|discriminate].
      cbn. f_equal. eapply IH; [exact R2| exact A2].
Qed.

Lemma combine_all_ret {X} (bs : list X) : forall (outs : list (outcome (list val))) rss b,
  all_ret outs = Some rss -> List.length outs = List.length bs -> In b bs ->
  exists rs, In (b, Ret rs) (combine bs outs).
Proof.
  induction bs as [|b0 bs IH]; intros outs rss b AR Len Hb; [destruct Hb|].
  destruct outs as [|o outs]; [discriminate|]. destruct o as [x|]; [|discriminate]. cbn in AR.
  destruct (all_ret outs) as [rss2|] eqn:A2; [|discriminate].
  destruct Hb as [<-|Hb].
  - exists x. left. reflexivity.
  - destruct (IH outs rss2 b A2 (eq_add_S _ _ Len) Hb) as (rs & Hin). exists rs. right. exact Hin.
Qed.

Lemma all_ret_map_in {X} (g : X -> outcome (list val)) bs rss b :
  all_ret (map g bs) = Some rss -> In b bs -> exists rs, g b = Ret rs.
Proof.
  revert rss. induction bs as [|b0 bs IH]; intros rss AR Hb; [destruct Hb|]. cbn in AR.
  destruct (g b0) as [x|] eqn:G; [|discriminate]. destruct (all_ret (map g bs)) as [r2|] eqn:A2; [|discriminate].
  destruct Hb as [<-|Hb]; [exists x; exact G| exact (IH r2 eq_refl Hb)].
Qed.

Lemma combine_map_in {A B} (g : A -> B) bs b : In b bs -> In (b, g b) (combine bs (map g bs)).
Proof. induction bs as [|b0 bs IH]; [intros []|]. intros [<-|H]; [left; reflexivity| right; apply IH; exact H]. Qed.

(* the outcomes of a sequence that stops at the first panic *)
Fixpoint cut (stop : bool) (os : list (outcome (list val))) : list (outcome (list val)) :=
  match os with
  | [] => []
  | o :: os' => if (stop && is_panic o)%bool then [o] else o :: cut stop os'
  end.
Lemma all_ret_cut stop os : all_ret (cut stop os) = all_ret os.
Proof.
  induction os as [|o os IH]; [reflexivity|]. cbn.
  destruct (stop && is_panic o)%bool eqn:SP.
  - apply andb_prop in SP as [_ SP]. destruct o; [discriminate| reflexivity].
  - cbn. destruct o; [rewrite IH; reflexivity| reflexivity].
Qed.
Lemma cut_false os : cut false os = os.
Proof. induction os as [|o os IH]; [reflexivity|]. cbn. rewrite IH. reflexivity. Qed.

Lemma pairwise_app_inv {A} (R : A -> A -> Prop) l1 l2 :
  pairwise R (l1 ++ l2) -> forall x y, In x l1 -> In y l2 -> R x y.
Proof.
  induction l1 as [|z l1 IH]; cbn; intros P x y Hx Hy; [destruct Hx|].
  destruct P as [P1 P2]. destruct Hx as [<-|Hx].
  - apply P1. apply in_or_app. right. exact Hy.
  - apply IH; assumption.
Qed.

Definition b2n (b : bool) : nat := if b then 1%nat else 0%nat.

Section RGeneric.
Variable inner : list val -> list (list val).
Variable fin : list val -> list (list val) -> outcome (list val).
Variable keyof : list val -> val.
Variable eqq : val -> val -> bool.
Variable eqr : val -> val -> res bool.
Variable hashr : val -> res N.
Variable fm : form.
Variable keq : list val -> list val -> bool.
Variable valid : list val -> Prop.
Variable rank : list val -> nat.

(* the contracts of Mem/Proofs.v *)
Hypothesis Hzero : fm = FZero -> forall a, valid a -> a = [].
Hypothesis Hrefl : forall a, valid a -> keq a a = true.
Hypothesis Hsym : forall a b, valid a -> valid b -> keq a b = keq b a.
Hypothesis Htrans : forall a b c, valid a -> valid b -> valid c -> keq a b = true -> keq b c = true -> keq a c = true.
Hypothesis Heqq : fm = FMap -> forall a b, valid a -> valid b -> eqq (keyof a) (keyof b) = keq a b.
Hypothesis Heqr : fm = FBuck -> forall a b, valid a -> valid b ->
  eqr (keyof a) (keyof b) = Unsup \/ eqr (keyof a) (keyof b) = Ok (keq a b).
Hypothesis Hhash : fm = FBuck -> forall a b, valid a -> valid b -> keq a b = true ->
  hashr (keyof a) = hashr (keyof b).
(* the recursion of f is well-founded: inner arguments are well-typed, of smaller rank, and the
   rank is a property of the class — so an inner argument is never Equal to an argument whose
   evaluation is in progress *)
Hypothesis Hinner_valid : forall a b, valid a -> In b (inner a) -> valid b.
Hypothesis Hrank_inner : forall a b, valid a -> In b (inner a) -> (rank b < rank a)%nat.
Hypothesis Hrank_class : forall a b, valid a -> valid b -> keq a b = true -> rank a = rank b.

Notation icall := (icall inner fin keq).
Notation irun := (irun inner fin keq).
Notation desc := (desc inner).
Notation ilookup := (ilookup keq).
Notation cnt := (count_class keq).
Notation rcall := (rcall inner fin keyof eqq eqr hashr false fm).
Notation rrun := (rrun inner fin keyof eqq eqr hashr false fm).

(* the un-memoised recursive function *)
Definition F (a : list val) : outcome (list val) := Fspec inner fin (S (rank a)) a.

Lemma inner_valid_all a : valid a -> Forall valid (inner a).
Proof. intros Va. apply Forall_forall. intros b Hb. exact (Hinner_valid a b Va Hb). Qed.

Lemma Fspec_stable n : forall m a, valid a -> (rank a < n)%nat -> (rank a < m)%nat ->
  Fspec inner fin n a = Fspec inner fin m a.
Proof.
  induction n as [|n IH]; intros m a Va Ln Lm; [inversion Ln|].
  destruct m as [|m]; [inversion Lm|]. cbn. f_equal. apply map_ext_in. intros b Hb.
  pose proof (Hrank_inner a b Va Hb). apply IH; [exact (Hinner_valid a b Va Hb)| |]; apply PeanoNat.Nat.lt_le_trans with (rank a); auto; apply PeanoNat.Nat.lt_succ_r; assumption.
Qed.

Lemma F_unfold a : valid a -> F a = finish fin a (map F (inner a)).
Proof.
  intros Va. unfold F at 1. cbn. f_equal. apply map_ext_in. intros b Hb.
  pose proof (Hrank_inner a b Va Hb). unfold F.
  apply Fspec_stable; [exact (Hinner_valid a b Va Hb)| exact H| apply PeanoNat.Nat.lt_succ_diag_r].
Qed.

(* ---------- descendants ---------- *)
Lemma desc_valid_rank a x : desc a x -> valid a -> valid x /\ (rank x <= rank a)%nat.
Proof.
  induction 1 as [a|a b x Hb D IH]; intros Va.
  - split; [exact Va| apply le_n].
  - destruct (IH (Hinner_valid a b Va Hb)) as [Vx L]. split; [exact Vx|].
    pose proof (Hrank_inner a b Va Hb) as L2. apply PeanoNat.Nat.lt_le_incl.
    apply PeanoNat.Nat.le_lt_trans with (rank b); assumption.
Qed.

Definition descL (bs : list (list val)) (x : list val) : Prop := exists b, In b bs /\ desc b x.

Lemma descL_valid bs x : Forall valid bs -> descL bs x -> valid x.
Proof.
  intros V (b & Hb & D). rewrite Forall_forall in V. exact (proj1 (desc_valid_rank b x D (V b Hb))).
Qed.

Lemma descL_inner_neq a x : valid a -> descL (inner a) x -> valid x /\ keq x a = false.
Proof.
  intros Va (b & Hb & D).
  destruct (desc_valid_rank b x D (Hinner_valid a b Va Hb)) as [Vx L]. split; [exact Vx|].
  destruct (keq x a) eqn:K; [|reflexivity]. exfalso.
  pose proof (Hrank_class x a Vx Va K) as E. pose proof (Hrank_inner a b Va Hb) as L2.
  rewrite E in L. exact (PeanoNat.Nat.lt_irrefl _ (PeanoNat.Nat.le_lt_trans _ _ _ L L2)).
Qed.

Lemma descL_inner_desc a x : descL (inner a) x -> desc a x.
Proof. intros (b & Hb & D). exact (desc_step inner a b x Hb D). Qed.

(* ---------- counting ---------- *)
Lemma cnt_app c l1 l2 : cnt c (l1 ++ l2) = (cnt c l1 + cnt c l2)%nat.
Proof. unfold count_class. rewrite filter_app, app_length. reflexivity. Qed.
Lemma cnt_cons c x l : cnt c (x :: l) = (b2n (keq x c) + cnt c l)%nat.
Proof. unfold count_class. cbn. destruct (keq x c); reflexivity. Qed.
Lemma cnt_zero c l : (forall x, In x l -> keq x c = false) -> cnt c l = 0%nat.
Proof.
  induction l as [|x l IH]; intros H; [reflexivity|]. rewrite cnt_cons, (H x (or_introl eq_refl)).
  apply IH. intros y Hy. apply H. right. exact Hy.
Qed.

Definition has (c : list val) (news : list (list val * list val)) : bool :=
  existsb (fun e => keq (fst e) c) news.
Lemma has_app c l1 l2 : has c (l1 ++ l2) = (has c l1 || has c l2)%bool.
Proof. apply existsb_app. Qed.

(* ---------- look-up in the ideal cache ---------- *)
Lemma ilookup_some a tab rs : ilookup a tab = Some rs -> exists s, In (s, rs) tab /\ keq s a = true.
Proof.
  induction tab as [|[s r] tab IH]; cbn; [discriminate|].
  destruct (keq s a) eqn:K.
  - intros E. injection E as <-. exists s. split; [left; reflexivity| exact K].
  - intros E. destruct (IH E) as (s2 & I & K2). exists s2. split; [right; exact I| exact K2].
Qed.
Lemma ilookup_none a tab : ilookup a tab = None -> forall e, In e tab -> keq (fst e) a = false.
Proof.
  induction tab as [|[s r] tab IH]; cbn; [intros _ e []|].
  destruct (keq s a) eqn:K; [discriminate|]. intros E e [<-|He]; [exact K| apply IH; assumption].
Qed.
Lemma ilookup_miss a tab : (forall e, In e tab -> keq (fst e) a = false) -> ilookup a tab = None.
Proof.
  induction tab as [|[s r] tab IH]; cbn; intros H; [reflexivity|].
  pose proof (H (s, r) (or_introl eq_refl)) as K. cbn in K. rewrite K.
  apply IH. intros e He. apply H. right. exact He.
Qed.

Definition kneq (e1 e2 : list val * list val) : Prop := keq (fst e1) (fst e2) = false.
(* well-typed keys, pairwise not Equal *)
Definition SInv (it : ist) : Prop :=
  (forall e, In e (itab it) -> valid (fst e)) /\ pairwise kneq (itab it).

Lemma ilookup_hit a tab s rs :
  (forall e, In e tab -> valid (fst e)) -> pairwise kneq tab -> valid a ->
  In (s, rs) tab -> keq s a = true -> ilookup a tab = Some rs.
Proof.
  intros V P Va. induction tab as [|[s0 r0] tab IH]; [intros []|].
  cbn in P. destruct P as [P1 P2]. intros Hin K. cbn.
  assert (V0 : valid s0) by (apply (V (s0, r0)); left; reflexivity).
  destruct Hin as [E|Hin].
  - injection E as -> ->. rewrite K. reflexivity.
  - assert (Vs : valid s) by (apply (V (s, rs)); right; exact Hin).
    destruct (keq s0 a) eqn:K0.
    + exfalso. pose proof (P1 (s, rs) Hin) as N. unfold kneq in N. cbn in N.
      rewrite (Hsym s a Vs Va) in K.
      rewrite (Htrans s0 a s V0 Va Vs K0 K) in N. discriminate.
    + apply IH; [intros e He; apply V; right; exact He| exact P2| exact Hin| exact K].
Qed.

Lemma has_disjoint tab news c :
  (forall e, In e (tab ++ news) -> valid (fst e)) -> pairwise kneq (tab ++ news) -> valid c ->
  has c tab = true -> has c news = true -> False.
Proof.
  intros V P Vc H1 H2. apply existsb_exists in H1 as (e1 & I1 & K1). apply existsb_exists in H2 as (e2 & I2 & K2).
  pose proof (pairwise_app_inv kneq tab news P e1 e2 I1 I2) as N. unfold kneq in N.
  assert (V1 : valid (fst e1)) by (apply V, in_or_app; left; exact I1).
  assert (V2 : valid (fst e2)) by (apply V, in_or_app; right; exact I2).
  rewrite (Hsym (fst e2) c V2 Vc) in K2.
  rewrite (Htrans (fst e1) c (fst e2) V1 Vc V2 K1 K2) in N. discriminate.
Qed.

(* ================= structure of an ideal run ================= *)
(* it' is reached from it by calls all of whose arguments satisfy D: the cache, the invocation
   log and the list of panicked evaluations grow at the end; new keys and invocations are D;
   every new invocation is cached (as itself) or panicked; per class, the new invocations are
   one for a new cache entry plus the panicked ones; the new entries are closed: every inner
   argument of a cached argument has its class cached *)
Definition SPost (D : list val -> Prop) (it it' : ist) : Prop :=
  SInv it' /\
  exists news nc np,
    itab it' = itab it ++ news /\ icalls it' = icalls it ++ nc /\ ipanics it' = ipanics it ++ np /\
    (forall e, In e news -> D (fst e)) /\
    (forall x, In x nc -> D x /\ (In x (map fst news) \/ In x np)) /\
    (forall x, In x np -> D x) /\
    (forall c, valid c -> cnt c nc = (b2n (has c news) + cnt c np)%nat) /\
    (forall e, In e news -> forall b, In b (inner (fst e)) -> exists e', In e' (itab it') /\ keq (fst e') b = true).

Lemma SPost_refl D it : SInv it -> SPost D it it.
Proof.
  intros SI. split; [exact SI|]. exists [], [], []. rewrite !app_nil_r.
  split; [reflexivity|]. split; [reflexivity|]. split; [reflexivity|].
  split; [intros e []|]. split; [intros x []|]. split; [intros x []|].
  split; [intros c _; reflexivity| intros e []].
Qed.

Lemma SPost_weaken (D D' : list val -> Prop) it it' : (forall x, D x -> D' x) -> SPost D it it' -> SPost D' it it'.
Proof.
  intros W (SI & news & nc & np & E1 & E2 & E3 & Dn & Dc & Dp & C & Cl).
  split; [exact SI|]. exists news, nc, np.
  split; [exact E1|]. split; [exact E2|]. split; [exact E3|].
  split; [intros e He; apply W, Dn, He|].
  split; [intros x Hx; destruct (Dc x Hx) as [Dx I]; split; [apply W, Dx| exact I]|].
  split; [intros x Hx; apply W, Dp, Hx|].
  split; [exact C| exact Cl].
Qed.

Lemma SPost_comp D it it1 it2 : SPost D it it1 -> SPost D it1 it2 -> SPost D it it2.
Proof.
  intros (SI1 & n1 & c1 & p1 & A1 & A2 & A3 & Dn1 & Dc1 & Dp1 & C1 & Cl1)
         (SI2 & n2 & c2 & p2 & B1 & B2 & B3 & Dn2 & Dc2 & Dp2 & C2 & Cl2).
  split; [exact SI2|]. exists (n1 ++ n2), (c1 ++ c2), (p1 ++ p2).
  split; [rewrite B1, A1, app_assoc; reflexivity|].
  split; [rewrite B2, A2, app_assoc; reflexivity|].
  split; [rewrite B3, A3, app_assoc; reflexivity|].
  split; [intros e He; apply in_app_or in He as [He|He]; [apply Dn1| apply Dn2]; exact He|].
  split.
  { intros x Hx. rewrite map_app. apply in_app_or in Hx as [Hx|Hx].
    - destruct (Dc1 x Hx) as [Dx [I|I]]; (split; [exact Dx|]); [left| right]; apply in_or_app; left; exact I.
    - destruct (Dc2 x Hx) as [Dx [I|I]]; (split; [exact Dx|]); [left| right]; apply in_or_app; right; exact I. }
  split; [intros x Hx; apply in_app_or in Hx as [Hx|Hx]; [apply Dp1| apply Dp2]; exact Hx|].
  split.
  { intros c Vc. rewrite !cnt_app, (C1 c Vc), (C2 c Vc), has_app.
    destruct (has c n1) eqn:H1; destruct (has c n2) eqn:H2; cbn [b2n orb].
    - exfalso. destruct SI2 as [V2 P2]. rewrite B1, A1 in V2, P2.
      assert (Hn1 : has c (itab it ++ n1) = true) by (rewrite has_app, H1; apply orb_true_r).
      exact (has_disjoint (itab it ++ n1) n2 c V2 P2 Vc Hn1 H2).
    - lia.
    - lia.
    - lia. }
  intros e He b Hb. apply in_app_or in He as [He|He].
  - destruct (Cl1 e He b Hb) as (e' & I & K). exists e'. split; [|exact K]. rewrite B1. apply in_or_app. left. exact I.
  - exact (Cl2 e He b Hb).
Qed.

(* what a call contributes, and where a returned result sits in the cache *)
Definition CallS (call : ist -> list val -> rres (ist * outcome (list val))) : Prop :=
  forall it b it' o, valid b -> SInv it -> call it b = ROk (it', o) ->
    SPost (desc b) it it' /\ (forall rs, o = Ret rs -> exists s, In (s, rs) (itab it') /\ keq s b = true).

Lemma iseq_S call stop : CallS call -> forall bs it it' outs, Forall valid bs -> SInv it ->
  run_seq call stop bs it = ROk (it', outs) ->
  SPost (descL bs) it it' /\
  (forall b rs, In (b, Ret rs) (combine bs outs) -> exists s, In (s, rs) (itab it') /\ keq s b = true).
Proof.
  intros HC. induction bs as [|b bs IH]; intros it it' outs V SI R.
  - cbn in R. injection R as <- <-. split; [apply SPost_refl; exact SI| intros b rs H; cbn in H; destruct H].
  - inversion V as [|? ? Vb Vbs]; subst. cbn in R.
    destruct (call it b) as [[it1 o1]|e] eqn:C; cbn in R; [|discriminate].
    destruct (HC it b it1 o1 Vb SI C) as [P1 R1].
    assert (W1 : forall x, desc b x -> descL (b :: bs) x) by (intros x Dx; exists b; split; [left; reflexivity| exact Dx]).
    destruct (stop && is_panic o1)%bool eqn:SP.
    + injection R as <- <-. split; [exact (SPost_weaken _ _ _ _ W1 P1)|].
      intros b' rs H. cbn in H. rewrite combine_nil in H. destruct H as [E|[]].
      injection E as <- ->. apply andb_prop in SP as [_ SP]. discriminate.
    + destruct (run_seq call stop bs it1) as [[it2 os2]|e] eqn:R2; cbn in R; [|discriminate].
      injection R as <- <-.
      assert (SI1 : SInv it1) by (apply P1).
      destruct (IH it1 it2 os2 Vbs SI1 R2) as [P2 R2'].
      assert (W2 : forall x, descL bs x -> descL (b :: bs) x) by (intros x (b' & Hb' & Dx); exists b'; split; [right; exact Hb'| exact Dx]).
      split; [exact (SPost_comp _ _ _ _ (SPost_weaken _ _ _ _ W1 P1) (SPost_weaken _ _ _ _ W2 P2))|].
      cbn. intros b' rs [E|Hin].
      * injection E as <- ->. destruct (R1 rs eq_refl) as (s & Hs & K). exists s. split; [|exact K].
        destruct P2 as (_ & news & nc & np & E1 & _). rewrite E1. apply in_or_app. left. exact Hs.
      * exact (R2' b' rs Hin).
Qed.

(* f is entered on a *)
Definition ienter (it : ist) (a : list val) : ist :=
  {| itab := itab it; icalls := icalls it ++ [a]; ipanics := ipanics it |}.

(* after the inner calls of a missed argument a: the cache holds no key Equal to a *)
Lemma inner_keys_neq call a it it1 outs :
  CallS call -> valid a -> SInv it -> ilookup a (itab it) = None ->
  run_seq call true (inner a) {| itab := itab it; icalls := icalls it ++ [a]; ipanics := ipanics it |} = ROk (it1, outs) ->
  SInv it1 /\ forall e, In e (itab it1) -> valid (fst e) /\ keq (fst e) a = false.
Proof.
  intros HC Va SI L R.
  destruct (iseq_S call true HC (inner a) (ienter it a) it1 outs (inner_valid_all a Va) (SI : SInv (ienter it a)) R) as [(SI1 & news & nc & np & E1 & _ & _ & Dn & _) _].
  split; [exact SI1|]. intros e He. split; [apply SI1; exact He|].
  cbn in E1. rewrite E1 in He. apply in_app_or in He as [He|He].
  - exact (ilookup_none a _ L e He).
  - exact (proj2 (descL_inner_neq a (fst e) Va (Dn e He))).
Qed.

Lemma icall_S n : CallS (icall n).
Proof.
  induction n as [|n IH]; intros it a it' o Va SI C; [discriminate|]. cbn in C.
  destruct (ilookup a (itab it)) as [rs|] eqn:L.
  - injection C as <- <-. split; [apply SPost_refl; exact SI|].
    intros rs' E. injection E as <-. exact (ilookup_some a _ rs L).
  - destruct (run_seq (icall n) true (inner a) _) as [[it1 outs]|e] eqn:R; cbn in C; [|discriminate].
    destruct (inner_keys_neq _ a it it1 outs IH Va SI L R) as [_ NK].
    destruct (iseq_S _ true IH (inner a) (ienter it a) it1 outs (inner_valid_all a Va) (SI : SInv (ienter it a)) R)
      as [(SI1 & news & nc & np & E1 & E2 & E3 & Dn & Dc & Dp & Cn & Cl) R1].
    cbn in E1, E2, E3.
    assert (HN : has a news = false).
    { apply not_true_is_false. intros H. apply existsb_exists in H as (e & He & K).
      assert (I : In e (itab it1)) by (rewrite E1; apply in_or_app; right; exact He).
      rewrite (proj2 (NK e I)) in K. discriminate. }
    destruct (finish fin a outs) as [rs|] eqn:Fi; injection C as <- <-.
    + (* f returned: (a, rs) is appended to the cache *)
      assert (SI' : SInv {| itab := itab it1 ++ [(a, rs)]; icalls := icalls it1; ipanics := ipanics it1 |}).
      { split; cbn.
        - intros e He. apply in_app_or in He as [He|[<-|[]]]; [apply SI1; exact He| exact Va].
        - apply pairwise_snoc; [apply SI1|]. intros e He. exact (proj2 (NK e He)). }
      split.
      * split; [exact SI'|]. exists (news ++ [(a, rs)]), (a :: nc), np. cbn [itab icalls ipanics].
        split; [rewrite E1, app_assoc; reflexivity|].
        split; [rewrite E2, <- app_assoc; reflexivity|].
        split; [exact E3|].
        split.
        { intros e He. apply in_app_or in He as [He|[<-|[]]]; [exact (descL_inner_desc a _ (Dn e He))| apply desc_refl]. }
        split.
        { intros x [<-|Hx].
          - split; [apply desc_refl|]. left. rewrite map_app. apply in_or_app. right. left. reflexivity.
          - destruct (Dc x Hx) as [Dx [I|I]]; (split; [exact (descL_inner_desc a x Dx)|]); [left| right; exact I].
            rewrite map_app. apply in_or_app. left. exact I. }
        split; [intros x Hx; exact (descL_inner_desc a x (Dp x Hx))|].
        split.
        { intros c Vc. rewrite cnt_cons, (Cn c Vc), has_app. cbn [has existsb fst]. rewrite orb_false_r.
          destruct (keq a c) eqn:K; destruct (has c news) eqn:H; cbn [b2n orb]; try reflexivity.
          exfalso. apply existsb_exists in H as (e & He & Ke).
          assert (I : In e (itab it1)) by (rewrite E1; apply in_or_app; right; exact He).
          destruct (NK e I) as [Ve N]. rewrite (Hsym a c Va Vc) in K.
          rewrite (Htrans (fst e) c a Ve Vc Va Ke K) in N. discriminate. }
        intros e He b Hb. apply in_app_or in He as [He|[<-|[]]].
        { destruct (Cl e He b Hb) as (e' & I & K). exists e'. split; [apply in_or_app; left; exact I| exact K]. }
        cbn in Hb. unfold finish in Fi. destruct (all_ret outs) as [rss|] eqn:A; [|discriminate].
        pose proof (run_seq_all_ret _ _ _ _ _ _ _ R A) as Len.
        destruct (combine_all_ret (inner a) outs rss b A Len Hb) as (rsb & Hin).
        destruct (R1 b rsb Hin) as (s & Hs & K). exists (s, rsb). split; [apply in_or_app; left; exact Hs| exact K].
      * intros rs' E. injection E as <-. exists a. split; [cbn; apply in_or_app; right; left; reflexivity| apply Hrefl; exact Va].
    + (* f panicked: nothing is cached *)
      split; [|intros rs E; discriminate].
      split; [exact SI1|]. exists news, (a :: nc), (np ++ [a]). cbn [itab icalls ipanics].
      split; [exact E1|].
      split; [rewrite E2, <- app_assoc; reflexivity|].
      split; [rewrite E3, app_assoc; reflexivity|].
      split; [intros e He; exact (descL_inner_desc a _ (Dn e He))|].
      split.
      { intros x [<-|Hx].
        - split; [apply desc_refl|]. right. apply in_or_app. right. left. reflexivity.
        - destruct (Dc x Hx) as [Dx [I|I]]; (split; [exact (descL_inner_desc a x Dx)|]); [left; exact I| right].
          apply in_or_app. left. exact I. }
      split; [intros x Hx; apply in_app_or in Hx as [Hx|[<-|[]]]; [exact (descL_inner_desc a x (Dp x Hx))| apply desc_refl]|].
      split.
      { intros c Vc. rewrite cnt_cons, (Cn c Vc), cnt_app, cnt_cons. unfold count_class at 3. cbn [filter List.length]. lia. }
      exact Cl.
Qed.

(* ================= the ideal memoiser computes F ================= *)
(* F gives the same outcome on Equal argument tuples *)
Definition F_respects : Prop := forall a b, valid a -> valid b -> keq a b = true -> F a = F b.

Definition IInv (it : ist) : Prop :=
  (forall s rs, In (s, rs) (itab it) -> F s = Ret rs) /\ (forall x, In x (ipanics it) -> F x = Panic).

Definition CallF (bs : list (list val)) (call : ist -> list val -> rres (ist * outcome (list val))) : Prop :=
  forall it b it' o, In b bs -> valid b -> SInv it -> IInv it -> call it b = ROk (it', o) -> o = F b /\ IInv it'.

Lemma iseq_F call stop : CallS call -> forall bs, CallF bs call -> forall it it' outs,
  Forall valid bs -> SInv it -> IInv it -> run_seq call stop bs it = ROk (it', outs) ->
  outs = cut stop (map F bs) /\ IInv it'.
Proof.
  intros HS. induction bs as [|b bs IH]; intros HF it it' outs V SI II R.
  - cbn in R. injection R as <- <-. split; [reflexivity| exact II].
  - inversion V as [|? ? Vb Vbs]; subst. cbn in R.
    destruct (call it b) as [[it1 o1]|e] eqn:C; cbn in R; [|discriminate].
    destruct (HF it b it1 o1 (or_introl eq_refl) Vb SI II C) as [-> II1].
    assert (SI1 : SInv it1) by (apply (HS it b it1 _ Vb SI C)).
    cbn [map cut]. destruct (stop && is_panic (F b))%bool.
    + injection R as <- <-. split; [reflexivity| exact II1].
    + destruct (run_seq call stop bs it1) as [[it2 os2]|e] eqn:R2; cbn in R; [|discriminate].
      injection R as <- <-.
      assert (HF' : CallF bs call) by (intros it0 b0 it0' o0 Hb0; apply HF; right; exact Hb0).
      destruct (IH HF' it1 it2 os2 Vbs SI1 II1 R2) as [-> II2]. split; [reflexivity| exact II2].
Qed.

Lemma icall_F : F_respects -> forall n it a it' o, (rank a < n)%nat -> valid a -> SInv it -> IInv it ->
  icall n it a = ROk (it', o) -> o = F a /\ IInv it'.
Proof.
  intros FR. induction n as [|n IH]; intros it a it' o Ln Va SI II C; [discriminate|]. cbn in C.
  destruct (ilookup a (itab it)) as [rs|] eqn:L.
  - injection C as <- <-. split; [|exact II].
    destruct (ilookup_some a _ rs L) as (s & Hs & K).
    rewrite <- (FR s a (proj1 SI (s, rs) Hs) Va K). symmetry. exact (proj1 II s rs Hs).
  - destruct (run_seq (icall n) true (inner a) _) as [[it1 outs]|e] eqn:R; cbn in C; [|discriminate].
    assert (HF : CallF (inner a) (icall n)).
    { intros it0 b it0' o0 Hb Vb. apply IH; [|exact Vb]. pose proof (Hrank_inner a b Va Hb) as L2.
      apply PeanoNat.Nat.lt_le_trans with (rank a); [exact L2| apply PeanoNat.Nat.lt_succ_r; exact Ln]. }
    destruct (iseq_F _ true (icall_S n) (inner a) HF (ienter it a) it1 outs (inner_valid_all a Va)
                (SI : SInv (ienter it a)) (II : IInv (ienter it a)) R) as [-> II1].
    assert (E : finish fin a (cut true (map F (inner a))) = F a).
    { rewrite (F_unfold a Va). unfold finish. rewrite all_ret_cut. reflexivity. }
    rewrite E in C. destruct (F a) as [rs|] eqn:Fa; injection C as <- <-.
    + split; [reflexivity|]. split; cbn.
      * intros s rs' He. apply in_app_or in He as [He|[X|[]]]; [exact (proj1 II1 s rs' He)|].
        injection X as <- <-. exact Fa.
      * exact (proj2 II1).
    + split; [reflexivity|]. split; cbn.
      * exact (proj1 II1).
      * intros x Hx. apply in_app_or in Hx as [Hx|[<-|[]]]; [exact (proj2 II1 x Hx)| exact Fa].
Qed.

(* with enough fuel the ideal memoiser always finishes *)
Lemma iseq_total {S} (call : S -> list val -> rres (S * outcome (list val))) stop : forall bs it,
  (forall it b, In b bs -> exists r, call it b = ROk r) -> exists r, run_seq call stop bs it = ROk r.
Proof.
  induction bs as [|b bs IH]; intros it H; [eexists; reflexivity|]. cbn.
  destruct (H it b (or_introl eq_refl)) as ([it1 o1] & ->). cbn.
  destruct (stop && is_panic o1)%bool; [eexists; reflexivity|].
  destruct (IH it1 (fun it0 b0 Hb0 => H it0 b0 (or_intror Hb0))) as (r & ->). eexists. reflexivity.
Qed.
Lemma icall_total n : forall it a, valid a -> (rank a < n)%nat -> exists r, icall n it a = ROk r.
Proof.
  induction n as [|n IH]; intros it a Va Ln; [inversion Ln|]. cbn.
  destruct (ilookup a (itab it)); [eexists; reflexivity|].
  destruct (iseq_total (icall n) true (inner a) {| itab := itab it; icalls := icalls it ++ [a]; ipanics := ipanics it |}) as ([it1 outs] & ->).
  - intros it0 b Hb. apply IH; [exact (Hinner_valid a b Va Hb)|].
    pose proof (Hrank_inner a b Va Hb) as L2.
    apply PeanoNat.Nat.lt_le_trans with (rank a); [exact L2| apply PeanoNat.Nat.lt_succ_r; exact Ln].
  - cbn. destruct (finish fin a outs); eexists; reflexivity.
Qed.

(* ================= the emitted closure refines the ideal memoiser ================= *)
Definition ent (e : list val * list val) : entry := (keyof (fst e), snd e).
Definition hash_at (hh : N) (e : list val * list val) : bool :=
  match hashr (keyof (fst e)) with Ok n => N.eqb n hh | _ => false end.

(* the table is the layout of the ideal cache in the emitted form *)
Definition tinv (tab : list (list val * list val)) (t : table) : Prop :=
  match fm with
  | FZero => match tab with
             | [] => t = TZero false []
             | [e] => t = TZero true (snd e)
             | _ => False
             end
  | FMap => t = TMap (rev (map ent tab))
  | FBuck => exists m, t = TBuck m /\ forall hh, bucket hh m = map ent (filter (hash_at hh) tab)
  end.
Definition RInv (it : ist) (st : mst) : Prop := tinv (itab it) (tbl st) /\ log st = rev (icalls it).

Lemma init_rinv : RInv iinit (init fm) /\ SInv iinit.
Proof.
  split; [|split; [intros e []| exact I]].
  split; [|reflexivity]. unfold tinv, init. cbn. destruct fm; cbn; try reflexivity.
  exists []. split; reflexivity.
Qed.

(* the store statement, executed on a table that lays out a cache without a key Equal to a *)
Definition StoreOK (a : list val) (store : table -> list val -> table) : Prop :=
  forall tab t rs, tinv tab t -> (forall e, In e tab -> valid (fst e) /\ keq (fst e) a = false) ->
    tinv (tab ++ [(a, rs)]) (store t rs).

Lemma store_zero_ok a : fm = FZero -> valid a -> StoreOK a store_zero.
Proof.
  intros Fm Va tab t rs T N. unfold tinv in *. rewrite Fm in T |- *.
  destruct tab as [|e [|e2 tab]]; [reflexivity| |contradiction].
  exfalso. destruct (N e (or_introl eq_refl)) as [Ve K].
  rewrite (Hzero Fm _ Ve), (Hzero Fm _ Va) in K. rewrite <- (Hzero Fm _ Va) in K.
  rewrite (Hrefl a Va) in K. discriminate.
Qed.

Lemma map_replace_none k rs m : (forall e, In e m -> eqq (fst e) k = false) -> map_replace eqq k rs m = None.
Proof.
  induction m as [|[k' r'] m IH]; intros H; [reflexivity|]. cbn.
  pose proof (H (k', r') (or_introl eq_refl)) as K. cbn in K. rewrite K.
  rewrite IH; [reflexivity|]. intros e He. apply H. right. exact He.
Qed.

Lemma store_map_ok a : fm = FMap -> valid a -> StoreOK a (store_map eqq (keyof a)).
Proof.
  intros Fm Va tab t rs T N. unfold tinv in *. rewrite Fm in T |- *. subst t. cbn.
  unfold map_set. rewrite map_replace_none.
  - rewrite map_app, rev_app_distr. reflexivity.
  - intros e He. apply in_rev, in_map_iff in He as (e0 & <- & He0). cbn.
    destruct (N e0 He0) as [Ve K]. rewrite (Heqq Fm _ _ Ve Va). exact K.
Qed.

Lemma store_buck_ok a h vs : fm = FBuck -> hashr (keyof a) = Ok h -> StoreOK a (store_buck false (keyof a) h vs).
Proof.
  intros Fm HA tab t rs T N. unfold tinv in *. rewrite Fm in T |- *. destruct T as (m & -> & Bk). cbn.
  eexists. split; [reflexivity|]. intros h2. rewrite bucket_set_bucket, filter_app, map_app.
  cbn [filter]. unfold hash_at at 2. cbn [fst]. rewrite HA.
  destruct (N.eqb h h2) eqn:E2.
  - apply N.eqb_eq in E2. subst h2. rewrite Bk. reflexivity.
  - cbn. rewrite app_nil_r. apply Bk.
Qed.

Definition CallR (callm : mst -> list val -> rres (mst * outcome (list val)))
                 (calli : ist -> list val -> rres (ist * outcome (list val))) : Prop :=
  forall st it b st' o, valid b -> SInv it -> RInv it st -> callm st b = ROk (st', o) ->
    exists it', calli it b = ROk (it', o) /\ RInv it' st'.

Lemma rseq_refine callm calli stop : CallR callm calli -> CallS calli ->
  forall bs st it st' outs, Forall valid bs -> SInv it -> RInv it st ->
  run_seq callm stop bs st = ROk (st', outs) ->
  exists it', run_seq calli stop bs it = ROk (it', outs) /\ RInv it' st'.
Proof.
  intros HR HS. induction bs as [|b bs IH]; intros st it st' outs V SI RI R.
  - cbn in R. injection R as <- <-. exists it. split; [reflexivity| exact RI].
  - inversion V as [|? ? Vb Vbs]; subst. cbn in R.
    destruct (callm st b) as [[st1 o1]|e] eqn:C; cbn in R; [|discriminate].
    destruct (HR st it b st1 o1 Vb SI RI C) as (it1 & Ci & RI1).
    cbn. rewrite Ci. cbn.
    destruct (stop && is_panic o1)%bool.
    + injection R as <- <-. exists it1. split; [reflexivity| exact RI1].
    + destruct (run_seq callm stop bs st1) as [[st2 os2]|e] eqn:R2; cbn in R; [|discriminate].
      injection R as <- <-.
      assert (SI1 : SInv it1) by (apply (HS it b it1 _ Vb SI Ci)).
      destruct (IH st1 it1 st2 os2 Vbs SI1 RI1 R2) as (it2 & Ri & RI2).
      rewrite Ri. cbn. exists it2. split; [reflexivity| exact RI2].
Qed.

Lemma miss_refine callm n st it a store st' o :
  CallR callm (icall n) -> valid a -> SInv it -> RInv it st -> ilookup a (itab it) = None ->
  StoreOK a store ->
  eval_miss inner fin callm st a store = ROk (st', o) ->
  exists it', icall (S n) it a = ROk (it', o) /\ RInv it' st'.
Proof.
  intros HR Va SI [T Lg] L SO E. unfold eval_miss in E.
  destruct (run_seq callm true (inner a) _) as [[st1 outs]|e] eqn:R; cbn in E; [|discriminate].
  assert (RI0 : RInv (ienter it a) {| tbl := tbl st; log := a :: log st |}).
  { split; [exact T|]. cbn. rewrite rev_app_distr, Lg. reflexivity. }
  destruct (rseq_refine _ _ true HR (icall_S n) (inner a) _ (ienter it a) st1 outs (inner_valid_all a Va)
              (SI : SInv (ienter it a)) RI0 R) as (it1 & Ri & [T1 Lg1]).
  destruct (inner_keys_neq _ a it it1 outs (icall_S n) Va SI L Ri) as [_ NK].
  cbn [Reentrant.icall]. rewrite L. unfold ienter in Ri. rewrite Ri. cbn.
  destruct (finish fin a outs) as [rs|]; injection E as <- <-; eexists; (split; [reflexivity|]).
  - split; cbn; [exact (SO _ _ rs T1 NK)| exact Lg1].
  - split; [exact T1| exact Lg1].
Qed.

(* one step of the closure, form by form (fm is a section variable: never destructed) *)
Lemma form_cases : fm = FZero \/ fm = FMap \/ fm = FBuck.
Proof. destruct fm; auto. Qed.
Lemma rcall_zero n st a : fm = FZero -> rcall (S n) st a =
  match tbl st with
  | TZero memo rs => if memo then ROk (st, Ret rs) else eval_miss inner fin (rcall n) st a store_zero
  | _ => RErr EStuck
  end.
Proof. intros Fm. cbn [Reentrant.rcall]. rewrite Fm. destruct (tbl st); reflexivity. Qed.
Lemma rcall_map n st a : fm = FMap -> rcall (S n) st a =
  match tbl st with
  | TMap m => match assoc eqq (keyof a) m with
              | Some rs => ROk (st, Ret rs)
              | None => eval_miss inner fin (rcall n) st a (store_map eqq (keyof a))
              end
  | _ => RErr EStuck
  end.
Proof. intros Fm. cbn [Reentrant.rcall]. rewrite Fm. destruct (tbl st); reflexivity. Qed.
Lemma rcall_buck n st a : fm = FBuck -> rcall (S n) st a =
  match tbl st with
  | TBuck m =>
      rrdo h <- of_res (hashr (keyof a));
      rrdo found <- of_res (scan eqr (keyof a) (bucket h m));
      match found with
      | Some rs => ROk (st, Ret rs)
      | None => eval_miss inner fin (rcall n) st a (store_buck false (keyof a) h (bucket h m))
      end
  | _ => RErr EStuck
  end.
Proof. intros Fm. cbn [Reentrant.rcall]. rewrite Fm. destruct (tbl st); reflexivity. Qed.

Lemma rcall_refine n : CallR (rcall n) (icall n).
Proof.
  induction n as [|n IH]; intros st it a st' o Va SI RI C; [discriminate|].
  pose proof RI as [T Lg]. unfold tinv in T.
  destruct form_cases as [Fm|[Fm|Fm]]; rewrite Fm in T.
  - (* zero-argument form *)
    rewrite (rcall_zero n st a Fm) in C.
    destruct (itab it) as [|e [|e2 tab]] eqn:TB; [| |contradiction]; rewrite T in C.
    + apply (miss_refine _ n st it a store_zero st' o IH Va SI RI); [rewrite TB; reflexivity| apply store_zero_ok; assumption| exact C].
    + injection C as <- <-. exists it. split; [|exact RI].
      cbn. rewrite TB. cbn. destruct e as [s rs]. cbn.
      assert (Vs : valid s) by (apply (proj1 SI (s, rs)); rewrite TB; left; reflexivity).
      rewrite (Hzero Fm s Vs). rewrite <- (Hzero Fm a Va). rewrite (Hrefl a Va). reflexivity.
  - (* map forms *)
    rewrite (rcall_map n st a Fm), T in C.
    destruct (assoc eqq (keyof a) (rev (map ent (itab it)))) as [rs|] eqn:A.
    + injection C as <- <-. exists it. split; [|exact RI].
      apply assoc_some in A as (k' & Hin & E).
      apply in_rev, in_map_iff in Hin as ([s rs'] & Es & Hs). injection Es as <- ->.
      assert (Vs : valid s) by (apply (proj1 SI (s, rs)); exact Hs).
      cbn [fst] in E. rewrite (Heqq Fm s a Vs Va) in E.
      cbn. rewrite (ilookup_hit a _ s rs (proj1 SI) (proj2 SI) Va Hs E). reflexivity.
    + apply (miss_refine _ n st it a (store_map eqq (keyof a)) st' o IH Va SI RI); [|apply store_map_ok; [exact Fm| exact Va]| exact C].
      apply ilookup_miss. intros e He.
      rewrite <- (Heqq Fm (fst e) a (proj1 SI e He) Va).
      apply (assoc_none eqq _ _ A (ent e)). apply -> in_rev. apply in_map. exact He.
  - (* bucket form *)
    destruct T as (m & T & Bk).
    rewrite (rcall_buck n st a Fm), T in C.
    destruct (hashr (keyof a)) as [hh| | |] eqn:HA; cbn in C; try discriminate.
    destruct (scan eqr (keyof a) (bucket hh m)) as [[rs|]| | |] eqn:S; cbn in C; try discriminate.
    + injection C as <- <-. exists it. split; [|exact RI].
      apply scan_some in S as (k' & Hin & E). rewrite Bk in Hin.
      apply in_map_iff in Hin as ([s rs'] & Es & Hs). injection Es as <- ->.
      apply filter_In in Hs as [Hs _].
      assert (Vs : valid s) by (apply (proj1 SI (s, rs)); exact Hs).
      cbn [fst] in E.
      destruct (Heqr Fm s a Vs Va) as [U|U]; rewrite U in E; [discriminate|]. injection E as E.
      cbn. rewrite (ilookup_hit a _ s rs (proj1 SI) (proj2 SI) Va Hs E). reflexivity.
    + apply (miss_refine _ n st it a (store_buck false (keyof a) hh (bucket hh m)) st' o IH Va SI RI); [|apply store_buck_ok; [exact Fm| exact HA]| exact C].
      apply ilookup_miss. intros e He. destruct (keq (fst e) a) eqn:K; [|reflexivity]. exfalso.
      assert (Ve : valid (fst e)) by (apply (proj1 SI e He)).
      pose proof (Hhash Fm (fst e) a Ve Va K) as HH. rewrite HA in HH.
      assert (Hin : In (ent e) (bucket hh m)).
      { rewrite Bk. apply in_map. apply filter_In. split; [exact He|].
        unfold hash_at. rewrite HH. apply N.eqb_refl. }
      pose proof (scan_none eqr _ _ S _ Hin) as E. cbn in E.
      destruct (Heqr Fm (fst e) a Ve Va) as [U|U]; rewrite U in E; [discriminate|].
      rewrite K in E. discriminate.
Qed.

(* ================= progress ================= *)
(* with enough fuel the closure never panics, gets stuck or runs out of fuel by itself: a call
   ends normally (f's panics are outcomes, not errors), or the generator refused Equal/Hash of
   the key type *)
Definition rok_or_unsup {A} (r : rres A) : Prop := r = RErr EUnsup \/ exists a, r = ROk a.

Lemma rseq_progress callm calli stop : CallR callm calli -> CallS calli ->
  forall bs, (forall st it b, In b bs -> valid b -> SInv it -> RInv it st -> rok_or_unsup (callm st b)) ->
  forall st it, Forall valid bs -> SInv it -> RInv it st -> rok_or_unsup (run_seq callm stop bs st).
Proof.
  intros HR HS. induction bs as [|b bs IH]; intros HP st it V SI RI.
  - right. eexists. reflexivity.
  - inversion V as [|? ? Vb Vbs]; subst. cbn.
    destruct (HP st it b (or_introl eq_refl) Vb SI RI) as [U|[[st1 o1] C]]; rewrite ?U, ?C; cbn.
    + left. reflexivity.
    + destruct (HR st it b st1 o1 Vb SI RI C) as (it1 & Ci & RI1).
      assert (SI1 : SInv it1) by (apply (HS it b it1 _ Vb SI Ci)).
      destruct (stop && is_panic o1)%bool; [right; eexists; reflexivity|].
      destruct (IH (fun st0 it0 b0 Hb0 => HP st0 it0 b0 (or_intror Hb0)) st1 it1 Vbs SI1 RI1) as [U|[[st2 os2] R2]]; rewrite ?U, ?R2; cbn.
      * left. reflexivity.
      * right. eexists. reflexivity.
Qed.

Lemma miss_progress callm n st it a store :
  CallR callm (icall n) ->
  (forall st it b, In b (inner a) -> valid b -> SInv it -> RInv it st -> rok_or_unsup (callm st b)) ->
  valid a -> SInv it -> RInv it st ->
  rok_or_unsup (eval_miss inner fin callm st a store).
Proof.
  intros HR HP Va SI [T Lg]. unfold eval_miss.
  assert (RI0 : RInv (ienter it a) {| tbl := tbl st; log := a :: log st |}).
  { split; [exact T|]. cbn. rewrite rev_app_distr, Lg. reflexivity. }
  destruct (rseq_progress callm (icall n) true HR (icall_S n) (inner a) HP _ (ienter it a) (inner_valid_all a Va)
              (SI : SInv (ienter it a)) RI0) as [U|[[st1 outs] R]]; rewrite ?U, ?R; cbn.
  - left. reflexivity.
  - destruct (finish fin a outs); right; eexists; reflexivity.
Qed.

Lemma rcall_progress :
  (fm = FBuck -> forall b, valid b -> ok_or_unsup (hashr (keyof b))) ->
  forall n st it a, valid a -> (rank a < n)%nat -> SInv it -> RInv it st -> rok_or_unsup (rcall n st a).
Proof.
  intros HT. induction n as [|n IH]; intros st it a Va Ln SI RI; [inversion Ln|].
  assert (HP : forall st0 it0 b, In b (inner a) -> valid b -> SInv it0 -> RInv it0 st0 -> rok_or_unsup (rcall n st0 b)).
  { intros st0 it0 b Hb Vb. apply IH; [exact Vb|]. pose proof (Hrank_inner a b Va Hb) as L2.
    apply PeanoNat.Nat.lt_le_trans with (rank a); [exact L2| apply PeanoNat.Nat.lt_succ_r; exact Ln]. }
  pose proof RI as [T Lg]. unfold tinv in T.
  destruct form_cases as [Fm|[Fm|Fm]]; rewrite Fm in T.
  - rewrite (rcall_zero n st a Fm).
    destruct (itab it) as [|e [|e2 tab]] eqn:TB; [| |contradiction]; rewrite T.
    + exact (miss_progress _ n st it a store_zero (rcall_refine n) HP Va SI RI).
    + right. eexists. reflexivity.
  - rewrite (rcall_map n st a Fm), T.
    destruct (assoc eqq (keyof a) _); [right; eexists; reflexivity|].
    exact (miss_progress _ n st it a _ (rcall_refine n) HP Va SI RI).
  - destruct T as (m & T & Bk). rewrite (rcall_buck n st a Fm), T.
    destruct (HT Fm a Va) as [U|[hh E]]; rewrite ?U, ?E; cbn; [left; reflexivity|].
    assert (SP : ok_or_unsup (scan eqr (keyof a) (bucket hh m))).
    { apply scan_progress. intros e He. rewrite Bk in He. apply in_map_iff in He as (e0 & <- & Hs).
      apply filter_In in Hs as [Hs _]. cbn.
      destruct (Heqr Fm (fst e0) a (proj1 SI e0 Hs) Va) as [U|O]; [left; exact U| right; eexists; exact O]. }
    destruct SP as [U|[found E2]]; rewrite ?U, ?E2; cbn; [left; reflexivity|].
    destruct found; [right; eexists; reflexivity|].
    exact (miss_progress _ n st it a _ (rcall_refine n) HP Va SI RI).
Qed.

Theorem rrun_progress n h :
  (fm = FBuck -> forall b, valid b -> ok_or_unsup (hashr (keyof b))) ->
  (forall a, In a h -> (rank a < n)%nat) -> Forall valid h -> rok_or_unsup (rrun n (init fm) h).
Proof.
  intros HT Ln V. destruct init_rinv as [RI SI].
  apply (rseq_progress (rcall n) (icall n) false (rcall_refine n) (icall_S n) h) with (it := iinit); try assumption.
  intros st it b Hb Vb. apply (rcall_progress HT); [exact Vb| apply Ln; exact Hb].
Qed.

(* ================= call histories ================= *)
Theorem rrun_refines n h st outs :
  Forall valid h -> rrun n (init fm) h = ROk (st, outs) ->
  exists it, irun n h = ROk (it, outs) /\ RInv it st.
Proof.
  intros V R. destruct init_rinv as [RI SI].
  exact (rseq_refine _ _ false (rcall_refine n) (icall_S n) h _ _ st outs V SI RI R).
Qed.

Lemma irun_S n h it outs :
  Forall valid h -> irun n h = ROk (it, outs) ->
  SPost (descL h) iinit it /\
  (forall b rs, In (b, Ret rs) (combine h outs) -> exists s, In (s, rs) (itab it) /\ keq s b = true).
Proof. intros V R. exact (iseq_S _ false (icall_S n) h iinit it outs V (proj2 init_rinv) R). Qed.

Lemma irun_F n h it outs :
  F_respects -> (forall a, In a h -> (rank a < n)%nat) -> Forall valid h -> irun n h = ROk (it, outs) ->
  outs = map F h /\ IInv it.
Proof.
  intros FR Ln V R.
  assert (HF : CallF h (icall n)) by (intros it0 b it0' o0 Hb Vb; apply (icall_F FR); [apply Ln; exact Hb| exact Vb]).
  assert (II : IInv iinit) by (split; [intros s rs []| intros x []]).
  destruct (iseq_F _ false (icall_S n) h HF iinit it outs V (proj2 init_rinv) II R) as [E II'].
  rewrite cut_false in E. split; assumption.
Qed.

(* the invocations of f, oldest first *)
Lemma f_calls_ideal it st : RInv it st -> f_calls st = icalls it.
Proof. intros [_ L]. unfold f_calls. rewrite L. apply rev_involutive. Qed.

(* every call of the memoised closure returns what the un-memoised recursive function returns *)
Theorem rrun_observational n h st outs :
  F_respects -> (forall a, In a h -> (rank a < n)%nat) -> Forall valid h ->
  rrun n (init fm) h = ROk (st, outs) -> outs = map F h.
Proof.
  intros FR Ln V R. destruct (rrun_refines n h st outs V R) as (it & Ri & _).
  exact (proj1 (irun_F n h it outs FR Ln V Ri)).
Qed.

(* the table is the layout of the ideal memoiser's cache, whose entries are pairwise not Equal
   and hold F of their arguments; the invocation log is the ideal memoiser's *)
Theorem rrun_ideal n h st outs :
  F_respects -> (forall a, In a h -> (rank a < n)%nat) -> Forall valid h ->
  rrun n (init fm) h = ROk (st, outs) ->
  exists it, irun n h = ROk (it, outs) /\ tinv (itab it) (tbl st) /\ f_calls st = icalls it
             /\ pairwise kneq (itab it) /\ (forall s rs, In (s, rs) (itab it) -> valid s /\ F s = Ret rs).
Proof.
  intros FR Ln V R. destruct (rrun_refines n h st outs V R) as (it & Ri & RI).
  exists it. split; [exact Ri|]. split; [exact (proj1 RI)|]. split; [exact (f_calls_ideal it st RI)|].
  destruct (irun_S n h it outs V Ri) as [(SI & _) _]. destruct (irun_F n h it outs FR Ln V Ri) as [_ II].
  split; [exact (proj2 SI)|]. intros s rs Hs. split; [exact (proj1 SI (s, rs) Hs)| exact (proj1 II s rs Hs)].
Qed.

(* the panicked evaluations do not count for a class on which F returns *)
Lemma cnt_panics_zero c np :
  F_respects -> (forall x, In x np -> valid x /\ F x = Panic) -> valid c -> returns F c = true -> cnt c np = 0%nat.
Proof.
  intros FR H Vc Rc. apply cnt_zero. intros x Hx. destruct (H x Hx) as [Vx Px].
  destruct (keq x c) eqn:K; [|reflexivity]. exfalso.
  unfold returns in Rc. rewrite <- (FR x c Vx Vc K), Px in Rc. discriminate.
Qed.

(* f is invoked at most once for each class of Equal argument tuples on which it returns —
   inner and outer invocations together — and exactly once for the class of an outer call *)
Theorem rrun_at_most_once n h st outs c :
  F_respects -> (forall a, In a h -> (rank a < n)%nat) -> Forall valid h ->
  rrun n (init fm) h = ROk (st, outs) -> valid c -> returns F c = true ->
  (cnt c (f_calls st) <= 1)%nat /\ (In c h -> cnt c (f_calls st) = 1%nat).
Proof.
  intros FR Ln V R Vc Rc. destruct (rrun_refines n h st outs V R) as (it & Ri & RI).
  rewrite (f_calls_ideal it st RI).
  destruct (irun_S n h it outs V Ri) as [(SI & news & nc & np & E1 & E2 & E3 & Dn & Dc & Dp & Cn & Cl) R1].
  destruct (irun_F n h it outs FR Ln V Ri) as [Eo II].
  cbn in E1, E2, E3. rewrite E2, (Cn c Vc).
  rewrite (cnt_panics_zero c np FR); [|intros x Hx; split; [exact (descL_valid h x V (Dp x Hx))| apply (proj2 II); rewrite E3; exact Hx]| exact Vc| exact Rc].
  rewrite PeanoNat.Nat.add_0_r. split; [destruct (has c news); cbn; auto|].
  intros Hc. unfold returns in Rc. destruct (F c) as [rs|] eqn:Fc; [|discriminate].
  assert (Hin : In (c, Ret rs) (combine h outs)) by (rewrite Eo, <- Fc; apply combine_map_in; exact Hc).
  destruct (R1 c rs Hin) as (s & Hs & K). rewrite E1 in Hs.
  assert (H : has c news = true) by (apply existsb_exists; exists (s, rs); split; [exact Hs| exact K]).
  rewrite H. reflexivity.
Qed.

(* ... and the class of every inner call of an invocation that returned is evaluated exactly
   once as well (so, by induction along the calls, the whole call tree of a returning call) *)
Theorem rrun_inner_once n h st outs x b :
  F_respects -> (forall a, In a h -> (rank a < n)%nat) -> Forall valid h ->
  rrun n (init fm) h = ROk (st, outs) ->
  In x (f_calls st) -> returns F x = true -> In b (inner x) ->
  returns F b = true /\ cnt b (f_calls st) = 1%nat.
Proof.
  intros FR Ln V R Hx Rx Hb. destruct (rrun_refines n h st outs V R) as (it & Ri & RI).
  rewrite (f_calls_ideal it st RI) in *.
  destruct (irun_S n h it outs V Ri) as [(SI & news & nc & np & E1 & E2 & E3 & Dn & Dc & Dp & Cn & Cl) R1].
  destruct (irun_F n h it outs FR Ln V Ri) as [Eo II].
  cbn in E1, E2, E3. rewrite E2 in *.
  destruct (Dc x Hx) as [Dx Ix].
  assert (Vx : valid x) by exact (descL_valid h x V Dx).
  assert (Vb : valid b) by exact (Hinner_valid x b Vx Hb).
  assert (Rb : returns F b = true).
  { unfold returns in Rx. rewrite (F_unfold x Vx) in Rx. unfold finish in Rx.
    destruct (all_ret (map F (inner x))) as [rss|] eqn:A; [|discriminate].
    destruct (all_ret_map_in F (inner x) rss b A Hb) as (rs & Fb). unfold returns. rewrite Fb. reflexivity. }
  split; [exact Rb|].
  destruct Ix as [Ix|Ix].
  - apply in_map_iff in Ix as (e & <- & He).
    destruct (Cl e He b Hb) as (e' & I' & K). rewrite E1 in I'.
    assert (H : has b news = true) by (apply existsb_exists; exists e'; split; assumption).
    rewrite (Cn b Vb), H.
    rewrite (cnt_panics_zero b np FR); [reflexivity| |exact Vb| exact Rb].
    intros y Hy. split; [exact (descL_valid h y V (Dp y Hy))| apply (proj2 II); rewrite E3; exact Hy].
  - exfalso. unfold returns in Rx. rewrite (proj2 II x) in Rx; [discriminate|]. rewrite E3. exact Ix.
Qed.

(* f is only invoked on arguments of outer calls and of their (transitive) inner calls *)
Theorem rrun_no_spurious_calls n h st outs x :
  Forall valid h -> rrun n (init fm) h = ROk (st, outs) -> In x (f_calls st) ->
  exists a, In a h /\ desc a x.
Proof.
  intros V R Hx. destruct (rrun_refines n h st outs V R) as (it & Ri & RI).
  rewrite (f_calls_ideal it st RI) in Hx.
  destruct (irun_S n h it outs V Ri) as [(SI & news & nc & np & E1 & E2 & E3 & Dn & Dc & _) _].
  cbn in E2. rewrite E2 in Hx. exact (proj1 (Dc x Hx)).
Qed.

End RGeneric.
