(* Eval11.v — evaluation of C11 observations: package-level runs of SetFuncName over the
   typesMaps of several plugins, in-process (pkg) or through the goderive binary (e2e). *)
From Verif Require Import Base Sexp Gen.TypesMap Gen.TmEval.
Open Scope string_scope.

Definition eval11 (e : sexp) : verdict := eval_pkg e.
