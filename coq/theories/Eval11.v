(* Eval11.v — evaluation of C11 observations (stub: replaced when C11 is built). *)
From Verif Require Import Base Sexp.
Open Scope string_scope.

Definition eval11 (e : sexp) : verdict := bad_line.
