(* Eval19.v — evaluation of C19 observations: histories of the generated channel combinators
   observed on the real Go runtime, checked against the specification (exactly once, per-input
   order, closed once, no panic, no leak, no deadlock) and against the model (the expected IR
   run by the executable semantics: for the join forms a guided search for a schedule of the
   model that produces exactly the observed output sequence = trace inclusion).

   line:  (hist KIND (NVAR GOMAXPROCS OUTERCAP) ((CAP ITEM ...) ...) ((OUT ...) ...) (CLOSED ...) PANIC LEAKED TIMEDOUT) *)
From Coq Require Import FSets.FSetPositive.
From Verif Require Import Base Sexp Chan.Sem Chan.Expected Chan.Explore.
Open Scope string_scope.

Definition f19 (x : nat) : nat := x + 1000.

(* ---------- guided search: can the model deliver exactly [target] to consumer [ci]? ---------- *)
Fixpoint is_prefix (a b : list nat) : bool :=
  match a, b with
  | [], _ => true
  | x :: a', y :: b' => Nat.eqb x y && is_prefix a' b'
  | _ :: _, [] => false
  end.

Record gstate := { g_seen : PositiveSet.t; g_found : bool; g_budget : nat }.

Section Guided.
Variable P : list prog.
Variable ci : nat.
Variable target : list nat.

Fixpoint gdfs (fuel : nat) (s : state) (st : gstate) : gstate :=
  if g_found st then st else
  match g_budget st with
  | O => st
  | S bud =>
    let k := encode s in
    if PositiveSet.mem k (g_seen st) then st else
    let st := {| g_seen := PositiveSet.add k (g_seen st); g_found := false; g_budget := bud |} in
    if panicked s then st else
    if negb (is_prefix (cons_log s ci) target) then st else
    match fuel with
    | O => st
    | S fuel' =>
      match enabled f19 P s with
      | [] => if all_halted P s && list_eqb (cons_log s ci) target && cons_done s ci
              then {| g_seen := g_seen st; g_found := true; g_budget := g_budget st |}
              else st
      | acts =>
          fold_left (fun st a =>
            if g_found st then st else
            match step f19 P s a with
            | Some s' => gdfs fuel' s' st
            | None => st
            end) acts st
      end
    end
  end.
End Guided.

(* Some true: the model has a complete run with this output; Some false: it has none;
   None: search budget exhausted *)
Definition model_produces (k : kind) (d : fn) (cfg : config) (ci : nat) (target : list nat) : option bool :=
  let r := gdfs (fn_progs d) ci target (100 * 100) (init_state k d cfg)
                {| g_seen := PositiveSet.empty; g_found := false; g_budget := 100 * 200 |} in
  if g_found r then Some true else
  match g_budget r with O => None | _ => Some false end.

(* ---------- parsing ---------- *)
Definition get_nats (e : sexp) : option (list nat) := option_map (map Z.to_nat) (get_zs e).

Definition get_input (e : sexp) : option (nat * list nat) :=
  match get_nats e with
  | Some (c :: items) => Some (c, items)
  | _ => None
  end.

Fixpoint nodup_nat (l : list nat) : bool :=
  match l with
  | [] => true
  | x :: t => negb (mem_nat x t) && nodup_nat t
  end.

Definition cls (n : nat) : string :=
  match n with 0 => "0" | 1 => "1" | 2 => "2" | 3 => "3" | _ => "4+" end%nat.
Definition pcls (n : nat) : string :=
  match n with 1 => "P1" | 4 => "P4" | 16 => "P16" | _ => "P?" end%nat.

Definition nats_sexp (l : list nat) : sexp := L (map of_nat l).

Definition all_one (l : list nat) : bool := forallb (Nat.eqb 1) l.

Definition eval19 (e : sexp) : verdict :=
  match e with
  | L [Sym h; Sym kd; hdr; L ins; L outs; closed; pn; lk; tm] =>
      if negb (String.eqb h "hist") then bad_line else
      match get_nats hdr, map_opt get_input ins, map_opt get_nats outs, get_nats closed,
            get_nat pn, get_nat lk, get_nat tm with
      | Some [nvar; procs; outer], Some inputs, Some os, Some cl, Some pnc, Some leak, Some tmo =>
          let lists := map snd inputs in
          let n := List.length inputs in
          let clean := Nat.eqb pnc 0 && Nat.eqb leak 0 && Nat.eqb tmo 0 && all_one cl
                       && Nat.eqb (List.length cl) (List.length os) in
          let guard := nodup_nat (concat lists) && forallb (fun x => Nat.ltb x 1000) (concat lists) in
          let cfg := {| c_inputs := inputs; c_outer := outer |} in
          let tag := kd ++ "/n" ++ cls n ++ "/items" ++ cls (List.length (concat lists)) ++ "/" ++ pcls procs in
          let mkv (spec model : bool) (m : sexp) (t : string) :=
            {| v_known := true; v_model_ok := model; v_spec_ok := spec; v_guard := guard;
               v_model := m; v_tag := t |} in
          let exact (expect : list (list nat)) :=
            let okb := clean && (fix eqs (a b : list (list nat)) : bool :=
                                   match a, b with
                                   | [], [] => true
                                   | x :: a', y :: b' => list_eqb x y && eqs a' b'
                                   | _, _ => false
                                   end) os expect in
            mkv okb okb (L (map nats_sexp expect)) tag in
          let join (k : kind) (d : fn) (ci : nat) (with_model : bool) :=
            match os with
            | [o] =>
                let spec := clean && interleaved o lists in
                let m := L [Sym "interleaving-of"; L (map nats_sexp lists)] in
                if with_model && spec then
                  match model_produces k d cfg ci o with
                  | Some b => mkv spec b m (tag ++ "/model-trace")
                  | None => mkv spec spec m (tag ++ "/model-budget")
                  end
                else mkv spec spec m tag
            | _ => mkv false false (Sym "one-output") tag
            end in
          if String.eqb kd "fmap" then
            match lists with [xs] => exact [map f19 xs] | _ => bad_line end
          else if String.eqb kd "dup" then
            match lists with [xs] => exact [xs; xs] | _ => bad_line end
          else if String.eqb kd "joincc" then join KJoinCC exp_join_cc 2%nat true
          else if String.eqb kd "joinsl" then join KJoinSl exp_join_sl 1%nat true
          else if String.eqb kd "joinvar" then
            if Nat.eqb nvar n then join KJoinVar (exp_join_var n) (S n) true else bad_line
          else if String.eqb kd "pipeline" then join KJoinCC exp_join_cc 2%nat false
          else bad_line
      | _, _, _, _, _, _, _ => bad_line
      end
  | _ => bad_line
  end.
