(* Eval19.v — evaluation of C19 observations: histories of the generated channel combinators
   observed on the real Go runtime, checked against the specification (exactly once, per-input
   order, closed once, no panic, no leak, no deadlock) and against the model (the expected IR
   run by the executable semantics: for the join forms a guided search for a schedule of the
   model that produces exactly the observed output sequence = trace inclusion).

   line:  (hist KIND (NVAR GOMAXPROCS OUTERCAP [ENV ROUNDS ORDER...]) ((CAP ITEM ...) ...) ((OUT ...) ...) (CLOSED ...) PANIC LEAKED TIMEDOUT)

   ENV (absent = 0): the environment of the run (harness/internal/c19/drvsrc.go: start)
     0  one independent producer per input                       (the environment of the theorems)
     1  feeder: ONE goroutine hands every channel over, closes the outer channel and performs all sends
        and closes in the order ORDER (j once per item of input j and once for its close)
     3  lazy feeder: channel j is handed over just before the first operation on it
     2  burst: the inputs are filled and closed before the call; ROUNDS rounds, the line is the first bad
        round (else the last one)
     4  burst: all the inputs are closed at a common start signal
     5  producers ahead: the combinator is called when every producer is blocked on a full buffer
     6  nil results (fmap to a channel type): the mapped function yields nil (reported as 0) for the items
        divisible by 3; a nil result is an item like any other
     7  shared channels (join forms, pipeline): the n input channels (each with its own producer) are handed
        over in the sequence ORDER, in which a channel may occur several times (twice on the channel of
        channels / in the slice / among the parameters; returned twice by the second stage of a pipeline);
        NVAR of the variadic form is the number of parameters = length of ORDER
     8  zero items: the item lists contain the zero value of the element type (reported as 0), possibly
        several times; ORDER = [T], the element type of the instance: 0 int, 1 error, 2 interface{}, 3 *int
   The specification is the same in every environment.  The model of a feeder history is the expected IR
   run against the feeder THREAD (Chan/Feeder.v: the same step function); a burst history is a run of the
   independent-producer model (a particular schedule of it); a shared-channel history is a run of the expected
   IR from Chan/Alias.init_alias (several receivers on one channel). *)
From Coq Require Import FSets.FSetPositive.
From Verif Require Import Base Sexp Chan.Sem Chan.Expected Chan.Explore Chan.Feeder Chan.Alias.
Open Scope string_scope.

Definition f19 (x : nat) : nat := x + 1000.
(* the mapped function of the nil-results environment: 0 stands for the nil channel *)
Definition f19nil (x : nat) : nat := if Nat.eqb (Nat.modulo x 3) 0 then 0 else x + 1000.

(* ---------- guided search: can the model deliver exactly [target] to consumer [ci]? ---------- *)
Fixpoint is_prefix (a b : list nat) : bool :=
  match a, b with
  | [], _ => true
  | x :: a', y :: b' => Nat.eqb x y && is_prefix a' b'
  | _ :: _, [] => false
  end.

Record gstate := { g_seen : PositiveSet.t; g_found : bool; g_budget : nat }.

Section Guided.
Variable P : list prog.
Variable ci : nat.
Variable target : list nat.

Fixpoint gdfs (fuel : nat) (s : state) (st : gstate) : gstate :=
  if g_found st then st else
  match g_budget st with
  | O => st
  | S bud =>
    let k := encode s in
    if PositiveSet.mem k (g_seen st) then st else
    let st := {| g_seen := PositiveSet.add k (g_seen st); g_found := false; g_budget := bud |} in
    if panicked s then st else
    if negb (is_prefix (cons_log s ci) target) then st else
    match fuel with
    | O => st
    | S fuel' =>
      match enabled f19 P s with
      | [] => if all_halted P s && list_eqb (cons_log s ci) target && cons_done s ci
              then {| g_seen := g_seen st; g_found := true; g_budget := g_budget st |}
              else st
      | acts =>
          fold_left (fun st a =>
            if g_found st then st else
            match step f19 P s a with
            | Some s' => gdfs fuel' s' st
            | None => st
            end) acts st
      end
    end
  end.
End Guided.

(* Some true: the model has a complete run with this output; Some false: it has none;
   None: search budget exhausted *)
Definition model_produces_from (P : list prog) (s0 : state) (ci : nat) (target : list nat) : option bool :=
  let r := gdfs P ci target (100 * 100) s0
                {| g_seen := PositiveSet.empty; g_found := false; g_budget := 100 * 200 |} in
  if g_found r then Some true else
  match g_budget r with O => None | _ => Some false end.

Definition model_produces (k : kind) (d : fn) (cfg : config) (ci : nat) (target : list nat) : option bool :=
  model_produces_from (fn_progs d) (init_state k d cfg) ci target.

(* the same against the feeder thread *)
Definition model_produces_feeder (k : kind) (d : fn) (cfg : config) (lazy : bool) (order : list nat)
    (ci : nat) (target : list nat) : option bool :=
  model_produces_from (feeder_progs k d cfg lazy order) (init_feeder k d cfg lazy order) ci target.

(* ---------- parsing ---------- *)
Definition get_nats (e : sexp) : option (list nat) := option_map (map Z.to_nat) (get_zs e).

Definition get_input (e : sexp) : option (nat * list nat) :=
  match get_nats e with
  | Some (c :: items) => Some (c, items)
  | _ => None
  end.

Fixpoint nodup_nat (l : list nat) : bool :=
  match l with
  | [] => true
  | x :: t => negb (mem_nat x t) && nodup_nat t
  end.

Definition cls (n : nat) : string :=
  match n with 0 => "0" | 1 => "1" | 2 => "2" | 3 => "3" | _ => "4+" end%nat.
Definition pcls (n : nat) : string :=
  match n with 1 => "P1" | 4 => "P4" | 16 => "P16" | _ => "P?" end%nat.
Definition ecls (env : nat) : string :=
  match env with 0 => "" | 1 => "/feeder" | 3 => "/lazy-feeder" | 2 => "/burst-closed-before"
               | 4 => "/burst-closed-together" | 5 => "/producers-ahead" | 6 => "/nil-results"
               | 7 => "/shared-channel" | 8 => "/zero-items"
               | _ => "/env?" end%nat.

Definition elcls (t : nat) : string :=
  match t with 0 => "/elem-int" | 1 => "/elem-error" | 2 => "/elem-interface" | 3 => "/elem-pointer" | _ => "/elem?" end%nat.

(* the rest of the header after NVAR PROCS OUTER: (environment, rounds, feeding order) *)
Definition get_env (rest : list nat) : option (nat * nat * list nat) :=
  match rest with
  | [] => Some (0, 1, [])
  | env :: rounds :: order => Some (env, rounds, order)
  | _ => None
  end%nat.

(* is the header consistent with its environment?  feeder: ORDER is a schedule of the inputs, one round;
   burst: no order, at least one round; independent producers: nothing; shared channels: ORDER names every
   input and only inputs, the item lists are increasing; zero items: ORDER is the element type *)
Definition env_ok (env rounds : nat) (order : list nat) (lists : list (list nat)) : bool :=
  match env with
  | 0 | 5 | 6 => Nat.eqb rounds 1 && Nat.eqb (List.length order) 0
  | 1 | 3 => Nat.eqb rounds 1 && valid_order lists order
  | 2 | 4 => Nat.leb 1 rounds && Nat.eqb (List.length order) 0
  | 7 => Nat.eqb rounds 1 && valid_alias (List.length lists) order && forallb increasing lists
  | 8 => Nat.eqb rounds 1 && match order with [t] => Nat.leb t 3 | _ => false end
  | _ => false
  end%nat.

Definition nats_sexp (l : list nat) : sexp := L (map of_nat l).

Definition all_one (l : list nat) : bool := forallb (Nat.eqb 1) l.

Definition eval19 (e : sexp) : verdict :=
  match e with
  | L [Sym h; Sym kd; hdr; L ins; L outs; closed; pn; lk; tm] =>
      if negb (String.eqb h "hist") then bad_line else
      match get_nats hdr, map_opt get_input ins, map_opt get_nats outs, get_nats closed,
            get_nat pn, get_nat lk, get_nat tm with
      | Some (nvar :: procs :: outer :: rest), Some inputs, Some os, Some cl, Some pnc, Some leak, Some tmo =>
          match get_env rest with None => bad_line | Some (env, rounds, order) =>
          let lists := map snd inputs in
          let n := List.length inputs in
          let clean := Nat.eqb pnc 0 && Nat.eqb leak 0 && Nat.eqb tmo 0 && all_one cl
                       && Nat.eqb (List.length cl) (List.length os) in
          let guard := nodup_nat (if Nat.eqb env 8 then nonzero (concat lists) else concat lists) && forallb (fun x => Nat.ltb x 1000) (concat lists)
                       && env_ok env rounds order lists in
          let feeder := Nat.eqb env 1 || Nat.eqb env 3 in
          let cfg := {| c_inputs := inputs; c_outer := outer |} in
          let tag := kd ++ "/n" ++ cls n ++ "/items" ++ cls (List.length (concat lists)) ++ "/" ++ pcls procs
                     ++ ecls env ++ (if Nat.eqb env 8 then elcls (hd 0%nat order) else "") in
          let mkv (spec model : bool) (m : sexp) (t : string) :=
            {| v_known := true; v_model_ok := model; v_spec_ok := spec; v_guard := guard;
               v_model := m; v_tag := t |} in
          let exact (expect : list (list nat)) :=
            let okb := clean && (fix eqs (a b : list (list nat)) : bool :=
                                   match a, b with
                                   | [], [] => true
                                   | x :: a', y :: b' => list_eqb x y && eqs a' b'
                                   | _, _ => false
                                   end) os expect in
            mkv okb okb (L (map nats_sexp expect)) tag in
          let join (k : kind) (d : fn) (ci : nat) (with_model : bool) :=
            match os with
            | [o] =>
                let spec := clean && (if Nat.eqb env 7 then alias_spec o lists order
                                      else if Nat.eqb env 8 then ileave o lists else interleaved o lists) in
                let m := L [Sym "interleaving-of"; L (map nats_sexp lists)] in
                if with_model && spec && negb (Nat.leb n 48) then mkv spec spec m (tag ++ "/model-skipped-wide")
                else if with_model && spec then
                  match (if Nat.eqb env 7 then model_produces_from (fn_progs d) (init_alias k d cfg order) ci o
                         else if feeder then model_produces_feeder k d cfg (Nat.eqb env 3) order ci o
                         else model_produces k d cfg ci o) with
                  | Some b => mkv spec b m (tag ++ "/model-trace")
                  | None => mkv spec spec m (tag ++ "/model-budget")
                  end
                else mkv spec spec m tag
            | _ => mkv false false (Sym "one-output") tag
            end in
          if String.eqb kd "fmap" then
            match lists with
            | [xs] => exact [map (if Nat.eqb env 6 then f19nil else f19) xs]
            | _ => bad_line
            end
          else if String.eqb kd "dup" then
            match lists with [xs] => exact [xs; xs] | _ => bad_line end
          else if String.eqb kd "joincc" then join KJoinCC exp_join_cc 2%nat true
          else if String.eqb kd "joinsl" then join KJoinSl exp_join_sl 1%nat true
          else if String.eqb kd "joinvar" then
            if Nat.eqb nvar (if Nat.eqb env 7 then List.length order else n)
            then join KJoinVar (exp_join_var nvar) (S n) true else bad_line
          else if String.eqb kd "pipeline" then join KJoinCC exp_join_cc 2%nat false
          else bad_line
          end
      | _, _, _, _, _, _, _ => bad_line
      end
  | _ => bad_line
  end.
