(* Eval19.v — evaluation of C19 observations (stub: replaced when C19 is built). *)
From Verif Require Import Base Sexp.
Open Scope string_scope.

Definition eval19 (e : sexp) : verdict := bad_line.
