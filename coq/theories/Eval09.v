(* Eval09.v — evaluation of C09 observations (stub: replaced when C09 is built). *)
From Verif Require Import Base Sexp.
Open Scope string_scope.

Definition eval09 (e : sexp) : verdict := bad_line.
