(* Eval09.v — evaluation of C09 observations.
     (run <plugin> (<argument types>) <class>)   one goderive run on a singleton package
     (broken <mutation> <n> <class>)             one goderive run on a broken user file
     (multi <n> (<i> <j> ...) <use> <inv> <class>) one goderive run over n packages with the import edges i -> j
     (ginst <plugin> <n> <class>)                 one goderive run on calls over instantiated generic types
   class = ok | badfile | adderr | generr | cannot | loaderr | crash.
   A type parameter of the enclosing generic function is (n 99xx 0 (if 0)) (Validate/TParam.v). *)
From Verif Require Import Base Sexp.
From Verif.Validate Require Import Aty Add Gen Spec TParam Order.
Open Scope string_scope.

Definition kind_of (s : string) : option bkind :=
  if s =? "bool" then Some KBool else if s =? "int" then Some KInt else
  if s =? "int8" then Some KInt8 else if s =? "int16" then Some KInt16 else
  if s =? "int32" then Some KInt32 else if s =? "int64" then Some KInt64 else
  if s =? "uint" then Some KUint else if s =? "uint8" then Some KUint8 else
  if s =? "uint16" then Some KUint16 else if s =? "uint32" then Some KUint32 else
  if s =? "uint64" then Some KUint64 else if s =? "uintptr" then Some KUintptr else
  if s =? "float32" then Some KFloat32 else if s =? "float64" then Some KFloat64 else
  if s =? "complex64" then Some KComplex64 else if s =? "complex128" then Some KComplex128 else
  if s =? "string" then Some KString else if s =? "unsafeptr" then Some KUnsafePtr else
  if s =? "u-bool" then Some KUBool else if s =? "u-int" then Some KUInt else
  if s =? "u-rune" then Some KURune else if s =? "u-float" then Some KUFloat else
  if s =? "u-complex" then Some KUComplex else if s =? "u-string" then Some KUString else
  if s =? "u-nil" then Some KUNil else None.

Definition plugin_of (s : string) : option plugin :=
  if s =? "all" then Some PAll else if s =? "any" then Some PAny else
  if s =? "apply" then Some PApply else if s =? "clone" then Some PClone else
  if s =? "compare" then Some PCompare else if s =? "compose" then Some PCompose else
  if s =? "contains" then Some PContains else if s =? "curry" then Some PCurry else
  if s =? "deepcopy" then Some PDeepcopy else if s =? "do" then Some PDo else
  if s =? "dup" then Some PDup else if s =? "equal" then Some PEqual else
  if s =? "filter" then Some PFilter else if s =? "flip" then Some PFlip else
  if s =? "fmap" then Some PFmap else if s =? "gostring" then Some PGostring else
  if s =? "hash" then Some PHash else if s =? "intersect" then Some PIntersect else
  if s =? "join" then Some PJoin else if s =? "keys" then Some PKeys else
  if s =? "max" then Some PMax else if s =? "mem" then Some PMem else
  if s =? "min" then Some PMin else if s =? "pipeline" then Some PPipeline else
  if s =? "set" then Some PSet else if s =? "sort" then Some PSort else
  if s =? "takewhile" then Some PTakewhile else if s =? "toerror" then Some PToerror else
  if s =? "traverse" then Some PTraverse else if s =? "tuple" then Some PTuple else
  if s =? "uncurry" then Some PUncurry else if s =? "union" then Some PUnion else
  if s =? "unique" then Some PUnique else None.

Definition dir_of (z : Z) : option cdir :=
  if (z =? 0)%Z then Some DBoth else if (z =? 1)%Z then Some DSend else
  if (z =? 2)%Z then Some DRecv else None.

Fixpoint parse_ty (fuel : nat) (e : sexp) : option aty :=
  match fuel with
  | O => None
  | S f =>
      match e with
      | L [Sym c; Sym k] => if c =? "b" then option_map ABasic (kind_of k) else None
      | L [Sym c] => if c =? "err" then Some AErr else None
      | L [Sym c; Num n] => if c =? "if" then Some (AIface (Z.to_N n)) else None
      | L [Sym c; Num id; Num er; u] =>
          if c =? "n" then option_map (ANamed (Z.to_N id) (Z.eqb er 1)) (parse_ty f u) else None
      | L [Sym c; L l] =>
          if c =? "st" then option_map AStruct (parse_tys f l)
          else if c =? "tup" then option_map ATuple (parse_tys f l)
          else if c =? "p" then option_map APtr (parse_ty f (L l))
          else if c =? "s" then option_map ASlice (parse_ty f (L l))
          else None
      | L [Sym c; Num n; t] =>
          if c =? "a" then option_map (AArray (Z.to_N n)) (parse_ty f t)
          else if c =? "ch" then
            match dir_of n, parse_ty f t with Some d, Some t' => Some (AChan d t') | _, _ => None end
          else None
      | L [Sym c; k; v] =>
          if c =? "m" then
            match parse_ty f k, parse_ty f v with Some k', Some v' => Some (AMap k' v') | _, _ => None end
          else None
      | L [Sym c; L ps; L rs; Num v] =>
          if c =? "sig" then
            match parse_tys f ps, parse_tys f rs with
            | Some p, Some r => Some (ASig p r (Z.eqb v 1))
            | _, _ => None
            end
          else None
      | _ => None
      end
  end
with parse_tys (fuel : nat) (l : list sexp) : option atys :=
  match fuel with
  | O => None
  | S f =>
      match l with
      | [] => Some TNil
      | e :: r =>
          match parse_ty f e, parse_tys f r with
          | Some t, Some ts => Some (TCons t ts)
          | _, _ => None
          end
      end
  end.

Definition fuel40 : nat := 40.

(* ---- runs over several packages: the import graph ---- *)
Fixpoint parse_edges (l : list sexp) : option (list (nat * nat)) :=
  match l with
  | [] => Some []
  | Num i :: Num j :: r => option_map (cons (Z.to_nat i, Z.to_nat j)) (parse_edges r)
  | _ => None
  end.
(* package i reaches package j along at least one import edge (paths of at most fuel edges) *)
Fixpoint reach (fuel : nat) (es : list (nat * nat)) (i j : nat) : bool :=
  match fuel with
  | O => false
  | S f => existsb (fun e => (fst e =? i)%nat && ((snd e =? j)%nat || reach f es (snd e) j)) es
  end.
(* initialImports: the OTHER packages of the run that are imported directly or indirectly (also through
   packages that are not part of the run) *)
Definition multi_imp (n : nat) (es : list (nat * nat)) (i j : nat) : bool :=
  negb (i =? j)%nat && reach n es i j.
(* the packages named on the command line, in that order *)
Definition multi_pkgs (n : nat) (inv : string) : list nat :=
  if inv =? "rev" then rev (seq 0 n) else if inv =? "sub" then seq 1 (n - 1) else seq 0 n.

(* coarse class of an observation *)
Definition coarse (c : string) : option string :=
  if c =? "ok" then Some "ok" else if c =? "badfile" then Some "badfile" else
  if (c =? "adderr") || (c =? "generr") || (c =? "cannot") || (c =? "loaderr") then Some "err" else
  if c =? "crash" then Some "crash" else None.

Definition plugin_name (e : sexp) : string := match e with Sym s => s | _ => "?" end.

Definition eval09 (e : sexp) : verdict :=
  match e with
  | L [Sym k; Sym pn; L args; Sym cls] =>
      (* twin: the same call twice in one package, on two distinct named types with the same underlying
         types (typs is the first call's argument list): same prediction, same demands *)
      if (k =? "run") || (k =? "twin") then
        match plugin_of pn, parse_tys fuel40 args, coarse cls with
        | Some p, Some ts, Some real =>
            let typs := to_list ts in
            if negb (forallb wf typs) then bad_line else
            let m := run_model_tp p typs in
            let known := known_class p typs in          (* name of an open finding class, or "" *)
            let c01 := c01_class p typs in
            let predicted :=
              match m with
              | Crash => "crash"
              | Err => "err"
              | Ok => if negb (known =? "") || c01 then "badfile" else "ok"
              end in
            let spec_ok :=
              if real =? "crash" then false
              else if real =? "badfile" then false
              else if real =? "ok" then negb (must_report_tp p typs)
              else true in
            (* outside the guard: findings of C01, and the open finding classes of C09 (the
               check then requires the class to be listed, see vcheck.classify) *)
            let guard := negb ((real =? "badfile") && (c01 || negb (known =? ""))) in
            {| v_known := true;
               v_model_ok := predicted =? real;
               v_spec_ok := spec_ok;
               v_guard := guard;
               v_model := Sym predicted;
               v_tag := (if negb (known =? "") && (real =? "badfile") then "known:" ++ known ++ "/" ++ pn
                         else if c01 && (real =? "badfile") then "c01:" ++ pn
                         else if call_tparam typs then "tparam:" ++ pn ++ "/" ++ predicted ++ "/" ++ (match typs with t :: _ => shape_tag t | [] => "noargs" end)
                         else (if k =? "twin" then "twin:" else "") ++ pn ++ "/" ++ predicted ++ "/" ++ arm_tag p typs) |}
        | _, _, _ => bad_line
        end
      else bad_line
  | L [Sym k; Sym mut; Num _; Sym cls] =>
      if k =? "broken" then
        match coarse cls with
        | Some real =>
            (* the loader's behaviour on broken files is outside the model: only the property *)
            let ok := negb ((real =? "crash") || (real =? "badfile")) in
            {| v_known := true; v_model_ok := true; v_spec_ok := ok; v_guard := true;
               v_model := Sym "no-crash"; v_tag := "broken/" ++ mut ++ "/" ++ real |}
        | None => bad_line
        end
      else if k =? "ginst" then
        (* calls over instantiated generic types (Box[int], …), also inside a generic function whose type
           parameters they do not mention: nothing of the call mentions a type parameter, the gate of
           TParam.v stays open and the types are ordinary defined types: generated, and the package type-checks *)
        match coarse cls with
        | Some real =>
            let ok := negb ((real =? "crash") || (real =? "badfile")) in
            {| v_known := true; v_model_ok := real =? "ok"; v_spec_ok := ok; v_guard := true;
               v_model := Sym "ok"; v_tag := "ginst/" ++ mut ++ "/" ++ real |}
        | None => bad_line
        end
      else if k =? "undef" then
        (* a call whose argument has no type (undefined identifier): derive/find.go defers it,
           generatePackage must end with "cannot generate" *)
        match coarse cls with
        | Some real =>
            {| v_known := true; v_model_ok := real =? "err"; v_spec_ok := real =? "err"; v_guard := true;
               v_model := Sym "err"; v_tag := "undefined-argument/" ++ real |}
        | None => bad_line
        end
      else bad_line
  | L [Sym k; Num n; L es; Sym use; Sym inv; Sym cls] =>
      if k =? "multi" then
        match coarse cls, parse_edges es with
        | Some real, Some edges =>
            let n' := Z.to_nat n in
            let pkgs := multi_pkgs n' inv in
            let imp := multi_imp n' edges in
            let cyclic := existsb (fun i => reach n' edges i i) (seq 0 n') in
            (* the model of dependenciesFirst with more fuel than packages: None would be the walk that
               does not return (Order.deps_first_terminates: it is never None) *)
            let order := deps_first imp pkgs (S (length pkgs)) in
            let predicted := match order with None => "crash" | Some _ => if cyclic then "ok-or-err" else "ok" end in
            let model_ok :=
              match order with
              | None => real =? "crash"
              | Some _ => if cyclic then (real =? "ok") || (real =? "err") else real =? "ok"
              end in
            {| v_known := true; v_model_ok := model_ok;
               v_spec_ok := negb ((real =? "crash") || (real =? "badfile")); v_guard := true;
               v_model := Sym predicted;
               v_tag := "multi/" ++ (if cyclic then "cyclic" else "acyclic") ++ "/" ++ use ++ "/" ++ inv ++ "/" ++ real |}
        | _, _ => bad_line
        end
      else bad_line
  | _ => bad_line
  end.
