(* Eval18.v — evaluation of C18 observations (stub: replaced when C18 is built). *)
From Verif Require Import Base Sexp.
Open Scope string_scope.

Definition eval18 (e : sexp) : verdict := bad_line.
