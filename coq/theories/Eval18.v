(* Eval18.v — evaluation of C18 observations.

   (memhist (sig (TY..) NRES) FKIND VARIANT ((ARG..)..) (res ((DIRECT MEM)..) ((IDX SAME)..)))
       one call history against the function returned by the generated deriveMem:
       per call the arguments, what f returns when called directly (DIRECT) and what the memoised
       function returned (MEM), each `(ret V..)` or `panic`; then the invocations of the
       instrumented f made through the memoised function: index of the call during which it
       happened, and whether f received exactly that call's arguments.
       VARIANT = derived | coll (the emitted code with its hash call replaced by a constant).
       The oracle f of the model is the table call-arguments -> DIRECT.
   (memre (sig (TY..) NRES) FKIND VARIANT ((ARG..)..) RULES0 (OUTER..)
          (res ((KEY (INNER..))..) (DIRECT..) (MEM..) ((IDX SAME)..)))
       a RE-ENTRANT call history: the instrumented f, when its arguments are Equal to the tuple
       number KEY of the universe ((ARG..)..), calls the memoised function itself on the tuples
       number INNER.. (in order) and returns a function of its arguments and of the results of
       those calls.  The rules in `res` are the ones the driver used (rank order: it drops inner
       calls that would not be well-founded; RULES0 is what the harness proposed); the evaluator
       checks well-foundedness itself ([rules_wf], proved sound: C18_rules_wf_sound).
       DIRECT.. = f on every tuple of the universe, computed by the un-memoised recursion;
       OUTER = the outer calls (tuple numbers), MEM.. = what the memoised function returned on
       them; then every invocation of f made through the memoised function — outer and inner —
       in the order f was entered: tuple number, and whether f received exactly that tuple.
   (gen (sig (TY..) NRES) CLASS)
       goderive + go vet on a package that memoises one function of that signature. *)
From Coq Require Import String.
From Verif Require Import Base Sexp Go.Ty Go.Val Go.Equal Go.Compare Go.Hash Mem.Model Mem.Reentrant.
Open Scope string_scope.

(* ---------- structural identity of values (labels included) ---------- *)
Fixpoint val_eqb (x y : val) {struct x} : bool :=
  let fix lst (a b : list val) : bool :=
    match a, b with
    | [], [] => true
    | p :: a', q :: b' => (val_eqb p q && lst a' b')%bool
    | _, _ => false
    end in
  match x, y with
  | VBool a, VBool b => Bool.eqb a b
  | VInt a, VInt b => Z.eqb a b
  | VF n m, VF n' m' => (Bool.eqb n n' && N.eqb m m')%bool
  | VC a b c d, VC a' b' c' d' => (Bool.eqb a a' && N.eqb b b' && Bool.eqb c c' && N.eqb d d')%bool
  | VStr a, VStr b => bytes_eqb a b
  | VNilP, VNilP => true
  | VPtr l v, VPtr l' v' => (N.eqb l l' && val_eqb v v')%bool
  | VNilS, VNilS => true
  | VSl l es sp, VSl l' es' sp' => (N.eqb l l' && lst es es' && lst sp sp')%bool
  | VNilM, VNilM => true
  | VMap l kvs, VMap l' kvs' =>
      (N.eqb l l' &&
       (fix mp (a : list (val * val)) (b : list (val * val)) : bool :=
          match a, b with
          | [], [] => true
          | kv :: a', kv' :: b' => (val_eqb (fst kv) (fst kv') && val_eqb (snd kv) (snd kv') && mp a' b')%bool
          | _, _ => false
          end) kvs kvs')%bool
  | VArr a, VArr b => lst a b
  | VSt a, VSt b => lst a b
  | _, _ => false
  end.

Fixpoint list_eqb {A} (eqb : A -> A -> bool) (a b : list A) : bool :=
  match a, b with
  | [], [] => true
  | x :: a', y :: b' => (eqb x y && list_eqb eqb a' b')%bool
  | _, _ => false
  end.
Definition vals_eqb := list_eqb val_eqb.
Definition outcome_eqb (a b : outcome (list val)) : bool :=
  match a, b with
  | Ret x, Ret y => vals_eqb x y
  | Panic, Panic => true
  | _, _ => false
  end.

(* ---------- printing (only for the replay file) ---------- *)
Fixpoint val_sexp (v : val) : sexp :=
  let nn (n : N) := Num (Z.of_N n) in
  match v with
  | VBool b => L [Sym "b"; of_bool b]
  | VInt z => L [Sym "i"; Num z]
  | VF n m => L [Sym "f"; of_bool n; nn m]
  | VC a b c d => L [Sym "c"; of_bool a; nn b; of_bool c; nn d]
  | VStr s => L (Sym "s" :: map nn s)
  | VNilP => Sym "nilp"
  | VPtr l x => L [Sym "p"; nn l; val_sexp x]
  | VNilS => Sym "nils"
  | VSl l es sp => L [Sym "sl"; nn l; L (map val_sexp es); L (map val_sexp sp)]
  | VNilM => Sym "nilm"
  | VMap l kvs => L [Sym "m"; nn l; L (map (fun kv => L [val_sexp (fst kv); val_sexp (snd kv)]) kvs)]
  | VArr es => L (Sym "a" :: map val_sexp es)
  | VSt fs => L (Sym "st" :: map val_sexp fs)
  end.
Definition outcome_sexp (o : outcome (list val)) : sexp :=
  match o with Ret vs => L (Sym "ret" :: map val_sexp vs) | Panic => Sym "panic" end.

(* ---------- parsing ---------- *)
Definition parse_outcome (e : sexp) : option (outcome (list val)) :=
  match e with
  | Sym s => if String.eqb s "panic" then Some Panic else None
  | L (Sym s :: vs) => if String.eqb s "ret" then option_map Ret (map_opt parse_val vs) else None
  | _ => None
  end.

Definition parse_sig (e : sexp) : option (list ty * nat) :=
  match e with
  | L [Sym s; L tys; Num n] =>
      if String.eqb s "sig" then
        match map_opt parse_ty tys with Some ps => Some (ps, Z.to_nat n) | None => None end
      else None
  | _ => None
  end.

Definition parse_args (e : sexp) : option (list val) :=
  match e with L vs => map_opt parse_val vs | _ => None end.
Definition parse_dm (e : sexp) : option (outcome (list val) * outcome (list val)) :=
  match e with
  | L [d; m] => match parse_outcome d, parse_outcome m with Some d', Some m' => Some (d', m') | _, _ => None end
  | _ => None
  end.
Definition parse_fcall (e : sexp) : option (nat * bool) :=
  match e with L [Num i; Num s] => Some (Z.to_nat i, Z.eqb s 1) | _ => None end.

(* ---------- the oracle: f as the table observed by calling it directly ---------- *)
Definition f_tab (tab : list (list val * outcome (list val))) (a : list val) : outcome (list val) :=
  match find (fun e => vals_eqb (fst e) a) tab with Some e => snd e | None => Panic end.

Fixpoint forall_pairs {A} (p : A -> A -> bool) (l : list A) : bool :=
  match l with [] => true | x :: l' => (forallb (p x) l' && forall_pairs p l')%bool end.
Fixpoint exists_pair {A} (p : A -> A -> bool) (l : list A) : bool :=
  match l with [] => false | x :: l' => (existsb (p x) l' || exists_pair p l')%bool end.

Definition form_tag (ps : list ty) : string :=
  match form_of ps, ps with
  | FZero, _ => "zero"
  | FMap, [_] => "map1"
  | FMap, _ => "mapN"
  | FBuck, [_] => "bucket1"
  | FBuck, _ => "bucketN"
  end.
Definition nat_tag (n : nat) : string :=
  match n with 0 => "0" | 1 => "1" | 2 => "2" | 3 => "3" | _ => "4+" end%nat.

Definition coll_hash : N := 7.

(* hardening round 4: call histories in which two arguments are different views of ONE backing array
   (the same label with different lengths: buf[:2] and buf[:3]) — they share memory and are not Equal.
   Only a coverage tag: the model and the specification compare elements, never addresses of slices. *)
Fixpoint sl_views (v : val) : list (N * nat) :=
  match v with
  | VSl l es _ => (l, List.length es) :: flat_map sl_views es
  | VPtr _ x => sl_views x
  | VArr es | VSt es => flat_map sl_views es
  | VMap _ kvs => flat_map (fun kv => sl_views (snd kv)) kvs
  | _ => []
  end.
Definition resliced (h : list (list val)) : bool :=
  exists_pair (fun a b => (N.eqb (fst a) (fst b) && negb (Nat.eqb (snd a) (snd b)))%bool)
              (flat_map (flat_map sl_views) h).

(* hardening round 5: does the history hold two arguments that derived Equal tells apart and derived
   Hash does not (each hash computed once) *)
Definition real_collision (ps : list ty) (h : list (list val)) : bool :=
  let hk := map (fun a => (a, hashm [] (key_ty ps) (key_val a))) h in
  exists_pair (fun p q => match snd p, snd q with
                          | Ok x, Ok y => (N.eqb x y && negb (args_equal ps (fst p) (fst q)))%bool
                          | _, _ => false
                          end) hk.

Definition eval_hist (ps : list ty) (nres : nat) (fkind variant : string)
    (calls : list (list val)) (dms : list (outcome (list val) * outcome (list val)))
    (fcalls : list (nat * bool)) : verdict :=
  let h := calls in
  let directs := map fst dms in
  let mems := map snd dms in
  let tab := combine h directs in
  let f := f_tab tab in
  let keq := args_equal ps in
  let coll := String.eqb variant "coll" in
  let hashr := if coll then (fun _ : val => Ok coll_hash) else (fun k => hashm [] (key_ty ps) k) in
  let typed := (forallb (args_typed ps) h && Nat.eqb (List.length dms) (List.length h))%bool in
  let real_calls := map (fun ib => nth (fst ib) h []) fcalls in
  let sames := forallb (fun ib => (snd ib && Nat.ltb (fst ib) (List.length h))%bool) fcalls in
  (* --- specification, from the property text --- *)
  let respects := forall_pairs (fun p q => (negb (keq (fst p) (fst q)) || outcome_eqb (snd p) (snd q))%bool) tab in
  let ret_by_class := forall_pairs (fun p q => (negb (keq (fst p) (fst q))
                                      || Bool.eqb (returns f (fst p)) (returns f (fst q)))%bool) tab in
  let obs_ok := (negb respects || list_eqb outcome_eqb mems directs)%bool in
  let calls_ok := (negb ret_by_class || list_eqb vals_eqb real_calls (spec_calls f keq h))%bool in
  let count_ok := (negb ret_by_class ||
                   forallb (fun a => Nat.eqb (count_class keq a real_calls)
                                       (if returns f a then 1%nat else count_class keq a h)) h)%bool in
  let spec_ok := (obs_ok && calls_ok && count_ok && sames)%bool in
  (* --- model --- *)
  let m := mem_run_with hashr ps f h in
  let hit := Nat.ltb (List.length fcalls) (List.length h) in
  let eqni := exists_pair (fun a b => (keq a b && negb (vals_eqb a b))%bool) h in
  let pan := existsb (fun d => match d with Panic => true | _ => false end) directs in
  (* hardening round 5: two arguments of the history that are NOT Equal and have the same derived Hash —
     a real collision in the emitted table (bucket forms, the emitted code itself, not the copy with the
     constant hash).  Only a coverage tag. *)
  let realcoll := match form_of ps with
                  | FBuck => (negb coll && real_collision ps h)%bool
                  | _ => false
                  end in
  let tag := "mem/" ++ form_tag ps ++ "/res" ++ nat_tag nres ++ "/" ++ fkind ++ "/" ++ variant
             ++ (if hit then "/hit" else "/nohit") ++ (if eqni then "/equal-not-identical" else "")
             ++ (if resliced h then "/resliced-views" else "")
             ++ (if realcoll then "/real-hash-collision" else "")
             ++ (if respects then "" else "/f-separates-equal-args") ++ (if pan then "/f-panics" else "") in
  match m with
  | Ok (st, outs) =>
      {| v_known := true;
         v_model_ok := (list_eqb outcome_eqb outs mems && list_eqb vals_eqb (rev (log st)) real_calls && sames)%bool;
         v_spec_ok := spec_ok;
         v_guard := typed;
         v_model := L [Sym "res"; L (map outcome_sexp outs); L (map (fun a => L (map val_sexp a)) (rev (log st)))];
         v_tag := tag |}
  | Unsup =>
      (* the generator refuses Equal/Hash of the key type: not a signature of the property *)
      {| v_known := true; v_model_ok := true; v_spec_ok := spec_ok; v_guard := false;
         v_model := Sym "unsupported"; v_tag := tag ++ "/unsupported-key" |}
  | _ =>
      {| v_known := typed; v_model_ok := false; v_spec_ok := spec_ok; v_guard := false;
         v_model := Sym "stuck"; v_tag := tag ++ "/stuck" |}
  end.

(* ---------- re-entrant histories ---------- *)
Definition parse_idx (e : sexp) : option nat := match e with Num z => Some (Z.to_nat z) | _ => None end.
Definition parse_rule (e : sexp) : option (nat * list nat) :=
  match e with
  | L [Num k; L is] => option_map (pair (Z.to_nat k)) (map_opt parse_idx is)
  | _ => None
  end.

Definition eval_re (ps : list ty) (nres : nat) (fkind variant : string)
    (us : list (list val)) (rules_i : list (nat * list nat)) (outer_i : list nat)
    (directs mems : list (outcome (list val))) (fcalls : list (nat * bool)) : verdict :=
  let nu := List.length us in
  let tup := fun i : nat => nth i us [] in
  let rules := map (fun r => (tup (fst r), map tup (snd r))) rules_i in
  let h := map tup outer_i in
  let keq := args_equal ps in
  let inner := rule_inner ps rules in
  let rank := rule_rank ps rules in
  let coll := String.eqb variant "coll" in
  let hashr := if coll then (fun _ : val => Ok coll_hash) else (fun k => hashm [] (key_ty ps) k) in
  (* F: the un-memoised recursion, as observed; f's body given the results of its inner calls *)
  let ftab := combine us directs in
  let Fd := f_tab ftab in
  let fin := fun (a : list val) (rss : list (list val)) =>
               match all_ret (map Fd (inner a)) with
               | Some rss0 => if list_eqb vals_eqb rss rss0 then Fd a else Panic
               | None => Panic
               end in
  let fuel := S (S (List.length rules)) in
  let idx_ok := (forallb (fun i => Nat.ltb i nu) outer_i
                 && forallb (fun r => Nat.ltb (fst r) nu && forallb (fun i => Nat.ltb i nu) (snd r)) rules_i)%bool in
  let typed := (forallb (args_typed ps) us && Nat.eqb (List.length directs) nu
                && Nat.eqb (List.length mems) (List.length outer_i) && idx_ok)%bool in
  let wf := rules_wf ps rules in
  let real_calls := map (fun ib => tup (fst ib)) fcalls in
  let sames := forallb (fun ib => (snd ib && Nat.ltb (fst ib) nu)%bool) fcalls in
  (* --- specification, from the property text --- *)
  let respects := forall_pairs (fun p q => (negb (keq (fst p) (fst q)) || outcome_eqb (snd p) (snd q))%bool) ftab in
  let obs_ok := (negb respects || list_eqb outcome_eqb mems (map Fd h))%bool in
  let cnt := fun c => count_class keq c real_calls in
  let count_ok := (negb respects ||
                   (forallb (fun c => (negb (returns Fd c) || Nat.leb (cnt c) 1)%bool) us
                    && forallb (fun c => (negb (returns Fd c) || Nat.eqb (cnt c) 1)%bool) h
                    && forallb (fun x => (negb (returns Fd x) || forallb (fun b => Nat.eqb (cnt b) 1) (inner x))%bool) real_calls))%bool in
  let calls_ok := (negb respects ||
                   match irun inner fin keq fuel h with
                   | ROk (it, _) => list_eqb vals_eqb real_calls (icalls it)
                   | RErr _ => false
                   end)%bool in
  let spec_ok := (obs_ok && calls_ok && count_ok && sames)%bool in
  (* --- model --- *)
  let m := rmem_run_with hashr ps inner fin fuel h in
  let depth := fold_right Nat.max O (map rank h) in
  let collides := existsb (fun r => existsb (fun b =>
                     match hashr (key_val (fst r)), hashr (key_val b) with
                     | Ok x, Ok y => (N.eqb x y && negb (keq (fst r) b))%bool
                     | _, _ => false
                     end) (snd r)) rules in
  let hit := Nat.ltb (List.length fcalls) (List.length h + List.length (flat_map inner h)) in
  let pan := existsb (fun d => match d with Panic => true | _ => false end) directs in
  let tag := "memre/" ++ form_tag ps ++ "/res" ++ nat_tag nres ++ "/" ++ fkind ++ "/" ++ variant
             ++ "/depth" ++ nat_tag depth
             ++ (if collides then "/inner-collides-with-outer" else "")
             ++ (if hit then "/hit" else "/nohit")
             ++ (if respects then "" else "/f-separates-equal-args") ++ (if pan then "/f-panics" else "") in
  match m with
  | ROk (st, outs) =>
      {| v_known := true;
         v_model_ok := (list_eqb outcome_eqb outs mems && list_eqb vals_eqb (rev (log st)) real_calls && sames)%bool;
         v_spec_ok := spec_ok;
         v_guard := (typed && wf)%bool;
         v_model := L [Sym "res"; L (map outcome_sexp outs); L (map (fun a => L (map val_sexp a)) (rev (log st)))];
         v_tag := tag ++ (if wf then "" else "/not-wellfounded") |}
  | RErr EUnsup =>
      {| v_known := true; v_model_ok := true; v_spec_ok := spec_ok; v_guard := false;
         v_model := Sym "unsupported"; v_tag := tag ++ "/unsupported-key" |}
  | RErr EFuel =>
      (* ill-founded rules (outside the guard): real Go would not have terminated *)
      {| v_known := typed; v_model_ok := negb wf; v_spec_ok := spec_ok; v_guard := false;
         v_model := Sym "out-of-fuel"; v_tag := tag ++ "/out-of-fuel" |}
  | RErr _ =>
      {| v_known := typed; v_model_ok := false; v_spec_ok := spec_ok; v_guard := false;
         v_model := Sym "stuck"; v_tag := tag ++ "/stuck" |}
  end.

(* is the signature one the generator accepts (bucket form: Equal and Hash of the key type) *)
Definition sig_supported (ps : list ty) : bool :=
  match form_of ps with
  | FBuck => (eq_sup [] Top (key_ty ps) && hash_sup (key_ty ps))%bool
  | _ => true
  end.

Definition eval_gen (ps : list ty) (nres : nat) (cls : string) : verdict :=
  let sup := sig_supported ps in
  let real_ok := String.eqb cls "ok" in
  let real_illformed := String.eqb cls "not-wellformed" in
  let real_err := String.eqb cls "generator-error" in
  let crash := (String.eqb cls "panic" || String.eqb cls "timeout")%bool in
  let tagb := form_tag ps ++ "/res" ++ nat_tag nres in
  if sup then
    (* the property: the emitted code is well-formed for every form and number of results;
       model: the repaired generator [gen_wellformed]; the pinned generator [gen_wellformed_old]
       is ill-formed exactly in the class of the known finding *)
    let old_bad := negb (gen_wellformed_old ps nres) in
    {| v_known := true;
       v_model_ok := (if real_ok then gen_wellformed ps nres
                      else if real_illformed then old_bad else crash);
       v_spec_ok := (real_ok || crash)%bool;
       (* the class of the known finding (pinned generator ill-formed, and the real one is) lies
          outside the guard: it is reported through its tag, as a known finding when listed as
          open, as a violation otherwise *)
       v_guard := negb (old_bad && real_illformed);
       v_model := Sym (if gen_wellformed ps nres then "ok" else "not-wellformed");
       v_tag := (if old_bad then "known:mem-noresult-noncomparable-illformed/" else "gen/") ++ tagb
                ++ (if crash then "/generator-crash-see-C09" else "") |}
  else
    let ok := (crash || real_err)%bool in
    {| v_known := true; v_model_ok := ok; v_spec_ok := ok; v_guard := true;
       v_model := Sym "generator-error"; v_tag := "gen/unsupported-key/" ++ tagb |}.

Definition eval18 (e : sexp) : verdict :=
  match e with
  | L [Sym k; sg; Sym fkind; Sym variant; L calls; L [Sym _; L dms; L fcalls]] =>
      if String.eqb k "memhist" then
        match parse_sig sg, map_opt parse_args calls, map_opt parse_dm dms, map_opt parse_fcall fcalls with
        | Some (ps, nres), Some cs, Some dms', Some fcs => eval_hist ps nres fkind variant cs dms' fcs
        | _, _, _, _ => bad_line
        end
      else bad_line
  | L [Sym k; sg; Sym fkind; Sym variant; L us; L _; L outer; L [Sym _; L rules; L directs; L mems; L fcalls]] =>
      if String.eqb k "memre" then
        match parse_sig sg, map_opt parse_args us, map_opt parse_rule rules, map_opt parse_idx outer with
        | Some (ps, nres), Some us', Some rules', Some outer' =>
            match map_opt parse_outcome directs, map_opt parse_outcome mems, map_opt parse_fcall fcalls with
            | Some ds, Some ms, Some fcs => eval_re ps nres fkind variant us' rules' outer' ds ms fcs
            | _, _, _ => bad_line
            end
        | _, _, _, _ => bad_line
        end
      else bad_line
  | L [Sym k; sg; Sym cls] =>
      if String.eqb k "gen" then
        match parse_sig sg with
        | Some (ps, nres) => eval_gen ps nres cls
        | None => bad_line
        end
      else bad_line
  | _ => bad_line
  end.
