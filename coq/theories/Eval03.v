(* Eval03.v — evaluation of C03 observations: generated deriveCompare vs model and order spec. *)
From Coq Require Import String.
From Verif Require Import Base Sexp Go.Ty Go.Val Go.Equal Go.Compare Go.CompareSpec Go.Methods.
Open Scope string_scope.

Definition zres_sexp (r : res Z) : sexp :=
  match r with
  | Ok c => L [Sym "ret"; L [Sym "i"; Num c]]
  | Pan => Sym "panic" | Unsup => Sym "unsupported" | Stuck => Sym "stuck"
  end.

Definition get_i (e : sexp) : option Z :=
  match e with L [Sym s; Num z] => if String.eqb s "i" then Some z else None | _ => None end.
Definition get_b (e : sexp) : option bool :=
  match e with L [Sym s; Num z] => if String.eqb s "b" then Some (Z.eqb z 1) else None | _ => None end.

(* real result vs model; a type the model refuses (Unsup) but goderive serves through an
   assignable named twin is not judged against the model (the specification still applies) *)
Definition zmok (m : res Z) (real : sexp) : bool :=
  match m with Unsup => true | _ => sexp_eqb (zres_sexp m) real end.

Definition in_range (c : Z) : bool := (Z.eqb c (-1) || Z.eqb c 0 || Z.eqb c 1)%bool.
Definition sgn_tag (r : res Z) : string :=
  match r with Ok c => if Z.eqb c 0 then "zero" else if Z.ltb c 0 then "less" else "greater" | _ => "other" end.

Definition node_tag (t : ty) : string :=
  match resolve [] t with
  | Some r => match r_node r with
              | TB _ => "basic" | TP _ => "ptr" | TSl _ => "slice" | TAr _ _ => "array"
              | TM _ _ => "map" | TSt _ => "struct" | _ => "?" end
  | None => "?"
  end.

Definition eval03 (e : sexp) : verdict :=
  match e with
  | L [Sym k; tys; xs; ys; real] =>
      match parse_ty tys, parse_val xs, parse_val ys with
      | Some t, Some x, Some y =>
          let typed := (has_type [] t x && has_type [] t y)%bool in
          let mf := method_free t in
          let m := if mf then compare_model t x y else cmpm_m true [] t x y in
          if (String.eqb k "cmp" || String.eqb k "cmpc")%bool then
            (* specification: the encoding order, and 0 exactly when structurally equal *)
            let s := if mf then match spec_cmp [] t x y with Some c => Ok c | None => Stuck end else m in
            let zero_ok := match m, eqm_m [] Top t x y with
                           | Ok c, Ok b => Bool.eqb (Z.eqb c 0) b
                           | _, _ => false end in
            {| v_known := typed;
               v_model_ok := match m with Unsup => true | _ => sexp_eqb (zres_sexp m) real end;
               v_spec_ok := (sexp_eqb (zres_sexp s) real
                             && match s with Ok c => in_range c | _ => false end
                             && (zero_ok || negb (sexp_eqb (zres_sexp m) real)
                                 || match m with Unsup => true | _ => false end))%bool;
               v_guard := (typed && negb (vm_exposed t))%bool; v_model := zres_sexp m;
               v_tag := (if vm_exposed t then "known:compare-ignores-value-method/" else "")
                        ++ (if mf then "" else "methods/") ++ k ++ "/" ++ node_tag t ++ "/" ++ sgn_tag m |}
          else if String.eqb k "cmpeq" then
            match real with
            | L [Sym _; c; b] =>
                match get_i c, get_b b with
                | Some c', Some b' =>
                    {| v_known := typed;
                       v_model_ok := (zmok m (L [Sym "ret"; c])
                                      && match eqm_m [] Top t x y with Ok b'' => Bool.eqb b'' b' | Unsup => true | _ => false end)%bool;
                       v_spec_ok := Bool.eqb (Z.eqb c' 0) b';
                       v_guard := (typed && negb (vm_exposed t))%bool; v_model := zres_sexp m;
                       v_tag := (if vm_exposed t then "known:compare-ignores-value-method/" else "") ++ "cmpeq/" ++ node_tag t ++ "/" ++ (if b' then "equal" else "different") |}
                | _, _ => bad_line
                end
            | _ => bad_line
            end
          else bad_line
      | _, _, _ => bad_line
      end
  | L [Sym k; tys; xs; ys; zs; L [Sym _; a; b; c; d]] =>
      if String.eqb k "cmp3" then
        match parse_ty tys, parse_val xs, parse_val ys, parse_val zs, get_i a, get_i b, get_i c, get_i d with
        | Some t, Some x, Some y, Some z, Some a', Some b', Some c', Some d' =>
            let typed := (has_type [] t x && has_type [] t y && has_type [] t z)%bool in
            let mo := (zmok (cmpm_m true [] t x y) (L [Sym "ret"; a])
                       && zmok (cmpm_m true [] t y x) (L [Sym "ret"; b])
                       && zmok (cmpm_m true [] t y z) (L [Sym "ret"; c])
                       && zmok (cmpm_m true [] t x z) (L [Sym "ret"; d]))%bool in
            let antisym := Z.eqb a' (- b') in
            let trans := (negb (Z.leb a' 0 && Z.leb c' 0) || Z.leb d' 0)%bool in
            let trans0 := (negb (Z.eqb a' 0 && Z.eqb c' 0) || Z.eqb d' 0)%bool in
            {| v_known := typed; v_model_ok := mo;
               v_spec_ok := (antisym && trans && trans0 && in_range a' && in_range b' && in_range c' && in_range d')%bool;
               v_guard := typed; v_model := zres_sexp (cmpm_m true [] t x y);
               v_tag := "cmp3/" ++ node_tag t ++ "/" ++ (if (Z.leb a' 0 && Z.leb c' 0)%bool then "chain" else "nochain") |}
        | _, _, _, _, _, _, _, _ => bad_line
        end
      else bad_line
  | L [Sym k; tys; Sym cls] =>
      if String.eqb k "sup-cmp" then
        match parse_ty tys with
        | Some t =>
            let sup := (cmp_sup false t && eq_sup [] Top t)%bool in  (* the package also calls deriveEqual *)
            let real_ok := String.eqb cls "ok" in
            let real_err := String.eqb cls "generator-error" in
            let crash := (String.eqb cls "panic" || String.eqb cls "timeout")%bool in
            (* a type the model refuses can still be accepted by goderive when an identical named
               type of the package serves it by assignability (C08/C11's subject): not judged *)
            let ok := (crash || if sup then real_ok else (real_err || real_ok))%bool in
            {| v_known := true; v_model_ok := ok; v_spec_ok := ok; v_guard := true;
               v_model := Sym (if sup then "ok" else "generator-error");
               v_tag := "support/" ++ (if crash then "generator-crash-see-C09"
                                       else if sup then "supported"
                                       else if real_ok then "accepted-beyond-model" else "unsupported") |}
        | None => bad_line
        end
      else bad_line
  | _ => bad_line
  end.
