(* Eval03.v — evaluation of C03 observations (stub: replaced when C03 is built). *)
From Verif Require Import Base Sexp.
Open Scope string_scope.

Definition eval03 (e : sexp) : verdict := bad_line.
