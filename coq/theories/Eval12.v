(* Eval12.v — evaluation of C12 observations: real goderive vs the model of sortPlugins / dispatch /
   flag handling / newName, and vs their independent specifications. *)
From Verif Require Import Base Sexp Prefix.Str Prefix.Dispatch Prefix.Names Prefix.TableFacts.
Open Scope string_scope.

Definition get_str (e : sexp) : option str := get_ns e.

Definition get_plugin (e : sexp) : option plugin :=
  match e with
  | L [n; p] => match get_str n, get_str p with
                | Some n', Some p' => Some (mkP n' p')
                | _, _ => None
                end
  | _ => None
  end.

Definition get_plugins (e : sexp) : option (list plugin) :=
  match e with L l => map_opt get_plugin l | _ => None end.

Definition get_pair (e : sexp) : option (str * str) :=
  match e with
  | L [n; p] => match get_str n, get_str p with
                | Some n', Some p' => Some (n', p')
                | _, _ => None
                end
  | _ => None
  end.

Definition get_pairs (e : sexp) : option (list (str * str)) :=
  match e with L l => map_opt get_pair l | _ => None end.

Fixpoint index_of (n : str) (ps : list plugin) (i : Z) : Z :=
  match ps with
  | [] => (-1)%Z
  | p :: r => if str_eqb n (pname p) then i else index_of n r (i + 1)%Z
  end.

Definition idx (ps : list plugin) (p : plugin) : Z := index_of (pname p) ps 0%Z.

Definition mkv (guard : bool) (tag : string) (model : sexp) (model_ok spec_ok : bool) : verdict :=
  {| v_known := true; v_model_ok := model_ok; v_spec_ok := spec_ok;
     v_guard := guard; v_model := model; v_tag := tag |}.

(* --- sort: the contract of sort.Slice, checked on the real output --- *)
Fixpoint all_before (a : plugin) (l : list plugin) : bool :=
  match l with [] => true | b :: t => before a b && all_before a t end.
Fixpoint sorted_b (l : list plugin) : bool :=
  match l with [] => true | a :: t => all_before a t && sorted_b t end.

Fixpoint longest_first_b (l : list plugin) : bool :=
  match l with
  | [] => true
  | a :: t => forallb (fun b => Nat.leb (List.length (pprefix b)) (List.length (pprefix a))) t && longest_first_b t
  end.

Fixpoint count_z (x : Z) (l : list Z) : nat :=
  match l with [] => 0 | y :: t => (if Z.eqb x y then 1 else 0) + count_z x t end.
Definition is_perm_of_range (n : nat) (l : list Z) : bool :=
  Nat.eqb (List.length l) n && forallb (fun i => Nat.eqb (count_z (Z.of_nat i) l) 1) (seq 0 n).

Definition nth_plugin (ps : list plugin) (i : Z) : option plugin :=
  if (i <? 0)%Z then None else nth_error ps (Z.to_nat i).

Definition nested_b (ps : list plugin) : bool := negb (no_nesting_b ps).

Definition size_tag (n : nat) : string :=
  if Nat.leb n 2 then "n<=2" else if Nat.leb n 12 then "n<=12" else "n>12".

Definition eval_sort (pse reale : sexp) : verdict :=
  match get_plugins pse, get_zs reale with
  | Some ps, Some real =>
      let guard := distinct_prefixes_b ps && distinct_names_b ps in
      let model := map (idx ps) (sort_plugins ps) in
      let model_ok := sexp_eqb (of_zs model) (of_zs real) in
      (* what the property needs of the order: a permutation, longest prefixes first (the direction
         of the tie-break among equally long prefixes is the model's business, not the property's) *)
      let spec_ok :=
        is_perm_of_range (List.length ps) real &&
        match map_opt (nth_plugin ps) real with
        | Some l => longest_first_b l
        | None => false
        end in
      mkv guard ("sort/" ++ size_tag (List.length ps) ++ (if nested_b ps then "/nested" else "/flat"))
          (of_zs model) model_ok spec_ok
  | _, _ => bad_line
  end.

(* --- dispatch under flags --- *)
Definition count_matches (ps : list plugin) (name : str) : nat :=
  List.length (filter (fun p => is_prefix (pprefix p) name) ps).

Definition eval_dispatch (pse ge ovse ne reale : sexp) : verdict :=
  match get_plugins pse, get_str ge, get_pairs ovse, get_str ne, get_num reale with
  | Some ps, Some g, Some ovs, Some name, Some real =>
      let eff := map (effective g ovs) ps in
      let guard := distinct_prefixes_b eff && distinct_names_b ps in
      let out (o : option plugin) : Z := match o with Some p => idx ps p | None => (-1)%Z end in
      let model := out (dispatch (sort_plugins eff) name) in
      let spec := out (spec_dispatch eff name) in
      let k := count_matches eff name in
      mkv guard
          ("dispatch/" ++ (match k with 0 => "none" | 1 => "single" | _ => "nested" end)%nat
           ++ (if str_eqb g derive_head then "" else "/global")
           ++ (match ovs with [] => "" | _ => "/override" end))
          (Num model) (Z.eqb model real) (Z.eqb spec real)
  | _, _, _, _, _ => bad_line
  end.

(* --- newName --- *)
Definition mem_str (l : list str) (x : str) : bool := existsb (str_eqb x) l.

Fixpoint find_cand (fuel i : nat) (prefix name real : str) : option nat :=
  match fuel with
  | O => None
  | S f => if str_eqb (cand prefix name i) real then Some i else find_cand f (S i) prefix name real
  end.

Definition mint_fuel : nat := 200.

Definition eval_mint (pe ne te reale : sexp) : verdict :=
  match get_str pe, get_str ne, te, get_str reale with
  | Some prefix, Some name, L tl, Some real =>
      match map_opt get_str tl with
      | Some taken =>
          let model := new_name mint_fuel prefix name (mem_str taken) in
          let model_ok := match model with Some m => str_eqb m real | None => false end in
          let pos := find_cand mint_fuel 0 prefix name real in
          let spec_ok :=
            match pos with
            | Some i => negb (mem_str taken real) &&
                        forallb (fun j => mem_str taken (cand prefix name j)) (seq 0 i)
            | None => false
            end in
          let tag := match pos with
                     | Some 0 => "mint/bare-prefix"
                     | Some 1 => "mint/underscore"
                     | Some (S j) => if Nat.ltb (List.length name) j then "mint/numbered" else "mint/type-initials"
                     | None => "mint/not-a-candidate"
                     end%nat in
          mkv true tag (match model with Some m => of_ns m | None => Sym "fuel" end) model_ok spec_ok
      | None => bad_line
      end
  | _, _, _, _ => bad_line
  end.

Definition eval12 (e : sexp) : verdict :=
  match e with
  | L [Sym k; a; b] => if String.eqb k "sort" then eval_sort a b else bad_line
  | L [Sym k; a; b; c; d] => if String.eqb k "mint" then eval_mint a b c d else bad_line
  | L [Sym k; a; b; c; d; r] => if String.eqb k "dispatch" then eval_dispatch a b c d r else bad_line
  | _ => bad_line
  end.
