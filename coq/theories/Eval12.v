(* Eval12.v — evaluation of C12 observations (stub: replaced when C12 is built). *)
From Verif Require Import Base Sexp.
Open Scope string_scope.

Definition eval12 (e : sexp) : verdict := bad_line.
