(* Eval10.v — evaluation of C10 observations (stub: replaced when C10 is built). *)
From Verif Require Import Base Sexp.
Open Scope string_scope.

Definition eval10 (e : sexp) : verdict := bad_line.
