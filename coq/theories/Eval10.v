(* Eval10.v — evaluation of C10 observations.
   (rewrite OLD EXPECTED TOKS_BASE SUBST TOKS_OBS OBSERVED)
       one user file rewritten by goderive -autoname/-dedup:
       OLD       bytes of the file before the run
       EXPECTED  go/format of OLD with the renamed call identifiers substituted by position
                 (computed by the harness from an independent go/parser parse)
       TOKS_BASE tokens (kind bytes) of go/format(OLD); SUBST ((pos name)...) the renamed
                 call identifiers as token positions; TOKS_OBS tokens of OBSERVED
       OBSERVED  bytes of the file after the run
   (effects (A D) PLUGINS RESERVED DERIVED_BEFORE VIEWS (OUTCOME TOUCHED NAMES DERIVED_AFTER))
       the file effects of one goderive run on one package, against [run].
       A call is (NAME TY BASE VALID ARGS GENOK): ARGS = 0 or the list of the positions (in the
       file's call list) of the derive calls that are its arguments.  Such a call has a typed
       argument list (not HasUndefined) as soon as every one of those callee NAMES is defined,
       i.e. was generated into derived.gen.go by the previous pass (for whatever types: the
       result type comes with the plugin) or is a function of the package.  When a single view
       is given, the loader's later answers are derived from it ([build_views]): view k has
       the call-site names the passes over views 0..k-1 left in the files; the first load
       ignores derived.gen.go, so there every call with ARGS is undefined.
       A file is (CALL...) or (broken CALL...) for a file that does not parse.
   (invocation (A D) CWD BEFORE PKGS 0 AFTER)
       one successful goderive run over several packages, started in directory CWD (directories
       are numbers): BEFORE / AFTER = the directories that hold a derived.gen.go before / after
       (ascending), PKGS = the loaded packages in processing order, each (DIR FILES CONTENT):
       FILES = 0 for a package the loader reports without source files, CONTENT = something is
       generated for it.  Against [inv_run] of Rewrite/Invocation.v (which places the
       operations of [run] in the tree). *)
From Verif Require Import Base Sexp.
From Verif.Rewrite Require Import Files Tokens Names Effects Invocation.
Open Scope string_scope.

Definition get_tok (e : sexp) : option token :=
  match e with
  | L [Num k; b] =>
      match get_ns b with
      | Some s => Some (if (k =? 0)%Z then TIdent s else if (k =? 1)%Z then TOther s else TComment s)
      | None => None
      end
  | _ => None
  end.
Definition get_toks (e : sexp) : option (list token) :=
  match e with L l => map_opt get_tok l | _ => None end.
Definition get_subst (e : sexp) : option subst :=
  match e with
  | L l => map_opt (fun x => match x with
                             | L [p; n] => match get_nat p, get_ns n with
                                           | Some p', Some n' => Some (p', n')
                                           | _, _ => None end
                             | _ => None end) l
  | _ => None
  end.

Fixpoint toks_eqb (a b : list token) : bool :=
  match a, b with
  | [], [] => true
  | x :: a', y :: b' => token_eqb x y && toks_eqb a' b'
  | _, _ => false
  end.

Definition len_rel (old new : bytes) : string :=
  match Nat.compare (List.length new) (List.length old) with
  | Lt => "shorter" | Eq => "equal" | Gt => "longer" end.

Definition eval_rewrite (old expected : bytes) (base : list token) (sg : subst)
           (obs_toks : list token) (observed : bytes) : verdict :=
  let model_bytes := open_write Trunc old expected in
  let model_toks := rename sg base in
  let rel := len_rel old expected in
  let exact := bytes_eqb observed expected in
  let code_same := toks_eqb (filter (fun t => negb (is_comment t)) obs_toks)
                            (filter (fun t => negb (is_comment t)) model_toks) in
  let comments_same := toks_eqb (filter is_comment obs_toks) (filter is_comment model_toks) in
  if exact then
    {| v_known := true;
       v_model_ok := bytes_eqb observed model_bytes && toks_eqb obs_toks model_toks;
       v_spec_ok := true; v_guard := true; v_model := of_ns model_bytes;
       v_tag := "rewrite/" ++ rel ++ (match sg with [_] => "/1-renamed" | _ => "/n-renamed" end) |}
  else if code_same && comments_same then
    (* every token retained in order, only white space / the placement of comments between
       tokens differs from gofmt: the renamed identifier was given no source position *)
    {| v_known := true; v_model_ok := true; v_spec_ok := false; v_guard := false;
       v_model := of_ns model_bytes; v_tag := "known:c10-rename-layout/" ++ rel |}
  else
    {| v_known := true; v_model_ok := false; v_spec_ok := false; v_guard := true;
       v_model := of_ns model_bytes;
       v_tag := "rewrite/" ++ rel ++
                (if bytes_eqb observed (open_write NoTrunc old expected) then "/old-tail-left"
                 else "/corrupt") |}.

(* ---------- effects ---------- *)

Definition get_bool (e : sexp) : option bool := option_map (fun z => negb (z =? 0)%Z) (get_num e).

Definition get_args (e : sexp) : option (list nat) :=
  match e with
  | Num _ => Some []
  | L l => map_opt get_nat l
  | _ => None
  end.

(* a plain number in the ARGS place: 0 = typed, other = undefined for ever (no argument calls known) *)
Definition get_bool_dflt (e : sexp) : bool :=
  match get_bool e with Some b => b | None => false end.

Definition get_call (pos : nat) (e : sexp) : option (call * list nat) :=
  match e with
  | L [n; ty; b; va; un; ge] =>
      match get_ns n, get_nat ty, get_ns b, get_bool va, get_args un, get_bool ge with
      | Some n', Some ty', Some b', Some va', Some un', Some ge' =>
          Some ({| c_name := n'; c_pos := pos; c_ty := ty'; c_base := b'; c_valid := va';
                   c_undef := match un' with [] => get_bool_dflt un | _ => true end; c_genok := ge' |}, un')
      | _, _, _, _, _, _ => None
      end
  | _ => None
  end.

Fixpoint get_calls (pos : nat) (l : list sexp) : option (list (call * list nat)) :=
  match l with
  | [] => Some []
  | e :: r => match get_call pos e, get_calls (S pos) r with
              | Some c, Some cs => Some (c :: cs)
              | _, _ => None
              end
  end.

(* a file of the plan: does it parse, its calls with their depths *)
Definition pfile := (bool * list (call * list nat))%type.

Definition file_of (i : nat) (pf : pfile) : file :=
  {| f_path := User i; f_toks := []; f_calls := map fst (snd pf); f_parses := fst pf |}.

Fixpoint files_of (i : nat) (l : list pfile) : list file :=
  match l with [] => [] | pf :: r => file_of i pf :: files_of (S i) r end.

Fixpoint get_pfiles (l : list sexp) : option (list pfile) :=
  match l with
  | [] => Some []
  | L (Sym k :: cs) :: r =>
      if String.eqb k "broken" then
        match get_calls 0 cs, get_pfiles r with
        | Some cs', Some fs => Some ((false, cs') :: fs)
        | _, _ => None
        end
      else None
  | L cs :: r => match get_calls 0 cs, get_pfiles r with
                 | Some cs', Some fs => Some ((true, cs') :: fs)
                 | _, _ => None
                 end
  | _ => None
  end.

Definition get_names (e : sexp) : option (list name) :=
  match e with L l => map_opt get_ns l | _ => None end.

Definition get_view (plugins reserved : list name) (e : sexp) : option (pkg * list pfile) :=
  match e with
  | L [lo; L fs] =>
      match get_bool lo, get_pfiles fs with
      | Some lo', Some fs' => Some ({| p_loads := lo'; p_plugins := plugins; p_reserved := reserved;
                                       p_files := files_of 0 fs' |}, fs')
      | _, _ => None
      end
  | _ => None
  end.

Definition outcome_sym (o : outcome10) : string :=
  match o with
  | Success => "ok" | LoadError => "loaderr" | AddError => "adderr" | GeneratorError => "generr"
  | CannotGenerate => "cannot" | Crash => "crash" | OutOfViews => "outofviews" end.

Fixpoint insert_nat (x : nat) (l : list nat) : list nat :=
  match l with
  | [] => [x]
  | y :: r => if Nat.ltb x y then x :: l else if Nat.eqb x y then l else y :: insert_nat x r
  end.

Definition touched_users (ops : list op) : list nat :=
  fold_left (fun acc o => match op_path o with User i => insert_nat i acc | _ => acc end) ops [].

Definition derived_after (before : bool) (ops : list op) : bool :=
  fold_left (fun b o => match o with
                        | OCreate Derived _ => true
                        | ORemove Derived => false
                        | _ => b end) ops before.

(* the identifiers at the call sites of a file once the naming pass has gone over it *)
Definition names_after (l : list (file * subst)) (f : file) : list name :=
  let sg := match find (fun e => path_eqb (f_path (fst e)) (f_path f)) l with
            | Some e => snd e | None => [] end in
  map (fun c => match lookup (c_pos c) sg with Some n => n | None => c_name c end) (f_calls f).

Definition names_sexp (ns : list (list name)) : sexp := L (map (fun l => L (map of_ns l)) ns).

Fixpoint names2_eqb (a b : list (list name)) : bool :=
  match a, b with
  | [], [] => true
  | x :: a', y :: b' => names_eqb x y && names2_eqb a' b'
  | _, _ => false
  end.

Fixpoint nats_eqb (a b : list nat) : bool :=
  match a, b with
  | [], [] => true
  | x :: a', y :: b' => Nat.eqb x y && nats_eqb a' b'
  | _, _ => false
  end.

Fixpoint changed_files (i : nat) (orig real : list (list name)) : list nat :=
  match orig, real with
  | o :: orig', r :: real' => (if names_eqb o r then [] else [i]) ++ changed_files (S i) orig' real'
  | _, _ => []
  end.

(* ---------- the loader's later answers, derived from the plan ---------- *)

(* the plan's files as the loader reports them when the call sites carry [ns] and the names
   [defined] resolve to functions; a call given as undefined without argument calls stays so *)
Definition mem_name (n : name) (l : list name) : bool := existsb (bytes_eqb n) l.

Fixpoint recall (first : bool) (defined all : list name) (cs : list (call * list nat)) (ns : list name)
  : list (call * list nat) :=
  match cs with
  | [] => []
  | (c, args) :: r =>
      let n := match ns with x :: _ => x | [] => c_name c end in
      let und := match args with
                 | [] => c_undef c
                 | _ => first || existsb (fun a => negb (mem_name (nth a all []) defined)) args
                 end in
      ({| c_name := n; c_pos := c_pos c; c_ty := c_ty c; c_base := c_base c; c_valid := c_valid c;
          c_undef := und; c_genok := c_genok c |}, args) :: recall first defined all r (tl ns)
  end.

Fixpoint replan (first : bool) (defined : list name) (pfs : list pfile) (names : list (list name)) : list pfile :=
  match pfs with
  | [] => []
  | (ok, cs) :: r => (ok, recall first defined (hd [] names) cs (hd [] names)) :: replan first defined r (tl names)
  end.

Definition n_calls (pfs : list pfile) : nat :=
  fold_left (fun m pf => m + List.length (snd pf)) pfs 0.

(* the functions derived.gen.go defines after a pass: every name registered in a typesmap *)
Definition generated_names (res : gres (list tmap * list name)) : list name :=
  match res with
  | GOk (tms, _) => flat_map (fun tm => map fst (tm_f2t tm)) tms
  | _ => []
  end.

(* views k, k+1, ... each paired with the call-site names its naming pass leaves behind *)
Fixpoint build_views (fuel : nat) (first : bool) (defined : list name) (fl : flags) (v0 : pkg)
         (pfs : list pfile) (names : list (list name)) : list (pkg * list (list name)) :=
  match fuel with
  | 0 => []
  | S f =>
      let v := {| p_loads := if first then p_loads v0 else true; p_plugins := p_plugins v0;
                  p_reserved := p_reserved v0; p_files := files_of 0 (replan first defined pfs names) |} in
      let pass := names_pass true fl v in
      let passed := if p_loads v then fst pass else [] in
      let names' := map (names_after passed) (p_files v) in
      (v, names') :: build_views f false (p_reserved v0 ++ generated_names (snd pass)) fl v0 pfs names'
  end.

(* how many views the run consumes: the shortest prefix on which it does not run out of views *)
Fixpoint consumed (fl : flags) (views : list pkg) (n fuel : nat) : nat :=
  match fuel with
  | 0 => n
  | S f => match snd (run true Trunc (fun _ => []) (fun _ => []) fl (firstn n views)) with
           | OutOfViews => consumed fl views (S n) f
           | _ => n
           end
  end.

Definition passes_tag (n : nat) : string :=
  match n with 0 | 1 => "" | 2 => "/passes=2" | _ => "/passes=3+" end.

Definition count_tag (n : nat) : string :=
  match n with 0 => "0" | 1 => "1" | _ => "2+" end.

Definition eval_effects (fl : flags) (dbefore : bool) (given : list (pkg * list pfile)) (real : sexp) : verdict :=
  match given with
  | [] => bad_line
  | (v, pfs) :: more =>
    (* one view given: the later ones follow from the depths; several given: taken as they are *)
    let built := match more with
                 | [] => build_views (S (n_calls pfs)) true [] fl v pfs (map (fun f => map c_name (f_calls f)) (p_files v))
                 | _ => map (fun g => (fst g, map (names_after (if p_loads (fst g) then fst (names_pass true fl (fst g)) else []))
                                                  (p_files (fst g)))) given
                 end in
    let views := map fst built in
    let '(ops, out) := run true Trunc (fun _ => []) (fun _ => []) fl views in
    let np := consumed fl views 1 (List.length views) in
    let orig := map (fun f => map c_name (f_calls f)) (p_files v) in
    let m_names := match nth_error built (Nat.pred np) with Some b => snd b | None => orig end in
    let m_touched := touched_users ops in
    let m_dafter := derived_after dbefore ops in
    let model := L [Sym (outcome_sym out); L (map of_nat m_touched); names_sexp m_names; of_bool m_dafter] in
    let tag := "effects/" ++ (if autoname fl then "autoname" else "") ++ (if dedup fl then "dedup" else "")
               ++ (if autoname fl || dedup fl then "" else "noflags") ++ "/" ++ outcome_sym out
               ++ "/rewritten=" ++ count_tag (List.length m_touched) ++ passes_tag np in
    match real with
    | L [Sym ro; rt; L rn; rd] =>
        match map_opt get_nat (match rt with L l => l | _ => [] end), map_opt get_names rn, get_bool rd with
        | Some r_touched, Some r_names, Some r_dafter =>
            let noflags := negb (autoname fl) && negb (dedup fl) in
            let spec :=
              (* both flags off: nothing but derived.gen.go, whatever the outcome *)
              (if noflags then nats_eqb r_touched [] && names2_eqb r_names orig else true)
              (* a user file is written iff one of its calls was renamed *)
              && nats_eqb r_touched (changed_files 0 orig r_names)
              (* a load error leaves everything as it was *)
              && (if String.eqb ro "loaderr" then nats_eqb r_touched [] && Bool.eqb r_dafter dbefore else true)
              (* the "unreachable" panic *)
              && negb (String.eqb ro "crash")
              (* exactly the calls renamed by the naming passes are substituted, by their new
                 names (compared when the run ended the way the naming passes say) *)
              && (if String.eqb ro (outcome_sym out) then names2_eqb r_names m_names else true) in
            {| v_known := true; v_model_ok := sexp_eqb model real; v_spec_ok := spec;
               v_guard := match out with OutOfViews => false | _ => true end;
               v_model := model; v_tag := tag |}
        | _, _, _ => bad_line
        end
    | _ => bad_line
    end
  end.

(* ---------- invocation ---------- *)

Definition inv_name : name := [100; 69]%N.

Definition inv_view (files content : bool) : pkg :=
  let c := {| c_name := inv_name; c_pos := 0; c_ty := 0; c_base := []; c_valid := true;
              c_undef := false; c_genok := true |} in
  {| p_loads := true; p_plugins := [inv_name]; p_reserved := [];
     p_files := if files
                then [{| f_path := User 0; f_toks := []; f_calls := if content then [c] else [];
                         f_parses := true |}]
                else [] |}.

Definition get_ipkg (e : sexp) : option ipkg :=
  match e with
  | L [d; f; c] =>
      match get_nat d, get_bool f, get_bool c with
      | Some d', Some f', Some c' => Some (d', [inv_view f' c'])
      | _, _, _ => None
      end
  | _ => None
  end.

Definition mem_nat (x : nat) (l : list nat) : bool := existsb (Nat.eqb x) l.

Definition derived_dirs_after (before : list nat) (ops : list (nat * op)) : list nat :=
  fold_left (fun acc e => match snd e with
                          | OCreate Derived _ => insert_nat (fst e) acc
                          | ORemove Derived => filter (fun y => negb (Nat.eqb (fst e) y)) acc
                          | _ => acc
                          end) ops before.

Definition eval_invocation (fl : flags) (cwd : nat) (before : list nat) (pkgs : list ipkg) (after : list nat) : verdict :=
  let ops := inv_run true Trunc (fun _ => []) (fun _ => []) true cwd fl pkgs in
  let m_after := derived_dirs_after before ops in
  let named := map fst pkgs in
  (* the property: a directory that is not named on the command line keeps its derived.gen.go
     (or its absence); the snapshot of the harness sees to every other file *)
  let spec := forallb (fun d => mem_nat d named || Bool.eqb (mem_nat d before) (mem_nat d after))
                      (before ++ after) in
  let sourceless := existsb (fun e => match pkg_dir (fst e) (snd e) with None => true | Some _ => false end) pkgs in
  {| v_known := true; v_model_ok := nats_eqb m_after after; v_spec_ok := spec; v_guard := true;
     v_model := L (map of_nat m_after);
     v_tag := "invocation/cwd-" ++ (if mem_nat cwd named then "named" else "not-named")
              ++ (if mem_nat cwd before then "-with-derived" else "")
              ++ (if sourceless then "/package-without-sources" else "/all-with-sources")
              ++ (match pkgs with [_] => "/1" | _ => "/n" end) |}.

Definition eval10 (e : sexp) : verdict :=
  match e with
  | L [Sym k; old; expected; base; sg; otoks; observed] =>
      if String.eqb k "rewrite" then
        match get_ns old, get_ns expected, get_toks base, get_subst sg, get_toks otoks, get_ns observed with
        | Some old', Some exp', Some base', Some sg', Some otoks', Some obs' =>
            eval_rewrite old' exp' base' sg' otoks' obs'
        | _, _, _, _, _, _ => bad_line
        end
      else if String.eqb k "effects" then
        match old, expected, base, sg, otoks with
        | L [a; d], pl, rs, db, L vs =>
            match get_bool a, get_bool d, get_names pl, get_names rs, get_bool db with
            | Some a', Some d', Some pl', Some rs', Some db' =>
                match map_opt (get_view pl' rs') vs with
                | Some views => eval_effects {| autoname := a'; dedup := d' |} db' views observed
                | None => bad_line
                end
            | _, _, _, _, _ => bad_line
            end
        | _, _, _, _, _ => bad_line
        end
      else if String.eqb k "invocation" then
        match old, get_nat expected, base, sg, observed with
        | L [a; d], Some cwd, L bf, L ps, L af =>
            match get_bool a, get_bool d, map_opt get_nat bf, map_opt get_ipkg ps, map_opt get_nat af with
            | Some a', Some d', Some bf', Some ps', Some af' =>
                eval_invocation {| autoname := a'; dedup := d' |} cwd bf' ps' af'
            | _, _, _, _, _ => bad_line
            end
        | _, _, _, _, _ => bad_line
        end
      else bad_line
  | _ => bad_line
  end.

(* the invocation of seed C10-m14's demo: goderive started in directory 0 (which holds a
   derived.gen.go) on directory 1 (an external test package: files, nothing generated; the
   package itself: no files): directory 0 keeps its file, directory 1 loses it *)
Example invocation_example :
  derived_dirs_after [0; 1] (inv_run true Trunc (fun _ => []) (fun _ => []) true 0 {| autoname := false; dedup := false |}
                                     [(1, [inv_view true false]); (1, [inv_view false false]); (2, [inv_view true true])])
  = [0; 2].
Proof. vm_compute. reflexivity. Qed.
