(* Eval10.v — evaluation of C10 observations.
   (rewrite OLD EXPECTED TOKS_BASE SUBST TOKS_OBS OBSERVED)
       one user file rewritten by goderive -autoname/-dedup:
       OLD       bytes of the file before the run
       EXPECTED  go/format of OLD with the renamed call identifiers substituted by position
                 (computed by the harness from an independent go/parser parse)
       TOKS_BASE tokens (kind bytes) of go/format(OLD); SUBST ((pos name)...) the renamed
                 call identifiers as token positions; TOKS_OBS tokens of OBSERVED
       OBSERVED  bytes of the file after the run
   (effects (A D) PLUGINS RESERVED DERIVED_BEFORE VIEWS (OUTCOME TOUCHED NAMES DERIVED_AFTER))
       the file effects of one goderive run on one package, against [run]. *)
From Verif Require Import Base Sexp.
From Verif.Rewrite Require Import Files Tokens Names Effects.
Open Scope string_scope.

Definition get_tok (e : sexp) : option token :=
  match e with
  | L [Num k; b] =>
      match get_ns b with
      | Some s => Some (if (k =? 0)%Z then TIdent s else if (k =? 1)%Z then TOther s else TComment s)
      | None => None
      end
  | _ => None
  end.
Definition get_toks (e : sexp) : option (list token) :=
  match e with L l => map_opt get_tok l | _ => None end.
Definition get_subst (e : sexp) : option subst :=
  match e with
  | L l => map_opt (fun x => match x with
                             | L [p; n] => match get_nat p, get_ns n with
                                           | Some p', Some n' => Some (p', n')
                                           | _, _ => None end
                             | _ => None end) l
  | _ => None
  end.

Fixpoint toks_eqb (a b : list token) : bool :=
  match a, b with
  | [], [] => true
  | x :: a', y :: b' => token_eqb x y && toks_eqb a' b'
  | _, _ => false
  end.

Definition len_rel (old new : bytes) : string :=
  match Nat.compare (List.length new) (List.length old) with
  | Lt => "shorter" | Eq => "equal" | Gt => "longer" end.

Definition eval_rewrite (old expected : bytes) (base : list token) (sg : subst)
           (obs_toks : list token) (observed : bytes) : verdict :=
  let model_bytes := open_write Trunc old expected in
  let model_toks := rename sg base in
  let rel := len_rel old expected in
  let exact := bytes_eqb observed expected in
  let code_same := toks_eqb (filter (fun t => negb (is_comment t)) obs_toks)
                            (filter (fun t => negb (is_comment t)) model_toks) in
  let comments_same := toks_eqb (filter is_comment obs_toks) (filter is_comment model_toks) in
  if exact then
    {| v_known := true;
       v_model_ok := bytes_eqb observed model_bytes && toks_eqb obs_toks model_toks;
       v_spec_ok := true; v_guard := true; v_model := of_ns model_bytes;
       v_tag := "rewrite/" ++ rel ++ (match sg with [_] => "/1-renamed" | _ => "/n-renamed" end) |}
  else if code_same && comments_same then
    (* every token retained in order, only white space / the placement of comments between
       tokens differs from gofmt: the renamed identifier was given no source position *)
    {| v_known := true; v_model_ok := true; v_spec_ok := false; v_guard := false;
       v_model := of_ns model_bytes; v_tag := "known:c10-rename-layout/" ++ rel |}
  else
    {| v_known := true; v_model_ok := false; v_spec_ok := false; v_guard := true;
       v_model := of_ns model_bytes;
       v_tag := "rewrite/" ++ rel ++
                (if bytes_eqb observed (open_write NoTrunc old expected) then "/old-tail-left"
                 else "/corrupt") |}.

(* ---------- effects ---------- *)

Definition get_bool (e : sexp) : option bool := option_map (fun z => negb (z =? 0)%Z) (get_num e).

Definition get_call (pos : nat) (e : sexp) : option call :=
  match e with
  | L [n; ty; b; va; un; ge] =>
      match get_ns n, get_nat ty, get_ns b, get_bool va, get_bool un, get_bool ge with
      | Some n', Some ty', Some b', Some va', Some un', Some ge' =>
          Some {| c_name := n'; c_pos := pos; c_ty := ty'; c_base := b'; c_valid := va';
                  c_undef := un'; c_genok := ge' |}
      | _, _, _, _, _, _ => None
      end
  | _ => None
  end.

Fixpoint get_calls (pos : nat) (l : list sexp) : option (list call) :=
  match l with
  | [] => Some []
  | e :: r => match get_call pos e, get_calls (S pos) r with
              | Some c, Some cs => Some (c :: cs)
              | _, _ => None
              end
  end.

Fixpoint get_files (i : nat) (l : list sexp) : option (list file) :=
  match l with
  | [] => Some []
  | L cs :: r => match get_calls 0 cs, get_files (S i) r with
                 | Some cs', Some fs => Some ({| f_path := User i; f_toks := []; f_calls := cs'; f_parses := true |} :: fs)
                 | _, _ => None
                 end
  | _ => None
  end.

Definition get_names (e : sexp) : option (list name) :=
  match e with L l => map_opt get_ns l | _ => None end.

Definition get_view (plugins reserved : list name) (e : sexp) : option pkg :=
  match e with
  | L [lo; L fs] =>
      match get_bool lo, get_files 0 fs with
      | Some lo', Some fs' => Some {| p_loads := lo'; p_plugins := plugins; p_reserved := reserved;
                                      p_files := fs' |}
      | _, _ => None
      end
  | _ => None
  end.

Definition outcome_sym (o : outcome10) : string :=
  match o with
  | Success => "ok" | LoadError => "loaderr" | AddError => "adderr" | GeneratorError => "generr"
  | CannotGenerate => "cannot" | Crash => "crash" | OutOfViews => "outofviews" end.

Fixpoint insert_nat (x : nat) (l : list nat) : list nat :=
  match l with
  | [] => [x]
  | y :: r => if Nat.ltb x y then x :: l else if Nat.eqb x y then l else y :: insert_nat x r
  end.

Definition touched_users (ops : list op) : list nat :=
  fold_left (fun acc o => match op_path o with User i => insert_nat i acc | _ => acc end) ops [].

Definition derived_after (before : bool) (ops : list op) : bool :=
  fold_left (fun b o => match o with
                        | OCreate Derived _ => true
                        | ORemove Derived => false
                        | _ => b end) ops before.

(* the identifiers at the call sites of a file once the naming pass has gone over it *)
Definition names_after (l : list (file * subst)) (f : file) : list name :=
  let sg := match find (fun e => path_eqb (f_path (fst e)) (f_path f)) l with
            | Some e => snd e | None => [] end in
  map (fun c => match lookup (c_pos c) sg with Some n => n | None => c_name c end) (f_calls f).

Definition names_sexp (ns : list (list name)) : sexp := L (map (fun l => L (map of_ns l)) ns).

Fixpoint names2_eqb (a b : list (list name)) : bool :=
  match a, b with
  | [], [] => true
  | x :: a', y :: b' => names_eqb x y && names2_eqb a' b'
  | _, _ => false
  end.

Fixpoint nats_eqb (a b : list nat) : bool :=
  match a, b with
  | [], [] => true
  | x :: a', y :: b' => Nat.eqb x y && nats_eqb a' b'
  | _, _ => false
  end.

Fixpoint changed_files (i : nat) (orig real : list (list name)) : list nat :=
  match orig, real with
  | o :: orig', r :: real' => (if names_eqb o r then [] else [i]) ++ changed_files (S i) orig' real'
  | _, _ => []
  end.

Definition count_tag (n : nat) : string :=
  match n with 0 => "0" | 1 => "1" | _ => "2+" end.

Definition eval_effects (fl : flags) (dbefore : bool) (views : list pkg) (real : sexp) : verdict :=
  match views with
  | [] => bad_line
  | v :: _ =>
    let '(ops, out) := run true Trunc (fun _ => []) (fun _ => []) fl views in
    let passed := fst (names_pass true fl v) in
    let orig := map (fun f => map c_name (f_calls f)) (p_files v) in
    let m_names := map (names_after (if p_loads v then passed else [])) (p_files v) in
    let m_touched := touched_users ops in
    let m_dafter := derived_after dbefore ops in
    let model := L [Sym (outcome_sym out); L (map of_nat m_touched); names_sexp m_names; of_bool m_dafter] in
    let tag := "effects/" ++ (if autoname fl then "autoname" else "") ++ (if dedup fl then "dedup" else "")
               ++ (if autoname fl || dedup fl then "" else "noflags") ++ "/" ++ outcome_sym out
               ++ "/rewritten=" ++ count_tag (List.length m_touched) in
    match real with
    | L [Sym ro; rt; L rn; rd] =>
        match map_opt get_nat (match rt with L l => l | _ => [] end), map_opt get_names rn, get_bool rd with
        | Some r_touched, Some r_names, Some r_dafter =>
            let noflags := negb (autoname fl) && negb (dedup fl) in
            let spec :=
              (* both flags off: nothing but derived.gen.go, whatever the outcome *)
              (if noflags then nats_eqb r_touched [] && names2_eqb r_names orig else true)
              (* a user file is written iff one of its calls was renamed *)
              && nats_eqb r_touched (changed_files 0 orig r_names)
              (* a load error leaves everything as it was *)
              && (if String.eqb ro "loaderr" then nats_eqb r_touched [] && Bool.eqb r_dafter dbefore else true)
              (* the "unreachable" panic *)
              && negb (String.eqb ro "crash")
              (* exactly the calls renamed by the naming pass are substituted, by their new
                 names (compared when the run ended the way the naming pass says) *)
              && (if String.eqb ro (outcome_sym out) then names2_eqb r_names m_names else true) in
            {| v_known := true; v_model_ok := sexp_eqb model real; v_spec_ok := spec;
               v_guard := match out with OutOfViews => false | _ => true end;
               v_model := model; v_tag := tag |}
        | _, _, _ => bad_line
        end
    | _ => bad_line
    end
  end.

Definition eval10 (e : sexp) : verdict :=
  match e with
  | L [Sym k; old; expected; base; sg; otoks; observed] =>
      if String.eqb k "rewrite" then
        match get_ns old, get_ns expected, get_toks base, get_subst sg, get_toks otoks, get_ns observed with
        | Some old', Some exp', Some base', Some sg', Some otoks', Some obs' =>
            eval_rewrite old' exp' base' sg' otoks' obs'
        | _, _, _, _, _, _ => bad_line
        end
      else if String.eqb k "effects" then
        match old, expected, base, sg, otoks with
        | L [a; d], pl, rs, db, L vs =>
            match get_bool a, get_bool d, get_names pl, get_names rs, get_bool db with
            | Some a', Some d', Some pl', Some rs', Some db' =>
                match map_opt (get_view pl' rs') vs with
                | Some views => eval_effects {| autoname := a'; dedup := d' |} db' views observed
                | None => bad_line
                end
            | _, _, _, _, _ => bad_line
            end
        | _, _, _, _, _ => bad_line
        end
      else bad_line
  | _ => bad_line
  end.
