(* Gen/TypesMap.v — executable model of derive/typesmap.go (the `typesMap` every plugin owns).

   Go state                                   model
   ---------------------------------------    -----------------------------------------------
   funcToTyps map[string][]types.Type   }     tbl : list (name * tys), in insertion order
   names []string, typss [][]types.Type }       (every insertion appends to all three)
   generated map[string]bool                  generated : list name
   reserved  map[string]struct{}              reserved  : list name (shared by the typesMaps of
                                                a package; registration adds the name to it)
   prefix, autoname, dedup                    prefix, autoname, dedup

   `tys` is one argument type list, `teq this that` is `eq(this, that)` of typesmap.go (every
   this[i] assignable to that[i]; NOT assumed symmetric or transitive here), `hint q` is the
   identifier newName derives from typs[0] (name of a named type, spelling of a basic type,
   "" otherwise).

   `order` is the order in which nameOf visits the registered entries.  On the pinned tree
   nameOf ranged over the Go map funcToTyps, i.e. `order` was an arbitrary permutation chosen by
   the runtime at every call (C08_name_of_order_refuted); since the fix
   "nameOf looks names up in registration order" it is the identity ([in_order]).

   Standard library only; no axioms. *)
From Coq Require Import List String Bool Arith Lia DecimalString.
From Verif Require Import Base.
Import ListNotations.
Open Scope string_scope.

Definition name := string.

(* strconv.Itoa on a non-negative int *)
Definition itoa (n : nat) : string := NilEmpty.string_of_uint (Nat.to_uint n).

(* the i-th candidate tried by newName: prefix, prefix_, prefix_N[:1], ..., prefix_N,
   prefix_N<len+1>, prefix_N<len+2>, ... *)
Definition cand (pre h : string) (i : nat) : name :=
  match i with
  | 0 => pre
  | S k => pre ++ "_" ++ (if Nat.ltb (String.length h) k then h ++ itoa k else substring 0 k h)
  end.

Definition name_mem (n : name) (l : list name) : bool := existsb (String.eqb n) l.

(* first candidate from index i on that is not occupied; fuel bounds the search *)
Fixpoint search (occupied : name -> bool) (pre h : string) (fuel i : nat) : option name :=
  match fuel with
  | 0 => None
  | S f => if occupied (cand pre h i) then search occupied pre h f (S i) else Some (cand pre h i)
  end.

Section TypesMap.
Variable tys : Type.
Variable teq : tys -> tys -> bool.
Variable hint : tys -> string.

Definition table := list (name * tys).
Variable order : table -> table.

Record tm := mk_tm {
  tbl : table;
  generated : list name;
  reserved : list name;
  prefix : name;
  autoname : bool;
  dedup : bool }.

Definition init (pre : name) (res : list name) (a d : bool) : tm :=
  mk_tm [] [] res pre a d.

(* funcToTyps[n] *)
Definition lookup (t : table) (n : name) : option tys :=
  option_map snd (find (fun e => String.eqb n (fst e)) t).

(* nameOf: the first entry, in iteration order, whose types the query is assignable to *)
Definition name_of (s : tm) (q : tys) : option name :=
  option_map fst (find (fun e => teq q (snd e)) (order (tbl s))).

Definition occupied (s : tm) (n : name) : bool :=
  name_mem n (map fst (tbl s)) || name_mem n (reserved s).

(* newName: the loop `for exists || isreserved`; the fuel is one more than the number of
   occupied names, which new_name_terminates shows to be always enough *)
Definition new_name (s : tm) (q : tys) : option name :=
  search (occupied s) (prefix s) (hint q) (S (List.length (tbl s) + List.length (reserved s))) 0.

(* the registration at the end of SetFuncName: funcToTyps[n] = q, names/typss appended, and
   (since "fix: helper names minted by one plugin no longer collide with another plugin's
   names") the name is recorded in the reserved set, which all typesMaps of a package share *)
Definition insert (s : tm) (n : name) (q : tys) : tm :=
  mk_tm (tbl s ++ [(n, q)])%list (generated s) (n :: reserved s) (prefix s) (autoname s) (dedup s).

Definition set_reserved (s : tm) (r : list name) : tm :=
  mk_tm (tbl s) (generated s) r (prefix s) (autoname s) (dedup s).

Inductive sres :=
| SOk (n : name)                 (* the name the call site must use *)
| SDup (have want : name)        (* "ambigious function names for type ..." *)
| SConflict (n : name)           (* "conflicting function names ..." *)
| SFuel.                         (* recursion budget of the model exhausted: excluded by theorem *)

(* GetFuncName, given SetFuncName (its error is dropped by the Go code, too) *)
Definition get_with (setf : tm -> name -> tys -> tm * sres) (s : tm) (q : tys) : tm * option name :=
  match name_of s q with
  | Some n => (s, Some n)
  | None =>
      match new_name s q with
      | None => (s, None)
      | Some n => (fst (setf s n q), Some n)
      end
  end.

(* SetFuncName; d bounds the mutual recursion SetFuncName -> GetFuncName -> SetFuncName *)
Fixpoint set_func_name (d : nat) (s : tm) (fn : name) (q : tys) : tm * sres :=
  match d with
  | 0 => (s, SFuel)
  | S d' =>
      match name_of s q with
      | Some f =>
          if String.eqb f fn then (s, SOk fn)
          else if dedup s then (s, SOk f)
          else (s, SDup f fn)
      | None =>
          match lookup (tbl s) fn with
          | Some ts =>
              if teq ts q then (s, SOk fn)
              else if autoname s then
                match get_with (set_func_name d') s q with
                | (s', Some n) => (s', SOk n)
                | (s', None) => (s', SFuel)
                end
              else (s, SConflict fn)
          | None => (insert s fn q, SOk fn)
          end
      end
  end.

Definition depth : nat := 3.
Definition SetFuncName (s : tm) (fn : name) (q : tys) : tm * sres := set_func_name depth s fn q.
Definition GetFuncName (s : tm) (q : tys) : tm * option name := get_with (set_func_name depth) s q.

(* Generating: panics on an unknown type list *)
Definition generating (s : tm) (q : tys) : outcome tm :=
  match name_of s q with
  | None => Panic
  | Some n => Ret (mk_tm (tbl s) (n :: generated s) (reserved s) (prefix s) (autoname s) (dedup s))
  end.

Definition is_generated (s : tm) (q : tys) : bool :=
  match name_of s q with
  | None => false
  | Some n => name_mem n (generated s)
  end.

(* typss is the insertion-ordered list of registered type lists *)
Definition to_generate (s : tm) : list tys :=
  filter (fun q => negb (is_generated s q)) (map snd (tbl s)).

Definition done (s : tm) : bool := forallb (is_generated s) (map snd (tbl s)).

(* ---- a package-level run over one typesMap: newPackage's loop over the calls ---- *)

Inductive ares :=
| AOk (s : tm) (names : list name)    (* final state, final name of every call *)
| AErr (i : nat) (e : sres).          (* index of the failing call *)

Fixpoint add_all (s : tm) (calls : list (name * tys)) : ares :=
  match calls with
  | [] => AOk s []
  | (fn, q) :: r =>
      match SetFuncName s fn q with
      | (s', SOk m) =>
          match add_all s' r with
          | AOk sf ms => AOk sf (m :: ms)
          | AErr i e => AErr (S i) e
          end
      | (_, e) => AErr 0 e
      end
  end.

(* ---- several plugins: one typesMap each, calls dispatched by plugin index; the reserved set
   is ONE Go map shared by all typesMaps of the package, so what one plugin records there is
   seen by all ---- *)

Inductive pres :=
| POk (st : nat -> tm) (names : list name)
| PErr (i : nat) (e : sres).

Definition share (st : nat -> tm) (p : nat) (s : tm) : nat -> tm :=
  fun p' => if Nat.eqb p' p then s else set_reserved (st p') (reserved s).

Fixpoint add_pkg (st : nat -> tm) (calls : list (nat * (name * tys))) : pres :=
  match calls with
  | [] => POk st []
  | (p, (fn, q)) :: r =>
      match SetFuncName (st p) fn q with
      | (s', SOk m) =>
          match add_pkg (share st p s') r with
          | POk sf ms => POk sf (m :: ms)
          | PErr i e => PErr (S i) e
          end
      | (_, e) => PErr 0 e
      end
  end.

End TypesMap.

Arguments mk_tm {tys}.
Arguments tbl {tys}.
Arguments generated {tys}.
Arguments reserved {tys}.
Arguments prefix {tys}.
Arguments autoname {tys}.
Arguments dedup {tys}.
Arguments init {tys}.
Arguments lookup {tys}.
Arguments insert {tys}.
Arguments AOk {tys}.
Arguments AErr {tys}.
Arguments POk {tys}.
Arguments PErr {tys}.
Arguments share {tys}.
Arguments set_reserved {tys}.

(* the iteration order of the repaired nameOf: registration order *)
Definition in_order {tys : Type} (t : list (name * tys)) : list (name * tys) := t.
