(* Gen/NewName.v — the fresh-name search of typesMap.newName: the candidate sequence is
   injective, so the search stops within (number of occupied names + 1) steps (pigeonhole)
   and its result is neither registered nor reserved. *)
From Coq Require Import List String Bool Arith Lia DecimalString DecimalNat FinFun.
From Verif Require Import Base Gen.TypesMap.
Import ListNotations.
Open Scope string_scope.
Local Arguments Nat.ltb : simpl never.

Lemma append_length a b : String.length (a ++ b) = String.length a + String.length b.
Proof. induction a as [|c a IH]; cbn; [reflexivity|]. now rewrite IH. Qed.

Lemma append_inj_l a b c : a ++ b = a ++ c -> b = c.
Proof. induction a as [|x a IH]; cbn; intro H; [exact H|]. inversion H; auto. Qed.

Lemma substring_length h : forall k, k <= String.length h -> String.length (substring 0 k h) = k.
Proof.
  induction h as [|c h IH]; intros [|k] H; cbn in *; try reflexivity; try lia.
  rewrite IH by lia. reflexivity.
Qed.

Lemma length_zero s : String.length s = 0 -> s = "".
Proof. destruct s; cbn; [reflexivity|discriminate]. Qed.

Lemma itoa_inj a b : itoa a = itoa b -> a = b.
Proof.
  unfold itoa. intro H.
  apply (f_equal NilEmpty.uint_of_string) in H. rewrite !NilEmpty.usu in H.
  inversion H as [H']. now apply Unsigned.to_uint_inj.
Qed.

Lemma to_uint_nonnil n : Nat.to_uint n <> Decimal.Nil.
Proof.
  rewrite <- (Unsigned.of_to n) at 1. rewrite Unsigned.to_of. apply DecimalFacts.unorm_nonnil.
Qed.

Lemma itoa_nonempty n : itoa n <> "".
Proof.
  unfold itoa. intro H.
  apply (f_equal NilEmpty.uint_of_string) in H. rewrite NilEmpty.usu in H. cbn in H.
  inversion H as [H']. now apply (to_uint_nonnil n).
Qed.

Lemma cand_inj pre h a b : cand pre h a = cand pre h b -> a = b.
Proof.
  destruct a as [|a], b as [|b]; cbn [cand]; intro H; try reflexivity.
  - apply (f_equal String.length) in H. rewrite append_length in H. cbn in H. lia.
  - apply (f_equal String.length) in H. rewrite append_length in H. cbn in H. lia.
  - apply append_inj_l in H. cbn in H. inversion H as [H']. clear H. f_equal.
    destruct (Nat.ltb_spec (String.length h) a) as [La|La];
    destruct (Nat.ltb_spec (String.length h) b) as [Lb|Lb].
    + apply append_inj_l in H'. now apply itoa_inj.
    + apply (f_equal String.length) in H'. rewrite append_length, substring_length in H' by lia.
      assert (E : String.length (itoa a) = 0) by lia.
      apply length_zero in E. now destruct (itoa_nonempty a).
    + apply (f_equal String.length) in H'. rewrite append_length, substring_length in H' by lia.
      assert (E : String.length (itoa b) = 0) by lia.
      apply length_zero in E. now destruct (itoa_nonempty b).
    + apply (f_equal String.length) in H'. rewrite !substring_length in H' by lia. exact H'.
Qed.

Lemma name_mem_In n l : name_mem n l = true <-> In n l.
Proof.
  unfold name_mem. rewrite existsb_exists. split.
  - intros [x [Hx E]]. apply String.eqb_eq in E. now subst.
  - intro H. exists n. split; [exact H|apply String.eqb_refl].
Qed.

Lemma search_some occ pre h : forall fuel i n,
  search occ pre h fuel i = Some n -> occ n = false /\ exists j, i <= j /\ n = cand pre h j.
Proof.
  induction fuel as [|f IH]; intros i n H; cbn in H; [discriminate|].
  destruct (occ (cand pre h i)) eqn:E.
  - destruct (IH _ _ H) as [Ho [j [Hj En]]]. split; [exact Ho|]. exists j. split; [lia|exact En].
  - inversion H; subst. split; [exact E|]. exists i. split; [lia|reflexivity].
Qed.

Lemma search_none occ pre h : forall fuel i,
  search occ pre h fuel i = None -> forall j, i <= j < i + fuel -> occ (cand pre h j) = true.
Proof.
  induction fuel as [|f IH]; intros i H j Hj; [lia|]. cbn in H.
  destruct (occ (cand pre h i)) eqn:E; [|discriminate].
  destruct (Nat.eq_dec j i) as [->|Hne]; [exact E|].
  apply (IH (S i) H). lia.
Qed.

Section Fresh.
Variable tys : Type.
Variable teq : tys -> tys -> bool.
Variable hint : tys -> string.
Variable order : list (name * tys) -> list (name * tys).

Notation new_name := (new_name tys hint).
Notation occupied := (occupied tys).

Lemma occupied_In (s : tm tys) n :
  occupied s n = true <-> In n (map fst (tbl s) ++ reserved s)%list.
Proof.
  unfold TypesMap.occupied. rewrite orb_true_iff, !name_mem_In, in_app_iff. reflexivity.
Qed.

(* newName never returns a registered or a reserved name *)
Lemma new_name_fresh (s : tm tys) q n :
  new_name s q = Some n -> ~ In n (map fst (tbl s)) /\ ~ In n (reserved s).
Proof.
  unfold TypesMap.new_name. intro H. apply search_some in H. destruct H as [Ho _].
  split; intro Hin.
  - assert (occupied s n = true) by (apply occupied_In, in_app_iff; now left). congruence.
  - assert (occupied s n = true) by (apply occupied_In, in_app_iff; now right). congruence.
Qed.

(* the loop of newName terminates: among the first N+1 candidates (N = number of occupied
   names) one is free, because the candidates are pairwise different *)
Lemma new_name_terminates (s : tm tys) q : exists n, new_name s q = Some n.
Proof.
  destruct (new_name s q) as [n|] eqn:E; [now exists n|exfalso].
  unfold TypesMap.new_name in E.
  set (N := (List.length (tbl s) + List.length (reserved s))%nat) in *.
  pose proof (search_none _ _ _ _ _ E) as All.
  set (cs := map (cand (prefix s) (hint q)) (seq 0 (S N))).
  assert (ND : NoDup cs).
  { apply Injective_map_NoDup; [|apply seq_NoDup]. intros a b. apply cand_inj. }
  assert (INC : incl cs (map fst (tbl s) ++ reserved s)%list).
  { intros c Hc. apply in_map_iff in Hc. destruct Hc as [j [<- Hj]]. apply in_seq in Hj.
    apply occupied_In. apply All. lia. }
  pose proof (NoDup_incl_length ND INC) as L.
  unfold cs in L. rewrite map_length, seq_length, app_length, map_length in L. lia.
Qed.

End Fresh.
