(* Gen/SortInst.v — insertion sort meets the contract [sorts] assumed of sort.Slice/sort.Strings
   for the two orders used by goderive (sortPlugins' prefix order, plain string order), so the
   guards of C08_sort_plugins_perm and C08_write_to_sorted are satisfiable and the evaluator's
   sorter is a legitimate instance; the registration-order nameOf resolves every registered
   type list to its own entry. *)
From Coq Require Import List String Bool Arith Lia Permutation Sorted Ascii NArith.
From Verif Require Import Base Gen.TypesMap Gen.Determinism.
Import ListNotations.
Open Scope list_scope.

Lemma ascii_compare_lt_trans x y z :
  Ascii.compare x y = Lt -> Ascii.compare y z = Lt -> Ascii.compare x z = Lt.
Proof. unfold Ascii.compare. rewrite !N.compare_lt_iff. lia. Qed.

Lemma ascii_compare_refl x : Ascii.compare x x = Eq.
Proof. unfold Ascii.compare. apply N.compare_refl. Qed.

Lemma string_compare_lt_trans : forall a b c,
  String.compare a b = Lt -> String.compare b c = Lt -> String.compare a c = Lt.
Proof.
  induction a as [|x a IH]; intros [|y b] [|z c]; cbn; try discriminate; auto.
  destruct (Ascii.compare x y) eqn:E1; destruct (Ascii.compare y z) eqn:E2;
    try discriminate; intros H1 H2.
  - apply Ascii.compare_eq_iff in E1, E2. subst. rewrite ascii_compare_refl. eauto.
  - apply Ascii.compare_eq_iff in E1. subst. now rewrite E2.
  - apply Ascii.compare_eq_iff in E2. subst. now rewrite E1.
  - now rewrite (ascii_compare_lt_trans _ _ _ E1 E2).
Qed.

Lemma ltb_trans a b c : String.ltb a b = true -> String.ltb b c = true -> String.ltb a c = true.
Proof.
  unfold String.ltb. destruct (String.compare a b) eqn:E1; try discriminate.
  destruct (String.compare b c) eqn:E2; try discriminate. intros _ _.
  now rewrite (string_compare_lt_trans _ _ _ E1 E2).
Qed.

Lemma ltb_irrefl a : String.ltb a a = false.
Proof. destruct (String.ltb a a) eqn:E; [exfalso; eapply ltb_asym; eauto|reflexivity]. Qed.

(* a strict total order as a boolean: what both comparison functions are *)
Record strict_total (lt : string -> string -> bool) : Prop := {
  st_irrefl : forall a, lt a a = false;
  st_trans : forall a b c, lt a b = true -> lt b c = true -> lt a c = true;
  st_total : forall a b, a <> b -> lt a b = true \/ lt b a = true }.

Lemma sless_strict_total : strict_total sless.
Proof. split; [apply ltb_irrefl|apply ltb_trans|apply ltb_total]. Qed.

Lemma less_strict_total : strict_total less.
Proof.
  split.
  - intro a. unfold less. rewrite Nat.eqb_refl. apply ltb_irrefl.
  - intros a b c. unfold less.
    destruct (Nat.eqb_spec (String.length a) (String.length b)) as [E1|N1];
    destruct (Nat.eqb_spec (String.length b) (String.length c)) as [E2|N2];
    destruct (Nat.eqb_spec (String.length a) (String.length c)) as [E3|N3];
    rewrite ?Nat.ltb_lt; try lia.
    intros H1 H2. eapply ltb_trans; eauto.
  - apply less_total.
Qed.

Section ISort.
Variable lt : string -> string -> bool.
Hypothesis ST : strict_total lt.

Let le (a b : string) : Prop := lt b a = false.

Lemma le_of_lt a b : lt a b = true -> le a b.
Proof.
  intro H. unfold le. destruct (lt b a) eqn:E; [|reflexivity].
  pose proof (st_trans _ ST _ _ _ H E) as X. rewrite (st_irrefl _ ST) in X. discriminate.
Qed.

Lemma le_trans a b c : le a b -> le b c -> le a c.
Proof.
  unfold le. intros H1 H2. destruct (lt c a) eqn:E; [|reflexivity]. exfalso.
  destruct (string_dec b a) as [->|N]; [congruence|].
  destruct (st_total _ ST b a N) as [X|X]; [congruence|].
  pose proof (st_trans _ ST _ _ _ E X). congruence.
Qed.

Lemma ins_sorted x l : StronglySorted le l -> StronglySorted le (ins lt x l).
Proof.
  induction l as [|y r IH]; intro S; cbn.
  - constructor; [constructor|constructor].
  - inversion S as [|? ? Sr Fy]; subst. destruct (lt y x) eqn:E.
    + constructor; [auto|]. rewrite Forall_forall in *. intros z Hz.
      assert (Hz' : In z (x :: r)) by (eapply Permutation_in; [apply ins_perm|exact Hz]).
      destruct Hz' as [<-|Hz']; [now apply le_of_lt|auto].
    + constructor; [exact S|]. constructor; [exact E|].
      rewrite Forall_forall in *. intros z Hz. apply le_trans with y; [exact E|auto].
Qed.

Lemma isort_sorts : sorts lt (isort lt).
Proof.
  intro l. split; [apply isort_perm|].
  induction l as [|x l IH]; cbn; [constructor|now apply ins_sorted].
Qed.
End ISort.

Open Scope string_scope.

(* the guards of the two theorems are satisfiable, and the theorems say something *)
Example sort_plugins_example :
  isort less ["deriveSet"; "deriveSort"; "deriveSorted"; "deriveMin"; "deriveMax"] =
  isort less ["deriveMax"; "deriveSorted"; "deriveMin"; "deriveSort"; "deriveSet"]
  /\ isort less ["deriveSet"; "deriveSort"; "deriveSorted"; "deriveMin"; "deriveMax"] =
     ["deriveSorted"; "deriveSort"; "deriveSet"; "deriveMin"; "deriveMax"].
Proof. split; reflexivity. Qed.

Example sort_plugins_perm_applies :
  isort less ["deriveSet"; "deriveSort"; "deriveMin"] = isort less ["deriveMin"; "deriveSet"; "deriveSort"].
Proof.
  apply sort_plugins_perm; try (apply isort_sorts, less_strict_total).
  - repeat constructor; cbn; intuition discriminate.
  - apply Permutation_sym. apply (Permutation_cons_append ["deriveSet"; "deriveSort"] "deriveMin").
Qed.

Example write_to_example :
  write_to (isort sless) [("strings", "strings"); ("b", "m/b"); ("fmt", "fmt")] =
  [("", "fmt"); ("b", "m/b"); ("", "strings")]
  /\ write_to (isort sless) [("fmt", "fmt"); ("strings", "strings"); ("b", "m/b")] =
     write_to (isort sless) [("strings", "strings"); ("b", "m/b"); ("fmt", "fmt")].
Proof. split; reflexivity. Qed.

(* ---------- the registration-order nameOf resolves a registered type list to itself ---------- *)
Section SelfFirst.
Variable tys : Type.
Variable teq : tys -> tys -> bool.
Variable hint : tys -> string.
Hypothesis teq_refl : forall q, teq q q = true.

Notation table := (list (name * tys)).

(* every entry is the first entry its own types match *)
Definition SelfFirst (t : table) : Prop :=
  forall e, In e t -> find (fun x => teq (snd e) (snd x)) t = Some e.

Lemma find_app_none {A} (f : A -> bool) l1 l2 : find f l1 = None -> find f (l1 ++ l2) = find f l2.
Proof. induction l1 as [|x l1 IH]; cbn; [auto|]. destruct (f x); [discriminate|exact IH]. Qed.
Lemma find_app_some {A} (f : A -> bool) l1 l2 e : find f l1 = Some e -> find f (l1 ++ l2) = Some e.
Proof. induction l1 as [|x l1 IH]; cbn; [discriminate|]. destruct (f x); auto. Qed.

Lemma self_first_insert (s : tm tys) n q :
  SelfFirst (tbl s) -> name_of tys teq in_order s q = None -> SelfFirst (tbl (insert s n q)).
Proof.
  intros SF N e He. cbn in *. apply in_app_iff in He. destruct He as [He|[<-|[]]].
  - apply find_app_some. now apply SF.
  - unfold name_of, in_order in N. destruct (find _ (tbl s)) eqn:F; [discriminate|].
    rewrite (find_app_none _ _ _ F). cbn. now rewrite teq_refl.
Qed.

Lemma self_first_step (s : tm tys) x :
  SelfFirst (tbl s) -> SelfFirst (tbl (fst (step tys teq hint in_order s x))).
Proof.
  intro SF. destruct x as [fn q|q|q| |]; cbn [step]; try exact SF.
  - unfold SetFuncName. destruct (set_func_name tys teq hint in_order depth s fn q) as [s' r] eqn:E. cbn.
    destruct (set_shape tys teq hint in_order _ _ _ _ _ _ E) as [->|[n [-> N]]]; [exact SF|].
    now apply self_first_insert.
  - unfold GetFuncName, get_with. destruct (name_of tys teq in_order s q) eqn:N; [exact SF|].
    destruct (new_name tys hint s q) as [n|]; [|exact SF].
    destruct (set_func_name tys teq hint in_order depth s n q) as [s' r] eqn:E. cbn.
    destruct (set_shape tys teq hint in_order _ _ _ _ _ _ E) as [->|[n' [-> N']]]; [exact SF|].
    now apply self_first_insert.
  - unfold generating. destruct (name_of tys teq in_order s q); cbn; exact SF.
Qed.

(* after any sequence of operations from an empty typesMap, looking up a registered type list
   gives the name it was registered under (so Generating marks, and Done/ToGenerate test, the
   entry itself: the work list drains) — for ANY assignability relation, symmetric or not *)
Theorem registered_resolves_to_self : forall ops (s : tm tys),
  SelfFirst (tbl s) ->
  forall n q, In (n, q) (tbl (fst (run tys teq hint in_order s ops))) ->
  name_of tys teq in_order (fst (run tys teq hint in_order s ops)) q = Some n.
Proof.
  assert (G : forall ops s, SelfFirst (tbl s) -> SelfFirst (tbl (fst (run tys teq hint in_order s ops)))).
  { induction ops as [|x r IH]; intros s SF; [exact SF|].
    cbn [run]. pose proof (self_first_step s x SF) as S1.
    destruct (step tys teq hint in_order s x) as [s' a]. cbn in S1.
    specialize (IH s' S1). destruct (run tys teq hint in_order s' r) as [sf l]. exact IH. }
  intros ops s SF n q Hin. specialize (G ops s SF).
  pose proof (G (n, q) Hin) as F. cbn [snd] in F. unfold name_of, in_order.
  change (find (fun e : name * tys => teq q (snd e)) (tbl (fst (run tys teq hint (fun t => t) s ops)))) with
    (find (fun x : name * tys => teq q (snd x)) (tbl (fst (run tys teq hint (@in_order tys) s ops)))).
  now rewrite F.
Qed.
End SelfFirst.

(* with map order this fails as soon as the relation is not symmetric: chan int (0) is assignable
   to <-chan int (1) but not back; registered in the order 0, 1 the query 0 matches both *)
Module SelfRefuted.
Definition teq (a b : nat) : bool := Nat.eqb a b || (Nat.eqb a 0 && Nat.eqb b 1).
Definition s : tm nat := mk_tm [("deriveSendRecv", 0); ("deriveRecvOnly", 1)] [] [] "derive" false false.
Lemma registered_not_self_under_map_order :
  name_of nat teq (@rev _) s 0 = Some "deriveRecvOnly" /\
  name_of nat teq in_order s 0 = Some "deriveSendRecv".
Proof. split; reflexivity. Qed.
End SelfRefuted.
