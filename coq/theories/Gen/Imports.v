(* Gen/Imports.v — the lazy import table of derive/printer.go (NewImport / the closure it
   returns) as a state machine: aliases handed out stay valid for the text already printed. *)
From Coq Require Import List String Bool.
Import ListNotations.
Open Scope string_scope.

Definition table := list (string * string).      (* alias -> path, most recent first *)

Fixpoint lookup (a : string) (t : table) : option string :=
  match t with
  | [] => None
  | (a', p) :: t' => if String.eqb a' a then Some p else lookup a t'
  end.

Inductive ires := IOk (alias : string) (t : table) | ICrash.   (* panic("non unique fullpath") *)

(* the closure returned by NewImport(name, path), called with the current table;
   fullpath = the path with every non-identifier character replaced by '_' (a parameter) *)
Definition use (name path fullpath : string) (t : table) : ires :=
  match lookup name t with
  | None => IOk name ((name, path) :: t)
  | Some p =>
      if String.eqb p path then IOk name t
      else match lookup fullpath t with
           | Some p2 => if String.eqb p2 path then IOk fullpath t else ICrash
           | None => IOk fullpath ((fullpath, path) :: t)
           end
  end.

(* entries are only added, never changed *)
Definition extends (t t' : table) : Prop := forall a p, lookup a t = Some p -> lookup a t' = Some p.

Lemma extends_refl t : extends t t.
Proof. intros a p H; exact H. Qed.
Lemma extends_trans t1 t2 t3 : extends t1 t2 -> extends t2 t3 -> extends t1 t3.
Proof. intros H1 H2 a p H. apply H2, H1, H. Qed.

Lemma extends_cons a p t : lookup a t = None -> extends t ((a, p) :: t).
Proof.
  intros N a' p' H. cbn. destruct (String.eqb_spec a a') as [->|NE]; [congruence|exact H].
Qed.

(* the alias returned denotes the requested path, and earlier aliases keep their meaning *)
Theorem use_sound name path full t a t' :
  use name path full t = IOk a t' -> lookup a t' = Some path /\ extends t t'.
Proof.
  unfold use. destruct (lookup name t) as [p|] eqn:L.
  - destruct (String.eqb_spec p path) as [->|NE].
    + intros H; inversion H; subst. split; [exact L| apply extends_refl].
    + destruct (lookup full t) as [p2|] eqn:L2.
      * destruct (String.eqb_spec p2 path) as [->|NE2]; [|discriminate].
        intros H; inversion H; subst. split; [exact L2| apply extends_refl].
      * intros H; inversion H; subst. split; [cbn; rewrite String.eqb_refl; reflexivity| apply extends_cons; exact L2].
  - intros H; inversion H; subst. split; [cbn; rewrite String.eqb_refl; reflexivity| apply extends_cons; exact L].
Qed.

(* import_stable: asking again for the same package, at any later time, gives the same alias *)
Theorem use_stable name path full t a t1 t2 :
  use name path full t = IOk a t1 -> extends t1 t2 -> use name path full t2 = IOk a t2.
Proof.
  unfold use. destruct (lookup name t) as [p|] eqn:L.
  - destruct (String.eqb_spec p path) as [->|NE].
    + intros H E; inversion H as [[Ha Ht]]; subst a t1. rewrite (E _ _ L), String.eqb_refl. reflexivity.
    + destruct (lookup full t) as [p2|] eqn:L2.
      * destruct (String.eqb_spec p2 path) as [->|NE2]; [|discriminate].
        intros H E; inversion H as [[Ha Ht]]; subst a t1. rewrite (E _ _ L).
        destruct (String.eqb_spec p path); [contradiction|]. rewrite (E _ _ L2), String.eqb_refl. reflexivity.
      * intros H E; inversion H as [[Ha Ht]]; subst a t1.
        assert (L1 : lookup name ((full, path) :: t) = Some p) by (apply extends_cons; assumption).
        rewrite (E _ _ L1). destruct (String.eqb_spec p path); [contradiction|].
        assert (LF : lookup full ((full, path) :: t) = Some path) by (cbn; rewrite String.eqb_refl; reflexivity).
        rewrite (E _ _ LF), String.eqb_refl. reflexivity.
  - intros H E; inversion H as [[Ha Ht]]; subst a t1.
    assert (LN : lookup name ((name, path) :: t) = Some path) by (cbn; rewrite String.eqb_refl; reflexivity).
    rewrite (E _ _ LN), String.eqb_refl. reflexivity.
Qed.

(* import_injective: one alias never denotes two paths (the table is a function), so two
   different packages never share an alias in the emitted text *)
Theorem alias_functional t a p1 p2 : lookup a t = Some p1 -> lookup a t = Some p2 -> p1 = p2.
Proof. congruence. Qed.

(* the only failure is the explicit panic, exactly when the fall-back alias is already taken
   by another path *)
Theorem use_crash_iff name path full t :
  use name path full t = ICrash <->
  exists p p2, lookup name t = Some p /\ p <> path /\ lookup full t = Some p2 /\ p2 <> path.
Proof.
  unfold use. split.
  - destruct (lookup name t) as [p|]; [|discriminate].
    destruct (String.eqb_spec p path) as [->|NE]; [discriminate|].
    destruct (lookup full t) as [p2|]; [|discriminate].
    destruct (String.eqb_spec p2 path) as [->|NE2]; [discriminate|]. intros _. exists p, p2. auto.
  - intros (p & p2 & -> & NE & -> & NE2).
    destruct (String.eqb_spec p path); [contradiction|]. destruct (String.eqb_spec p2 path); [contradiction|]. reflexivity.
Qed.

(* a run of uses from the empty table: every alias in the table was returned by some use
   (imports_are_used: the table only grows through calls whose result is printed) *)
Fixpoint run (calls : list (string * string * string)) (t : table) : option (list string * table) :=
  match calls with
  | [] => Some ([], t)
  | (n, p, f) :: cs =>
      match use n p f t with
      | ICrash => None
      | IOk a t' => match run cs t' with Some (as_, t'') => Some (a :: as_, t'') | None => None end
      end
  end.

Theorem run_aliases_used calls : forall t as_ t',
  run calls t = Some (as_, t') ->
  forall a p, lookup a t' = Some p -> lookup a t = Some p \/ In a as_.
Proof.
  induction calls as [|[[n p] f] cs IH]; intros t as_ t' H a q L; cbn in H.
  - inversion H; subst. left; exact L.
  - destruct (use n p f t) as [a1 t1|] eqn:U; [|discriminate].
    destruct (run cs t1) as [[as1 t2]|] eqn:R; [|discriminate]. inversion H; subst.
    destruct (IH _ _ _ R a q L) as [L1|I]; [|right; right; exact I].
    unfold use in U. destruct (lookup n t) as [p0|] eqn:Ln.
    + destruct (String.eqb p0 p); [inversion U; subst; left; exact L1|].
      destruct (lookup f t) as [p2|] eqn:Lf.
      * destruct (String.eqb p2 p); [inversion U; subst; left; exact L1| discriminate].
      * inversion U; subst. cbn in L1. destruct (String.eqb_spec a1 a) as [->|NE]; [right; left; reflexivity| left; exact L1].
    + inversion U; subst. cbn in L1. destruct (String.eqb_spec a1 a) as [->|NE]; [right; left; reflexivity| left; exact L1].
Qed.

Example two_packages_called_ext :
  run [("ext", "p/x1/ext", "p_x1_ext"); ("ext", "p/x2/ext", "p_x2_ext"); ("ext", "p/x1/ext", "p_x1_ext");
       ("ext", "p/x2/ext", "p_x2_ext")] []
  = Some (["ext"; "p_x2_ext"; "ext"; "p_x2_ext"], [("p_x2_ext", "p/x2/ext"); ("ext", "p/x1/ext")]).
Proof. reflexivity. Qed.
