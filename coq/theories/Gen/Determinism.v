(* Gen/Determinism.v — C08: generation is deterministic.

   1. nameOf: if at most one registered entry matches a query, the answer is the same for every
      iteration order of the Go map ([name_of_order_independent]); this is the case whenever
      [teq] is an equivalence, because registration keeps the entries pairwise unrelated
      ([sep_unique_match]); lifted to whole operation sequences ([generate_deterministic]).
      Without the guard it is false of the pinned code ([name_of_order_refuted]: S1/S2/[]int);
      the repaired nameOf iterates in registration order ([in_order]), for which the run is a
      function of the operation list with no guard at all.
   2. sortPlugins: the result does not depend on the order in which main.go lists the plugins
      ([sort_plugins_perm]), for every sorting routine that meets sort.Slice's contract.
   3. printer.WriteTo: the import block depends only on the set of (alias, path) pairs, not on
      the iteration order of the imports map ([write_to_sorted]). *)
From Coq Require Import List String Bool Arith Lia Permutation Sorted.
From Verif Require Import Base Gen.TypesMap.
Import ListNotations.
Open Scope string_scope.
Open Scope list_scope.

(* ---------- generic: a strongly sorted permutation is unique ---------- *)
Section UniqueSorted.
Variable A : Type.
Variable R : A -> A -> Prop.
Hypothesis R_asym : forall a b, R a b -> R b a -> False.

Lemma sorted_perm_unique : forall l1 l2,
  StronglySorted R l1 -> StronglySorted R l2 -> Permutation l1 l2 -> l1 = l2.
Proof.
  induction l1 as [|a l1 IH]; intros l2 S1 S2 P.
  - apply Permutation_nil in P. now subst.
  - destruct l2 as [|b l2]; [apply Permutation_sym, Permutation_nil in P; discriminate|].
    inversion S1 as [|? ? S1' F1]; subst. inversion S2 as [|? ? S2' F2]; subst.
    assert (E : a = b).
    { assert (Ha : In a (b :: l2)) by (eapply Permutation_in; [exact P|now left]).
      assert (Hb : In b (a :: l1)) by (eapply Permutation_in; [apply Permutation_sym, P|now left]).
      destruct Ha as [Ha|Ha]; [now subst|]. destruct Hb as [Hb|Hb]; [now subst|].
      rewrite Forall_forall in F1, F2. exfalso. eapply R_asym; [apply F1, Hb|apply F2, Ha]. }
    subst b. f_equal. apply IH; auto. eapply Permutation_cons_inv; eauto.
Qed.
End UniqueSorted.

Lemma forallb_ext' {A} (f g : A -> bool) l : (forall x, f x = g x) -> forallb f l = forallb g l.
Proof. intro E. induction l as [|x l IH]; cbn; [reflexivity|]. now rewrite E, IH. Qed.

(* ---------- 1. nameOf and the operations of a typesMap ---------- *)
Section NameOf.
Variable tys : Type.
Variable teq : tys -> tys -> bool.
Variable hint : tys -> string.

Notation table := (list (name * tys)).

Definition at_most_one_match (t : table) (q : tys) : Prop :=
  forall e1 e2, In e1 t -> In e2 t -> teq q (snd e1) = true -> teq q (snd e2) = true -> e1 = e2.

Lemma find_perm_unique (t t1 t2 : table) q :
  at_most_one_match t q -> Permutation t1 t -> Permutation t2 t ->
  find (fun e => teq q (snd e)) t1 = find (fun e => teq q (snd e)) t2.
Proof.
  intros U P1 P2.
  destruct (find _ t1) as [e1|] eqn:E1; destruct (find _ t2) as [e2|] eqn:E2; auto.
  - apply find_some in E1, E2. destruct E1 as [I1 M1], E2 as [I2 M2]. f_equal.
    apply U; [exact (Permutation_in _ P1 I1)|exact (Permutation_in _ P2 I2)|exact M1|exact M2].
  - apply find_some in E1. destruct E1 as [I1 M1].
    assert (I2 : In e1 t2) by (exact (Permutation_in _ (Permutation_sym P2) (Permutation_in _ P1 I1))).
    pose proof (find_none _ _ E2 _ I2) as F. cbn in F. congruence.
  - apply find_some in E2. destruct E2 as [I2 M2].
    assert (I1 : In e2 t1) by (exact (Permutation_in _ (Permutation_sym P1) (Permutation_in _ P2 I2))).
    pose proof (find_none _ _ E1 _ I1) as F. cbn in F. congruence.
Qed.

Definition is_perm (o : table -> table) : Prop := forall t, Permutation (o t) t.

Theorem name_of_order_independent (o1 o2 : table -> table) (s : tm tys) q :
  is_perm o1 -> is_perm o2 -> at_most_one_match (tbl s) q ->
  name_of tys teq o1 s q = name_of tys teq o2 s q.
Proof.
  intros P1 P2 U. unfold name_of. f_equal. eapply find_perm_unique; eauto.
Qed.

(* the registered entries are pairwise unrelated *)
Definition Sep (t : table) : Prop :=
  forall e1 e2, In e1 t -> In e2 t -> teq (snd e1) (snd e2) = true -> e1 = e2.

Hypothesis teq_sym : forall a b, teq a b = teq b a.
Hypothesis teq_trans : forall a b c, teq a b = true -> teq b c = true -> teq a c = true.

Lemma sep_unique_match t q : Sep t -> at_most_one_match t q.
Proof.
  intros S e1 e2 I1 I2 M1 M2. apply S; auto.
  apply teq_trans with q; [now rewrite teq_sym|exact M2].
Qed.

(* operations a plugin performs on its typesMap, and what it gets back *)
Inductive op :=
| OSet (fn : name) (q : tys)
| OGet (q : tys)
| OGenerating (q : tys)
| OToGenerate
| ODone.

Inductive ans :=
| ASet (r : sres)
| AGet (n : option name)
| AGenerating (ok : bool)
| AToGenerate (l : list tys)
| ADone (b : bool).

Definition step (o : table -> table) (s : tm tys) (x : op) : tm tys * ans :=
  match x with
  | OSet fn q => let (s', r) := SetFuncName tys teq hint o s fn q in (s', ASet r)
  | OGet q => let (s', n) := GetFuncName tys teq hint o s q in (s', AGet n)
  | OGenerating q =>
      match generating tys teq o s q with
      | Ret s' => (s', AGenerating true)
      | Panic => (s, AGenerating false)
      end
  | OToGenerate => (s, AToGenerate (to_generate tys teq o s))
  | ODone => (s, ADone (done tys teq o s))
  end.

Fixpoint run (o : table -> table) (s : tm tys) (ops : list op) : tm tys * list ans :=
  match ops with
  | [] => (s, [])
  | x :: r => let (s', a) := step o s x in let (sf, l) := run o s' r in (sf, a :: l)
  end.

Section TwoOrders.
Variables o1 o2 : table -> table.
Hypothesis P1 : is_perm o1.
Hypothesis P2 : is_perm o2.

Definition agree (s : tm tys) : Prop :=
  forall q, name_of tys teq o1 s q = name_of tys teq o2 s q.

Lemma sep_agree s : Sep (tbl s) -> agree s.
Proof. intros S q. apply name_of_order_independent; auto. now apply sep_unique_match. Qed.

Lemma set_agree : forall d s fn q, agree s ->
  set_func_name tys teq hint o1 d s fn q = set_func_name tys teq hint o2 d s fn q.
Proof.
  induction d as [|d IH]; intros s fn q A; [reflexivity|].
  cbn [set_func_name]. rewrite <- (A q).
  destruct (name_of tys teq o1 s q); [reflexivity|].
  destruct (lookup (tbl s) fn); [|reflexivity].
  destruct (teq t q); [reflexivity|]. destruct (autoname s); [|reflexivity].
  unfold get_with. rewrite <- (A q).
  destruct (name_of tys teq o1 s q); [reflexivity|].
  destruct (new_name tys hint s q); [|reflexivity]. now rewrite IH.
Qed.

(* a SetFuncName call leaves the table alone or appends the queried type list, and the latter
   only when no registered entry matched it *)
Lemma set_shape (o : table -> table) : forall d s fn q s' r,
  set_func_name tys teq hint o d s fn q = (s', r) ->
  s' = s \/ (exists n, s' = insert s n q /\ name_of tys teq o s q = None).
Proof.
  induction d as [|d IH]; intros s fn q s' r H; cbn [set_func_name] in H.
  - inversion H; auto.
  - destruct (name_of tys teq o s q) eqn:N.
    + destruct (String.eqb n fn); [inversion H; auto|].
      destruct (dedup s); inversion H; auto.
    + destruct (lookup (tbl s) fn).
      * destruct (teq t q); [inversion H; auto|].
        destruct (autoname s); [|inversion H; auto].
        unfold get_with in H. rewrite N in H.
        destruct (new_name tys hint s q) as [n|]; [|inversion H; auto].
        destruct (set_func_name tys teq hint o d s n q) as [s2 r2] eqn:E. cbn in H.
        inversion H; subst. destruct (IH _ _ _ _ _ E) as [->|[n' [-> _]]]; eauto.
      * inversion H; subst. right. eauto.
Qed.

Lemma name_of_none_no_match (o : table -> table) (s : tm tys) q :
  is_perm o -> name_of tys teq o s q = None ->
  forall e, In e (tbl s) -> teq q (snd e) = false.
Proof.
  intros P N e I. unfold name_of in N.
  destruct (find _ (o (tbl s))) eqn:F; [discriminate|].
  apply (find_none _ _ F e). eapply Permutation_in; [apply Permutation_sym, P|exact I].
Qed.

Lemma sep_insert (o : table -> table) (s : tm tys) n q :
  is_perm o -> Sep (tbl s) -> name_of tys teq o s q = None -> Sep (tbl (insert s n q)).
Proof.
  intros P S N e1 e2 I1 I2 M. cbn in I1, I2. apply in_app_iff in I1, I2.
  pose proof (name_of_none_no_match o s q P N) as NM.
  destruct I1 as [I1|[<-|[]]], I2 as [I2|[<-|[]]]; cbn in *; auto.
  - rewrite teq_sym in M. rewrite (NM _ I1) in M. discriminate.
  - rewrite (NM _ I2) in M. discriminate.
Qed.

Lemma step_agree s x : Sep (tbl s) ->
  step o1 s x = step o2 s x /\ Sep (tbl (fst (step o1 s x))).
Proof.
  intro S. pose proof (sep_agree s S) as A.
  destruct x as [fn q|q|q| |]; cbn [step].
  - unfold SetFuncName. rewrite (set_agree _ _ _ _ A). split; [reflexivity|].
    destruct (set_func_name tys teq hint o2 depth s fn q) as [s' r] eqn:E. cbn.
    destruct (set_shape o2 _ _ _ _ _ _ E) as [->|[n [-> N]]]; [exact S|].
    eapply sep_insert; eauto.
  - unfold GetFuncName, get_with. rewrite <- (A q).
    destruct (name_of tys teq o1 s q) eqn:N; [split; [reflexivity|exact S]|].
    destruct (new_name tys hint s q) as [n|]; [|split; [reflexivity|exact S]].
    rewrite (set_agree _ _ _ _ A). split; [reflexivity|].
    destruct (set_func_name tys teq hint o2 depth s n q) as [s' r] eqn:E. cbn.
    destruct (set_shape o2 _ _ _ _ _ _ E) as [->|[n' [-> N']]]; [exact S|].
    eapply sep_insert; eauto.
  - unfold generating. rewrite <- (A q).
    destruct (name_of tys teq o1 s q); cbn; split; auto.
  - split; [|exact S]. unfold to_generate. f_equal. f_equal.
    assert (E : forall q, is_generated tys teq o1 s q = is_generated tys teq o2 s q).
    { intro q. unfold is_generated. now rewrite (A q). }
    apply filter_ext. intro q. now rewrite E.
  - split; [|exact S]. unfold done. f_equal. f_equal.
    apply forallb_ext'. intro q. unfold is_generated. now rewrite (A q).
Qed.

(* every answer a plugin ever receives from its typesMap, hence every byte it prints, is the
   same for any two iteration orders *)
Theorem generate_deterministic : forall ops s, Sep (tbl s) -> run o1 s ops = run o2 s ops.
Proof.
  induction ops as [|x r IH]; intros s S; [reflexivity|].
  cbn [run]. destruct (step_agree s x S) as [E S']. rewrite <- E.
  destruct (step o1 s x) as [s' a]. cbn in S'. now rewrite (IH s' S').
Qed.
End TwoOrders.
End NameOf.

Arguments OSet {tys}.
Arguments OGet {tys}.
Arguments OGenerating {tys}.
Arguments OToGenerate {tys}.
Arguments ODone {tys}.
Arguments ASet {tys}.
Arguments AGet {tys}.
Arguments AGenerating {tys}.
Arguments AToGenerate {tys}.
Arguments ADone {tys}.

(* the pinned nameOf: `type S1 []int; type S2 []int` registered, an unnamed []int queried.
   0 = (S1,S1), 1 = (S2,S2), 2 = ([]int,[]int); []int is assignable to both named types. *)
Module Refuted.
Definition teq (a b : nat) : bool :=
  match a, b with
  | 0, 0 | 1, 1 | 2, 2 | 2, 0 | 2, 1 | 0, 2 | 1, 2 => true
  | _, _ => false
  end.
Definition s : tm nat :=
  mk_tm [("deriveEqualS1", 0); ("deriveEqualS2", 1)] [] [] "deriveEqual" false false.

Lemma name_of_order_refuted :
  exists o1 o2 : list (name * nat) -> list (name * nat),
    (forall t, Permutation (o1 t) t) /\ (forall t, Permutation (o2 t) t) /\
    name_of nat teq o1 s 2 = Some "deriveEqualS1" /\
    name_of nat teq o2 s 2 = Some "deriveEqualS2".
Proof.
  exists (fun t => t), (@rev _). repeat split.
  - intro t. apply Permutation_refl.
  - intro t. apply Permutation_sym, Permutation_rev.
Qed.

(* the repaired nameOf has one order: the first registration wins *)
Example name_of_in_order : name_of nat teq in_order s 2 = Some "deriveEqualS1".
Proof. reflexivity. Qed.

(* the guard of generate_deterministic is satisfiable: equality on nat is an equivalence and a
   run with a conflict resolved by -autoname gives the same answers under both orders *)
Example deterministic_example :
  let s0 := init "deriveEqual" [] true true in
  let ops := [OSet "deriveEqual" 0; OSet "deriveEqual" 1; OGet 2; OToGenerate; OGenerating 1; ODone] in
  run nat Nat.eqb (fun _ => "") (fun t => t) s0 ops = run nat Nat.eqb (fun _ => "") (@rev _) s0 ops.
Proof. reflexivity. Qed.
End Refuted.

(* ---------- 2. sortPlugins ---------- *)
Section SortPlugins.
(* generate.go: longer prefix first; equal lengths: lexicographically greater first *)
Definition less (a b : string) : bool :=
  if Nat.eqb (String.length a) (String.length b) then String.ltb b a
  else Nat.ltb (String.length b) (String.length a).

Lemma ltb_asym a b : String.ltb a b = true -> String.ltb b a = true -> False.
Proof.
  unfold String.ltb. rewrite (String.compare_antisym b a).
  destruct (String.compare a b); cbn; discriminate.
Qed.

Lemma ltb_total a b : a <> b -> String.ltb a b = true \/ String.ltb b a = true.
Proof.
  intro N. unfold String.ltb. rewrite (String.compare_antisym b a).
  destruct (String.compare a b) eqn:E; cbn; auto.
  apply String.compare_eq_iff in E. contradiction.
Qed.

Lemma less_asym a b : less a b = true -> less b a = true -> False.
Proof.
  unfold less. rewrite (Nat.eqb_sym (String.length b)).
  destruct (Nat.eqb_spec (String.length a) (String.length b)).
  - apply ltb_asym.
  - intros H1 H2. apply Nat.ltb_lt in H1, H2. lia.
Qed.

Lemma less_total a b : a <> b -> less a b = true \/ less b a = true.
Proof.
  intro N. unfold less. rewrite (Nat.eqb_sym (String.length b)).
  destruct (Nat.eqb_spec (String.length a) (String.length b)).
  - destruct (ltb_total a b N); auto.
  - destruct (Nat.ltb_spec (String.length b) (String.length a)); auto.
    right. apply Nat.ltb_lt. lia.
Qed.

(* what sort.Slice promises for a strict weak order: the result is a permutation of the input
   in which no later element is `less` than an earlier one *)
Definition sorts (less : string -> string -> bool) (sorter : list string -> list string) : Prop :=
  forall l, Permutation (sorter l) l /\
            StronglySorted (fun a b => less b a = false) (sorter l).

Theorem sort_plugins_perm (sorter1 sorter2 : list string -> list string) ps ps' :
  sorts less sorter1 -> sorts less sorter2 ->
  NoDup ps -> Permutation ps ps' -> sorter1 ps = sorter2 ps'.
Proof.
  intros C1 C2 ND P. destruct (C1 ps) as [Pa Sa]. destruct (C2 ps') as [Pb Sb].
  assert (NDa : NoDup (sorter1 ps)) by (eapply Permutation_NoDup; [apply Permutation_sym, Pa|exact ND]).
  (* on a duplicate-free list "not less b a" sharpens to "less a b" *)
  assert (sharpen : forall l, NoDup l -> StronglySorted (fun a b => less b a = false) l ->
                     StronglySorted (fun a b => less a b = true) l).
  { induction l as [|x l IH]; intros N S; [constructor|].
    inversion N as [|? ? Nx Nl]; subst. inversion S as [|? ? Sl Fx]; subst. constructor; [auto|].
    rewrite Forall_forall in *. intros y Hy.
    destruct (less_total x y) as [L|L]; [intro; subst; contradiction|exact L|].
    rewrite (Fx y Hy) in L. discriminate. }
  apply (sorted_perm_unique _ (fun a b => less a b = true)).
  - intros a b. apply less_asym.
  - now apply sharpen.
  - apply sharpen; [|exact Sb].
    eapply Permutation_NoDup; [|exact ND].
    eapply Permutation_trans; [exact P|apply Permutation_sym, Pb].
  - eapply Permutation_trans; [exact Pa|]. eapply Permutation_trans; [exact P|apply Permutation_sym, Pb].
Qed.
End SortPlugins.

(* an executable sorter for the evaluator: insertion sort (stable, like any correct sort here,
   because the prefixes are distinct) *)
Fixpoint ins (less : string -> string -> bool) (x : string) (l : list string) : list string :=
  match l with
  | [] => [x]
  | y :: r => if less y x then y :: ins less x r else x :: l
  end.
Definition isort (less : string -> string -> bool) (l : list string) : list string :=
  fold_right (ins less) [] l.

Lemma ins_perm less x l : Permutation (ins less x l) (x :: l).
Proof.
  induction l as [|y r IH]; cbn; [apply Permutation_refl|].
  destruct (less y x); [|apply Permutation_refl].
  eapply Permutation_trans; [apply perm_skip, IH|apply perm_swap].
Qed.
Lemma isort_perm less l : Permutation (isort less l) l.
Proof.
  induction l as [|x l IH]; cbn; [constructor|].
  eapply Permutation_trans; [apply ins_perm|now apply perm_skip].
Qed.

(* ---------- 3. printer.WriteTo: the import block ---------- *)
Section WriteTo.
(* the imports map alias -> path, as the list of pairs in the order `range p.imports` visits *)
Notation imports := (list (string * string)).

(* pathToQual[path] = qual inside the range loop: the last visited pair with that path wins *)
Definition path_to_qual (im : imports) (path : string) : string :=
  match find (fun e => String.eqb (snd e) path) (rev im) with
  | Some e => fst e
  | None => ""
  end.

(* one line of the import block: (alias or "" when the alias equals the path, path) *)
Definition import_line (im : imports) (path : string) : string * string :=
  let q := path_to_qual im path in
  (if String.eqb q path then "" else q, path).

Definition write_to (sorter : list string -> list string) (im : imports) : list (string * string) :=
  map (import_line im) (sorter (map snd im)).

Definition sless (a b : string) : bool := String.ltb a b.   (* sort.Strings *)

Lemma path_to_qual_In (im : imports) a p :
  NoDup (map snd im) -> In (a, p) im -> path_to_qual im p = a.
Proof.
  intros ND I. unfold path_to_qual.
  destruct (find _ (rev im)) as [[a' p']|] eqn:F.
  - apply find_some in F. destruct F as [I' E]. cbn in E. apply String.eqb_eq in E. subst p'.
    apply in_rev in I'. cbn.
    clear -ND I I'. induction im as [|[x y] im IH]; [contradiction|].
    cbn in ND. inversion ND as [|? ? Hn ND']; subst.
    destruct I as [I|I], I' as [I'|I'].
    + congruence.
    + inversion I; subst. destruct Hn. apply in_map_iff. now exists (a', p).
    + inversion I'; subst. destruct Hn. apply in_map_iff. now exists (a, p).
    + auto.
  - pose proof (find_none _ _ F (a, p)) as N. cbn in N. rewrite String.eqb_refl in N.
    exfalso. assert (In (a, p) (rev im)) by (now apply in_rev in I || now rewrite <- in_rev).
    specialize (N H). discriminate.
Qed.

Theorem write_to_sorted (sorter1 sorter2 : list string -> list string) (im1 im2 : imports) :
  sorts sless sorter1 -> sorts sless sorter2 ->
  NoDup (map snd im1) -> Permutation im1 im2 ->
  write_to sorter1 im1 = write_to sorter2 im2.
Proof.
  intros C1 C2 ND P. unfold write_to.
  assert (P' : Permutation (map snd im1) (map snd im2)) by (now apply Permutation_map).
  assert (ND2 : NoDup (map snd im2)) by (eapply Permutation_NoDup; eauto).
  assert (E : sorter1 (map snd im1) = sorter2 (map snd im2)).
  { destruct (C1 (map snd im1)) as [Pa Sa]. destruct (C2 (map snd im2)) as [Pb Sb].
    assert (sharpen : forall l, NoDup l -> StronglySorted (fun a b => sless b a = false) l ->
                       StronglySorted (fun a b => sless a b = true) l).
    { induction l as [|x l IH]; intros N S; [constructor|].
      inversion N as [|? ? Nx Nl]; subst. inversion S as [|? ? Sl Fx]; subst. constructor; [auto|].
      rewrite Forall_forall in *. intros y Hy.
      destruct (ltb_total x y) as [L|L]; [intro; subst; contradiction|exact L|].
      unfold sless in Fx. rewrite (Fx y Hy) in L. discriminate. }
    apply (sorted_perm_unique _ (fun a b => sless a b = true)).
    - intros a b. apply ltb_asym.
    - apply sharpen; [|exact Sa]. eapply Permutation_NoDup; [apply Permutation_sym, Pa|exact ND].
    - apply sharpen; [|exact Sb]. eapply Permutation_NoDup; [apply Permutation_sym, Pb|exact ND2].
    - eapply Permutation_trans; [exact Pa|]. eapply Permutation_trans; [exact P'|apply Permutation_sym, Pb]. }
  rewrite E. apply map_ext_in. intros p Hp.
  assert (Hp2 : In p (map snd im2)).
  { destruct (C2 (map snd im2)) as [Pb _]. eapply Permutation_in; eauto. }
  apply in_map_iff in Hp2. destruct Hp2 as [[a p'] [Ep I2]]. cbn in Ep. subst p'.
  assert (I1 : In (a, p) im1) by (eapply Permutation_in; [apply Permutation_sym, P|exact I2]).
  unfold import_line. now rewrite (path_to_qual_In im1 a p ND I1), (path_to_qual_In im2 a p ND2 I2).
Qed.
End WriteTo.
