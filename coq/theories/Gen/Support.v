(* Gen/Support.v — which argument types the type-recursive plugins accept (C01, C09): the
   conditions under which deepcopy, clone and gostring return a generator error, transcribed
   from genStatement/genField of each plugin.  (Equal: Go/Equal.v eq_sup; Compare:
   Go/CompareSpec.v cmp_sup; Hash: Go/Hash.v hash_sup.) *)
From Verif Require Import Go.Ty.

Section Fields.
Variable f : ty -> bool.
Fixpoint all_fields (l : list (bool * ty)) : bool :=
  match l with [] => true | fd :: l' => (f (snd fd) && all_fields l')%bool end.
End Fields.

(* plugin/deepcopy genField (named = the type is the underlying type of a named type) *)
Fixpoint dc_fld (named : bool) (t : ty) : bool :=
  if can_equal t then true else
  match t with
  | TB _ | TRef _ => true
  | TN _ _ u => dc_fld true u
  | TP rt =>
      (* helper for the pointer type: genStatement, case *types.Pointer *)
      match rt with
      | TN _ _ (TSt fs) => all_fields (fun ft => dc_fld false ft) fs
      | TN _ _ u => dc_fld true u
      | TRef _ => true
      | TSt _ => false                       (* pointer to an unnamed struct *)
      | _ => dc_fld false rt
      end
  | TSl et => dc_fld false et
  | TAr _ et => dc_fld false et
  | TM _ vt => dc_fld false vt
  | TSt fs => (named && all_fields (fun ft => dc_fld false ft) fs)%bool
  end.

(* deriveDeepCopy(dst, src T) at top level: genStatement *)
Definition dc_top (t : ty) : bool :=
  if can_equal t then true else
  match t with
  | TN _ _ (TSt _) | TSt _ => false          (* a struct value that is not plainly assignable *)
  | _ => dc_fld false t
  end.

(* deriveClone(T): allocates, then deepcopy of T (pointer, slice, map) or of *T *)
Definition clone_sup (t : ty) : bool :=
  match t with
  | TP _ | TSl _ | TM _ _ | TN _ _ (TP _) | TN _ _ (TSl _) | TN _ _ (TM _ _) => dc_top t
  | _ => dc_fld false (TP t)
  end.

(* plugin/gostring: only unexported fields of imported structs are refused *)
Fixpoint gs_sup (t : ty) : bool :=
  match t with
  | TB _ | TRef _ => true
  | TN _ ext (TSt fs) =>
      (negb (ext && existsb (fun fd => fst fd) fs) && all_fields gs_sup fs)%bool
  | TN _ _ u => gs_sup u
  | TP rt => gs_sup rt
  | TSl et => gs_sup et
  | TAr _ et => gs_sup et
  | TM k v => (gs_sup k && gs_sup v)%bool
  | TSt fs => all_fields gs_sup fs
  end.
