(* Gen/Names.v — C11: conflicts and duplicates are detected exactly and resolved soundly.
   Theorems about [add_all] (newPackage's loop of SetFuncName calls over one typesMap) for ALL
   call lists, all prefixes, all reserved sets, every iteration order of the Go map, with type
   equality a decidable equality on an abstract alphabet (the property's quantifier fixes
   pairwise non-assignable argument types), and their lifting to several plugins. *)
From Coq Require Import List String Bool Arith Lia Permutation.
From Verif Require Import Base Gen.TypesMap Gen.NewName.
Import ListNotations.
Open Scope string_scope.
Open Scope list_scope.

(* ---------- clashes of a call list (the independent specification) ---------- *)
Section Clash.
Variable tys : Type.

(* one name used with two different argument type lists *)
Definition has_conflict (l : list (name * tys)) : Prop :=
  exists n t1 t2, In (n, t1) l /\ In (n, t2) l /\ t1 <> t2.
(* two names used for the same argument type list *)
Definition has_dup (l : list (name * tys)) : Prop :=
  exists t n1 n2, In (n1, t) l /\ In (n2, t) l /\ n1 <> n2.
Definition clash (l : list (name * tys)) : Prop := has_conflict l \/ has_dup l.

Lemma has_conflict_incl l1 l2 : incl l1 l2 -> has_conflict l1 -> has_conflict l2.
Proof. intros I (n & a & b & H1 & H2 & H3). exists n, a, b. auto. Qed.
Lemma has_dup_incl l1 l2 : incl l1 l2 -> has_dup l1 -> has_dup l2.
Proof. intros I (t & a & b & H1 & H2 & H3). exists t, a, b. auto. Qed.
Lemma clash_incl l1 l2 : incl l1 l2 -> clash l1 -> clash l2.
Proof. intros I [H|H]; [left; eapply has_conflict_incl|right; eapply has_dup_incl]; eauto. Qed.

(* the table is a bijection between names and type lists *)
Definition Bij (t : list (name * tys)) : Prop := NoDup (map fst t) /\ NoDup (map snd t).

Lemma nodup_fst_fun (t : list (name * tys)) n a b :
  NoDup (map fst t) -> In (n, a) t -> In (n, b) t -> a = b.
Proof.
  induction t as [|[m c] t IH]; cbn; intros ND Ha Hb; [contradiction|].
  inversion ND as [|? ? Hn ND']; subst.
  destruct Ha as [Ha|Ha], Hb as [Hb|Hb].
  - congruence.
  - inversion Ha; subst. destruct Hn. apply in_map_iff. now exists (n, b).
  - inversion Hb; subst. destruct Hn. apply in_map_iff. now exists (n, a).
  - auto.
Qed.

Lemma nodup_snd_fun (t : list (name * tys)) q a b :
  NoDup (map snd t) -> In (a, q) t -> In (b, q) t -> a = b.
Proof.
  induction t as [|[m c] t IH]; cbn; intros ND Ha Hb; [contradiction|].
  inversion ND as [|? ? Hn ND']; subst.
  destruct Ha as [Ha|Ha], Hb as [Hb|Hb].
  - congruence.
  - inversion Ha; subst. destruct Hn. apply in_map_iff. now exists (b, q).
  - inversion Hb; subst. destruct Hn. apply in_map_iff. now exists (a, q).
  - auto.
Qed.

Lemma Bij_no_clash t : Bij t -> ~ clash t.
Proof.
  intros [N1 N2] [(n & a & b & H1 & H2 & H3)|(q & a & b & H1 & H2 & H3)].
  - apply H3. eapply nodup_fst_fun; eauto.
  - apply H3. eapply nodup_snd_fun; eauto.
Qed.

Lemma NoDup_snoc {A} (l : list A) x : NoDup l -> ~ In x l -> NoDup (l ++ [x]).
Proof.
  intros ND Hn. apply (Permutation_NoDup (l := x :: l)).
  - apply Permutation_cons_append.
  - now constructor.
Qed.

Lemma Bij_snoc t n q : Bij t -> ~ In n (map fst t) -> ~ In q (map snd t) -> Bij (t ++ [(n, q)]).
Proof.
  intros [N1 N2] H1 H2. split; rewrite map_app; cbn; now apply NoDup_snoc.
Qed.

Lemma Bij_nil : Bij [].
Proof. split; constructor. Qed.
End Clash.

Arguments has_conflict {tys}.
Arguments has_dup {tys}.
Arguments clash {tys}.
Arguments Bij {tys}.

(* ---------- one typesMap, equality on an abstract alphabet of type lists ---------- *)
Section OneMap.
Variable tys : Type.
Variable tys_eqb : tys -> tys -> bool.
Hypothesis tys_eqb_spec : forall a b, reflect (a = b) (tys_eqb a b).
Variable hint : tys -> string.
Variable order : list (name * tys) -> list (name * tys).
Hypothesis order_perm : forall t, Permutation (order t) t.

Notation tm := (tm tys).
Notation name_of := (name_of tys tys_eqb order).
Notation new_name := (new_name tys hint).
Notation SetFuncName := (SetFuncName tys tys_eqb hint order).
Notation add_all := (add_all tys tys_eqb hint order).

Lemma name_of_Some (s : tm) q f : name_of s q = Some f -> In (f, q) (tbl s).
Proof.
  unfold TypesMap.name_of. destruct (find _ _) as [[n t]|] eqn:E; cbn; [|discriminate].
  intro H; inversion H; subst. apply find_some in E. destruct E as [Hin Heq]. cbn in Heq.
  destruct (tys_eqb_spec q t); [subst|discriminate].
  eapply Permutation_in; [apply order_perm|exact Hin].
Qed.

Lemma name_of_None (s : tm) q : name_of s q = None -> ~ In q (map snd (tbl s)).
Proof.
  unfold TypesMap.name_of. destruct (find _ _) as [e|] eqn:E; cbn; [discriminate|].
  intros _ Hin. apply in_map_iff in Hin. destruct Hin as [[n t] [Hq Hin]]. cbn in Hq. subst t.
  assert (Hin' : In (n, q) (order (tbl s))).
  { eapply Permutation_in; [apply Permutation_sym, order_perm|exact Hin]. }
  pose proof (find_none _ _ E _ Hin') as F. cbn in F.
  destruct (tys_eqb_spec q q); [discriminate|congruence].
Qed.

Lemma lookup_Some (t : list (name * tys)) n ts : lookup t n = Some ts -> In (n, ts) t.
Proof.
  unfold lookup. destruct (find _ _) as [[m c]|] eqn:E; cbn; [|discriminate].
  intro H; inversion H; subst. apply find_some in E. destruct E as [Hin Heq]. cbn in Heq.
  apply String.eqb_eq in Heq. now subst.
Qed.

Lemma lookup_None (t : list (name * tys)) n : lookup t n = None -> ~ In n (map fst t).
Proof.
  unfold lookup. destruct (find _ _) as [e|] eqn:E; cbn; [discriminate|].
  intros _ Hin. apply in_map_iff in Hin. destruct Hin as [[m c] [Hq Hin]]. cbn in Hq. subst m.
  pose proof (find_none _ _ E _ Hin) as F. cbn in F. rewrite String.eqb_refl in F. discriminate.
Qed.

(* what one SetFuncName call does, by cases on the table *)
Definition step_spec (s : tm) (fn : name) (q : tys) (r : tm * sres) : Prop :=
  (exists f, In (f, q) (tbl s) /\
     ((f = fn /\ r = (s, SOk fn)) \/
      (f <> fn /\ dedup s = true /\ r = (s, SOk f)) \/
      (f <> fn /\ dedup s = false /\ r = (s, SDup f fn))))
  \/ (~ In q (map snd (tbl s)) /\ exists ts, In (fn, ts) (tbl s) /\ ts <> q /\
     ((autoname s = false /\ r = (s, SConflict fn)) \/
      (autoname s = true /\ exists n, new_name s q = Some n /\ ~ In n (map fst (tbl s)) /\
         ~ In n (reserved s) /\ r = (insert s n q, SOk n))))
  \/ (~ In q (map snd (tbl s)) /\ ~ In fn (map fst (tbl s)) /\ r = (insert s fn q, SOk fn)).

Lemma set_cases (s : tm) fn q : step_spec s fn q (SetFuncName s fn q).
Proof.
  unfold step_spec, TypesMap.SetFuncName, depth. cbn [set_func_name].
  destruct (name_of s q) as [f|] eqn:N.
  - left. exists f. split; [now apply name_of_Some|].
    destruct (String.eqb_spec f fn) as [->|Hne]; [now left|].
    destruct (dedup s) eqn:D; [right; left|right; right]; auto.
  - pose proof (name_of_None _ _ N) as Hq.
    destruct (lookup (tbl s) fn) as [ts|] eqn:Lk.
    + right; left. split; [exact Hq|]. exists ts. apply lookup_Some in Lk. split; [exact Lk|].
      destruct (tys_eqb_spec ts q) as [->|Hne].
      { destruct Hq. apply in_map_iff. now exists (fn, q). }
      split; [exact Hne|].
      destruct (autoname s) eqn:A; [right|left; auto].
      split; [reflexivity|].
      unfold get_with. rewrite N.
      destruct (new_name_terminates tys hint s q) as [n Hn]. rewrite Hn.
      destruct (new_name_fresh tys hint s q n Hn) as [F1 F2].
      exists n. repeat split; auto.
      destruct (lookup (tbl s) n) as [ts'|] eqn:Lk'.
      { apply lookup_Some in Lk'. destruct F1. apply in_map_iff. now exists (n, ts'). }
      reflexivity.
    + right; right. apply lookup_None in Lk. auto.
Qed.

Definition aerr (a : ares tys) : bool := match a with AErr _ _ => true | AOk _ _ => false end.

Lemma add_all_cons_ok s fn q r s' m :
  SetFuncName s fn q = (s', SOk m) ->
  add_all s ((fn, q) :: r) =
    match add_all s' r with AOk sf ms => AOk sf (m :: ms) | AErr i e => AErr (S i) e end.
Proof. intro H. cbn [TypesMap.add_all]. now rewrite H. Qed.

Lemma aerr_cons_ok s fn q r s' m :
  SetFuncName s fn q = (s', SOk m) -> aerr (add_all s ((fn, q) :: r)) = aerr (add_all s' r).
Proof. intro H. rewrite (add_all_cons_ok _ _ _ _ _ _ H). now destruct (add_all s' r). Qed.

Lemma tbl_insert (s : tm) n q : tbl (insert s n q) = tbl s ++ [(n, q)].
Proof. reflexivity. Qed.

Lemma snoc_app {A} (t : list A) x r : (t ++ [x]) ++ r = t ++ x :: r.
Proof. now rewrite <- app_assoc. Qed.

(* ---- exactness of the error condition ---- *)
Lemma exact_gen : forall calls (s : tm),
  Bij (tbl s) ->
  (dedup s = false \/ ~ has_dup (tbl s ++ calls)) ->
  (autoname s = false \/ ~ has_conflict (tbl s ++ calls)) ->
  (aerr (add_all s calls) = true <-> clash (tbl s ++ calls)).
Proof.
  induction calls as [|[fn q] r IH]; intros s B HD HA.
  - cbn. rewrite app_nil_r. split; [discriminate|]. intro C. now destruct (Bij_no_clash _ _ B).
  - assert (Hin_call : In (fn, q) (tbl s ++ (fn, q) :: r)) by (apply in_app_iff; right; now left).
    destruct (set_cases s fn q) as
      [(f & Hf & [(E & R)|[(Ne & D & R)|(Ne & D & R)]])
      |[(Hq & ts & Hts & Hne & [(A & R)|(A & n & Hn & F1 & F2 & R)])
       |(Hq & Hfn & R)]].
    + (* already registered under this name *)
      subst f. rewrite (aerr_cons_ok _ _ _ _ _ _ R).
      assert (I1 : incl (tbl s ++ r) (tbl s ++ (fn, q) :: r)).
      { intros x Hx. apply in_app_iff in Hx. apply in_app_iff. destruct Hx; [now left|right; now right]. }
      assert (I2 : incl (tbl s ++ (fn, q) :: r) (tbl s ++ r)).
      { intros x Hx. apply in_app_iff in Hx. apply in_app_iff.
        destruct Hx as [Hx|[Hx|Hx]]; [now left|subst; now left|now right]. }
      rewrite IH; auto.
      * split; apply clash_incl; assumption.
      * destruct HD as [HD|HD]; [now left|right]. intro C. apply HD. eapply has_dup_incl; eauto.
      * destruct HA as [HA|HA]; [now left|right]. intro C. apply HA. eapply has_conflict_incl; eauto.
    + (* duplicate, -dedup set: excluded by the hypothesis *)
      exfalso. destruct HD as [HD|HD]; [congruence|]. apply HD.
      exists q, f, fn. repeat split; auto. apply in_app_iff; now left.
    + (* duplicate: error *)
      cbn [TypesMap.add_all]. rewrite R. cbn. split; [intros _|reflexivity].
      right. exists q, f, fn. repeat split; auto. apply in_app_iff; now left.
    + (* conflict: error *)
      cbn [TypesMap.add_all]. rewrite R. cbn. split; [intros _|reflexivity].
      left. exists fn, ts, q. repeat split; auto. apply in_app_iff; now left.
    + (* conflict, -autoname set: excluded by the hypothesis *)
      exfalso. destruct HA as [HA|HA]; [congruence|]. apply HA.
      exists fn, ts, q. repeat split; auto. apply in_app_iff; now left.
    + (* fresh registration *)
      rewrite (aerr_cons_ok _ _ _ _ _ _ R).
      rewrite IH; rewrite ?tbl_insert, ?snoc_app; auto.
      * reflexivity.
      * now apply Bij_snoc.
Qed.

(* no flags: the run fails exactly on a conflict or a duplicate *)
Theorem noflag_exact (pre : name) (res : list name) calls :
  aerr (add_all (init pre res false false) calls) = true <-> has_conflict calls \/ has_dup calls.
Proof. apply (exact_gen calls (init pre res false false)); cbn; auto using Bij_nil. Qed.

(* without -dedup (with or without -autoname) a package whose only clashes are duplicates fails,
   and it fails only because of them *)
Theorem autoname_only_dups_fail (pre : name) (res : list name) (a : bool) calls :
  ~ has_conflict calls ->
  (aerr (add_all (init pre res a false) calls) = true <-> has_dup calls).
Proof.
  intro NC. rewrite (exact_gen calls (init pre res a false)); cbn; auto using Bij_nil.
  unfold clash. tauto.
Qed.

(* without -autoname (with or without -dedup) a package whose only clashes are conflicts fails *)
Theorem dedup_only_conflicts_fail (pre : name) (res : list name) (d : bool) calls :
  ~ has_dup calls ->
  (aerr (add_all (init pre res false d) calls) = true <-> has_conflict calls).
Proof.
  intro ND. rewrite (exact_gen calls (init pre res false d)); cbn; auto using Bij_nil.
  unfold clash. tauto.
Qed.

(* ---- both flags: every package is accepted ---- *)
Lemma both_flags_gen : forall calls (s : tm),
  Bij (tbl s) -> autoname s = true -> dedup s = true -> aerr (add_all s calls) = false.
Proof.
  induction calls as [|[fn q] r IH]; intros s B A D; [reflexivity|].
  destruct (set_cases s fn q) as
      [(f & Hf & [(E & R)|[(Ne & D' & R)|(Ne & D' & R)]])
      |[(Hq & ts & Hts & Hne & [(A' & R)|(A' & n & Hn & F1 & F2 & R)])
       |(Hq & Hfn & R)]]; try congruence;
    rewrite (aerr_cons_ok _ _ _ _ _ _ R); apply IH; auto; now apply Bij_snoc.
Qed.

Theorem both_flags_accept (pre : name) (res : list name) calls :
  exists sf ms, add_all (init pre res true true) calls = AOk sf ms.
Proof.
  pose proof (both_flags_gen calls (init pre res true true) (Bij_nil _) eq_refl eq_refl) as H.
  destruct (add_all _ calls) as [sf ms|]; [now exists sf, ms|discriminate].
Qed.

(* ---- the model never runs out of its recursion budget ---- *)
Lemma no_fuel_gen : forall calls (s : tm) i, Bij (tbl s) -> add_all s calls <> AErr i SFuel.
Proof.
  induction calls as [|[fn q] r IH]; intros s i B; [discriminate|].
  destruct (set_cases s fn q) as
      [(f & Hf & [(E & R)|[(Ne & D' & R)|(Ne & D' & R)]])
      |[(Hq & ts & Hts & Hne & [(A' & R)|(A' & n & Hn & F1 & F2 & R)])
       |(Hq & Hfn & R)]];
    try (cbn [TypesMap.add_all]; rewrite R; discriminate);
    rewrite (add_all_cons_ok _ _ _ _ _ _ R);
    match goal with |- context [add_all ?s' r] =>
      pose proof (IH s') as IH'; destruct (add_all s' r) as [sf ms|j e]; [discriminate|] end;
    intro H; inversion H; subst; eapply IH'; eauto; now apply Bij_snoc.
Qed.

Theorem add_all_no_fuel (pre : name) (res : list name) (a d : bool) calls i :
  add_all (init pre res a d) calls <> AErr i SFuel.
Proof. apply no_fuel_gen, Bij_nil. Qed.

(* ---- soundness of the renaming on every successful run ---- *)
Lemma reserved_insert (s : tm) n q : reserved (insert s n q) = n :: reserved s.
Proof. reflexivity. Qed.

Lemma sound_gen : forall calls (s sf : tm) ms,
  Bij (tbl s) -> add_all s calls = AOk sf ms ->
  Bij (tbl sf) /\ incl (tbl s) (tbl sf) /\ List.length ms = List.length calls /\
  (forall c m, In (c, m) (combine calls ms) -> In (m, snd c) (tbl sf)) /\
  incl (reserved s) (reserved sf) /\
  (forall m, In m (map fst (tbl sf)) ->
     In m (map fst (tbl s)) \/ In m (map fst calls) \/ ~ In m (reserved s)).
Proof.
  induction calls as [|[fn q] r IH]; intros s sf ms B H.
  - cbn in H. inversion H; subst. repeat split; auto using incl_refl; try apply B.
    intros c m [].
  - destruct (set_cases s fn q) as
      [(f & Hf & [(E & R)|[(Ne & D' & R)|(Ne & D' & R)]])
      |[(Hq & ts & Hts & Hne & [(A' & R)|(A' & n & Hn & F1 & F2 & R)])
       |(Hq & Hfn & R)]];
    try (cbn [TypesMap.add_all] in H; rewrite R in H; discriminate);
    rewrite (add_all_cons_ok _ _ _ _ _ _ R) in H;
    match type of H with context [add_all ?s' r] =>
      pose proof (IH s') as IH'; destruct (add_all s' r) as [sf' ms'|j e]; [|discriminate] end;
    inversion H; subst; clear H.
    + (* same name *)
      destruct (IH' sf ms' B eq_refl) as (B' & I & L & C & Rs & Fr).
      split; [exact B'|]. split; [exact I|]. split; [cbn; now rewrite L|].
      split; [|split; [exact Rs|]].
      * intros c m [Hc|Hc]; [inversion Hc; subst; cbn; now apply I|now apply C].
      * intros m Hm. destruct (Fr m Hm) as [?|[?|?]]; auto. right; left; now right.
    + (* renamed to the registered duplicate *)
      destruct (IH' sf ms' B eq_refl) as (B' & I & L & C & Rs & Fr).
      split; [exact B'|]. split; [exact I|]. split; [cbn; now rewrite L|].
      split; [|split; [exact Rs|]].
      * intros c m [Hc|Hc]; [inversion Hc; subst; cbn; now apply I|now apply C].
      * intros m Hm. destruct (Fr m Hm) as [?|[?|?]]; auto. right; left; now right.
    + (* renamed to a fresh name *)
      assert (B1 : Bij (tbl (insert s n q))) by (now apply Bij_snoc).
      destruct (IH' sf ms' B1 eq_refl) as (B' & I & L & C & Rs & Fr).
      rewrite tbl_insert in I. rewrite reserved_insert in Rs.
      split; [exact B'|]. split; [intros x Hx; apply I, in_app_iff; now left|].
      split; [cbn; now rewrite L|].
      split; [|split; [intros x Hx; apply Rs; now right|]].
      * intros c m [Hc|Hc]; [|now apply C]. inversion Hc; subst; cbn. apply I, in_app_iff. right; now left.
      * intros m Hm. destruct (Fr m Hm) as [Hm'|[?|Hr]].
        -- rewrite tbl_insert, map_app, in_app_iff in Hm'. destruct Hm' as [?|[<-|[]]]; auto.
        -- right; left; now right.
        -- right; right. intro X. apply Hr. rewrite reserved_insert. now right.
    + (* registered under its own name *)
      assert (B1 : Bij (tbl (insert s fn q))) by (now apply Bij_snoc).
      destruct (IH' sf ms' B1 eq_refl) as (B' & I & L & C & Rs & Fr).
      rewrite tbl_insert in I. rewrite reserved_insert in Rs.
      split; [exact B'|]. split; [intros x Hx; apply I, in_app_iff; now left|].
      split; [cbn; now rewrite L|].
      split; [|split; [intros x Hx; apply Rs; now right|]].
      * intros c m [Hc|Hc]; [|now apply C]. inversion Hc; subst; cbn. apply I, in_app_iff. right; now left.
      * intros m Hm. destruct (Fr m Hm) as [Hm'|[?|Hr]].
        -- rewrite tbl_insert, map_app, in_app_iff in Hm'. destruct Hm' as [?|[<-|[]]]; auto.
           right; left; now left.
        -- right; left; now right.
        -- right; right. intro X. apply Hr. rewrite reserved_insert. now right.
Qed.

(* on success (any flags): the final table is a bijection and the final name of every call
   is bound in it to exactly that call's argument types *)
Theorem rename_sound (pre : name) (res : list name) (a d : bool) calls sf ms :
  add_all (init pre res a d) calls = AOk sf ms ->
  Bij (tbl sf) /\ List.length ms = List.length calls /\
  forall c m, In (c, m) (combine calls ms) -> lookup (tbl sf) m = Some (snd c).
Proof.
  intro H. destruct (sound_gen calls (init pre res a d) _ _ (Bij_nil _) H) as (B & _ & L & C & _).
  repeat split; try apply B; auto.
  intros c m Hc. specialize (C c m Hc).
  destruct (lookup (tbl sf) m) as [ts|] eqn:E.
  - apply lookup_Some in E. f_equal. destruct B as [B1 _]. eapply nodup_fst_fun; eauto.
  - apply lookup_None in E. destruct E. apply in_map_iff. now exists (m, snd c).
Qed.

(* names the user calls elsewhere (reserved) are never taken: given that no derive call is
   itself spelled with a reserved name (an identifier resolves to one object), no name in the
   final table and no final call name is one of them (the reserved set itself only grows: every
   registered name is recorded in it, for the benefit of the other plugins) *)
Theorem rename_avoids_reserved (pre : name) (res : list name) (a d : bool) calls sf ms :
  Forall (fun c => ~ In (fst c) res) calls ->
  add_all (init pre res a d) calls = AOk sf ms ->
  incl res (reserved sf) /\
  (forall m, In m (map fst (tbl sf)) -> ~ In m res) /\
  (forall m, In m ms -> ~ In m res).
Proof.
  intros G H. destruct (sound_gen calls (init pre res a d) _ _ (Bij_nil _) H) as (B & _ & L & C & Rs & Fr).
  cbn in Rs, Fr.
  assert (T : forall m, In m (map fst (tbl sf)) -> ~ In m res).
  { intros m Hm. destruct (Fr m Hm) as [[]|[Hc|Hn]]; [|exact Hn].
    apply in_map_iff in Hc. destruct Hc as [c [<- Hc]]. rewrite Forall_forall in G. now apply G. }
  repeat split; auto.
  intros m Hm.
  assert (exists c, In (c, m) (combine calls ms)) as [c Hc].
  { clear -Hm L. revert calls L. induction ms as [|x ms IH]; intros calls L; [contradiction|].
    destruct calls as [|c calls]; [discriminate|]. cbn in L. injection L as L.
    destruct Hm as [->|Hm].
    - exists c. now left.
    - destruct (IH Hm calls L) as [c' Hc']. exists c'. now right. }
  apply T. apply in_map_iff. exists (m, snd c). split; [reflexivity|now apply C].
Qed.

(* one function per argument type list: no type list is registered twice, and two call sites
   with the same argument types end up calling the same function *)
Theorem dedup_one_per_class (pre : name) (res : list name) (a d : bool) calls sf ms :
  add_all (init pre res a d) calls = AOk sf ms ->
  NoDup (map snd (tbl sf)) /\
  forall c1 m1 c2 m2, In (c1, m1) (combine calls ms) -> In (c2, m2) (combine calls ms) ->
    snd c1 = snd c2 -> m1 = m2.
Proof.
  intro H. destruct (sound_gen calls (init pre res a d) _ _ (Bij_nil _) H) as (B & _ & L & C & _).
  split; [apply B|]. intros c1 m1 c2 m2 H1 H2 E.
  apply C in H1. apply C in H2. rewrite E in H1. destruct B as [_ B2].
  eapply nodup_snd_fun; eauto.
Qed.

(* without a flag no call is ever renamed (the `panic("unreachable ...")` of newPackage) *)
Lemma needs_flag_gen : forall calls (s sf : tm) ms,
  Bij (tbl s) -> autoname s = false -> dedup s = false ->
  add_all s calls = AOk sf ms -> ms = map fst calls.
Proof.
  induction calls as [|[fn q] r IH]; intros s sf ms B A D H.
  - cbn in H. now inversion H.
  - destruct (set_cases s fn q) as
      [(f & Hf & [(E & R)|[(Ne & D' & R)|(Ne & D' & R)]])
      |[(Hq & ts & Hts & Hne & [(A' & R)|(A' & n & Hn & F1 & F2 & R)])
       |(Hq & Hfn & R)]]; try congruence;
    try (cbn [TypesMap.add_all] in H; rewrite R in H; discriminate);
    rewrite (add_all_cons_ok _ _ _ _ _ _ R) in H;
    match type of H with context [add_all ?s' r] =>
      pose proof (IH s') as IH'; destruct (add_all s' r) as [sf' ms'|j e]; [|discriminate] end;
    inversion H; subst; clear H; cbn; f_equal; eapply IH'; eauto; now apply Bij_snoc.
Qed.

Theorem rename_needs_flag (pre : name) (res : list name) calls sf ms :
  add_all (init pre res false false) calls = AOk sf ms -> ms = map fst calls.
Proof. apply needs_flag_gen; cbn; auto using Bij_nil. Qed.

End OneMap.

(* ---------- several plugins sharing one reserved set: the package-level theorems ---------- *)
Section Pkg.
Variable tys : Type.
Variable tys_eqb : tys -> tys -> bool.
Hypothesis tys_eqb_spec : forall a b, reflect (a = b) (tys_eqb a b).
Variable hint : tys -> string.
Variable order : list (name * tys) -> list (name * tys).
Hypothesis order_perm : forall t, Permutation (order t) t.

Notation tm := (tm tys).
Notation add_pkg := (add_pkg tys tys_eqb hint order).
Notation SetFuncName := (SetFuncName tys tys_eqb hint order).
Notation new_name := (new_name tys hint).

(* the calls addressed to plugin p, in order *)
Definition proj (p : nat) (calls : list (nat * (name * tys))) : list (name * tys) :=
  map snd (filter (fun c => Nat.eqb (fst c) p) calls).

Definition perr (r : pres tys) : bool := match r with PErr _ _ => true | POk _ _ => false end.

Lemma proj_cons_same p fn q r : proj p ((p, (fn, q)) :: r) = (fn, q) :: proj p r.
Proof. unfold proj. cbn [filter fst]. now rewrite Nat.eqb_refl. Qed.

Lemma proj_cons_other p p0 fn q r : p0 <> p -> proj p ((p0, (fn, q)) :: r) = proj p r.
Proof. intro N. unfold proj. cbn [filter fst]. destruct (Nat.eqb_spec p0 p); [contradiction|reflexivity]. Qed.

Lemma share_same (st : nat -> tm) p s' : share st p s' p = s'.
Proof. unfold share. now rewrite Nat.eqb_refl. Qed.

Lemma share_other (st : nat -> tm) p s' p' :
  p' <> p -> share st p s' p' = set_reserved (st p') (reserved s').
Proof. intro N. unfold share. destruct (Nat.eqb_spec p' p); [contradiction|reflexivity]. Qed.

Definition PInv (st : nat -> tm) : Prop := forall p, Bij (tbl (st p)).
Definition pflags (st : nat -> tm) (a d : bool) : Prop :=
  forall p, autoname (st p) = a /\ dedup (st p) = d.

Lemma share_inv st p s' : PInv st -> Bij (tbl s') -> PInv (share st p s').
Proof.
  intros I B p'. destruct (Nat.eq_dec p' p) as [->|N].
  - now rewrite share_same.
  - rewrite (share_other _ _ _ _ N). apply I.
Qed.

Lemma share_flags st p s' a d :
  pflags st a d -> autoname s' = a -> dedup s' = d -> pflags (share st p s') a d.
Proof.
  intros F A D p'. destruct (Nat.eq_dec p' p) as [->|N].
  - now rewrite share_same.
  - rewrite (share_other _ _ _ _ N). apply F.
Qed.

(* everything plugin p will have seen: its table so far and its calls to come *)
Definition seen (st : nat -> tm) (calls : list (nat * (name * tys))) (p : nat) : list (name * tys) :=
  tbl (st p) ++ proj p calls.

Lemma perr_cons_ok st p fn q r s' m :
  SetFuncName (st p) fn q = (s', SOk m) ->
  perr (add_pkg st ((p, (fn, q)) :: r)) = perr (add_pkg (share st p s') r).
Proof. intro H. cbn [TypesMap.add_pkg]. rewrite H. now destruct (add_pkg (share st p s') r). Qed.

(* after a successful step whose state is s' with tbl s' = tbl (st p0) or tbl (st p0) ++ [(n,q)],
   what each plugin has seen only shrinks *)
Lemma seen_step_incl st p0 fn q r s' n :
  (tbl s' = tbl (st p0) \/ (tbl s' = tbl (st p0) ++ [(n, q)] /\ n = fn)) ->
  forall p, incl (seen (share st p0 s') r p) (seen st ((p0, (fn, q)) :: r) p).
Proof.
  intros T p x Hx. unfold seen in *. destruct (Nat.eq_dec p p0) as [->|N].
  - rewrite share_same in Hx. rewrite proj_cons_same.
    destruct T as [T|[T ->]]; rewrite T in Hx.
    + apply in_app_iff in Hx. apply in_app_iff. destruct Hx; [now left|right; now right].
    + now rewrite snoc_app in Hx.
  - rewrite (share_other _ _ _ _ N) in Hx. rewrite (proj_cons_other _ _ _ _ _ (not_eq_sym N)). exact Hx.
Qed.

Lemma pexact_gen : forall calls (st : nat -> tm) a d,
  PInv st -> pflags st a d ->
  (d = false \/ forall p, ~ has_dup (seen st calls p)) ->
  (a = false \/ forall p, ~ has_conflict (seen st calls p)) ->
  (perr (add_pkg st calls) = true <-> exists p, clash (seen st calls p)).
Proof.
  induction calls as [|[p0 [fn q]] r IH]; intros st a d I F HD HA.
  - cbn. split; [discriminate|]. intros [p C]. unfold seen, proj in C. cbn in C.
    rewrite app_nil_r in C. now destruct (Bij_no_clash _ _ (I p)).
  - destruct (F p0) as [Fa Fd].
    assert (Hin_call : In (fn, q) (seen st ((p0, (fn, q)) :: r) p0)).
    { unfold seen. rewrite proj_cons_same. apply in_app_iff. right; now left. }
    assert (Hin_tbl : forall x, In x (tbl (st p0)) -> In x (seen st ((p0, (fn, q)) :: r) p0)).
    { intros x Hx. unfold seen. apply in_app_iff. now left. }
    destruct (set_cases tys tys_eqb tys_eqb_spec hint order order_perm (st p0) fn q) as
      [(f & Hf & [(E & R)|[(Ne & D & R)|(Ne & D & R)]])
      |[(Hq & ts & Hts & Hne & [(A & R)|(A & n & Hn & F1 & F2 & R)])
       |(Hq & Hfn & R)]].
    + (* already registered under this name *)
      subst f. rewrite (perr_cons_ok _ _ _ _ _ _ _ R).
      pose proof (seen_step_incl st p0 fn q r (st p0) fn (or_introl eq_refl)) as Inc.
      rewrite (IH _ a d); auto.
      * split; intros [p C]; exists p.
        -- eapply clash_incl; [apply Inc|exact C].
        -- eapply clash_incl; [|exact C]. intros x Hx. unfold seen in *.
           destruct (Nat.eq_dec p p0) as [->|N].
           ++ rewrite share_same. rewrite proj_cons_same in Hx. apply in_app_iff in Hx. apply in_app_iff.
              destruct Hx as [Hx|[Hx|Hx]]; [now left|subst; now left|now right].
           ++ rewrite (share_other _ _ _ _ N). rewrite (proj_cons_other _ _ _ _ _ (not_eq_sym N)) in Hx. exact Hx.
      * apply share_inv; auto.
      * apply share_flags; auto.
      * destruct HD as [HD|HD]; [now left|right]. intros p C. apply (HD p). eapply has_dup_incl; [apply Inc|exact C].
      * destruct HA as [HA|HA]; [now left|right]. intros p C. apply (HA p). eapply has_conflict_incl; [apply Inc|exact C].
    + exfalso. destruct HD as [HD|HD]; [congruence|]. apply (HD p0).
      exists q, f, fn. repeat split; auto.
    + cbn [TypesMap.add_pkg]. rewrite R. cbn. split; [intros _|reflexivity].
      exists p0. right. exists q, f, fn. repeat split; auto.
    + cbn [TypesMap.add_pkg]. rewrite R. cbn. split; [intros _|reflexivity].
      exists p0. left. exists fn, ts, q. repeat split; auto.
    + exfalso. destruct HA as [HA|HA]; [congruence|]. apply (HA p0).
      exists fn, ts, q. repeat split; auto.
    + (* fresh registration *)
      rewrite (perr_cons_ok _ _ _ _ _ _ _ R).
      assert (T : tbl (insert (st p0) fn q) = tbl (st p0) \/
                  (tbl (insert (st p0) fn q) = tbl (st p0) ++ [(fn, q)] /\ fn = fn)) by (right; auto).
      pose proof (seen_step_incl st p0 fn q r _ fn T) as Inc.
      rewrite (IH _ a d); auto.
      * split; intros [p C]; exists p.
        -- eapply clash_incl; [apply Inc|exact C].
        -- eapply clash_incl; [|exact C]. intros x Hx. unfold seen in *.
           destruct (Nat.eq_dec p p0) as [->|N].
           ++ rewrite share_same, tbl_insert, snoc_app. now rewrite proj_cons_same in Hx.
           ++ rewrite (share_other _ _ _ _ N). rewrite (proj_cons_other _ _ _ _ _ (not_eq_sym N)) in Hx. exact Hx.
      * apply share_inv; auto. now apply Bij_snoc.
      * apply share_flags; auto.
      * destruct HD as [HD|HD]; [now left|right]. intros p C. apply (HD p). eapply has_dup_incl; [apply Inc|exact C].
      * destruct HA as [HA|HA]; [now left|right]. intros p C. apply (HA p). eapply has_conflict_incl; [apply Inc|exact C].
Qed.

Definition pinit (prefixes : nat -> name) (res : list name) (a d : bool) : nat -> tm :=
  fun p => init (prefixes p) res a d.

Lemma pinit_inv pre res a d : PInv (pinit pre res a d).
Proof. intro p. apply Bij_nil. Qed.
Lemma pinit_flags pre res a d : pflags (pinit pre res a d) a d.
Proof. intro p. split; reflexivity. Qed.
Lemma seen_pinit pre res a d calls p : seen (pinit pre res a d) calls p = proj p calls.
Proof. reflexivity. Qed.

Definition pkg_conflict calls := exists p, has_conflict (proj p calls).
Definition pkg_dup calls := exists p, has_dup (proj p calls).

Theorem pkg_noflag_exact pre res calls :
  perr (add_pkg (pinit pre res false false) calls) = true <-> pkg_conflict calls \/ pkg_dup calls.
Proof.
  rewrite (pexact_gen calls _ false false); auto using pinit_inv, pinit_flags.
  unfold pkg_conflict, pkg_dup, clash. split.
  - intros [p [C|C]]; [left|right]; now exists p.
  - intros [[p C]|[p C]]; exists p; [now left|now right].
Qed.

Theorem pkg_autoname_only_dups_fail pre res (a : bool) calls :
  ~ pkg_conflict calls ->
  (perr (add_pkg (pinit pre res a false) calls) = true <-> pkg_dup calls).
Proof.
  intro NC. rewrite (pexact_gen calls _ a false); auto using pinit_inv, pinit_flags.
  - unfold pkg_dup, clash. split.
    + intros [p [C|C]]; [destruct NC; now exists p|now exists p].
    + intros [p C]. exists p. now right.
  - right. intros p C. apply NC. now exists p.
Qed.

Theorem pkg_dedup_only_conflicts_fail pre res (d : bool) calls :
  ~ pkg_dup calls ->
  (perr (add_pkg (pinit pre res false d) calls) = true <-> pkg_conflict calls).
Proof.
  intro ND. rewrite (pexact_gen calls _ false d); auto using pinit_inv, pinit_flags.
  - unfold pkg_conflict, clash. split.
    + intros [p [C|C]]; [now exists p|destruct ND; now exists p].
    + intros [p C]. exists p. now left.
  - right. intros p C. apply ND. now exists p.
Qed.

Lemma pboth_gen : forall calls (st : nat -> tm),
  PInv st -> pflags st true true -> perr (add_pkg st calls) = false.
Proof.
  induction calls as [|[p0 [fn q]] r IH]; intros st I F; [reflexivity|].
  destruct (F p0) as [Fa Fd].
  destruct (set_cases tys tys_eqb tys_eqb_spec hint order order_perm (st p0) fn q) as
      [(f & Hf & [(E & R)|[(Ne & D & R)|(Ne & D & R)]])
      |[(Hq & ts & Hts & Hne & [(A & R)|(A & n & Hn & F1 & F2 & R)])
       |(Hq & Hfn & R)]]; try congruence;
    rewrite (perr_cons_ok _ _ _ _ _ _ _ R); apply IH;
    try (apply share_inv; auto; now apply Bij_snoc); apply share_flags; auto.
Qed.

Theorem pkg_both_flags_accept pre res calls :
  exists sf ms, add_pkg (pinit pre res true true) calls = POk sf ms.
Proof.
  pose proof (pboth_gen calls _ (pinit_inv pre res true true) (pinit_flags pre res true true)) as H.
  destruct (add_pkg _ calls) as [sf ms|]; [now exists sf, ms|discriminate].
Qed.

(* soundness on success, for the whole package: every plugin's table stays a bijection, every
   call's final name is bound in ITS plugin's table to exactly its types, and no name in any
   table is one of the originally reserved names unless the user spelled it in a derive call *)
Lemma psound_gen : forall calls (st sf : nat -> tm) ms res,
  PInv st -> (forall p, incl res (reserved (st p))) ->
  add_pkg st calls = POk sf ms ->
  PInv sf /\ List.length ms = List.length calls /\
  (forall p, incl (tbl (st p)) (tbl (sf p))) /\
  (forall c m, In (c, m) (combine calls ms) -> In (m, snd (snd c)) (tbl (sf (fst c)))) /\
  (forall p m, In m (map fst (tbl (sf p))) ->
     In m (map fst (tbl (st p))) \/ In m (map fst (proj p calls)) \/ ~ In m res).
Proof.
  induction calls as [|[p0 [fn q]] r IH]; intros st sf ms res I RS H.
  - cbn in H. inversion H; subst. split; [exact I|]. split; [reflexivity|].
    split; [intro; apply incl_refl|]. split; [intros c m []|]. intros p m Hm. now left.
  - cbn [TypesMap.add_pkg] in H.
    destruct (set_cases tys tys_eqb tys_eqb_spec hint order order_perm (st p0) fn q) as
      [(f & Hf & [(E & R)|[(Ne & D & R)|(Ne & D & R)]])
      |[(Hq & ts & Hts & Hne & [(A & R)|(A & n & Hn & F1 & F2 & R)])
       |(Hq & Hfn & R)]];
    rewrite R in H; try discriminate;
    match type of H with context [add_pkg ?st' r] =>
      pose proof (IH st') as IH'; destruct (add_pkg st' r) as [sf' ms'|j e]; [|discriminate] end;
    inversion H; subst; clear H.
    1,2: (* table unchanged *)
      assert (I1 : PInv (share st p0 (st p0))) by (apply share_inv; auto);
      assert (RS1 : forall p, incl res (reserved (share st p0 (st p0) p)))
        by (intro p; destruct (Nat.eq_dec p p0) as [->|N];
            [rewrite share_same; apply RS|rewrite (share_other _ _ _ _ N); apply RS]);
      destruct (IH' sf ms' res I1 RS1 eq_refl) as (I' & L & Inc & C & Fr);
      assert (Inc' : forall p, incl (tbl (st p)) (tbl (sf p)))
        by (intro p; specialize (Inc p); destruct (Nat.eq_dec p p0) as [->|N];
            [now rewrite share_same in Inc|now rewrite (share_other _ _ _ _ N) in Inc]);
      (split; [exact I'|]); (split; [cbn; now rewrite L|]); (split; [exact Inc'|]); split;
      [intros c m [Hc|Hc]; [inversion Hc; subst; cbn; now apply Inc'|now apply C]
      |intros p m Hm; specialize (Fr p m Hm); destruct (Nat.eq_dec p p0) as [->|N];
        [rewrite share_same, proj_cons_same in *; destruct Fr as [?|[?|?]]; auto; right; left; now right
        |rewrite (share_other _ _ _ _ N) in Fr; rewrite (proj_cons_other _ _ _ _ _ (not_eq_sym N)); exact Fr]].
    + (* a registration under the fresh name n *)
      assert (I1 : PInv (share st p0 (insert (st p0) n q)))
        by (apply share_inv; auto; now apply Bij_snoc).
      assert (RS1 : forall p, incl res (reserved (share st p0 (insert (st p0) n q) p))).
      { intros p x Hx. destruct (Nat.eq_dec p p0) as [->|N].
        - rewrite share_same. right. now apply (RS p0).
        - rewrite (share_other _ _ _ _ N). right. now apply (RS p0). }
      destruct (IH' sf ms' res I1 RS1 eq_refl) as (I' & L & Inc & C & Fr).
      assert (Inc' : forall p, incl (tbl (st p)) (tbl (sf p))).
      { intros p x Hx. specialize (Inc p). destruct (Nat.eq_dec p p0) as [->|N].
        - rewrite share_same, tbl_insert in Inc. apply Inc, in_app_iff. now left.
        - rewrite (share_other _ _ _ _ N) in Inc. now apply Inc. }
      split; [exact I'|]. split; [cbn; now rewrite L|]. split; [exact Inc'|]. split.
      * intros c m [Hc|Hc]; [|now apply C]. inversion Hc; subst; cbn.
        specialize (Inc p0). rewrite share_same, tbl_insert in Inc. apply Inc, in_app_iff. right; now left.
      * intros p m Hm. specialize (Fr p m Hm). destruct (Nat.eq_dec p p0) as [->|N].
        -- rewrite share_same, tbl_insert, map_app, in_app_iff in Fr. rewrite proj_cons_same.
           destruct Fr as [[?|[<-|[]]]|[?|?]]; auto.
           ++ right; right. intro X. apply F2. now apply (RS p0).
           ++ right; left; now right.
        -- rewrite (share_other _ _ _ _ N) in Fr. rewrite (proj_cons_other _ _ _ _ _ (not_eq_sym N)). exact Fr.
    + (* a registration under the call's own name *)
      assert (I1 : PInv (share st p0 (insert (st p0) fn q)))
        by (apply share_inv; auto; now apply Bij_snoc).
      assert (RS1 : forall p, incl res (reserved (share st p0 (insert (st p0) fn q) p))).
      { intros p x Hx. destruct (Nat.eq_dec p p0) as [->|N].
        - rewrite share_same. right. now apply (RS p0).
        - rewrite (share_other _ _ _ _ N). right. now apply (RS p0). }
      destruct (IH' sf ms' res I1 RS1 eq_refl) as (I' & L & Inc & C & Fr).
      assert (Inc' : forall p, incl (tbl (st p)) (tbl (sf p))).
      { intros p x Hx. specialize (Inc p). destruct (Nat.eq_dec p p0) as [->|N].
        - rewrite share_same, tbl_insert in Inc. apply Inc, in_app_iff. now left.
        - rewrite (share_other _ _ _ _ N) in Inc. now apply Inc. }
      split; [exact I'|]. split; [cbn; now rewrite L|]. split; [exact Inc'|]. split.
      * intros c m [Hc|Hc]; [|now apply C]. inversion Hc; subst; cbn.
        specialize (Inc p0). rewrite share_same, tbl_insert in Inc. apply Inc, in_app_iff. right; now left.
      * intros p m Hm. specialize (Fr p m Hm). destruct (Nat.eq_dec p p0) as [->|N].
        -- rewrite share_same, tbl_insert, map_app, in_app_iff in Fr. rewrite proj_cons_same.
           destruct Fr as [[?|[<-|[]]]|[?|?]]; auto.
           ++ right; left; now left.
           ++ right; left; now right.
        -- rewrite (share_other _ _ _ _ N) in Fr. rewrite (proj_cons_other _ _ _ _ _ (not_eq_sym N)). exact Fr.
Qed.

Theorem pkg_rename_sound pre res (a d : bool) calls sf ms :
  add_pkg (pinit pre res a d) calls = POk sf ms ->
  (forall p, Bij (tbl (sf p))) /\ List.length ms = List.length calls /\
  (forall c m, In (c, m) (combine calls ms) -> lookup (tbl (sf (fst c))) m = Some (snd (snd c))) /\
  ((forall c, In c calls -> ~ In (fst (snd c)) res) ->
   forall p m, In m (map fst (tbl (sf p))) -> ~ In m res).
Proof.
  intro H.
  destruct (psound_gen calls _ _ _ res (pinit_inv pre res a d) (fun p => incl_refl _) H)
    as (I & L & _ & C & Fr).
  split; [exact I|]. split; [exact L|]. split.
  - intros c m Hc. specialize (C c m Hc).
    destruct (lookup (tbl (sf (fst c))) m) as [ts|] eqn:E.
    + apply (lookup_Some tys) in E. f_equal. destruct (I (fst c)) as [B1 _]. eapply nodup_fst_fun; eauto.
    + apply (lookup_None tys) in E. destruct E. apply in_map_iff. now exists (m, snd (snd c)).
  - intros G p m Hm. destruct (Fr p m Hm) as [[]|[Hc|Hn]]; [|exact Hn].
    unfold proj in Hc. rewrite map_map in Hc. apply in_map_iff in Hc.
    destruct Hc as [c [<- Hc]]. apply filter_In in Hc. now apply G.
Qed.

(* the recursion budget of the model is never exhausted *)
Lemma pno_fuel_gen : forall calls (st : nat -> tm) i, PInv st -> add_pkg st calls <> PErr i SFuel.
Proof.
  induction calls as [|[p0 [fn q]] r IH]; intros st i I; [discriminate|].
  cbn [TypesMap.add_pkg].
  destruct (set_cases tys tys_eqb tys_eqb_spec hint order order_perm (st p0) fn q) as
      [(f & Hf & [(E & R)|[(Ne & D & R)|(Ne & D & R)]])
      |[(Hq & ts & Hts & Hne & [(A & R)|(A & n & Hn & F1 & F2 & R)])
       |(Hq & Hfn & R)]]; rewrite R; try discriminate;
    match goal with |- context [add_pkg ?st' r] =>
      pose proof (IH st') as IH'; destruct (add_pkg st' r) as [sf ms|j e]; [discriminate|] end;
    intro H; inversion H; subst; eapply IH'; eauto; apply share_inv; auto; now apply Bij_snoc.
Qed.

Theorem pkg_no_fuel pre res (a d : bool) calls i :
  add_pkg (pinit pre res a d) calls <> PErr i SFuel.
Proof. apply pno_fuel_gen, pinit_inv. Qed.

End Pkg.
