(* Gen/Names.v — C11: conflicts and duplicates are detected exactly and resolved soundly.
   Theorems about [add_all] (newPackage's loop of SetFuncName calls over one typesMap) for ALL
   call lists, all prefixes, all reserved sets, every iteration order of the Go map, with type
   equality a decidable equality on an abstract alphabet (the property's quantifier fixes
   pairwise non-assignable argument types), and their lifting to several plugins. *)
From Coq Require Import List String Bool Arith Lia Permutation.
From Verif Require Import Base Gen.TypesMap Gen.NewName.
Import ListNotations.
Open Scope string_scope.
Open Scope list_scope.

(* ---------- clashes of a call list (the independent specification) ---------- *)
Section Clash.
Variable tys : Type.

(* one name used with two different argument type lists *)
Definition has_conflict (l : list (name * tys)) : Prop :=
  exists n t1 t2, In (n, t1) l /\ In (n, t2) l /\ t1 <> t2.
(* two names used for the same argument type list *)
Definition has_dup (l : list (name * tys)) : Prop :=
  exists t n1 n2, In (n1, t) l /\ In (n2, t) l /\ n1 <> n2.
Definition clash (l : list (name * tys)) : Prop := has_conflict l \/ has_dup l.

Lemma has_conflict_incl l1 l2 : incl l1 l2 -> has_conflict l1 -> has_conflict l2.
Proof. intros I (n & a & b & H1 & H2 & H3). exists n, a, b. auto. Qed.
Lemma has_dup_incl l1 l2 : incl l1 l2 -> has_dup l1 -> has_dup l2.
Proof. intros I (t & a & b & H1 & H2 & H3). exists t, a, b. auto. Qed.
Lemma clash_incl l1 l2 : incl l1 l2 -> clash l1 -> clash l2.
Proof. intros I [H|H]; [left; eapply has_conflict_incl|right; eapply has_dup_incl]; eauto. Qed.

(* the table is a bijection between names and type lists *)
Definition Bij (t : list (name * tys)) : Prop := NoDup (map fst t) /\ NoDup (map snd t).

Lemma nodup_fst_fun (t : list (name * tys)) n a b :
  NoDup (map fst t) -> In (n, a) t -> In (n, b) t -> a = b.
Proof.
  induction t as [|[m c] t IH]; cbn; intros ND Ha Hb; [contradiction|].
  inversion ND as [|? ? Hn ND']; subst.
  destruct Ha as [Ha|Ha], Hb as [Hb|Hb].
  - congruence.
  - inversion Ha; subst. destruct Hn. apply in_map_iff. now exists (n, b).
  - inversion Hb; subst. destruct Hn. apply in_map_iff. now exists (n, a).
  - auto.
Qed.

Lemma nodup_snd_fun (t : list (name * tys)) q a b :
  NoDup (map snd t) -> In (a, q) t -> In (b, q) t -> a = b.
Proof.
  induction t as [|[m c] t IH]; cbn; intros ND Ha Hb; [contradiction|].
  inversion ND as [|? ? Hn ND']; subst.
  destruct Ha as [Ha|Ha], Hb as [Hb|Hb].
  - congruence.
  - inversion Ha; subst. destruct Hn. apply in_map_iff. now exists (b, q).
  - inversion Hb; subst. destruct Hn. apply in_map_iff. now exists (a, q).
  - auto.
Qed.

Lemma Bij_no_clash t : Bij t -> ~ clash t.
Proof.
  intros [N1 N2] [(n & a & b & H1 & H2 & H3)|(q & a & b & H1 & H2 & H3)].
  - apply H3. eapply nodup_fst_fun; eauto.
  - apply H3. eapply nodup_snd_fun; eauto.
Qed.

Lemma NoDup_snoc {A} (l : list A) x : NoDup l -> ~ In x l -> NoDup (l ++ [x]).
Proof.
  intros ND Hn. apply (Permutation_NoDup (l := x :: l)).
  - apply Permutation_cons_append.
  - now constructor.
Qed.

Lemma Bij_snoc t n q : Bij t -> ~ In n (map fst t) -> ~ In q (map snd t) -> Bij (t ++ [(n, q)]).
Proof.
  intros [N1 N2] H1 H2. split; rewrite map_app; cbn; now apply NoDup_snoc.
Qed.

Lemma Bij_nil : Bij [].
Proof. split; constructor. Qed.
End Clash.

Arguments has_conflict {tys}.
Arguments has_dup {tys}.
Arguments clash {tys}.
Arguments Bij {tys}.

(* ---------- one typesMap, equality on an abstract alphabet of type lists ---------- *)
Section OneMap.
Variable tys : Type.
Variable tys_eqb : tys -> tys -> bool.
Hypothesis tys_eqb_spec : forall a b, reflect (a = b) (tys_eqb a b).
Variable hint : tys -> string.
Variable order : list (name * tys) -> list (name * tys).
Hypothesis order_perm : forall t, Permutation (order t) t.

Notation tm := (tm tys).
Notation name_of := (name_of tys tys_eqb order).
Notation new_name := (new_name tys hint).
Notation SetFuncName := (SetFuncName tys tys_eqb hint order).
Notation add_all := (add_all tys tys_eqb hint order).

Lemma name_of_Some (s : tm) q f : name_of s q = Some f -> In (f, q) (tbl s).
Proof.
  unfold TypesMap.name_of. destruct (find _ _) as [[n t]|] eqn:E; cbn; [|discriminate].
  intro H; inversion H; subst. apply find_some in E. destruct E as [Hin Heq]. cbn in Heq.
  destruct (tys_eqb_spec q t); [subst|discriminate].
  eapply Permutation_in; [apply order_perm|exact Hin].
Qed.

Lemma name_of_None (s : tm) q : name_of s q = None -> ~ In q (map snd (tbl s)).
Proof.
  unfold TypesMap.name_of. destruct (find _ _) as [e|] eqn:E; cbn; [discriminate|].
  intros _ Hin. apply in_map_iff in Hin. destruct Hin as [[n t] [Hq Hin]]. cbn in Hq. subst t.
  assert (Hin' : In (n, q) (order (tbl s))).
  { eapply Permutation_in; [apply Permutation_sym, order_perm|exact Hin]. }
  pose proof (find_none _ _ E _ Hin') as F. cbn in F.
  destruct (tys_eqb_spec q q); [discriminate|congruence].
Qed.

Lemma lookup_Some (t : list (name * tys)) n ts : lookup t n = Some ts -> In (n, ts) t.
Proof.
  unfold lookup. destruct (find _ _) as [[m c]|] eqn:E; cbn; [|discriminate].
  intro H; inversion H; subst. apply find_some in E. destruct E as [Hin Heq]. cbn in Heq.
  apply String.eqb_eq in Heq. now subst.
Qed.

Lemma lookup_None (t : list (name * tys)) n : lookup t n = None -> ~ In n (map fst t).
Proof.
  unfold lookup. destruct (find _ _) as [e|] eqn:E; cbn; [discriminate|].
  intros _ Hin. apply in_map_iff in Hin. destruct Hin as [[m c] [Hq Hin]]. cbn in Hq. subst m.
  pose proof (find_none _ _ E _ Hin) as F. cbn in F. rewrite String.eqb_refl in F. discriminate.
Qed.

(* what one SetFuncName call does, by cases on the table *)
Definition step_spec (s : tm) (fn : name) (q : tys) (r : tm * sres) : Prop :=
  (exists f, In (f, q) (tbl s) /\
     ((f = fn /\ r = (s, SOk fn)) \/
      (f <> fn /\ dedup s = true /\ r = (s, SOk f)) \/
      (f <> fn /\ dedup s = false /\ r = (s, SDup f fn))))
  \/ (~ In q (map snd (tbl s)) /\ exists ts, In (fn, ts) (tbl s) /\ ts <> q /\
     ((autoname s = false /\ r = (s, SConflict fn)) \/
      (autoname s = true /\ exists n, new_name s q = Some n /\ ~ In n (map fst (tbl s)) /\
         ~ In n (reserved s) /\ r = (insert s n q, SOk n))))
  \/ (~ In q (map snd (tbl s)) /\ ~ In fn (map fst (tbl s)) /\ r = (insert s fn q, SOk fn)).

Lemma set_cases (s : tm) fn q : step_spec s fn q (SetFuncName s fn q).
Proof.
  unfold step_spec, TypesMap.SetFuncName, depth. cbn [set_func_name].
  destruct (name_of s q) as [f|] eqn:N.
  - left. exists f. split; [now apply name_of_Some|].
    destruct (String.eqb_spec f fn) as [->|Hne]; [now left|].
    destruct (dedup s) eqn:D; [right; left|right; right]; auto.
  - pose proof (name_of_None _ _ N) as Hq.
    destruct (lookup (tbl s) fn) as [ts|] eqn:Lk.
    + right; left. split; [exact Hq|]. exists ts. apply lookup_Some in Lk. split; [exact Lk|].
      destruct (tys_eqb_spec ts q) as [->|Hne].
      { destruct Hq. apply in_map_iff. now exists (fn, q). }
      split; [exact Hne|].
      destruct (autoname s) eqn:A; [right|left; auto].
      split; [reflexivity|].
      unfold get_with. rewrite N.
      destruct (new_name_terminates tys hint s q) as [n Hn]. rewrite Hn.
      destruct (new_name_fresh tys hint s q n Hn) as [F1 F2].
      exists n. repeat split; auto.
      destruct (lookup (tbl s) n) as [ts'|] eqn:Lk'.
      { apply lookup_Some in Lk'. destruct F1. apply in_map_iff. now exists (n, ts'). }
      reflexivity.
    + right; right. apply lookup_None in Lk. auto.
Qed.

Definition aerr (a : ares tys) : bool := match a with AErr _ _ => true | AOk _ _ => false end.

Lemma add_all_cons_ok s fn q r s' m :
  SetFuncName s fn q = (s', SOk m) ->
  add_all s ((fn, q) :: r) =
    match add_all s' r with AOk sf ms => AOk sf (m :: ms) | AErr i e => AErr (S i) e end.
Proof. intro H. cbn [TypesMap.add_all]. now rewrite H. Qed.

Lemma aerr_cons_ok s fn q r s' m :
  SetFuncName s fn q = (s', SOk m) -> aerr (add_all s ((fn, q) :: r)) = aerr (add_all s' r).
Proof. intro H. rewrite (add_all_cons_ok _ _ _ _ _ _ H). now destruct (add_all s' r). Qed.

Lemma tbl_insert (s : tm) n q : tbl (insert s n q) = tbl s ++ [(n, q)].
Proof. reflexivity. Qed.

Lemma snoc_app {A} (t : list A) x r : (t ++ [x]) ++ r = t ++ x :: r.
Proof. now rewrite <- app_assoc. Qed.

(* ---- exactness of the error condition ---- *)
Lemma exact_gen : forall calls (s : tm),
  Bij (tbl s) ->
  (dedup s = false \/ ~ has_dup (tbl s ++ calls)) ->
  (autoname s = false \/ ~ has_conflict (tbl s ++ calls)) ->
  (aerr (add_all s calls) = true <-> clash (tbl s ++ calls)).
Proof.
  induction calls as [|[fn q] r IH]; intros s B HD HA.
  - cbn. rewrite app_nil_r. split; [discriminate|]. intro C. now destruct (Bij_no_clash _ _ B).
  - assert (Hin_call : In (fn, q) (tbl s ++ (fn, q) :: r)) by (apply in_app_iff; right; now left).
    destruct (set_cases s fn q) as
      [(f & Hf & [(E & R)|[(Ne & D & R)|(Ne & D & R)]])
      |[(Hq & ts & Hts & Hne & [(A & R)|(A & n & Hn & F1 & F2 & R)])
       |(Hq & Hfn & R)]].
    + (* already registered under this name *)
      subst f. rewrite (aerr_cons_ok _ _ _ _ _ _ R).
      assert (I1 : incl (tbl s ++ r) (tbl s ++ (fn, q) :: r)).
      { intros x Hx. apply in_app_iff in Hx. apply in_app_iff. destruct Hx; [now left|right; now right]. }
      assert (I2 : incl (tbl s ++ (fn, q) :: r) (tbl s ++ r)).
      { intros x Hx. apply in_app_iff in Hx. apply in_app_iff.
        destruct Hx as [Hx|[Hx|Hx]]; [now left|subst; now left|now right]. }
      rewrite IH; auto.
      * split; apply clash_incl; assumption.
      * destruct HD as [HD|HD]; [now left|right]. intro C. apply HD. eapply has_dup_incl; eauto.
      * destruct HA as [HA|HA]; [now left|right]. intro C. apply HA. eapply has_conflict_incl; eauto.
    + (* duplicate, -dedup set: excluded by the hypothesis *)
      exfalso. destruct HD as [HD|HD]; [congruence|]. apply HD.
      exists q, f, fn. repeat split; auto. apply in_app_iff; now left.
    + (* duplicate: error *)
      cbn [TypesMap.add_all]. rewrite R. cbn. split; [intros _|reflexivity].
      right. exists q, f, fn. repeat split; auto. apply in_app_iff; now left.
    + (* conflict: error *)
      cbn [TypesMap.add_all]. rewrite R. cbn. split; [intros _|reflexivity].
      left. exists fn, ts, q. repeat split; auto. apply in_app_iff; now left.
    + (* conflict, -autoname set: excluded by the hypothesis *)
      exfalso. destruct HA as [HA|HA]; [congruence|]. apply HA.
      exists fn, ts, q. repeat split; auto. apply in_app_iff; now left.
    + (* fresh registration *)
      rewrite (aerr_cons_ok _ _ _ _ _ _ R).
      rewrite IH; rewrite ?tbl_insert, ?snoc_app; auto.
      * reflexivity.
      * now apply Bij_snoc.
Qed.

(* no flags: the run fails exactly on a conflict or a duplicate *)
Theorem noflag_exact (pre : name) (res : list name) calls :
  aerr (add_all (init pre res false false) calls) = true <-> has_conflict calls \/ has_dup calls.
Proof. apply (exact_gen calls (init pre res false false)); cbn; auto using Bij_nil. Qed.

(* without -dedup (with or without -autoname) a package whose only clashes are duplicates fails,
   and it fails only because of them *)
Theorem autoname_only_dups_fail (pre : name) (res : list name) (a : bool) calls :
  ~ has_conflict calls ->
  (aerr (add_all (init pre res a false) calls) = true <-> has_dup calls).
Proof.
  intro NC. rewrite (exact_gen calls (init pre res a false)); cbn; auto using Bij_nil.
  unfold clash. tauto.
Qed.

(* without -autoname (with or without -dedup) a package whose only clashes are conflicts fails *)
Theorem dedup_only_conflicts_fail (pre : name) (res : list name) (d : bool) calls :
  ~ has_dup calls ->
  (aerr (add_all (init pre res false d) calls) = true <-> has_conflict calls).
Proof.
  intro ND. rewrite (exact_gen calls (init pre res false d)); cbn; auto using Bij_nil.
  unfold clash. tauto.
Qed.

(* ---- both flags: every package is accepted ---- *)
Lemma both_flags_gen : forall calls (s : tm),
  Bij (tbl s) -> autoname s = true -> dedup s = true -> aerr (add_all s calls) = false.
Proof.
  induction calls as [|[fn q] r IH]; intros s B A D; [reflexivity|].
  destruct (set_cases s fn q) as
      [(f & Hf & [(E & R)|[(Ne & D' & R)|(Ne & D' & R)]])
      |[(Hq & ts & Hts & Hne & [(A' & R)|(A' & n & Hn & F1 & F2 & R)])
       |(Hq & Hfn & R)]]; try congruence;
    rewrite (aerr_cons_ok _ _ _ _ _ _ R); apply IH; auto; now apply Bij_snoc.
Qed.

Theorem both_flags_accept (pre : name) (res : list name) calls :
  exists sf ms, add_all (init pre res true true) calls = AOk sf ms.
Proof.
  pose proof (both_flags_gen calls (init pre res true true) (Bij_nil _) eq_refl eq_refl) as H.
  destruct (add_all _ calls) as [sf ms|]; [now exists sf, ms|discriminate].
Qed.

(* ---- the model never runs out of its recursion budget ---- *)
Lemma no_fuel_gen : forall calls (s : tm) i, Bij (tbl s) -> add_all s calls <> AErr i SFuel.
Proof.
  induction calls as [|[fn q] r IH]; intros s i B; [discriminate|].
  destruct (set_cases s fn q) as
      [(f & Hf & [(E & R)|[(Ne & D' & R)|(Ne & D' & R)]])
      |[(Hq & ts & Hts & Hne & [(A' & R)|(A' & n & Hn & F1 & F2 & R)])
       |(Hq & Hfn & R)]];
    try (cbn [TypesMap.add_all]; rewrite R; discriminate);
    rewrite (add_all_cons_ok _ _ _ _ _ _ R);
    match goal with |- context [add_all ?s' r] =>
      pose proof (IH s') as IH'; destruct (add_all s' r) as [sf ms|j e]; [discriminate|] end;
    intro H; inversion H; subst; eapply IH'; eauto; now apply Bij_snoc.
Qed.

Theorem add_all_no_fuel (pre : name) (res : list name) (a d : bool) calls i :
  add_all (init pre res a d) calls <> AErr i SFuel.
Proof. apply no_fuel_gen, Bij_nil. Qed.

(* ---- soundness of the renaming on every successful run ---- *)
Lemma sound_gen : forall calls (s sf : tm) ms,
  Bij (tbl s) -> add_all s calls = AOk sf ms ->
  Bij (tbl sf) /\ incl (tbl s) (tbl sf) /\ List.length ms = List.length calls /\
  (forall c m, In (c, m) (combine calls ms) -> In (m, snd c) (tbl sf)) /\
  reserved sf = reserved s /\
  (forall m, In m (map fst (tbl sf)) ->
     In m (map fst (tbl s)) \/ In m (map fst calls) \/ ~ In m (reserved s)).
Proof.
  induction calls as [|[fn q] r IH]; intros s sf ms B H.
  - cbn in H. inversion H; subst. repeat split; auto using incl_refl; try apply B.
    intros c m [].
  - destruct (set_cases s fn q) as
      [(f & Hf & [(E & R)|[(Ne & D' & R)|(Ne & D' & R)]])
      |[(Hq & ts & Hts & Hne & [(A' & R)|(A' & n & Hn & F1 & F2 & R)])
       |(Hq & Hfn & R)]];
    try (cbn [TypesMap.add_all] in H; rewrite R in H; discriminate);
    rewrite (add_all_cons_ok _ _ _ _ _ _ R) in H;
    match type of H with context [add_all ?s' r] =>
      pose proof (IH s') as IH'; destruct (add_all s' r) as [sf' ms'|j e]; [|discriminate] end;
    inversion H; subst; clear H.
    + (* same name *)
      destruct (IH' sf ms' B eq_refl) as (B' & I & L & C & Rs & Fr).
      repeat split; auto; try apply B'.
      * cbn. now rewrite L.
      * intros c m [Hc|Hc]; [inversion Hc; subst; cbn; now apply I|now apply C].
      * intros m Hm. destruct (Fr m Hm) as [?|[?|?]]; auto. right; left; now right.
    + (* renamed to the registered duplicate *)
      destruct (IH' sf ms' B eq_refl) as (B' & I & L & C & Rs & Fr).
      repeat split; auto; try apply B'.
      * cbn. now rewrite L.
      * intros c m [Hc|Hc]; [inversion Hc; subst; cbn; now apply I|now apply C].
      * intros m Hm. destruct (Fr m Hm) as [?|[?|?]]; auto. right; left; now right.
    + (* renamed to a fresh name *)
      assert (B1 : Bij (tbl (insert s n q))) by (now apply Bij_snoc).
      destruct (IH' sf ms' B1 eq_refl) as (B' & I & L & C & Rs & Fr).
      rewrite tbl_insert in I.
      repeat split; auto; try apply B'.
      * intros x Hx. apply I, in_app_iff. now left.
      * cbn. now rewrite L.
      * intros c m [Hc|Hc]; [|now apply C]. inversion Hc; subst; cbn. apply I, in_app_iff. right; now left.
      * intros m Hm. destruct (Fr m Hm) as [Hm'|[?|?]]; auto; [|right; left; now right].
        rewrite tbl_insert, map_app, in_app_iff in Hm'. destruct Hm' as [?|[<-|[]]]; auto.
    + (* registered under its own name *)
      assert (B1 : Bij (tbl (insert s fn q))) by (now apply Bij_snoc).
      destruct (IH' sf ms' B1 eq_refl) as (B' & I & L & C & Rs & Fr).
      rewrite tbl_insert in I.
      repeat split; auto; try apply B'.
      * intros x Hx. apply I, in_app_iff. now left.
      * cbn. now rewrite L.
      * intros c m [Hc|Hc]; [|now apply C]. inversion Hc; subst; cbn. apply I, in_app_iff. right; now left.
      * intros m Hm. destruct (Fr m Hm) as [Hm'|[?|?]]; auto; [|right; left; now right].
        rewrite tbl_insert, map_app, in_app_iff in Hm'. destruct Hm' as [?|[<-|[]]]; auto.
        right; left; now left.
Qed.

(* on success (any flags): the final table is a bijection and the final name of every call
   is bound in it to exactly that call's argument types *)
Theorem rename_sound (pre : name) (res : list name) (a d : bool) calls sf ms :
  add_all (init pre res a d) calls = AOk sf ms ->
  Bij (tbl sf) /\ List.length ms = List.length calls /\
  forall c m, In (c, m) (combine calls ms) -> lookup (tbl sf) m = Some (snd c).
Proof.
  intro H. destruct (sound_gen calls (init pre res a d) _ _ (Bij_nil _) H) as (B & _ & L & C & _).
  repeat split; try apply B; auto.
  intros c m Hc. specialize (C c m Hc).
  destruct (lookup (tbl sf) m) as [ts|] eqn:E.
  - apply lookup_Some in E. f_equal. destruct B as [B1 _]. eapply nodup_fst_fun; eauto.
  - apply lookup_None in E. destruct E. apply in_map_iff. now exists (m, snd c).
Qed.

(* names the user calls elsewhere (reserved) are never taken: given that no derive call is
   itself spelled with a reserved name (an identifier resolves to one object), no name in the
   final table and no final call name is reserved, and the reserved set is unchanged *)
Theorem rename_avoids_reserved (pre : name) (res : list name) (a d : bool) calls sf ms :
  Forall (fun c => ~ In (fst c) res) calls ->
  add_all (init pre res a d) calls = AOk sf ms ->
  reserved sf = res /\
  (forall m, In m (map fst (tbl sf)) -> ~ In m res) /\
  (forall m, In m ms -> ~ In m res).
Proof.
  intros G H. destruct (sound_gen calls (init pre res a d) _ _ (Bij_nil _) H) as (B & _ & L & C & Rs & Fr).
  cbn in Rs, Fr.
  assert (T : forall m, In m (map fst (tbl sf)) -> ~ In m res).
  { intros m Hm. destruct (Fr m Hm) as [[]|[Hc|Hn]]; [|exact Hn].
    apply in_map_iff in Hc. destruct Hc as [c [<- Hc]]. rewrite Forall_forall in G. now apply G. }
  repeat split; auto.
  intros m Hm.
  assert (exists c, In (c, m) (combine calls ms)) as [c Hc].
  { clear -Hm L. revert calls L. induction ms as [|x ms IH]; intros calls L; [contradiction|].
    destruct calls as [|c calls]; [discriminate|]. cbn in L. injection L as L.
    destruct Hm as [->|Hm].
    - exists c. now left.
    - destruct (IH Hm calls L) as [c' Hc']. exists c'. now right. }
  apply T. apply in_map_iff. exists (m, snd c). split; [reflexivity|now apply C].
Qed.

(* one function per argument type list: no type list is registered twice, and two call sites
   with the same argument types end up calling the same function *)
Theorem dedup_one_per_class (pre : name) (res : list name) (a d : bool) calls sf ms :
  add_all (init pre res a d) calls = AOk sf ms ->
  NoDup (map snd (tbl sf)) /\
  forall c1 m1 c2 m2, In (c1, m1) (combine calls ms) -> In (c2, m2) (combine calls ms) ->
    snd c1 = snd c2 -> m1 = m2.
Proof.
  intro H. destruct (sound_gen calls (init pre res a d) _ _ (Bij_nil _) H) as (B & _ & L & C & _).
  split; [apply B|]. intros c1 m1 c2 m2 H1 H2 E.
  apply C in H1. apply C in H2. rewrite E in H1. destruct B as [_ B2].
  eapply nodup_snd_fun; eauto.
Qed.

(* without a flag no call is ever renamed (the `panic("unreachable ...")` of newPackage) *)
Lemma needs_flag_gen : forall calls (s sf : tm) ms,
  Bij (tbl s) -> autoname s = false -> dedup s = false ->
  add_all s calls = AOk sf ms -> ms = map fst calls.
Proof.
  induction calls as [|[fn q] r IH]; intros s sf ms B A D H.
  - cbn in H. now inversion H.
  - destruct (set_cases s fn q) as
      [(f & Hf & [(E & R)|[(Ne & D' & R)|(Ne & D' & R)]])
      |[(Hq & ts & Hts & Hne & [(A' & R)|(A' & n & Hn & F1 & F2 & R)])
       |(Hq & Hfn & R)]]; try congruence;
    try (cbn [TypesMap.add_all] in H; rewrite R in H; discriminate);
    rewrite (add_all_cons_ok _ _ _ _ _ _ R) in H;
    match type of H with context [add_all ?s' r] =>
      pose proof (IH s') as IH'; destruct (add_all s' r) as [sf' ms'|j e]; [|discriminate] end;
    inversion H; subst; clear H; cbn; f_equal; eapply IH'; eauto; now apply Bij_snoc.
Qed.

Theorem rename_needs_flag (pre : name) (res : list name) calls sf ms :
  add_all (init pre res false false) calls = AOk sf ms -> ms = map fst calls.
Proof. apply needs_flag_gen; cbn; auto using Bij_nil. Qed.

End OneMap.

(* ---------- several plugins: the package run is the product of the per-plugin runs ---------- *)
Section Pkg.
Variable tys : Type.
Variable teq : tys -> tys -> bool.
Variable hint : tys -> string.
Variable order : list (name * tys) -> list (name * tys).

Notation add_all := (add_all tys teq hint order).
Notation add_pkg := (add_pkg tys teq hint order).
Notation SetFuncName := (SetFuncName tys teq hint order).

(* the calls addressed to plugin p, in order *)
Definition proj (p : nat) (calls : list (nat * (name * tys))) : list (name * tys) :=
  map snd (filter (fun c => Nat.eqb (fst c) p) calls).

Lemma add_pkg_ok : forall calls st st' ms,
  add_pkg st calls = POk st' ms ->
  forall p, exists msp, add_all (st p) (proj p calls) = AOk (st' p) msp.
Proof.
  induction calls as [|[p0 [fn q]] r IH]; intros st st' ms H p.
  - cbn in H. inversion H; subst. exists []. reflexivity.
  - cbn [TypesMap.add_pkg] in H.
    destruct (SetFuncName (st p0) fn q) as [s' [m| | |]] eqn:R; try discriminate.
    destruct (add_pkg (upd st p0 s') r) as [sf ms'|] eqn:E; [|discriminate].
    inversion H; subst. destruct (IH _ _ _ E p) as [msp Hp].
    unfold proj in *. cbn [filter fst].
    destruct (Nat.eqb_spec p0 p) as [->|Hne].
    + cbn [map snd TypesMap.add_all]. rewrite R.
      unfold upd in Hp. rewrite Nat.eqb_refl in Hp. rewrite Hp. now exists (m :: msp).
    + unfold upd in Hp. destruct (Nat.eqb_spec p p0); [congruence|]. now exists msp.
Qed.

Lemma add_pkg_err : forall calls st i e,
  add_pkg st calls = PErr i e -> exists p j, add_all (st p) (proj p calls) = AErr j e.
Proof.
  induction calls as [|[p0 [fn q]] r IH]; intros st i e H.
  - discriminate.
  - cbn [TypesMap.add_pkg] in H.
    destruct (SetFuncName (st p0) fn q) as [s' res] eqn:R.
    assert (P0 : proj p0 ((p0, (fn, q)) :: r) = (fn, q) :: proj p0 r).
    { unfold proj. cbn [filter fst]. now rewrite Nat.eqb_refl. }
    destruct res as [m|f w|c|].
    + destruct (add_pkg (upd st p0 s') r) as [sf ms'|j e'] eqn:E; [discriminate|].
      inversion H; subst. destruct (IH _ _ _ E) as [p [k Hp]].
      exists p. unfold upd in Hp. destruct (Nat.eqb_spec p p0) as [->|Hne].
      * rewrite P0. cbn [TypesMap.add_all]. rewrite R, Hp. now exists (S k).
      * exists k. unfold proj in *. cbn [filter fst].
        destruct (Nat.eqb_spec p0 p); [congruence|]. exact Hp.
    + inversion H; subst. exists p0, 0. rewrite P0. cbn [TypesMap.add_all]. now rewrite R.
    + inversion H; subst. exists p0, 0. rewrite P0. cbn [TypesMap.add_all]. now rewrite R.
    + inversion H; subst. exists p0, 0. rewrite P0. cbn [TypesMap.add_all]. now rewrite R.
Qed.

(* the package is accepted iff every plugin's own call list is *)
Theorem add_pkg_accepts_iff calls st :
  (exists st' ms, add_pkg st calls = POk st' ms) <->
  (forall p, exists sf ms, add_all (st p) (proj p calls) = AOk sf ms).
Proof.
  split.
  - intros (st' & ms & H) p. destruct (add_pkg_ok _ _ _ _ H p) as [msp Hp]. eauto.
  - intro All. destruct (add_pkg st calls) as [st' ms|i e] eqn:E; [eauto|].
    destruct (add_pkg_err _ _ _ _ E) as (p & j & Hp). destruct (All p) as (sf & ms & Hok). congruence.
Qed.

End Pkg.
