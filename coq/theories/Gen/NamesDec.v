(* Gen/NamesDec.v — boolean versions of the clash predicates (used by the evaluator to judge
   the REAL outcome independently of the model), proved equivalent to the Props of Names.v;
   concrete Examples for every C11 theorem. *)
From Coq Require Import List String Bool Arith Lia Permutation.
From Verif Require Import Base Gen.TypesMap Gen.NewName Gen.Names.
Import ListNotations.
Open Scope string_scope.
Open Scope list_scope.

Section Dec.
Variable tys : Type.
Variable tys_eqb : tys -> tys -> bool.
Hypothesis tys_eqb_spec : forall a b, reflect (a = b) (tys_eqb a b).

Definition has_conflictb (l : list (name * tys)) : bool :=
  existsb (fun c1 => existsb (fun c2 =>
    String.eqb (fst c1) (fst c2) && negb (tys_eqb (snd c1) (snd c2))) l) l.

Definition has_dupb (l : list (name * tys)) : bool :=
  existsb (fun c1 => existsb (fun c2 =>
    tys_eqb (snd c1) (snd c2) && negb (String.eqb (fst c1) (fst c2))) l) l.

Lemma has_conflictb_spec l : has_conflictb l = true <-> has_conflict l.
Proof.
  unfold has_conflictb, has_conflict. rewrite existsb_exists. split.
  - intros [[n1 t1] [H1 H]]. rewrite existsb_exists in H. destruct H as [[n2 t2] [H2 H]].
    cbn in H. apply andb_true_iff in H. destruct H as [E N].
    apply String.eqb_eq in E. subst n2.
    exists n1, t1, t2. repeat split; auto.
    intro; subst. destruct (tys_eqb_spec t2 t2); [discriminate|congruence].
  - intros (n & t1 & t2 & H1 & H2 & N). exists (n, t1). split; [exact H1|].
    rewrite existsb_exists. exists (n, t2). split; [exact H2|]. cbn.
    rewrite String.eqb_refl. destruct (tys_eqb_spec t1 t2); [congruence|reflexivity].
Qed.

Lemma has_dupb_spec l : has_dupb l = true <-> has_dup l.
Proof.
  unfold has_dupb, has_dup. rewrite existsb_exists. split.
  - intros [[n1 t1] [H1 H]]. rewrite existsb_exists in H. destruct H as [[n2 t2] [H2 H]].
    cbn in H. apply andb_true_iff in H. destruct H as [E N].
    destruct (tys_eqb_spec t1 t2); [subst|discriminate].
    exists t2, n1, n2. repeat split; auto.
    intro; subst. rewrite String.eqb_refl in N. discriminate.
  - intros (t & n1 & n2 & H1 & H2 & N). exists (n1, t). split; [exact H1|].
    rewrite existsb_exists. exists (n2, t). split; [exact H2|]. cbn.
    destruct (tys_eqb_spec t t); [|congruence]. cbn.
    destruct (String.eqb_spec n1 n2); [congruence|reflexivity].
Qed.
End Dec.

(* ---------- concrete examples: the hypotheses of every theorem are satisfiable and the
   theorems say something on a non-trivial input ---------- *)
Module Ex.
Definition hint (t : nat) : string :=
  match t with 0 => "A" | 1 => "int" | _ => "" end.
Notation run a d res calls :=
  (add_all nat Nat.eqb hint in_order (init "deriveEqual" res a d) calls).

Definition conflict_pkg : list (name * nat) := [("deriveEqual", 0); ("deriveEqual", 1)].
Definition dup_pkg : list (name * nat) := [("deriveEqual", 0); ("deriveEqualA", 0)].
Definition mixed_pkg : list (name * nat) :=
  [("deriveEqual", 0); ("deriveEqual", 1); ("deriveEqual_", 2); ("deriveEqualX", 1); ("deriveEqual", 2)].

(* noflag_exact: a conflict fails, a duplicate fails, a clean package passes *)
Example ex_noflag_conflict : run false false [] conflict_pkg = AErr 1 (SConflict "deriveEqual").
Proof. reflexivity. Qed.
Example ex_noflag_dup : run false false [] dup_pkg = AErr 1 (SDup "deriveEqual" "deriveEqualA").
Proof. reflexivity. Qed.
Example ex_conflict_pkg_has_conflict : has_conflict conflict_pkg /\ ~ has_dup conflict_pkg.
Proof.
  split.
  - exists "deriveEqual", 0, 1. cbn. intuition discriminate.
  - intro H. apply (has_dupb_spec nat Nat.eqb Nat.eqb_spec) in H. discriminate.
Qed.
Example ex_dup_pkg_has_dup : has_dup dup_pkg /\ ~ has_conflict dup_pkg.
Proof.
  split.
  - exists 0, "deriveEqual", "deriveEqualA". cbn. intuition discriminate.
  - intro H. apply (has_conflictb_spec nat Nat.eqb Nat.eqb_spec) in H. discriminate.
Qed.

(* autoname_only_dups_fail / dedup_only_conflicts_fail *)
Example ex_autoname_dup_fails : run true false [] dup_pkg = AErr 1 (SDup "deriveEqual" "deriveEqualA").
Proof. reflexivity. Qed.
Example ex_autoname_conflict_ok :
  exists sf, run true false [] conflict_pkg = AOk sf ["deriveEqual"; "deriveEqual_"].
Proof. eexists. reflexivity. Qed.
Example ex_dedup_conflict_fails : run false true [] conflict_pkg = AErr 1 (SConflict "deriveEqual").
Proof. reflexivity. Qed.
Example ex_dedup_dup_ok :
  exists sf, run false true [] dup_pkg = AOk sf ["deriveEqual"; "deriveEqual"].
Proof. eexists. reflexivity. Qed.

(* both_flags_accept / rename_sound / dedup_one_per_class on a package with every kind of
   clash; the name "deriveEqual_" the user spells in the third call has by then been handed
   out by -autoname to the second, so the third call is renamed as well (order dependence) *)
Example ex_both_mixed :
  exists sf, run true true ["deriveEqual_i"] mixed_pkg =
    AOk sf ["deriveEqual"; "deriveEqual_"; "deriveEqual_1"; "deriveEqual_"; "deriveEqual_1"]
  /\ tbl sf = [("deriveEqual", 0); ("deriveEqual_", 1); ("deriveEqual_1", 2)].
Proof. eexists. split; reflexivity. Qed.

(* rename_avoids_reserved: the reserved candidates are skipped; past the hint come numbers *)
Example ex_reserved_skipped :
  exists sf, run true false ["deriveEqual_"; "deriveEqual_A"] [("deriveEqual", 1); ("deriveEqual", 0)] =
    AOk sf ["deriveEqual"; "deriveEqual_A2"].
Proof. eexists. reflexivity. Qed.

(* -autoname alone on a conflict whose call is repeated: the second occurrence is reported as a
   duplicate of the name just invented (behaviour of the code, allowed by the property) *)
Example ex_autoname_repeat :
  run true false [] [("deriveEqual", 0); ("deriveEqual", 1); ("deriveEqual", 1)] =
    AErr 2 (SDup "deriveEqual_" "deriveEqual").
Proof. reflexivity. Qed.

Example ex_itoa : itoa 0 = "0" /\ itoa 10 = "10" /\ itoa 123 = "123".
Proof. repeat split; reflexivity. Qed.
End Ex.
