(* Gen/Worklist.v — the generate-until-done loop of derive/generate.go (pkg.Generate):
     for !Done { for each plugin in order { for typs in ToGenerate() { Generate(typs) } } }
   where Generate marks the function as generated and, while printing, asks other plugins (or
   its own) for the names of the helper functions it calls (GetFuncName registers a helper that
   is not registered yet).  Keys stand for (plugin, argument-type class); [requests k] are the
   helpers the generator of k asks for.  Proved for every request relation:
   when the loop is done every registered key has been generated exactly once and the
   registered set is exactly the closure of the user's calls under [requests]; the loop is done
   after at most |universe| passes when the closure stays inside a finite universe. *)
From Coq Require Import List Arith Lia Bool.
Import ListNotations.

Section W.
Variable key : Type.
Variable key_eqb : key -> key -> bool.
Hypothesis key_eqb_spec : forall a b, reflect (a = b) (key_eqb a b).
Variable requests : key -> list key.
(* every key belongs to a plugin; the plugins take turns in their (sorted) order *)
Variable plugin_of : key -> nat.
Variable plugins : list nat.
Hypothesis plugin_known : forall k, In (plugin_of k) plugins.

Definition mem (k : key) (l : list key) : bool := existsb (key_eqb k) l.
Lemma mem_In k l : mem k l = true <-> In k l.
Proof.
  unfold mem. rewrite existsb_exists. split.
  - intros (x & Hx & E). destruct (key_eqb_spec k x); [subst; exact Hx|discriminate].
  - intros H. exists k. split; [exact H|]. destruct (key_eqb_spec k k); [reflexivity|contradiction].
Qed.

(* registered: insertion ordered work list (typss of every typesMap, merged); generated: the
   keys already generated, with multiplicity (to state "exactly once") *)
Record state := { registered : list key; generated : list key }.

Definition register (k : key) (s : state) : state :=
  if mem k (registered s) then s else {| registered := registered s ++ [k]; generated := generated s |}.

(* Generate(k): Generating(k), then GetFuncName for every helper *)
Definition generate (k : key) (s : state) : state :=
  fold_left (fun s' q => register q s') (requests k)
            {| registered := registered s; generated := k :: generated s |}.

Definition to_generate (s : state) : list key :=
  filter (fun k => negb (mem k (generated s))) (registered s).

(* a plugin's turn: the snapshot g.ToGenerate() of that plugin's typesMap is taken when its
   turn comes, then every key of the snapshot is generated (a key of the snapshot can not have
   been generated in the meantime, the test is there for the proof's convenience) *)
Definition gen_all (ks : list key) (s : state) : state :=
  fold_left (fun s' k => if mem k (generated s') then s' else generate k s') ks s.
Definition turn (s : state) (p : nat) : state :=
  gen_all (filter (fun k => Nat.eqb (plugin_of k) p) (to_generate s)) s.
(* one iteration of `for !pkg.Done()`: every plugin has its turn, in order *)
Definition pass (s : state) : state := fold_left turn plugins s.

Definition done (s : state) : bool := forallb (fun k => mem k (generated s)) (registered s).

Fixpoint loop (fuel : nat) (s : state) : option state :=
  if done s then Some s else
  match fuel with
  | O => None
  | S f => loop f (pass s)
  end.

(* ---------- invariant ---------- *)
Inductive closure (init : list key) : key -> Prop :=
| c_init k : In k init -> closure init k
| c_req k q : closure init k -> In q (requests k) -> closure init q.

Record Inv (init : list key) (s : state) : Prop := {
  inv_init : forall k, In k init -> In k (registered s);
  inv_gen_reg : forall k, In k (generated s) -> In k (registered s);
  inv_gen_closed : forall k q, In k (generated s) -> In q (requests k) -> In q (registered s);
  inv_reg_closure : forall k, In k (registered s) -> closure init k;
  inv_once : NoDup (generated s);
  inv_reg_nodup : NoDup (registered s)
}.

Lemma NoDup_snoc (l : list key) k : NoDup l -> ~ In k l -> NoDup (l ++ [k]).
Proof.
  induction l as [|a l IH]; intros N Nin; cbn; [constructor; [intros []|constructor]|].
  inversion N; subst. constructor.
  - rewrite in_app_iff. cbn. intros [H|[H|[]]]; [contradiction| subst; apply Nin; left; reflexivity].
  - apply IH; [assumption| intros H; apply Nin; right; exact H].
Qed.

Lemma register_spec k s : forall x, In x (registered (register k s)) <-> In x (registered s) \/ x = k.
Proof.
  intros x. unfold register. destruct (mem k (registered s)) eqn:M; cbn.
  - apply mem_In in M. split.
    + auto.
    + intros [H| ->]; assumption.
  - rewrite in_app_iff. cbn. split.
    + intros [H|[H|F]]; [left; exact H| right; symmetry; exact H| destruct F].
    + intros [H| ->]; [left; exact H| right; left; reflexivity].
Qed.
Lemma register_generated k s : generated (register k s) = generated s.
Proof. unfold register. destruct (mem k (registered s)); reflexivity. Qed.
Lemma register_nodup k s : NoDup (registered s) -> NoDup (registered (register k s)).
Proof.
  intros N. unfold register. destruct (mem k (registered s)) eqn:M; cbn; [exact N|].
  apply NoDup_snoc; [exact N|]. intros H. apply mem_In in H. congruence.
Qed.

(* registering a list of helpers *)
Lemma reg_all_spec qs : forall s x,
  In x (registered (fold_left (fun s' q => register q s') qs s)) <-> In x (registered s) \/ In x qs.
Proof.
  induction qs as [|q qs IH]; intros s x; cbn; [tauto|].
  rewrite IH, register_spec. split.
  - intros [[H| ->]|H]; auto.
  - intros [H|[->|H]]; auto.
Qed.
Lemma reg_all_generated qs : forall s, generated (fold_left (fun s' q => register q s') qs s) = generated s.
Proof. induction qs as [|q qs IH]; intros s; cbn; [reflexivity|]. rewrite IH. apply register_generated. Qed.
Lemma reg_all_nodup qs : forall s, NoDup (registered s) -> NoDup (registered (fold_left (fun s' q => register q s') qs s)).
Proof. induction qs as [|q qs IH]; intros s N; cbn; [exact N|]. apply IH, register_nodup, N. Qed.

Lemma generate_inv init k s : Inv init s -> In k (registered s) -> ~ In k (generated s) -> Inv init (generate k s).
Proof.
  intros I Hk Ng. unfold generate.
  set (s0 := {| registered := registered s; generated := k :: generated s |}).
  constructor.
  - intros x Hx. apply reg_all_spec. left. apply (inv_init _ _ I x Hx).
  - intros x Hx. rewrite reg_all_generated in Hx. apply reg_all_spec. left. cbn in Hx.
    destruct Hx as [<-|Hx]; [exact Hk| apply (inv_gen_reg _ _ I x Hx)].
  - intros x q Hx Hq. rewrite reg_all_generated in Hx. apply reg_all_spec. cbn in Hx.
    destruct Hx as [<-|Hx]; [right; exact Hq| left; apply (inv_gen_closed _ _ I x q Hx Hq)].
  - intros x Hx. apply reg_all_spec in Hx. destruct Hx as [Hx|Hx].
    + apply (inv_reg_closure _ _ I x Hx).
    + apply (c_req init k x); [apply (inv_reg_closure _ _ I k Hk)| exact Hx].
  - rewrite reg_all_generated. cbn. constructor; [exact Ng| apply (inv_once _ _ I)].
  - apply reg_all_nodup. cbn. apply (inv_reg_nodup _ _ I).
Qed.

Lemma pass_steps_inv init ks : forall s, Inv init s -> (forall k, In k ks -> In k (registered s)) ->
  Inv init (fold_left (fun s' k => if mem k (generated s') then s' else generate k s') ks s)
  /\ (forall k, In k (generated s) \/ In k ks ->
        In k (generated (fold_left (fun s' k => if mem k (generated s') then s' else generate k s') ks s))).
Proof.
  induction ks as [|k ks IH]; intros s I Hreg; cbn.
  - split; [exact I| intros k [H|[]]; exact H].
  - destruct (mem k (generated s)) eqn:M.
    + destruct (IH s I (fun x Hx => Hreg x (or_intror Hx))) as [I' G]. split; [exact I'|].
      intros x [Hx|[<-|Hx]]; apply G; auto. left. apply mem_In. exact M.
    + assert (Ng : ~ In k (generated s)) by (intros H; apply mem_In in H; congruence).
      pose proof (generate_inv init k s I (Hreg k (or_introl eq_refl)) Ng) as I1.
      destruct (IH (generate k s) I1) as [I' G].
      * intros x Hx. unfold generate. apply reg_all_spec. left. cbn. apply Hreg. right. exact Hx.
      * split; [exact I'|]. intros x Hx. apply G.
        unfold generate. rewrite reg_all_generated. cbn.
        destruct Hx as [Hx|[<-|Hx]]; auto.
Qed.

Lemma gen_all_grows init ks s : Inv init s -> (forall k, In k ks -> In k (registered s)) ->
  (forall x, In x (registered s) -> In x (registered (gen_all ks s))) /\
  (forall x, In x (generated s) -> In x (generated (gen_all ks s))).
Proof.
  revert s. induction ks as [|k ks IH]; intros s I Hreg; cbn; [split; auto|].
  destruct (mem k (generated s)) eqn:M.
  - apply IH; [exact I| intros x Hx; apply Hreg; right; exact Hx].
  - assert (Ng : ~ In k (generated s)) by (intros H; apply mem_In in H; congruence).
    pose proof (generate_inv init k s I (Hreg k (or_introl eq_refl)) Ng) as I1.
    assert (R1 : forall x, In x (registered s) -> In x (registered (generate k s)))
      by (intros x Hx; unfold generate; apply reg_all_spec; left; exact Hx).
    destruct (IH (generate k s) I1) as [G1 G2]; [intros x Hx; apply R1, Hreg; right; exact Hx|].
    split; [intros x Hx; apply G1, R1, Hx|].
    intros x Hx. apply G2. unfold generate. rewrite reg_all_generated. right. exact Hx.
Qed.

Lemma turn_inv init s p : Inv init s -> Inv init (turn s p).
Proof.
  intros I. unfold turn, gen_all. apply pass_steps_inv; [exact I|].
  intros k Hk. apply filter_In in Hk as [Hk _]. unfold to_generate in Hk. apply filter_In in Hk. apply Hk.
Qed.

Lemma turn_grows init s p : Inv init s ->
  (forall x, In x (registered s) -> In x (registered (turn s p))) /\
  (forall x, In x (generated s) -> In x (generated (turn s p))).
Proof.
  intros I. unfold turn. apply (gen_all_grows init); [exact I|].
  intros k Hk. apply filter_In in Hk as [Hk _]. unfold to_generate in Hk. apply filter_In in Hk. apply Hk.
Qed.

(* after plugin p's turn every key of p that was registered before is generated *)
Lemma turn_generates init s p : Inv init s ->
  forall k, In k (registered s) -> plugin_of k = p -> In k (generated (turn s p)).
Proof.
  intros I k Hk Hp. unfold turn, gen_all.
  destruct (pass_steps_inv init (filter (fun k => Nat.eqb (plugin_of k) p) (to_generate s)) s I) as [_ G].
  - intros x Hx. apply filter_In in Hx as [Hx _]. unfold to_generate in Hx. apply filter_In in Hx. apply Hx.
  - apply G. destruct (mem k (generated s)) eqn:M; [left; apply mem_In; exact M|].
    right. apply filter_In. split; [|rewrite Hp; apply Nat.eqb_refl].
    unfold to_generate. apply filter_In. split; [exact Hk| rewrite M; reflexivity].
Qed.

Lemma turns_inv init ps : forall s, Inv init s -> Inv init (fold_left turn ps s).
Proof. induction ps as [|p ps IH]; intros s I; cbn; [exact I|]. apply IH, turn_inv, I. Qed.

Lemma turns_grow init ps : forall s, Inv init s ->
  (forall x, In x (registered s) -> In x (registered (fold_left turn ps s))) /\
  (forall x, In x (generated s) -> In x (generated (fold_left turn ps s))).
Proof.
  induction ps as [|p ps IH]; intros s I; cbn; [split; auto|].
  destruct (turn_grows init s p I) as [R G]. destruct (IH (turn s p) (turn_inv init s p I)) as [R' G'].
  split; intros x Hx; [apply R', R, Hx| apply G', G, Hx].
Qed.

Lemma turns_generate init ps : forall s, Inv init s ->
  forall k, In k (registered s) -> In (plugin_of k) ps -> In k (generated (fold_left turn ps s)).
Proof.
  induction ps as [|p ps IH]; intros s I k Hk Hp; [destruct Hp|]. cbn.
  destruct (Nat.eq_dec (plugin_of k) p) as [E|NE].
  - destruct (turns_grow init ps (turn s p) (turn_inv init s p I)) as [_ G].
    apply G. apply (turn_generates init s p I k Hk E).
  - destruct Hp as [Hp|Hp]; [congruence|].
    apply IH; [apply turn_inv, I| apply (turn_grows init s p I), Hk| exact Hp].
Qed.

Lemma pass_inv init s : Inv init s -> Inv init (pass s).
Proof. intros I. apply turns_inv, I. Qed.

(* after a pass everything that was registered before it is generated *)
Lemma pass_generates init s : Inv init s -> forall k, In k (registered s) -> In k (generated (pass s)).
Proof. intros I k Hk. apply (turns_generate init plugins s I k Hk). apply plugin_known. Qed.

Definition start (init : list key) : state :=
  fold_left (fun s k => register k s) init {| registered := []; generated := [] |}.

Lemma start_inv init : Inv init (start init).
Proof.
  unfold start. constructor.
  - intros k Hk. apply reg_all_spec. right. exact Hk.
  - intros k Hk. rewrite reg_all_generated in Hk. destruct Hk.
  - intros k q Hk. rewrite reg_all_generated in Hk. destruct Hk.
  - intros k Hk. apply reg_all_spec in Hk. destruct Hk as [[]|Hk]. apply c_init. exact Hk.
  - rewrite reg_all_generated. constructor.
  - apply reg_all_nodup. constructor.
Qed.

Lemma loop_inv init fuel : forall s s', Inv init s -> loop fuel s = Some s' -> Inv init s' /\ done s' = true.
Proof.
  induction fuel as [|f IH]; intros s s' I H; cbn in H; destruct (done s) eqn:D.
  - inversion H; subst. auto.
  - discriminate.
  - inversion H; subst. auto.
  - apply (IH (pass s) s'); [apply pass_inv; exact I| exact H].
Qed.

(* loop_complete: when the loop returns, the generated functions are exactly the closure of the
   user's calls under the helper-request relation, each generated exactly once *)
Theorem loop_complete init fuel s' : loop fuel (start init) = Some s' ->
  (forall k, In k (generated s') <-> closure init k) /\ NoDup (generated s').
Proof.
  intros H. destruct (loop_inv init fuel _ _ (start_inv init) H) as [I D].
  split; [|apply (inv_once _ _ I)].
  assert (RG : forall k, In k (registered s') -> In k (generated s')).
  { intros k Hk. unfold done in D. rewrite forallb_forall in D. apply mem_In. apply D. exact Hk. }
  intros k. split.
  - intros Hk. apply (inv_reg_closure _ _ I). apply (inv_gen_reg _ _ I). exact Hk.
  - intros C. induction C as [k Hk|k q C IHC Hq].
    + apply RG. apply (inv_init _ _ I). exact Hk.
    + apply RG. apply (inv_gen_closed _ _ I k q IHC Hq).
Qed.

(* loop_terminates: if the closure stays inside a universe of n keys, n+1 passes suffice *)
Lemma incl_length_nodup (l u : list key) : NoDup l -> incl l u -> length l <= length u.
Proof. intros N I. apply NoDup_incl_length; assumption. Qed.

Theorem loop_terminates init (universe : list key) :
  (forall k, closure init k -> In k universe) ->
  exists s', loop (S (length universe)) (start init) = Some s'.
Proof.
  intros U.
  (* measure: number of registered keys that are not yet generated is irrelevant; the number of
     generated keys strictly grows with every pass that is needed and is bounded by |universe| *)
  assert (B : forall s, Inv init s -> length (generated s) <= length universe).
  { intros s I. apply incl_length_nodup; [apply (inv_once _ _ I)|].
    intros k Hk. apply U. apply (inv_reg_closure _ _ I). apply (inv_gen_reg _ _ I). exact Hk. }
  assert (G : forall fuel s, Inv init s -> length universe < fuel + length (generated s) ->
              exists s', loop fuel s = Some s').
  { induction fuel as [|f IH]; intros s I L.
    - pose proof (B s I). cbn in L. lia.
    - cbn. destruct (done s) eqn:D; [eexists; reflexivity|].
      apply IH; [apply pass_inv; exact I|].
      (* a pass that was needed generates at least one more key *)
      assert (exists k, In k (registered s) /\ ~ In k (generated s)) as (k & Hk & Nk).
      { unfold done in D. apply Bool.not_true_iff_false in D.
        destruct (forallb (fun k => mem k (generated s)) (registered s)) eqn:F; [contradiction|].
        clear D. induction (registered s) as [|a l IHl]; cbn in F; [discriminate|].
        destruct (mem a (generated s)) eqn:M; cbn in F.
        - destruct (IHl F) as (k & Hk & Nk). exists k. split; [right; exact Hk| exact Nk].
        - exists a. split; [left; reflexivity|]. intros H. apply mem_In in H. congruence. }
      assert (LT : length (generated s) < length (generated (pass s))).
      { assert (INC : incl (k :: generated s) (generated (pass s))).
        { intros x [Ex|Hx]; [subst x; apply (pass_generates init s I k Hk)|].
          apply (pass_generates init s I). apply (inv_gen_reg _ _ I). exact Hx. }
        assert (ND : NoDup (k :: generated s)) by (constructor; [exact Nk| apply (inv_once _ _ I)]).
        pose proof (NoDup_incl_length ND INC) as Hlen. cbn in Hlen. lia. }
      lia. }
  apply G; [apply start_inv|]. lia.
Qed.
End W.

(* non-vacuity: equal on a struct asks for equal on its slice field, compare asks for sort and
   keys, sort asks for compare again; keys are numbers, plugin = key mod 3 *)
Definition ex_requests (k : nat) : list nat :=
  match k with 0 => [3; 1] | 1 => [2; 4] | 2 => [1] | 4 => [] | _ => [] end.
Example ex_loop :
  option_map (fun s => (registered nat s, generated nat s))
    (loop nat Nat.eqb ex_requests (fun k => k mod 3) [0; 1; 2] 6 (start nat Nat.eqb [0]))
  = Some ([0; 3; 1; 2; 4], [4; 3; 2; 1; 0]).
Proof. vm_compute. reflexivity. Qed.
