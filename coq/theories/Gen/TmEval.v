(* Gen/TmEval.v — parsing of typesMap observations (shared by Eval11 and Eval08) and the
   evaluation of package-level runs: model prediction and an independent judgement of the real
   outcome against the property. *)
From Verif Require Import Base Sexp Gen.TypesMap Gen.NamesDec.
Open Scope string_scope.

Definition get_sym (e : sexp) : option string := match e with Sym s => Some s | _ => None end.
Definition get_syms (e : sexp) : option (list string) :=
  match e with L l => map_opt get_sym l | _ => None end.
Definition get_bool (e : sexp) : option bool :=
  match e with Num z => Some (negb (Z.eqb z 0)) | _ => None end.
Definition get_bools (e : sexp) : option (list bool) :=
  match e with L l => map_opt get_bool l | _ => None end.

(* the context of an observation: the pool of argument type lists (by index) with the hint
   newName derives from each, the matrix eq(this, that) as go/types computes it, the plugin
   prefixes and the reserved names *)
Record ctx := mk_ctx {
  c_hints : list string;
  c_teq : list (list bool);
  c_prefixes : list string;
  c_reserved : list string }.

Definition hint_of (c : ctx) (t : nat) : string := nth t (c_hints c) "".
Definition teq_of (c : ctx) (a b : nat) : bool := nth b (nth a (c_teq c) []) false.

Definition get_hint (e : sexp) : option string :=
  match e with L [] => Some "" | L [Sym s] => Some s | _ => None end.

Definition parse_ctx (e : sexp) : option ctx :=
  match e with
  | L [Sym "ctx"; L (Sym "hints" :: hs); L (Sym "teq" :: rows); L [Sym "prefixes"; ps]; L [Sym "reserved"; rs]] =>
      match map_opt get_hint hs, map_opt get_bools rows, get_syms ps, get_syms rs with
      | Some h, Some m, Some p, Some r => Some (mk_ctx h m p r)
      | _, _, _, _ => None
      end
  | _ => None
  end.

(* teq is the identity on the pool: the guard of the C11 theorems *)
Fixpoint is_identity_from (i : nat) (rows : list (list bool)) : bool :=
  match rows with
  | [] => true
  | r :: rs =>
      forallb (fun '(j, b) => Bool.eqb b (Nat.eqb i j)) (combine (seq 0 (List.length r)) r)
      && is_identity_from (S i) rs
  end.
Definition teq_is_identity (c : ctx) : bool :=
  is_identity_from 0 (c_teq c) &&
  forallb (fun r => Nat.eqb (List.length r) (List.length (c_teq c))) (c_teq c) &&
  Nat.eqb (List.length (c_hints c)) (List.length (c_teq c)).

Definition pcall := (nat * (name * nat))%type.

Definition parse_call (e : sexp) : option pcall :=
  match e with
  | L [Num p; Sym n; Num t] => Some (Z.to_nat p, (n, Z.to_nat t))
  | _ => None
  end.
Definition parse_calls (e : sexp) : option (list pcall) :=
  match e with L l => map_opt parse_call l | _ => None end.

(* ---------- model prediction ---------- *)
Definition sres_sexp (i : Z) (e : sres) : sexp :=
  match e with
  | SDup h w => L [Sym "err"; Num i; Sym "dup"; Sym h; Sym w]
  | SConflict n => L [Sym "err"; Num i; Sym "conflict"; Sym n]
  | SFuel => L [Sym "fuel"]
  | SOk _ => Sym "?"
  end.

Definition tbl_sexp (t : list (name * nat)) : sexp :=
  L (map (fun '(n, q) => L [Sym n; of_nat q]) t).

Definition pkg_init (c : ctx) (a d : bool) : nat -> tm nat :=
  fun p => init (nth p (c_prefixes c) "") (c_reserved c) a d.

Definition run_pkg (c : ctx) (a d : bool) (calls : list pcall) : pres nat :=
  add_pkg nat (teq_of c) (hint_of c) in_order (pkg_init c a d) calls.

(* e2e observations cannot see the index of the failing call: it is printed as -1 *)
Definition pres_sexp (e2e : bool) (c : ctx) (r : pres nat) : sexp :=
  match r with
  | POk st ms =>
      L [Sym "ok"; L (map Sym ms);
         L (map (fun p => tbl_sexp (tbl (st p))) (seq 0 (List.length (c_prefixes c))))]
  | PErr i e => sres_sexp (if e2e then (-1)%Z else Z.of_nat i) e
  end.

(* ---------- the real outcome, parsed for the independent judgement ---------- *)
Inductive rres :=
| ROk (names : list string) (tables : list (list (name * nat)))
| RErr.

Definition parse_entry (e : sexp) : option (name * nat) :=
  match e with L [Sym n; Num t] => Some (n, Z.to_nat t) | _ => None end.
Definition parse_table (e : sexp) : option (list (name * nat)) :=
  match e with L l => map_opt parse_entry l | _ => None end.

Definition parse_real (e : sexp) : option rres :=
  match e with
  | L [Sym "ok"; ns; L ts] =>
      match get_syms ns, map_opt parse_table ts with
      | Some n, Some t => Some (ROk n t)
      | _, _ => None
      end
  | L (Sym "err" :: _) => Some RErr
  | _ => None
  end.

Definition projb (p : nat) (calls : list pcall) : list (name * nat) :=
  map snd (filter (fun c => Nat.eqb (fst c) p) calls).

Fixpoint nodupb {A} (eqb : A -> A -> bool) (l : list A) : bool :=
  match l with
  | [] => true
  | x :: r => negb (existsb (eqb x) r) && nodupb eqb r
  end.

(* soundness of a successful real run, judged on what was observed: every call's final name
   is bound in its plugin's table to exactly the call's types; every table is a bijection (one
   function per type list); no table name is reserved; without flags nothing was renamed *)
Definition sound_real (c : ctx) (a d : bool) (calls : list pcall)
           (names : list string) (tables : list (list (name * nat))) : bool :=
  Nat.eqb (List.length names) (List.length calls) &&
  forallb (fun '((p, (_, t)), m) =>
             existsb (fun '(n, t') => String.eqb n m && Nat.eqb t t') (nth p tables []))
          (combine calls names) &&
  forallb (fun t => nodupb String.eqb (map fst t) && nodupb Nat.eqb (map snd t)) tables &&
  forallb (fun t => forallb (fun n => negb (name_mem n (c_reserved c))) (map fst t)) tables &&
  (a || d || forallb (fun '((_, (n, _)), m) => String.eqb n m) (combine calls names)).

(* the property, as a judgement of one real run under flags (a, d) *)
Definition spec_run (c : ctx) (a d : bool) (calls : list pcall) (r : rres) : bool :=
  let per := map (fun p => projb p calls) (seq 0 (List.length (c_prefixes c))) in
  let confl := existsb (has_conflictb nat Nat.eqb) per in
  let dupl := existsb (has_dupb nat Nat.eqb) per in
  match r with
  | RErr =>
      match a, d with
      | false, false => confl || dupl
      | true, false => confl || dupl   (* the property leaves mixed packages open; a clash-free one must pass *)
      | false, true => confl || dupl
      | true, true => false
      end
  | ROk names tables =>
      sound_real c a d calls names tables &&
      match a, d with
      | false, false => negb (confl || dupl)
      | true, false => negb (dupl && negb confl)     (* only duplicates: must fail *)
      | false, true => negb (confl && negb dupl)     (* only conflicts: must fail *)
      | true, true => true
      end
  end.

(* model arm of one run, for coverage: ok (nothing renamed) | dedup (a call renamed to a name
   the user spelled) | auto (a fresh name invented; +deep when the search went past `prefix_`,
   i.e. skipped occupied or reserved candidates) | dup | conf *)
Definition outcome_code (c : ctx) (a d : bool) (calls : list pcall) : string :=
  match run_pkg c a d calls with
  | POk _ ms =>
      let pairs := combine calls ms in
      let renamed := filter (fun '((_, (n, _)), m) => negb (String.eqb n m)) pairs in
      let user := map (fun '(_, (n, _)) => n) calls in
      let fresh := filter (fun '(_, m) => negb (name_mem m user)) renamed in
      let deep := existsb (fun '((p, _), m) =>
                    Nat.ltb (S (String.length (nth p (c_prefixes c) ""))) (String.length m)) fresh in
      match renamed with
      | [] => "ok"
      | _ => (match fresh with [] => "dedup" | _ =>
                if Nat.eqb (List.length fresh) (List.length renamed) then "auto" else "auto+dedup" end)
             ++ (if deep then "+deep" else "")
      end
  | PErr _ (SDup _ _) => "dup"
  | PErr _ (SConflict _) => "conf"
  | PErr _ _ => "fuel"
  end.

Definition len_code (n : nat) : string :=
  match n with 0 => "0" | 1 => "1" | 2 => "2" | 3 => "3" | 4 => "4" | 5 => "5" | _ => "6+" end.

Definition guard_calls (c : ctx) (calls : list pcall) : bool :=
  teq_is_identity c &&
  forallb (fun '(p, (n, t)) => negb (name_mem n (c_reserved c)) &&
                               Nat.ltb p (List.length (c_prefixes c)) &&
                               Nat.ltb t (List.length (c_hints c))) calls.

(* an error whose message the harness could not classify matches any model error at that call *)
Definition unknown_match (m real : sexp) : bool :=
  match real, m with
  | L [Sym "err"; Num i; Sym "unknown"], L (Sym "err" :: Num j :: _) => Z.eqb i j
  | _, _ => false
  end.

(* one run: (a d REAL) *)
Definition eval_run (e2e : bool) (c : ctx) (calls : list pcall) (e : sexp)
  : option (bool * bool * sexp * string) :=
  match e with
  | L [fa; fd; real] =>
      match get_bool fa, get_bool fd, parse_real real with
      | Some a, Some d, Some r =>
          let m := pres_sexp e2e c (run_pkg c a d calls) in
          Some (sexp_eqb m real || unknown_match m real, spec_run c a d calls r, L [fa; fd; m], outcome_code c a d calls)
      | _, _, _ => None
      end
  | _ => None
  end.

Definition join_tags (l : list string) : string := String.concat "|" l.

(* (pkg|e2e CTX (calls...) (runs...)) *)
Definition eval_pkg (e : sexp) : verdict :=
  match e with
  | L [Sym k; ce; cs; L runs] =>
      let e2e := String.eqb k "e2e" in
      if negb (e2e || String.eqb k "pkg") then bad_line else
      match parse_ctx ce, parse_calls cs with
      | Some c, Some calls =>
          match map_opt (eval_run e2e c calls) runs with
          | Some rs =>
              {| v_known := true;
                 v_model_ok := forallb (fun '(m, _, _, _) => m) rs;
                 v_spec_ok := forallb (fun '(_, s, _, _) => s) rs;
                 v_guard := guard_calls c calls;
                 v_model := L (map (fun '(_, _, m, _) => m) rs);
                 v_tag := (k ++ "/k=" ++ len_code (List.length calls) ++ "/" ++ join_tags (map (fun '(_, _, _, t) => t) rs)) |}
          | None => bad_line
          end
      | _, _ => bad_line
      end
  | _ => bad_line
  end.
