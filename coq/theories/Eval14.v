(* Eval14.v — evaluation of C14 observations (stub: replaced when C14 is built). *)
From Verif Require Import Base Sexp.
Open Scope string_scope.

Definition eval14 (e : sexp) : verdict := bad_line.
