(* Eval14.v — evaluation of C14 observations: the generated set/list helpers vs the models of
   Sets/Model.v and the textbook specifications of Sets/ListSpec.v.

   Observation lines (driver: harness/internal/c14):
     (op T rawargs... (obs (before a..) (ret r..) (after a'..) (log x..)))   or   (op T rawargs... panic)
   before/ret/after/log are serialised with ONE address labeller, so equal labels mean equal
   addresses across them; the model runs on the [before] values.  Maps (map[T]struct{}) travel as
   key slices [(sl maplabel (keys) ())], a nil map as [nils].  Fresh allocations have label 0 in
   the model; the capacity of a fresh slice is not compared.

   Lists that hold a NaN (hardening round 4): outside the NaN-free value model and the theorems' guard;
   Contains, Unique, Union and Intersect on them are judged against the textbook specification with
   [Sets.NaN.eq_nan] (IEEE ==: a NaN is Equal to nothing), see [eval_nan_op]. *)
From Coq Require Import String.
From Verif Require Import Base Sexp Go.Ty Go.Val Go.Equal Go.Hash Eval03 Sets.Model Sets.ListSpec Sets.NaN.
Open Scope string_scope.

(* ---------- structural identity of values (labels, bits, spare capacity included) ---------- *)
Fixpoint val_eqb (x y : val) {struct x} : bool :=
  let fix go (a b : list val) {struct a} : bool :=
    match a, b with
    | [], [] => true
    | p :: a', q :: b' => (val_eqb p q && go a' b')%bool
    | _, _ => false
    end in
  match x, y with
  | VBool a, VBool b => Bool.eqb a b
  | VInt a, VInt b => Z.eqb a b
  | VF n m, VF n' m' => (Bool.eqb n n' && N.eqb m m')%bool
  | VC a b c d, VC a' b' c' d' => (Bool.eqb a a' && N.eqb b b' && Bool.eqb c c' && N.eqb d d')%bool
  | VStr a, VStr b => bytes_eqb a b
  | VNilP, VNilP => true
  | VPtr l v, VPtr l' v' => (N.eqb l l' && val_eqb v v')%bool
  | VNilS, VNilS => true
  | VSl l es sp, VSl l' es' sp' => (N.eqb l l' && go es es' && go sp sp')%bool
  | VNilM, VNilM => true
  | VMap l kvs, VMap l' kvs' =>
      (N.eqb l l' &&
       (fix gom (a : list (val * val)) (b : list (val * val)) {struct a} : bool :=
          match a, b with
          | [], [] => true
          | kv :: a', kv' :: b' => (val_eqb (fst kv) (fst kv') && val_eqb (snd kv) (snd kv') && gom a' b')%bool
          | _, _ => false
          end) kvs kvs')%bool
  | VArr a, VArr b => go a b
  | VSt a, VSt b => go a b
  | _, _ => false
  end.
Definition vals_eqb (a b : list val) : bool := all2b val_eqb a b.

(* printing (for the replay file) *)
Fixpoint val_sexp (v : val) : sexp :=
  match v with
  | VBool b => L [Sym "b"; of_bool b]
  | VInt z => L [Sym "i"; Num z]
  | VF n m => L [Sym "f"; of_bool n; Num (Z.of_N m)]
  | VC a b c d => L [Sym "c"; of_bool a; Num (Z.of_N b); of_bool c; Num (Z.of_N d)]
  | VStr s => L (Sym "s" :: map (fun b => Num (Z.of_N b)) s)
  | VNilP => Sym "nilp"
  | VPtr l x => L [Sym "p"; Num (Z.of_N l); val_sexp x]
  | VNilS => Sym "nils"
  | VSl l es sp => L [Sym "sl"; Num (Z.of_N l); L (map val_sexp es); L (map val_sexp sp)]
  | VNilM => Sym "nilm"
  | VMap l kvs => L [Sym "m"; Num (Z.of_N l); L (map (fun kv => L [val_sexp (fst kv); val_sexp (snd kv)]) kvs)]
  | VArr es => L (Sym "a" :: map val_sexp es)
  | VSt es => L (Sym "st" :: map val_sexp es)
  end.

(* ---------- the observation record ---------- *)
Record obs := { o_before : list val; o_ret : list sexp; o_after : list val; o_log : list val }.
Definition tagged (h : string) (e : sexp) : option (list sexp) :=
  match e with L (Sym s :: r) => if String.eqb s h then Some r else None | _ => None end.
Definition parse_obs (e : sexp) : option obs :=
  match e with
  | L [Sym _; b; r; a; lg] =>
      match tagged "before" b, tagged "ret" r, tagged "after" a, tagged "log" lg with
      | Some b', Some r', Some a', Some l' =>
          match map_opt parse_val b', map_opt parse_val a', map_opt parse_val l' with
          | Some vb, Some va, Some vl => Some {| o_before := vb; o_ret := r'; o_after := va; o_log := vl |}
          | _, _, _ => None
          end
      | _, _, _, _ => None
      end
  | _ => None
  end.
Definition is_panic (e : sexp) : bool := sym_is "panic" e.
Fixpoint last_sexp (l : list sexp) : option sexp :=
  match l with [] => None | [x] => Some x | _ :: r => last_sexp r end.

(* ---------- comparison of slices: aliasing with the arguments, fresh results ---------- *)
Definition is_nil {A} (l : list A) : bool := match l with [] => true | _ => false end.
(* zero-size element types: every such slice/pointer has the same address in Go *)
Fixpoint zero_size (t : ty) : bool :=
  match t with
  | TN _ _ u => zero_size u
  | TAr n u => (Nat.eqb n 0 || zero_size u)%bool
  | TSt fs => (fix go (l : list (bool * ty)) : bool :=
                 match l with [] => true | f :: l' => (zero_size (snd f) && go l')%bool end) fs
  | _ => false
  end.
Definition top_labels (vs : list val) : list N :=
  flat_map (fun v => match v with VSl l es sp => if is_nil (es ++ sp)%list then [] else [l] | _ => [] end) vs.
(* m: model (label 0 = fresh backing array, capacity not modelled); r: real *)
Definition slice_match (zs : bool) (tops : list N) (m r : val) : bool :=
  match m, r with
  | VNilS, VNilS => true
  | VSl lm em sm, VSl lr er sr =>
      (vals_eqb em er &&
       (if N.eqb lm 0 then zs || is_nil (er ++ sr)%list || negb (existsb (N.eqb lr) tops)
        else N.eqb lm lr && vals_eqb sm sr))%bool
  | _, _ => false
  end.
Definition elems_opt (v : val) : option (list val) := slice_elems v.

(* equal as sets of keys under == (both sides pairwise different) *)
Definition keys_distinct_l (ks : list val) : bool := keys_distinct ks.
Definition set_match (m r : list val) : bool :=
  (Nat.eqb (List.length m) (List.length r) && keys_distinct_l r
   && forallb (fun k => key_in k r) m)%bool.

(* ---------- the reference equality ---------- *)
Definition eqb (t : ty) (x y : val) : bool :=
  match spec_eq [] t x y with Some b => b | None => false end.
Definition typed_all (t : ty) (vs : list val) : bool := forallb (has_type [] t) vs.
Definition keyable_all (vs : list val) : bool := forallb (fun x => go_eqeq x x) vs.

Definition mk_pred (t : ty) (kind : string) (c : val) : option pred :=
  if String.eqb kind "ptrue" then Some (fun _ _ => true)
  else if String.eqb kind "pfalse" then Some (fun _ _ => false)
  else if String.eqb kind "peq" then
    Some (fun _ x => match Equal.eqm [] Top t x c with Ok b => b | _ => false end)
  else if String.eqb kind "ppar" then Some (fun log _ => Nat.even (List.length log))
  else None.

Definition res_tag {A} (r : res A) : string :=
  match r with Ok _ => "ok" | Pan => "panic" | Unsup => "unsupported" | Stuck => "stuck" end.
Definition bool_tag (b : bool) (y n : string) : string := if b then y else n.

Definition mkv (known mok sok guard : bool) (m : sexp) (tag : string) : verdict :=
  {| v_known := known; v_model_ok := mok; v_spec_ok := sok; v_guard := guard; v_model := m; v_tag := tag |}.

Definition path_tag (t : ty) : string := if can_equal t then "eqeq" else "equal".
Definition has_dups (t : ty) (es : list val) : bool :=
  negb (Nat.eqb (List.length (keep_first (eqb t) [] es)) (List.length es)).

(* key slice <-> map *)
Definition to_map (v : val) : val :=
  match v with VSl l ks _ => VMap l (unit_entries ks) | _ => VNilM end.
Definition map_label (v : val) : N := match v with VMap l _ => l | VSl l _ _ => l | _ => 0%N end.

Definition eval_op (op : string) (t : ty) (raw : list sexp) (o : option obs) : verdict :=
  let ts := TSl t in
  let zs := zero_size t in
  match o with
  | None =>
      (* the call panicked: none of the modelled functions can (Union on a nil first map did before
         fix C14-fix-union-nil-map) *)
      mkv true false false true (Sym "no-panic") (op ++ "/unexpected-panic")
  | Some ob =>
      let tops := top_labels (o_before ob) in
      if String.eqb op "contains" then
        match o_before ob, o_ret ob, o_after ob with
        | [lst; item], [rb], [lst'; item'] =>
            match slice_elems lst, get_b rb with
            | Some es, Some b =>
                let guard := (has_type [] ts lst && has_type [] t item)%bool in
                let same := (val_eqb lst lst' && val_eqb item item')%bool in
                let m := contains_m [] t lst item in
                mkv true
                    (match m with Ok b' => Bool.eqb b b' && same | _ => false end)%bool
                    (Bool.eqb b (mem (eqb t) item es) && same)%bool
                    guard
                    (match m with Ok b' => of_bool b' | _ => Sym (res_tag m) end)
                    ("contains/" ++ path_tag t ++ "/" ++ bool_tag b "found" "absent" ++ "/" ++ node_tag t)
            | _, _ => bad_line
            end
        | _, _, _ => bad_line
        end
      else if String.eqb op "unique" then
        match o_before ob, map_opt parse_val (o_ret ob), o_after ob with
        | [lst], Some [r], [lst'] =>
            match slice_elems lst, slice_elems r with
            | Some es, Some rs =>
                let guard := has_type [] ts lst in
                let m := unique_m [] t 0%N (fun ks => ks) lst in
                let cmp := can_equal t in
                let K := keep_first (eqb t) [] es in
                mkv true
                    (match m with
                     | Ok (mr, ma) =>
                         (val_eqb ma lst' &&
                          if cmp then
                            match mr, r with
                            | VNilS, VNilS => true
                            | VSl _ mk _, VSl lr rk rsp => set_match mk rk && slice_match zs tops (VSl 0%N rk []) r
                            | _, _ => false
                            end
                          else slice_match zs tops mr r)%bool
                     | _ => false
                     end)
                    (* pairwise non-Equal, covers every input element, only input elements; first
                       occurrences in order when the elements are not ==-comparable *)
                    (Nat.eqb (List.length (keep_first (eqb t) [] rs)) (List.length rs) &&
                     forallb (fun x => mem (eqb t) x rs) es &&
                     forallb (fun x => existsb (val_eqb x) es) rs &&
                     (cmp || vals_eqb rs K))%bool
                    guard
                    (match m with Ok (mr, _) => val_sexp mr | _ => Sym (res_tag m) end)
                    ("unique/" ++ (if cmp then "map-path" else "hash-path") ++ "/"
                     ++ (if is_nil es then "empty" else bool_tag (has_dups t es) "dups" "nodups") ++ "/" ++ node_tag t)
            | _, _ => bad_line
            end
        | _, _, _ => bad_line
        end
      else if String.eqb op "set" then
        match o_before ob, map_opt parse_val (o_ret ob), o_after ob with
        | [lst], Some [r], [lst'] =>
            match slice_elems lst, slice_elems r with
            | Some es, Some rs =>
                let guard := (has_type [] ts lst && keyable_all es)%bool in
                let m := set_m 0%N lst in
                mkv true
                    (match m with
                     | Ok mv => match map_keys mv with
                                | Some mk => set_match mk rs && val_eqb lst lst'
                                             && negb (match r with VNilS => true | _ => false end)
                                | None => false end
                     | _ => false end)%bool
                    (keys_distinct rs && forallb (fun x => key_in x rs) es
                     && forallb (fun k => key_in k es) rs && val_eqb lst lst')%bool
                    guard
                    (match m with Ok mv => val_sexp mv | _ => Sym (res_tag m) end)
                    ("set/" ++ bool_tag (Nat.eqb (List.length rs) (List.length es)) "nodups" "dups" ++ "/" ++ node_tag t)
            | _, _ => bad_line
            end
        | _, _, _ => bad_line
        end
      else if (String.eqb op "union" || String.eqb op "intersect")%bool then
        match o_before ob, map_opt parse_val (o_ret ob), o_after ob with
        | [a; b], Some [r], [a'; b'] =>
            match slice_elems a, slice_elems b, slice_elems r with
            | Some es1, Some es2, Some rs =>
                let guard := (has_type [] ts a && has_type [] ts b)%bool in
                if String.eqb op "union" then
                  let m := union_m [] t 0%N a b in
                  let want := (es1 ++ keep_first (eqb t) es1 es2)%list in
                  mkv true
                      (match m with
                       | Ok (mr, ma) => slice_match zs tops mr r && val_eqb ma a' && val_eqb b b'
                       | _ => false end)%bool
                      (vals_eqb rs want)
                      guard
                      (match m with Ok (mr, _) => val_sexp mr | _ => Sym (res_tag m) end)
                      ("union/" ++ path_tag t ++ "/"
                       ++ (if Nat.eqb (List.length rs) (List.length es1) then "nothing-new"
                           else match m with Ok (VSl 0%N _ _, _) => "grown" | _ => "in-spare-capacity" end))
                else
                  let m := intersect_m [] t 0%N a b in
                  let want := filter (fun v => mem (eqb t) v es2) es1 in
                  mkv true
                      (match m with
                       | Ok mr => slice_match zs tops mr r && val_eqb a a' && val_eqb b b'
                       | _ => false end)%bool
                      (vals_eqb rs want && val_eqb a a' && val_eqb b b')%bool
                      guard
                      (match m with Ok mr => val_sexp mr | _ => Sym (res_tag m) end)
                      ("intersect/" ++ path_tag t ++ "/" ++ bool_tag (is_nil rs) "empty" "nonempty")
            | _, _, _ => bad_line
            end
        | _, _, _ => bad_line
        end
      else if (String.eqb op "unionm" || String.eqb op "intersectm")%bool then
        match o_before ob, o_ret ob, o_after ob with
        | [a; b], [rs; sm], [a'; b'] =>
            match slice_elems a, slice_elems b, parse_val rs, get_b sm, slice_elems a', slice_elems b' with
            | Some k1, Some k2, Some r, Some same, Some k1', Some k2' =>
                match slice_elems r with
                | Some rk =>
                    let guard := (typed_all t (k1 ++ k2)%list && keyable_all (k1 ++ k2)%list
                                  && keys_distinct k1 && keys_distinct k2)%bool in
                    let rnil := match r with VNilS => true | _ => false end in
                    if String.eqb op "unionm" then
                      let m := union_map_m 0%N (fun ks => ks) (to_map a) (to_map b) in
                      let anil := match a with VNilS => true | _ => false end in
                      mkv true
                          (match m with
                           | Ok mv => match map_keys mv with
                                      | Some mk => set_match mk rk && negb rnil
                                                   && (if anil then negb same && is_nil k1' else same && set_match rk k1')
                                                   && set_match k2 k2'
                                      | None => false end
                           | _ => false end)%bool
                          (keys_distinct rk && forallb (fun x => key_in x rk) (k1 ++ k2)%list
                           && forallb (fun k => key_in k (k1 ++ k2)%list) rk && set_match k2 k2')%bool
                          guard
                          (match m with Ok mv => val_sexp mv | _ => Sym (res_tag m) end)
                          ("unionm/" ++ bool_tag anil "nil-first" "first-extended-in-place")
                    else
                      let m := intersect_map_m 0%N (fun ks => ks) (to_map a) (to_map b) in
                      mkv true
                          (match m with
                           | Ok mv => match map_keys mv with
                                      | Some mk => set_match mk rk && negb rnil
                                                   && (negb same || (is_nil k1 && is_nil k2))
                                                   && set_match k1 k1' && set_match k2 k2'
                                      | None => false end
                           | _ => false end)%bool
                          (keys_distinct rk && forallb (fun x => negb (key_in x k2) || key_in x rk) k1
                           && forallb (fun k => key_in k k1 && key_in k k2) rk
                           && set_match k1 k1' && set_match k2 k2')%bool
                          guard
                          (match m with Ok mv => val_sexp mv | _ => Sym (res_tag m) end)
                          ("intersectm/" ++ bool_tag (is_nil rk) "empty" "nonempty")
                | None => bad_line
                end
            | _, _, _, _, _, _ => bad_line
            end
        | _, _, _ => bad_line
        end
      else
        (* predicate functions: raw = [kind; c; list] *)
        match raw, o_before ob, o_after ob with
        | Sym kind :: _, [c; lst], [c'; lst'] =>
            match mk_pred t kind c, slice_elems lst with
            | Some p, Some es =>
                let guard := (has_type [] ts lst && has_type [] t c)%bool in
                let bs := answers p [] es in
                let log := o_log ob in
                if String.eqb op "filter" then
                  match map_opt parse_val (o_ret ob) with
                  | Some [r] =>
                      match slice_elems r with
                      | Some rs =>
                          let m := filter_m p lst in
                          mkv true
                              (match m with
                               | Ok (mr, ma, ml) => slice_match zs tops mr r && val_eqb ma lst' && vals_eqb ml log
                               | _ => false end)%bool
                              (vals_eqb rs (filter_by es bs) && vals_eqb log es)%bool
                              guard
                              (match m with Ok (mr, _, _) => val_sexp mr | _ => Sym (res_tag m) end)
                              ("filter/" ++ kind ++ "/" ++ (if is_nil rs then "none"
                                  else if Nat.eqb (List.length rs) (List.length es) then "all" else "some"))
                      | None => bad_line
                      end
                  | _ => bad_line
                  end
                else if String.eqb op "takewhile" then
                  match map_opt parse_val (o_ret ob) with
                  | Some [r] =>
                      match slice_elems r with
                      | Some rs =>
                          let m := takewhile_m 0%N p lst in
                          mkv true
                              (match m with
                               | Ok (mr, ml) => slice_match zs tops mr r && val_eqb lst lst' && vals_eqb ml log
                               | _ => false end)%bool
                              (vals_eqb rs (take_while_by es bs) && vals_eqb log (upto_first false es bs)
                               && val_eqb lst lst')%bool
                              guard
                              (match m with Ok (mr, _) => val_sexp mr | _ => Sym (res_tag m) end)
                              ("takewhile/" ++ kind ++ "/" ++ (if is_nil rs then "none"
                                  else if Nat.eqb (List.length rs) (List.length es) then "all" else "some"))
                      | None => bad_line
                      end
                  | _ => bad_line
                  end
                else if (String.eqb op "all" || String.eqb op "any")%bool then
                  match o_ret ob with
                  | [rb] =>
                      match get_b rb with
                      | Some b =>
                          let isall := String.eqb op "all" in
                          let m := if isall then all_m p lst else any_m p lst in
                          let want := if isall then forallb (fun x => x) bs else existsb (fun x => x) bs in
                          let wlog := upto_first (negb isall) es bs in
                          mkv true
                              (match m with
                               | Ok (mb, ml) => Bool.eqb mb b && vals_eqb ml log && val_eqb lst lst'
                               | _ => false end)%bool
                              (Bool.eqb b want && vals_eqb log wlog && val_eqb lst lst')%bool
                              guard
                              (match m with Ok (mb, _) => of_bool mb | _ => Sym (res_tag m) end)
                              (op ++ "/" ++ kind ++ "/" ++ bool_tag b "true" "false" ++ "/"
                               ++ (if is_nil es then "empty"
                                   else if Nat.eqb (List.length log) (List.length es) then "to-the-end" else "short-circuit"))
                      | None => bad_line
                      end
                  | _ => bad_line
                  end
                else bad_line
            | _, _ => bad_line
            end
        | _, _, _ => bad_line
        end
  end.

(* ---------- lists that hold a NaN: specification only ---------- *)
Definition nan_any (t : ty) (vs : list val) : bool :=
  existsb (fun v => nan_in [] (TSl t) v || nan_in [] t v)%bool vs.
Definition is_nan_op (op : string) : bool :=
  (String.eqb op "contains" || String.eqb op "unique" || String.eqb op "union" || String.eqb op "intersect")%bool.
(* every element of a occurs (bit for bit, same addresses) in b *)
Definition all_in (a b : list val) : bool := forallb (fun x => existsb (val_eqb x) b) a.

Definition eval_nan_op (op : string) (t : ty) (ob : obs) : verdict :=
  let ts := TSl t in
  let eqn := eq_nan t in
  let sv (sok guard : bool) (want : sexp) (tag : string) := mkv true sok sok guard want ("nan/" ++ tag) in
  if String.eqb op "contains" then
    match o_before ob, o_ret ob, o_after ob with
    | [lst; item], [rb], [lst'; item'] =>
        match slice_elems lst, get_b rb with
        | Some es, Some b =>
            let want := mem eqn item es in
            sv (Bool.eqb b want && val_eqb lst lst' && val_eqb item item')%bool
               (typed_nan ts lst && typed_nan t item)%bool (of_bool want)
               ("contains/" ++ bool_tag (nan_in [] t item) "nan-item" "item" ++ "/" ++ bool_tag b "found" "absent")
        | _, _ => bad_line
        end
    | _, _, _ => bad_line
    end
  else if String.eqb op "unique" then
    match o_before ob, map_opt parse_val (o_ret ob) with
    | [lst], Some [r] =>
        match slice_elems lst, slice_elems r with
        | Some es, Some rs =>
            let K := keep_first eqn [] es in
            (* pairwise non-Equal, every input element present (a NaN is Equal to nothing, so "covers" is
               "is there"), only input elements, every occurrence of a NaN element kept; first occurrences
               in order when the elements are not ==-comparable *)
            sv (Nat.eqb (List.length (keep_first eqn [] rs)) (List.length rs)
                && Nat.eqb (List.length rs) (List.length K) && all_in K rs && all_in rs es
                && (can_equal t || vals_eqb rs K))%bool
               (typed_nan ts lst) (L (map val_sexp K))
               ("unique/" ++ (if can_equal t then "map-path" else "hash-path") ++ "/"
                ++ bool_tag (Nat.eqb (List.length K) (List.length es)) "nodups" "dups")
        | _, _ => bad_line
        end
    | _, _ => bad_line
    end
  else
    match o_before ob, map_opt parse_val (o_ret ob), o_after ob with
    | [a; b], Some [r], [a'; b'] =>
        match slice_elems a, slice_elems b, slice_elems r with
        | Some es1, Some es2, Some rs =>
            let guard := (typed_nan ts a && typed_nan ts b)%bool in
            if String.eqb op "union" then
              let want := (es1 ++ keep_first eqn es1 es2)%list in
              sv (vals_eqb rs want && val_eqb b b') guard (L (map val_sexp want))
                 ("union/" ++ bool_tag (Nat.eqb (List.length rs) (List.length es1)) "nothing-new" "grown")
            else
              let want := filter (fun v => mem eqn v es2) es1 in
              sv (vals_eqb rs want && val_eqb a a' && val_eqb b b')%bool guard (L (map val_sexp want))
                 ("intersect/" ++ bool_tag (is_nil rs) "empty" "nonempty")
        | _, _, _ => bad_line
        end
    | _, _, _ => bad_line
    end.

Definition sup14 (t : ty) : bool := (eq_sup [] Top t && (can_equal t || hash_sup t))%bool.

Definition eval14 (e : sexp) : verdict :=
  match e with
  | L [Sym k; tys; Sym cls] =>
      if String.eqb k "sup-c14" then
        match parse_ty tys with
        | Some t =>
            let sup := sup14 t in
            let real_ok := String.eqb cls "ok" in
            let real_err := String.eqb cls "generator-error" in
            let crash := (String.eqb cls "panic" || String.eqb cls "timeout")%bool in
            let ok := (crash || if sup then real_ok else real_err)%bool in
            mkv true ok ok true (Sym (if sup then "ok" else "generator-error"))
                ("support/" ++ (if crash then "generator-crash-see-C09"
                                else if sup then "supported" else "unsupported"))
        | None => bad_line
        end
      else bad_line
  | L (Sym op :: tys :: rest) =>
      match parse_ty tys, last_sexp rest with
      | Some t, Some ob =>
          let raw := removelast rest in
          if is_panic ob then eval_op op t raw None
          else match parse_obs ob with
               | Some o =>
                   if (is_nan_op op && nan_any t (o_before o))%bool then eval_nan_op op t o
                   else eval_op op t raw (Some o)
               | None => bad_line
               end
      | _, _ => bad_line
      end
  | _ => bad_line
  end.
