(* Eval02.v — evaluation of C02 observations: generated deriveEqual vs model and specification.

   Types with their own Equal method (Go/Methods.v, by declaration id): 100..199 the method takes the other
   VALUE; 200..299 the method is handed the other value's ADDRESS.  plugin/equal emits the same text for a
   method with a pointer parameter and for one with an interface parameter (this.F.Equal(&that.F) for a value
   component, this.P.Equal(that.P) for a pointer component), so the harness declares both kinds in the second
   range (hardening round 4: MI, MIc, XI with `interface{}`, MA with `any`; their methods assert that.( *T)
   and answer false for anything else, so handing them the value is visible as "never equal"). *)
From Coq Require Import String.
From Verif Require Import Base Sexp Go.Ty Go.Val Go.Equal Go.Compare Go.Methods.
Open Scope string_scope.

Definition res_sexp (r : res bool) : sexp :=
  match r with
  | Ok b => L [Sym "ret"; L [Sym "b"; Num (if b then 1 else 0)%Z]]
  | Pan => Sym "panic"
  | Unsup => Sym "unsupported"
  | Stuck => Sym "stuck"
  end.

(* coverage tag: strategy at the root and whether the two values are equal *)
Definition strat_tag (s : strat) : string :=
  match s with
  | SEqEq => "eqeq" | SPtrNoStruct _ _ => "ptr" | SPtrStruct _ _ => "ptr-struct"
  | SPtrInline _ _ => "ptr-inline" | SBytes => "bytes" | SSlice _ _ => "slice"
  | SArray _ _ => "array" | SMap _ _ => "map" | SFields _ _ => "fields"
  | SUnsup => "unsup" | SStuck => "stuck"
  end.

Definition eval02 (e : sexp) : verdict :=
  match e with
  | L [Sym k; tys; xs; ys; real] =>
      if (String.eqb k "eq" || String.eqb k "eqc")%bool then
        match parse_ty tys, parse_val xs, parse_val ys with
        | Some t, Some x, Some y =>
            let typed := (has_type [] t x && has_type [] t y)%bool in
            (* types without user methods: the model the theorems are about, and structural
               equality as the specification; otherwise the model with the generator's method dispatch;
               at components with an Equal method the specification is the method's answer *)
            let m := if method_free t then equal_model t x y else eqm_m [] Top t x y in
            let s := if method_free t then lift (spec_eq [] t x y) else m in
            let inguard := typed in
            {| v_known := typed;
               (* a type the model refuses but goderive serves through an assignable named twin:
                  the specification still judges the result *)
               v_model_ok := match m with Unsup => true | _ => sexp_eqb (res_sexp m) real end;
               v_spec_ok := sexp_eqb (res_sexp s) real;
               v_guard := inguard;
               v_model := res_sexp m;
               v_tag := (if method_free t then "" else "methods/") ++ k ++ "/"
                        ++ strat_tag (strategy [] Top t) ++ "/"
                        ++ match m with Ok true => "equal" | Ok false => "different" | _ => "other" end |}
        | _, _, _ => bad_line
        end
      else bad_line
  | L [Sym k; tys; Sym cls] =>
      if String.eqb k "sup-eq" then
        match parse_ty tys with
        | Some t =>
            let sup := eq_sup [] Top t in
            let real_ok := String.eqb cls "ok" in
            let real_err := String.eqb cls "generator-error" in
            (* supported -> generated; unsupported -> reported as a generator error *)
            (* a crash or hang of the generator is C09's subject: not judged here *)
            let crash := (String.eqb cls "panic" || String.eqb cls "timeout")%bool in
            (* a type the model refuses can still be accepted by goderive when an identical named
               type of the package serves it by assignability (C08/C11's subject): not judged *)
            let ok := (crash || if sup then real_ok else (real_err || real_ok))%bool in
            {| v_known := true; v_model_ok := ok; v_spec_ok := ok; v_guard := true;
               v_model := Sym (if sup then "ok" else "generator-error");
               v_tag := "support/" ++ (if crash then "generator-crash-see-C09"
                                       else if sup then "supported"
                                       else if real_ok then "accepted-beyond-model" else "unsupported") |}
        | None => bad_line
        end
      else bad_line
  | _ => bad_line
  end.
