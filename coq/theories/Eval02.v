(* Eval02.v — evaluation of C02 observations (stub: replaced when C02 is built). *)
From Verif Require Import Base Sexp.
Open Scope string_scope.

Definition eval02 (e : sexp) : verdict := bad_line.
