(* Do/Examples.v — non-vacuity: the hypotheses of the C20 theorems are satisfiable on non-trivial
   inputs, the guarded conclusions are reached, and programs that differ from [expected n] in the
   ways the property forbids are told apart by the same semantics (vm_compute witnesses). *)
From Verif Require Import Base Do.Sem Do.Explore Do.Canon Do.Proofs Do.LogInv Do.Progress.

(* two functions that wait for each other; the first fails with error 7 *)
Definition ex_f0 : ufun := {| script := [USend 0]; rv := 10; re := Some 7 |}.
Definition ex_f1 : ufun := {| script := [URecv 0]; rv := 11; re := None |}.
Definition ex_f2 : ufun := {| script := []; rv := 12; re := Some 9 |}.
Definition ex_fs := [ex_f0; ex_f1].

Example ex_coop : coop ex_fs.
Proof.
  intros cf H.
  assert (E : cf = [[USend 0]; [URecv 0]] \/ cf = [[]; []]).
  { induction H as [|cf a b cf' H IH Hs]; [left; reflexivity|].
    destruct IH as [-> | ->]; destruct a as [|[|a]], b as [|[|b]]; cbn in Hs; try discriminate;
      try (destruct a; discriminate); try (destruct b; discriminate);
      try (unfold ustep in Hs; destruct (S (S a) =? S (S b)); [discriminate|]; cbn in Hs; destruct a; discriminate);
      try (inversion Hs; auto). }
  destruct E as [-> | ->].
  - right. exists 0, 1, [[]; []]. reflexivity.
  - left. intros r [<-|[<-|[]]]; reflexivity.
Qed.

(* run a schedule *)
Fixpoint run_sched (P : prog) (fs : list ufun) (s : state) (l : list action) : option state :=
  match l with
  | [] => Some s
  | a :: r => match step P fs s a with Some s' => run_sched P fs s' r | None => None end
  end.

Lemma run_sched_reach P fs s l s' : reach P fs s -> run_sched P fs s l = Some s' -> reach P fs s'.
Proof.
  revert s; induction l as [|a l IH]; cbn; intros s Hr H; [inversion H; subst; exact Hr|].
  destruct (step P fs s a) as [s1|] eqn:E; [|discriminate].
  apply (IH s1); [eapply reachS; eassumption | exact H].
Qed.

(* a complete run of deriveDo for these two functions: start both, the functions rendezvous,
   both store, the caller receives f1's nil first, then f0's error *)
Definition ex_sched : list action :=
  [Tau 0; Tau 0; Tau 1; Tau 2; Sync 1 2; Tau 1; Tau 2; Tau 0; Sync 2 0; Tau 0; Tau 0; Tau 0;
   Sync 1 0; Tau 0; Tau 0; Tau 0; Tau 0; Tau 0; Tau 0].

Example ex_run : exists s, reach (expected 2) ex_fs s /\ main_ret s = Some ([10; 11], Some 7)
                           /\ all_halted (expected 2) s = true /\ racy s = false
                           /\ count_recv (log s) = 2 /\ recv_order (log s) = [2; 1].
Proof.
  destruct (run_sched (expected 2) ex_fs (init (expected 2)) ex_sched) as [s|] eqn:E; [|vm_compute in E; discriminate].
  exists s. split; [eapply run_sched_reach; [apply reach0 | exact E]|].
  vm_compute in E. inversion E; subst. vm_compute. repeat split; reflexivity.
Qed.

(* all schedules of three functions (two of which rendezvous, two of which fail): the explorer finds
   no violation and exactly the two outcomes the theorems allow *)
Example ex_explore3 :
  let r := explore (expected 3) [ex_f0; ex_f1; ex_f2] 20 in
  found r = None /\ finished r = true /\ outs r = [([10; 11; 12], Some 7); ([10; 11; 12], Some 9)].
Proof. vm_compute. repeat split; reflexivity. Qed.

(* ---- programs that are NOT expected n, and what goes wrong (the same semantics tells them apart) ---- *)
(* f0 is called before f1 is started: functions that wait for one another deadlock *)
Definition sequential2 : prog :=
  {| ccap := 2; ncells := 2; bodies := [gbody 1]; main := [ICall 0 0; ISend; IGo 0] ++ loop_tail 3 |}.
Example sequential_start_deadlocks :
  exists sched, found (explore sequential2 ex_fs 20) = Some (BadDeadlock, sched).
Proof. eexists. vm_compute. reflexivity. Qed.

(* only n-1 errors are received: the caller returns while a goroutine still runs, reads race *)
Definition short_loop2 : prog :=
  {| ccap := 0; ncells := 2; bodies := map gbody (seq 0 2);
     main := map IGo (seq 0 2) ++ [ILoop 1 8; IRecv; IIfErrcNil 7; IIfErrSet 7; ISetErr; INext 2; IRet [0; 1]] |}.
Example short_loop_violates : exists b sched, found (explore short_loop2 ex_fs 20) = Some (b, sched).
Proof. eexists _, _. vm_compute. reflexivity. Qed.

(* results returned in swapped positions *)
Definition swapped2 : prog :=
  {| ccap := 0; ncells := 2; bodies := map gbody (seq 0 2);
     main := map IGo (seq 0 2) ++ [ILoop 2 8; IRecv; IIfErrcNil 7; IIfErrSet 7; ISetErr; INext 2; IRet [1; 0]] |}.
Example swapped_positions_violate : exists sched, found (explore swapped2 ex_fs 20) = Some (BadPosition, sched).
Proof. eexists. vm_compute. reflexivity. Qed.
