(* Do/Explore.v — exhaustive schedule explorer over the executable semantics of Do/Sem.v.
   Used (extracted) (a) to search the TRANSLATED program for a schedule that violates the
   property when it no longer equals the expected one, (b) to compute the set of outcomes
   the model allows for a configuration run on the real runtime.
   States are explored without their event log (all checked conditions are state based);
   visited states are kept in a binary trie keyed by an injective encoding of the state. *)
From Verif Require Import Base Do.Sem.

(* ---------- encoding of a state (log excluded) as a positive ---------- *)
Fixpoint ones (k : nat) (p : positive) : positive :=
  match k with 0 => p | S k' => xI (ones k' p) end.
Fixpoint pos_of (l : list nat) : positive :=
  match l with [] => xH | x :: r => ones x (xO (pos_of r)) end.

Definition enc_opt (o : option nat) : list nat := match o with None => [0] | Some x => [S x] end.
Definition enc_list {A} (f : A -> list nat) (l : list A) : list nat := length l :: flat_map f l.
Definition enc_aid (a : aid) : list nat := [fst a; snd a].
Definition enc_uop (o : uop) : list nat := match o with USend c => [0; c] | URecv c => [1; c] end.
Definition enc_thread (t : thread) : list nat :=
  [bid t; pc t] ++ match scr t with None => [0] | Some r => 1 :: enc_list enc_uop r end
  ++ enc_opt (ferr t) ++ [cnt t] ++ enc_opt (errc t) ++ enc_opt (err t)
  ++ enc_list enc_aid (seen t) ++ [nacc t]
  ++ match ret t with None => [0] | Some (vs, e) => 1 :: enc_list (fun v => [v]) vs ++ enc_opt e end.
Definition enc_cell (c : cell) : list nat :=
  cval c :: enc_list enc_aid (cws c) ++ enc_list enc_aid (crs c).
Definition enc_msg (m : msg) : list nat := enc_opt (mval m) ++ [mfrom m] ++ enc_list enc_aid (mseen m).
Definition key (s : state) : positive :=
  pos_of (enc_list enc_thread (thr s) ++ enc_list enc_cell (cells s) ++ enc_list enc_msg (buf s)
          ++ [if racy s then 1 else 0]).

Inductive ptrie := PLeaf | PNode (l : ptrie) (here : bool) (r : ptrie).
Fixpoint pmem (p : positive) (t : ptrie) : bool :=
  match t with
  | PLeaf => false
  | PNode l h r => match p with xH => h | xO q => pmem q l | xI q => pmem q r end
  end.
Fixpoint padd (p : positive) (t : ptrie) : ptrie :=
  match p with
  | xH => match t with PLeaf => PNode PLeaf true PLeaf | PNode l _ r => PNode l true r end
  | xO q => match t with PLeaf => PNode (padd q PLeaf) false PLeaf | PNode l h r => PNode (padd q l) h r end
  | xI q => match t with PLeaf => PNode PLeaf false (padd q PLeaf) | PNode l h r => PNode l h (padd q r) end
  end.

(* ---------- what counts as a violation of C20 in a state ---------- *)
Inductive bad :=
| BadRace          (* an access to a result cell not ordered with a conflicting one *)
| BadEarlyReturn   (* the caller returned while some goroutine had not finished *)
| BadPosition      (* returned values are not the functions' values in position *)
| BadNilError      (* nil error although a function failed *)
| BadForeignError  (* non-nil error that no function returned *)
| BadDeadlock      (* no step possible, the caller has not returned *)
| BadLeak.         (* no step possible, the caller returned, a goroutine is left blocked *)

Definition bad_code (b : bad) : nat :=
  match b with BadRace => 1 | BadEarlyReturn => 2 | BadPosition => 3 | BadNilError => 4
             | BadForeignError => 5 | BadDeadlock => 6 | BadLeak => 7 end.

Definition errv_eqb (a b : errv) : bool :=
  match a, b with None, None => true | Some x, Some y => x =? y | _, _ => false end.
Fixpoint nats_eqb (a b : list nat) : bool :=
  match a, b with [] , [] => true | x :: a', y :: b' => (x =? y) && nats_eqb a' b' | _, _ => false end.

Section EXP.
Variable P : prog.
Variable fs : list ufun.

Definition err_ok (e : errv) : bool :=
  match e with
  | None => forallb (fun f => match re f with None => true | Some _ => false end) fs
  | Some x => existsb (fun f => errv_eqb (re f) (Some x)) fs
  end.

Definition check (s : state) : option bad :=
  if racy s then Some BadRace else
  match main_ret s with
  | Some (vs, e) =>
      if negb (all_halted P s) then
        (match enabled P fs s with [] => Some BadLeak | _ => Some BadEarlyReturn end)
      else if negb (nats_eqb vs (map rv fs)) then Some BadPosition
      else if err_ok e then None
      else match e with None => Some BadNilError | Some _ => Some BadForeignError end
  | None =>
      match enabled P fs s with
      | [] => Some BadDeadlock
      | _ => None
      end
  end.

Definition erase (s : state) : state :=
  {| thr := thr s; cells := cells s; buf := buf s; log := []; racy := racy s |}.

Record search := {
  work : list (state * list action);
  vis : ptrie;
  outs : list (list val * errv);      (* distinct outcomes of completed runs *)
  nvis : nat;
  found : option (bad * list action) }.

Definition out_eqb (a b : list val * errv) : bool := nats_eqb (fst a) (fst b) && errv_eqb (snd a) (snd b).
Definition add_out (o : list val * errv) (l : list (list val * errv)) :=
  if existsb (out_eqb o) l then l else l ++ [o].

Definition finished (st : search) : bool :=
  match found st with Some _ => true | None => match work st with [] => true | _ => false end end.

Definition step1 (st : search) : search :=
  match found st with
  | Some _ => st
  | None =>
    match work st with
    | [] => st
    | (s, path) :: w =>
        let k := key s in
        if pmem k (vis st) then {| work := w; vis := vis st; outs := outs st; nvis := nvis st; found := None |}
        else
          match check s with
          | Some b => {| work := w; vis := vis st; outs := outs st; nvis := S (nvis st); found := Some (b, rev path) |}
          | None =>
              let succ := flat_map (fun a => match step P fs s a with
                                             | Some s' => [(erase s', a :: path)]
                                             | None => [] end) (enabled P fs s) in
              {| work := succ ++ w; vis := padd k (vis st);
                 outs := match succ, main_ret s with
                         | [], Some o => add_out o (outs st)
                         | _, _ => outs st end;
                 nvis := S (nvis st); found := None |}
          end
    end
  end.

(* at most 2^d steps *)
Fixpoint run (d : nat) (st : search) : search :=
  match d with
  | 0 => step1 st
  | S d' => let st' := run d' st in if finished st' then st' else run d' st'
  end.

Definition explore (d : nat) : search :=
  run d {| work := [(init P, [])]; vis := PLeaf; outs := []; nvis := 0; found := None |}.

End EXP.
