(* Do/Progress.v — deadlock freedom and termination of deriveDo for every n and every schedule,
   given user functions that complete when they all run (they may wait for one another). *)
From Verif Require Import Base Do.Sem Do.Canon Do.Proofs.

Local Arguments Nat.ltb : simpl never.
Local Arguments Nat.eqb : simpl never.

(* ---------- the user functions on their own, all running ---------- *)
Definition uconf := list (list uop).

Definition ustep (cf : uconf) (a b : nat) : option uconf :=
  if a =? b then None else
  match nth_error cf a, nth_error cf b with
  | Some (USend c :: ra), Some (URecv c' :: rb) =>
      if c =? c' then Some (upd (upd cf a ra) b rb) else None
  | _, _ => None
  end.

Inductive ureach (c0 : uconf) : uconf -> Prop :=
| ur0 : ureach c0 c0
| urS cf a b cf' : ureach c0 cf -> ustep cf a b = Some cf' -> ureach c0 cf'.

(* whenever all functions run together, they are all finished or two of them can rendezvous *)
Definition coop (fs : list ufun) : Prop :=
  forall cf, ureach (map script fs) cf ->
    (forall r, In r cf -> r = []) \/ exists a b cf', ustep cf a b = Some cf'.

(* ---------- a measure that every step decreases ---------- *)
Definition mweight (n pc cnt : nat) : nat :=
  if pc <? n then (n - pc) + 7 * n + 9
  else match pc - n with
       | 0 => 7 * (n - cnt) + 9
       | 1 => 7 * (n - cnt) + 8
       | 2 => 7 * (n - cnt) + 7
       | 3 => 7 * (n - cnt) + 6
       | 4 => 7 * (n - cnt) + 5
       | 5 => 7 * (n - cnt) + 4
       | 6 => 1
       | _ => 0
       end.

Definition tweight (t : thread) (f : ufun) : nat :=
  match pc t with
  | 0 => match scr t with None => length (script f) + 3 | Some r => length r + 2 end
  | 1 => 1
  | _ => 0
  end.

Definition measure (n : nat) (fs : list ufun) (s : state) : nat :=
  match thr s with
  | [] => 0
  | m :: _ =>
      mweight n (pc m) (cnt m) +
      list_sum (map (fun g => match nth_error (thr s) (S g) with
                              | Some t => tweight t (nth g fs fdflt)
                              | None => length (script (nth g fs fdflt)) + 3
                              end) (seq 0 n))
  end.

Lemma sum_le (f f' : nat -> nat) i k :
  (forall c, i <= c < i + k -> f' c <= f c) -> list_sum (map f' (seq i k)) <= list_sum (map f (seq i k)).
Proof.
  revert i; induction k as [|k IH]; intros i H; cbn; [lia|]. unfold list_sum in *.
  assert (H1 : forall c, S i <= c < S i + k -> f' c <= f c) by (intros; apply H; lia).
  specialize (IH (S i) H1). assert (H0 : f' i <= f i) by (apply H; lia). lia.
Qed.

Lemma sum_lt (f f' : nat -> nat) i k g :
  (forall c, i <= c < i + k -> f' c <= f c) -> i <= g < i + k -> f' g < f g ->
  list_sum (map f' (seq i k)) < list_sum (map f (seq i k)).
Proof.
  revert i; induction k as [|k IH]; intros i H Hg Hlt; cbn; [lia|]. pose proof sum_le as SL. unfold list_sum in *.
  assert (H1 : forall c, S i <= c < S i + k -> f' c <= f c) by (intros; apply H; lia).
  destruct (Nat.eq_dec g i) as [->|].
  - pose proof (SL f f' (S i) k H1). lia.
  - assert (Hg' : S i <= g < S i + k) by lia. specialize (IH (S i) H1 Hg' Hlt).
    assert (H0 : f' i <= f i) by (apply H; lia). lia.
Qed.

Section PROGRESS.
Variable n : nat.
Variable fs : list ufun.
Hypothesis Hfs : length fs = n.

Notation fn := (fn fs).
Notation trans := (trans n fs).
Notation mk := (mk n fs).
Notation P := (Canon.P n).
Notation Cond := (Cond n fs).

Definition gwt (g : nat) (x : gst) : nat :=
  match x with
  | GNew => length (script (fn g)) + 3
  | GRun r => length r + 2
  | GReady => 1
  | GDone => 0
  end.

Definition ameasure (p : params) : nat :=
  mweight n (mpc p) (mcnt p) + list_sum (map (fun g => gwt g (st p g)) (seq 0 n)).

Lemma measure_mk p : length (gs p) <= n -> measure n fs (mk p) = ameasure p.
Proof.
  intros HL. unfold measure, ameasure. cbn [Canon.mk thr mthread pc cnt]. f_equal. f_equal.
  apply map_ext_in. intros g Hg. apply in_seq in Hg.
  change (nth_error (mthread fs p :: mapi_from 0 (gthread fs) (gs p)) (S g))
    with (nth_error (mapi_from 0 (gthread fs) (gs p)) g).
  rewrite mapi_from_nth. unfold st. destruct (nth_error (gs p) g) as [x|] eqn:E.
  - rewrite (nth_error_nth _ _ _ E). cbn [option_map]. unfold tweight.
    destruct x as [|r| |]; reflexivity.
  - apply nth_error_None in E. rewrite (nth_overflow (gs p)) by exact E. reflexivity.
Qed.

Lemma ameasure_step p a p' : Cond p -> trans p a p' -> ameasure p' < ameasure p.
Proof.
  intros C T. destruct C as (Hb & HL & Hret & Hnd & HE & (F1 & F2 & F3 & F4 & F5)).
  assert (Hsame : forall q : params, gs q = gs p -> mweight n (mpc q) (mcnt q) < mweight n (mpc p) (mcnt p) -> ameasure q < ameasure p).
  { intros q Hg Hw. unfold ameasure, st. rewrite Hg. lia. }
  destruct T; unfold with_pc, with_main in *.
  - (* spawn *)
    unfold ameasure, p_spawn; cbn [mpc mcnt gs].
    assert (Hs : list_sum (map (fun g => gwt g (nth g (gs p ++ [GNew]) GNew)) (seq 0 n)) =
                 list_sum (map (fun g => gwt g (st p g)) (seq 0 n))).
    { f_equal. apply map_ext. intros g. unfold st. destruct (Nat.lt_ge_cases g (length (gs p))).
      - rewrite app_nth1 by lia. reflexivity.
      - rewrite app_nth2 by lia. rewrite (nth_overflow (gs p)) by lia.
        destruct (g - length (gs p)) as [|[|k]]; reflexivity. }
    unfold st at 1. cbn [gs]. rewrite Hs. unfold mweight.
    replace (mpc p <? n) with true by (symmetry; apply Nat.ltb_lt; lia).
    destruct (Nat.ltb_spec (S (mpc p)) n); [lia|].
    replace (S (mpc p) - n) with 0 by lia. destruct (F1 H) as (_ & -> & _). lia.
  - apply Hsame; [reflexivity|]. cbn [mpc mcnt]. unfold mweight. rewrite H, Nat.ltb_irrefl, Nat.sub_diag.
    destruct (Nat.ltb_spec (mcnt p) n).
    + replace (n + 1 <? n) with false by (symmetry; apply Nat.ltb_ge; lia). replace (n + 1 - n) with 1 by lia. lia.
    + replace (n + 6 <? n) with false by (symmetry; apply Nat.ltb_ge; lia). replace (n + 6 - n) with 6 by lia. lia.
  - apply Hsame; [reflexivity|]. cbn [mpc mcnt]. unfold mweight. rewrite H.
    replace (n + 2 <? n) with false by (symmetry; apply Nat.ltb_ge; lia). replace (n + 2 - n) with 2 by lia.
    destruct (merrc p).
    + replace (n + 3 <? n) with false by (symmetry; apply Nat.ltb_ge; lia). replace (n + 3 - n) with 3 by lia. lia.
    + replace (n + 5 <? n) with false by (symmetry; apply Nat.ltb_ge; lia). replace (n + 5 - n) with 5 by lia. lia.
  - apply Hsame; [reflexivity|]. cbn [mpc mcnt]. unfold mweight. rewrite H.
    replace (n + 3 <? n) with false by (symmetry; apply Nat.ltb_ge; lia). replace (n + 3 - n) with 3 by lia.
    destruct (merr p).
    + replace (n + 5 <? n) with false by (symmetry; apply Nat.ltb_ge; lia). replace (n + 5 - n) with 5 by lia. lia.
    + replace (n + 4 <? n) with false by (symmetry; apply Nat.ltb_ge; lia). replace (n + 4 - n) with 4 by lia. lia.
  - apply Hsame; [reflexivity|]. cbn [mpc mcnt]. unfold mweight. rewrite H.
    replace (n + 4 <? n) with false by (symmetry; apply Nat.ltb_ge; lia). replace (n + 4 - n) with 4 by lia.
    replace (n + 5 <? n) with false by (symmetry; apply Nat.ltb_ge; lia). replace (n + 5 - n) with 5 by lia. lia.
  - apply Hsame; [reflexivity|]. cbn [mpc mcnt]. unfold mweight. rewrite H.
    assert (Hp5 : n + 2 <= mpc p <= n + 5) by lia. destruct (F5 Hp5) as (d & g & _ & _ & Hc & _).
    replace (n + 5 <? n) with false by (symmetry; apply Nat.ltb_ge; lia). replace (n + 5 - n) with 5 by lia.
    rewrite Nat.ltb_irrefl, Nat.sub_diag. lia.
  - apply Hsame; [reflexivity|]. unfold p_ret. cbn [mpc mcnt]. unfold mweight. rewrite H.
    replace (n + 6 <? n) with false by (symmetry; apply Nat.ltb_ge; lia). replace (n + 6 - n) with 6 by lia.
    replace (S (n + 6) <? n) with false by (symmetry; apply Nat.ltb_ge; lia). replace (S (n + 6) - n) with 7 by lia. lia.
  - (* call starts *)
    assert (Hg : g < length (gs p)) by (apply nth_error_Some; congruence).
    unfold ameasure, with_g; cbn [mpc mcnt]. apply Nat.add_lt_mono_l.
    apply (sum_lt _ _ 0 n g).
    + intros c _. unfold st; cbn [gs]. rewrite nth_upd. destruct (Nat.eqb_spec c g) as [->|]; [|lia].
      replace (g <? length (gs p)) with true by (symmetry; apply Nat.ltb_lt; exact Hg).
      rewrite (nth_error_nth _ _ _ H). cbn. lia.
    + rewrite HL in Hg. lia.
    + unfold st; cbn [gs]. rewrite nth_upd, Nat.eqb_refl. replace (g <? length (gs p)) with true by (symmetry; apply Nat.ltb_lt; exact Hg).
      rewrite (nth_error_nth _ _ _ H). cbn. lia.
  - (* result stored *)
    assert (Hg : g < length (gs p)) by (apply nth_error_Some; congruence).
    unfold ameasure, with_g; cbn [mpc mcnt]. apply Nat.add_lt_mono_l.
    apply (sum_lt _ _ 0 n g).
    + intros c _. unfold st; cbn [gs]. rewrite nth_upd. destruct (Nat.eqb_spec c g) as [->|]; [|lia].
      replace (g <? length (gs p)) with true by (symmetry; apply Nat.ltb_lt; exact Hg).
      rewrite (nth_error_nth _ _ _ H). cbn. lia.
    + rewrite HL in Hg. lia.
    + unfold st; cbn [gs]. rewrite nth_upd, Nat.eqb_refl. replace (g <? length (gs p)) with true by (symmetry; apply Nat.ltb_lt; exact Hg).
      rewrite (nth_error_nth _ _ _ H). cbn. lia.
  - (* receive *)
    assert (Hg : g < length (gs p)) by (apply nth_error_Some; congruence).
    unfold ameasure, p_recv; cbn [mpc mcnt].
    assert (Hm : mweight n (S (mpc p)) (mcnt p) < mweight n (mpc p) (mcnt p)).
    { unfold mweight. rewrite H0.
      replace (n + 1 <? n) with false by (symmetry; apply Nat.ltb_ge; lia). replace (n + 1 - n) with 1 by lia.
      replace (S (n + 1) <? n) with false by (symmetry; apply Nat.ltb_ge; lia). replace (S (n + 1) - n) with 2 by lia. lia. }
    assert (Hs : list_sum (map (fun k => gwt k (st (p_recv fs p g) k)) (seq 0 n)) <= list_sum (map (fun k => gwt k (st p k)) (seq 0 n))).
    { apply sum_le. intros c _. unfold st, p_recv; cbn [gs]. rewrite nth_upd.
      destruct (Nat.eqb_spec c g) as [->|]; [|lia].
      replace (g <? length (gs p)) with true by (symmetry; apply Nat.ltb_lt; exact Hg). cbn. lia. }
    unfold p_recv in Hs. lia.
  - (* user rendezvous *)
    assert (Ha : a < length (gs p)) by (apply nth_error_Some; congruence).
    assert (Hb' : b < length (gs p)) by (apply nth_error_Some; congruence).
    unfold ameasure, p_user; cbn [mpc mcnt]. apply Nat.add_lt_mono_l.
    apply (sum_lt _ _ 0 n a).
    + intros k _. unfold st; cbn [gs]. rewrite !nth_upd, upd_length.
      destruct (Nat.eqb_spec k b) as [->|].
      * replace (b <? length (gs p)) with true by (symmetry; apply Nat.ltb_lt; exact Hb').
        rewrite (nth_error_nth _ _ _ H1). cbn. lia.
      * destruct (Nat.eqb_spec k a) as [->|]; [|lia].
        replace (a <? length (gs p)) with true by (symmetry; apply Nat.ltb_lt; exact Ha).
        rewrite (nth_error_nth _ _ _ H0). cbn. lia.
    + rewrite HL in Ha. lia.
    + unfold st; cbn [gs]. rewrite !nth_upd, upd_length.
      destruct (Nat.eqb_spec a b) as [->|]; [contradiction|]. rewrite Nat.eqb_refl.
      replace (a <? length (gs p)) with true by (symmetry; apply Nat.ltb_lt; exact Ha).
      rewrite (nth_error_nth _ _ _ H0). cbn. lia.
Qed.

Theorem measure_decreases s a s' : R n fs s -> step P fs s a = Some s' -> measure n fs s' < measure n fs s.
Proof.
  intros Hr Hs. destruct (reach_canon n fs Hfs s Hr) as (p & -> & C).
  destruct (step_complete n fs Hfs p a s' (cond_wf n fs Hfs p C) (proj1 C) Hs) as (p' & T & ->).
  pose proof (cond_step n fs Hfs p a p' C T) as C'.
  rewrite !measure_mk.
  - apply (ameasure_step p a p' C T).
  - destruct C as (_ & HL & _). rewrite HL. apply Nat.le_min_r.
  - destruct C' as (_ & HL & _). rewrite HL. apply Nat.le_min_r.
Qed.

(* no execution is longer than the initial measure *)
Theorem bounded_executions s l s' : R n fs s -> exec P fs s l s' -> length l + measure n fs s' <= measure n fs s.
Proof.
  intros Hr He. induction He as [s|s a s1 l s2 Hs He IH]; [cbn; lia|].
  pose proof (measure_decreases s a s1 Hr Hs). specialize (IH (reachS P fs s a s1 Hr Hs)). cbn [length]. lia.
Qed.

(* ---------- deadlock freedom ---------- *)
Definition pr (g : nat) (x : gst) : list uop :=
  match x with GNew => script (fn g) | GRun r => r | _ => [] end.
Definition proj (p : params) : uconf := map (fun g => pr g (st p g)) (seq 0 n).
Definition UC (p : params) : Prop := ureach (map script fs) (proj p).

Lemma proj_p0 : proj p0 = map script fs.
Proof.
  unfold proj, st, p0; cbn [gs]. rewrite <- (map_nth_seq script fs fdflt), Hfs.
  apply map_ext. intros g. destruct g; reflexivity.
Qed.

Lemma proj_same p p' : (forall g, g < n -> pr g (st p' g) = pr g (st p g)) -> proj p' = proj p.
Proof. intros H. apply map_ext_in. intros g Hg. apply in_seq in Hg. apply H. lia. Qed.

Lemma proj_nth p g : g < n -> nth_error (proj p) g = Some (pr g (st p g)).
Proof. intros H. unfold proj. apply (nth_error_map_seq (fun g => pr g (st p g))). exact H. Qed.

Lemma uc_step p a p' : Cond p -> UC p -> trans p a p' -> UC p'.
Proof.
  intros C U T. destruct C as (Hb & HL & _).
  destruct T; unfold UC in *; try exact U.
  - (* spawn *)
    rewrite (proj_same p); [exact U|]. intros g Hg. unfold st, p_spawn; cbn [gs].
    destruct (Nat.lt_ge_cases g (length (gs p))).
    + rewrite app_nth1 by lia. reflexivity.
    + rewrite app_nth2 by lia. rewrite (nth_overflow (gs p)) by lia.
      destruct (g - length (gs p)) as [|[|k]]; reflexivity.
  - rewrite (proj_same p); [exact U|]. intros c Hc. rewrite st_upd.
    destruct (Nat.eqb_spec c g) as [->|]; [|reflexivity].
    replace (g <? length (gs p)) with true by (symmetry; apply Nat.ltb_lt; apply nth_error_Some; congruence).
    rewrite (st_of p g _ H). reflexivity.
  - rewrite (proj_same p); [exact U|]. intros c Hc. rewrite st_upd.
    destruct (Nat.eqb_spec c g) as [->|]; [|reflexivity].
    replace (g <? length (gs p)) with true by (symmetry; apply Nat.ltb_lt; apply nth_error_Some; congruence).
    rewrite (st_of p g _ H). reflexivity.
  - rewrite (proj_same p); [exact U|]. intros c Hc. unfold st, p_recv; cbn [gs]. rewrite nth_upd.
    destruct (Nat.eqb_spec c g) as [->|]; [|reflexivity].
    replace (g <? length (gs p)) with true by (symmetry; apply Nat.ltb_lt; apply nth_error_Some; congruence).
    rewrite (nth_error_nth _ _ _ H). reflexivity.
  - (* user rendezvous: one step of the user system *)
    assert (Ha : a < length (gs p)) by (apply nth_error_Some; congruence).
    assert (Hb' : b < length (gs p)) by (apply nth_error_Some; congruence).
    assert (Han : a < n) by (rewrite HL in Ha; lia). assert (Hbn : b < n) by (rewrite HL in Hb'; lia).
    apply (urS _ (proj p) a b); [exact U|]. unfold ustep.
    replace (a =? b) with false by (symmetry; apply Nat.eqb_neq; exact H).
    rewrite !proj_nth by assumption. rewrite (st_of p a _ H0), (st_of p b _ H1). cbn [pr].
    rewrite Nat.eqb_refl. f_equal. unfold proj. rewrite !upd_map_seq. apply map_ext_in. intros k Hk.
    unfold st, p_user; cbn [gs]. rewrite !nth_upd, upd_length.
    destruct (Nat.eqb_spec k b) as [->|].
    + replace (b <? length (gs p)) with true by (symmetry; apply Nat.ltb_lt; exact Hb'). reflexivity.
    + destruct (Nat.eqb_spec k a) as [->|]; [|reflexivity].
      replace (a <? length (gs p)) with true by (symmetry; apply Nat.ltb_lt; exact Ha). reflexivity.
Qed.

Lemma table_cases (l : list gst) :
  (exists g x, nth_error l g = Some x /\ (x = GNew \/ x = GRun [] \/ x = GReady)) \/
  (forall g x, nth_error l g = Some x -> x = GDone \/ exists o r, x = GRun (o :: r)).
Proof.
  induction l as [|y l IH].
  - right. intros [|g] x H; discriminate.
  - destruct IH as [(g & x & H & D)|IH]; [left; exists (S g), x; split; assumption|].
    destruct y as [|[|o r]| |].
    + left. exists 0, GNew. split; [reflexivity|tauto].
    + left. exists 0, (GRun []). split; [reflexivity|tauto].
    + right. intros [|g] x H; cbn in H; [inversion H; right; eauto | apply IH with g; exact H].
    + left. exists 0, GReady. split; [reflexivity|tauto].
    + right. intros [|g] x H; cbn in H; [inversion H; left; reflexivity | apply IH with g; exact H].
Qed.

Lemma progress p : coop fs -> Cond p -> UC p -> mret p = true \/ exists a p', trans p a p'.
Proof.
  intros Hco C U. pose proof C as (Hb & HL & Hret & Hnd & HE & (F1 & F2 & F3 & F4 & F5)).
  destruct (Nat.lt_ge_cases (mpc p) n) as [Hlt|Hge].
  { right. eexists _, _. apply t_spawn. exact Hlt. }
  assert (E : mpc p = n + (mpc p - n)) by lia. remember (mpc p - n) as j eqn:Ej. clear Ej.
  destruct j as [|[|[|[|[|[|[|j]]]]]]].
  - right. eexists _, _. apply t_head. lia.
  - (* the caller waits for an error *)
    right. assert (HLn : length (gs p) = n) by (rewrite HL; apply Nat.min_r; lia).
    assert (Hp2 : mpc p <= n + 1 \/ n + 6 <= mpc p) by lia. destruct (F2 Hp2) as [Hlen _].
    specialize (F3 E).
    destruct (table_cases (gs p)) as [(g & x & Hx & [ -> | [ -> | -> ] ])|Hall].
    + eexists _, _. apply t_begin. exact Hx.
    + eexists _, _. apply t_write. exact Hx.
    + eexists _, _. apply t_recv; [exact Hx|exact E].
    + destruct (Hco (proj p) U) as [Hnil|(a & b & cf' & Hu)].
      * exfalso.
        assert (Hd : forall g, g < n -> In g (rcv p)).
        { intros g Hg. apply HE. split; [lia|].
          destruct (nth_error (gs p) g) as [x|] eqn:Ex; [|apply nth_error_None in Ex; lia].
          rewrite (st_of p g x Ex). destruct (Hall g x Ex) as [->|(o & r & ->)]; [reflexivity|].
          assert (Hin : In (pr g (st p g)) (proj p)).
          { unfold proj. apply (in_map (fun g => pr g (st p g))). apply in_seq. lia. }
          rewrite (st_of p g _ Ex) in Hin. apply Hnil in Hin. discriminate. }
        assert (n <= length (rcv p)).
        { rewrite <- (seq_length n 0). apply NoDup_incl_length; [apply seq_NoDup|].
          intros g Hg. apply in_seq in Hg. apply Hd. lia. }
        lia.
      * unfold ustep in Hu. destruct (Nat.eqb_spec a b) as [|Hab]; [discriminate|].
        destruct (nth_error (proj p) a) as [[|[c|c] ra]|] eqn:Ea; try discriminate.
        destruct (nth_error (proj p) b) as [[|[c'|c'] rb]|] eqn:Eb; try discriminate.
        destruct (Nat.eqb_spec c c') as [<-|]; [|discriminate].
        assert (Han : a < n).
        { assert (a < length (proj p)) by (apply nth_error_Some; congruence).
          unfold proj in H. rewrite map_length, seq_length in H. exact H. }
        assert (Hbn : b < n).
        { assert (b < length (proj p)) by (apply nth_error_Some; congruence).
          unfold proj in H. rewrite map_length, seq_length in H. exact H. }
        rewrite proj_nth in Ea, Eb by assumption. inversion Ea as [Ea']. inversion Eb as [Eb'].
        destruct (nth_error (gs p) a) as [x|] eqn:Ex; [|apply nth_error_None in Ex; lia].
        destruct (nth_error (gs p) b) as [y|] eqn:Ey; [|apply nth_error_None in Ey; lia].
        rewrite (st_of p a x Ex) in Ea'. rewrite (st_of p b y Ey) in Eb'.
        destruct (Hall a x Ex) as [->|(o & r & ->)]; [discriminate|].
        destruct (Hall b y Ey) as [->|(o' & r' & ->)]; [discriminate|].
        cbn [pr] in Ea', Eb'. rewrite Ea' in Ex. rewrite Eb' in Ey.
        eexists _, _. eapply t_user; eassumption.
  - right. eexists _, _. apply t_ifnil. lia.
  - right. eexists _, _. apply t_ifset. lia.
  - right. eexists _, _. apply t_seterr. lia.
  - right. eexists _, _. apply t_next. lia.
  - right. eexists _, _. apply t_ret. lia.
  - left. apply Hret. lia.
Qed.

Lemma reach_uc s : R n fs s -> exists p, s = mk p /\ Cond p /\ UC p.
Proof.
  induction 1 as [|s a s' Hr IH Hs].
  - exists p0. split; [symmetry; apply mk_p0 | split; [apply cond_p0; exact Hfs|]].
    unfold UC. rewrite proj_p0. apply ur0.
  - destruct IH as (p & -> & C & U).
    destruct (step_complete n fs Hfs p a s' (cond_wf n fs Hfs p C) (proj1 C) Hs) as (p' & T & ->).
    exists p'. split; [reflexivity|]. split; [eapply cond_step; eassumption | eapply uc_step; eassumption].
Qed.

(* Under every schedule: either the caller has returned (and then nothing is left running or
   blocked), or some step is possible.  Together with [measure_decreases] every maximal execution
   is finite and ends with the caller returned. *)
Theorem deadlock_free s : coop fs -> R n fs s ->
  (main_ret s <> None /\ all_halted P s = true) \/ exists a s', step P fs s a = Some s'.
Proof.
  intros Hco Hr. destruct (reach_uc s Hr) as (p & Es & C & U).
  destruct (progress p Hco C U) as [Hm|(a & p' & T)].
  - left. assert (Hne : main_ret s <> None) by (rewrite Es, main_ret_mk, Hm; discriminate).
    split; [exact Hne|]. apply (no_leak n fs Hfs s Hr Hne).
  - right. exists a, (mk p'). rewrite Es. apply (trans_sound n fs Hfs); [apply (cond_wf n fs Hfs); assumption | exact T].
Qed.

End PROGRESS.
