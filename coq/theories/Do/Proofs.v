From Verif Require Import Base Do.Sem.
Lemma expected_main_length n : length (main (expected n)) = n + 7.
Proof. unfold expected; cbn [main]. rewrite app_length, map_length, seq_length. reflexivity. Qed.
