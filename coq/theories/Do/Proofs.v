(* Do/Proofs.v — invariants of deriveDo for every number of functions, every family of user
   functions and every interleaving.  Reasoning is on the abstract transition system [trans]
   of Do/Canon.v, which is exactly the step relation on canonical states. *)
From Verif Require Import Base Do.Sem Do.Canon.
From Coq Require Import Permutation.

Local Arguments Nat.ltb : simpl never.
Local Arguments Nat.eqb : simpl never.

Lemma first_err_app fs d g :
  first_err fs (d ++ [g]) = match first_err fs d with Some e => Some e | None => re (nth g fs fdflt) end.
Proof.
  induction d as [|x d IH]; cbn.
  - destruct (re (nth g fs fdflt)); reflexivity.
  - destruct (re (nth x fs fdflt)); [reflexivity|exact IH].
Qed.

Lemma first_err_in fs l e : first_err fs l = Some e -> exists g, In g l /\ re (nth g fs fdflt) = Some e.
Proof.
  induction l as [|x l IH]; cbn; [discriminate|].
  destruct (re (nth x fs fdflt)) eqn:E.
  - intros H; inversion H; subst. exists x; split; [left; reflexivity|exact E].
  - intros H. destruct (IH H) as (g & Hi & Hg). exists g; split; [right; exact Hi|exact Hg].
Qed.

Lemma first_err_none fs l : first_err fs l = None -> forall g, In g l -> re (nth g fs fdflt) = None.
Proof.
  induction l as [|x l IH]; cbn; [intros _ g []|].
  destruct (re (nth x fs fdflt)) eqn:E; [discriminate|].
  intros H g [<-|Hi]; [exact E|apply IH; assumption].
Qed.

Lemma bounded_nodup_length (l : list nat) n : NoDup l -> (forall g, In g l -> g < n) -> length l <= n.
Proof.
  intros Hn Hb. rewrite <- (seq_length n 0). apply NoDup_incl_length; [exact Hn|].
  intros g Hg. apply in_seq. specialize (Hb g Hg). lia.
Qed.

Lemma bounded_nodup_full (l : list nat) n : NoDup l -> (forall g, In g l -> g < n) -> length l = n ->
  forall g, g < n -> In g l.
Proof.
  intros Hn Hb Hl g Hg.
  assert (I : incl (seq 0 n) l).
  { apply NoDup_length_incl; [exact Hn | rewrite seq_length; lia |].
    intros x Hx. apply in_seq. specialize (Hb x Hx). lia. }
  apply I. apply in_seq. lia.
Qed.

Lemma nodup_snoc (l : list nat) g : NoDup l -> ~ In g l -> NoDup (l ++ [g]).
Proof.
  induction l as [|x l IH]; cbn; intros Hn Hi.
  - constructor; [intros []|constructor].
  - inversion Hn; subst. constructor.
    + rewrite in_app_iff; cbn. intros [H|[H|[]]]; [contradiction|]. apply Hi. left. symmetry. exact H.
    + apply IH; [assumption|]. intros H. apply Hi. right. exact H.
Qed.

Section PROOFS.
Variable n : nat.
Variable fs : list ufun.
Hypothesis Hfs : length fs = n.

Notation fn := (fn fs).
Notation trans := (trans n fs).
Notation mk := (mk n fs).
Notation P := (Canon.P n).

Definition LoopC (p : params) : Prop :=
  (mpc p < n -> rcv p = [] /\ mcnt p = 0 /\ merr p = None) /\
  (mpc p <= n + 1 \/ n + 6 <= mpc p -> length (rcv p) = mcnt p /\ merr p = first_err fs (rcv p)) /\
  (mpc p = n + 1 -> mcnt p < n) /\
  (n + 6 <= mpc p -> mcnt p = n) /\
  (n + 2 <= mpc p <= n + 5 -> exists d g, rcv p = d ++ [g] /\ length d = mcnt p /\ mcnt p < n /\
     (mpc p <= n + 4 -> merrc p = re (fn g) /\ merr p = first_err fs d) /\
     (mpc p = n + 3 -> merrc p <> None) /\
     (mpc p = n + 4 -> merrc p <> None /\ merr p = None) /\
     (mpc p = n + 5 -> merr p = first_err fs (rcv p))).

Definition Cond (p : params) : Prop :=
  mpc p <= n + 7 /\
  length (gs p) = Nat.min (mpc p) n /\
  (mret p = true <-> mpc p = n + 7) /\
  NoDup (rcv p) /\
  (forall g, In g (rcv p) <-> (g < length (gs p) /\ st p g = GDone)) /\
  LoopC p.

Lemma cond_p0 : Cond p0.
Proof.
  unfold Cond, LoopC, p0, st; cbn. repeat split; intros; try lia; try discriminate; try constructor;
    try contradiction; try (destruct H; lia).
Qed.

Lemma cond_rcv_bound p : Cond p -> forall g, In g (rcv p) -> g < n.
Proof.
  intros (_ & HL & _ & _ & HE & _) g Hg. apply HE in Hg. destruct Hg. lia.
Qed.

Lemma cond_all_done p : Cond p -> n + 6 <= mpc p -> forall g, g < n -> st p g = GDone /\ In g (rcv p).
Proof.
  intros C Hpc g Hg. pose proof (cond_rcv_bound p C) as Hb.
  destruct C as (_ & HL & _ & Hnd & HE & (_ & F2 & _ & F4 & _)).
  destruct (F2 (or_intror Hpc)) as [Hlen _]. specialize (F4 Hpc).
  assert (Hin : In g (rcv p)) by (apply (bounded_nodup_full _ n); try assumption; lia).
  split; [apply HE in Hin; tauto | exact Hin].
Qed.

Lemma cond_wf p : Cond p -> Wf n p.
Proof.
  intros C. pose proof (cond_all_done p C) as Hall.
  destruct C as (Hb & HL & [Hr1 Hr2] & Hnd & HE & (F1 & _)).
  unfold Wf. repeat split; try assumption.
  - intros Hr g Hg. apply Hall; [specialize (Hr1 Hr); lia | exact Hg].
  - intros Hlt. apply F1. exact Hlt.
  - apply Hall; [lia|assumption].
  - apply Hall; [lia|assumption].
Qed.

(* Done-ness of the goroutine table is unchanged by an update between non-Done states *)
Lemma done_upd (l : list gst) g x x0 :
  nth_error l g = Some x0 -> x0 <> GDone -> x <> GDone ->
  forall k, (k < length (upd l g x) /\ nth k (upd l g x) GNew = GDone) <-> (k < length l /\ nth k l GNew = GDone).
Proof.
  intros H H0 Hx k. rewrite upd_length, nth_upd.
  assert (Hg : g < length l) by (apply nth_error_Some; congruence).
  destruct (Nat.eqb_spec k g) as [->|]; [|tauto].
  replace (g <? length l) with true by (symmetry; apply Nat.ltb_lt; exact Hg).
  rewrite (nth_error_nth _ _ _ H). split; intros [_ E]; contradiction.
Qed.

Ltac loop_same F := (* the caller's part is untouched *)
  exact F.

Ltac split10 := split; [|split; [|split; [|split; [|split; [|split; [|split; [|split; [|split]]]]]]]].
Ltac lenfix HL := rewrite ?app_length, ?upd_length, HL; cbn [length];
  repeat (first [rewrite Nat.min_l by lia | rewrite Nat.min_r by lia]); lia.
Ltac retiff Hret := let R := fresh in let Hx := fresh in
  destruct Hret as [R _]; split; intro Hx; [specialize (R Hx); lia | exfalso; lia].

Lemma cond_step p a p' : Cond p -> trans p a p' -> Cond p'.
Proof.
  intros C T. pose proof (cond_rcv_bound p C) as Hbound.
  destruct C as (Hb & HL & Hret & Hnd & HE & F).
  pose proof F as (F1 & F2 & F3 & F4 & F5).
  destruct T; unfold Cond, LoopC, with_pc, with_main, with_g, p_spawn, p_recv, p_user, p_ret, st in *;
    cbn [mpc mcnt merrc merr mret rcv gs lg] in *.
  - (* spawn *)
    destruct (F1 H) as (Er & Ec & Ee). rewrite Er in *. split10.
    + lia.
    + lenfix HL.
    + retiff Hret.
    + constructor.
    + intros g. split; [intros []|]. intros [Hlt Hd]. exfalso. rewrite app_length in Hlt; cbn in Hlt.
      destruct (Nat.eq_dec g (length (gs p))) as [->|].
      * rewrite app_nth2 in Hd by lia. rewrite Nat.sub_diag in Hd. discriminate.
      * rewrite app_nth1 in Hd by lia. apply (proj2 (HE g)). split; [lia|exact Hd].
    + intros _. auto.
    + intros _. rewrite Ec, Ee. split; reflexivity.
    + lia.
    + lia.
    + lia.
  - (* loop head *)
    assert (Hp2 : mpc p <= n + 1 \/ n + 6 <= mpc p) by lia. destruct (F2 Hp2) as [Hlen Herr].
    assert (Hle : length (rcv p) <= n) by (apply bounded_nodup_length; assumption).
    destruct (Nat.ltb_spec (mcnt p) n); split10; try assumption; try lia; try (retiff Hret); try (lenfix HL);
      try (intros _; split; assumption).
  - (* if errc != nil *)
    assert (Hp5 : n + 2 <= mpc p <= n + 5) by lia. destruct (F5 Hp5) as (d & g & Er & Hl & Hc & G1 & G2 & G3 & G4).
    assert (Hp4 : mpc p <= n + 4) by lia. destruct (G1 Hp4) as [Eerrc Eerr].
    destruct (merrc p) eqn:Em; split10; try assumption; try lia; try (retiff Hret); try (lenfix HL).
    + intros _. exists d, g. repeat split; intros; try lia; try assumption; try congruence.
    + intros _. exists d, g. repeat split; intros; try lia; try assumption; try congruence.
      rewrite Er, first_err_app. fold (fn g). rewrite <- Eerrc, <- Eerr. destruct (merr p); reflexivity.
  - (* if err == nil *)
    assert (Hp5 : n + 2 <= mpc p <= n + 5) by lia. destruct (F5 Hp5) as (d & g & Er & Hl & Hc & G1 & G2 & G3 & G4).
    assert (Hp4 : mpc p <= n + 4) by lia. destruct (G1 Hp4) as [Eerrc Eerr]. specialize (G2 H).
    destruct (merr p) eqn:Em; split10; try assumption; try lia; try (retiff Hret); try (lenfix HL).
    + intros _. exists d, g. repeat split; intros; try lia; try assumption; try congruence.
      rewrite Er, first_err_app, <- Eerr. reflexivity.
    + intros _. exists d, g. repeat split; intros; try lia; try assumption; try congruence.
  - (* err = errc *)
    assert (Hp5 : n + 2 <= mpc p <= n + 5) by lia. destruct (F5 Hp5) as (d & g & Er & Hl & Hc & G1 & G2 & G3 & G4).
    assert (Hp4 : mpc p <= n + 4) by lia. destruct (G1 Hp4) as [Eerrc Eerr]. destruct (G3 H) as [Hne Hnone].
    split10; try assumption; try lia; try (retiff Hret); try (lenfix HL).
    intros _. exists d, g. repeat split; intros; try lia; try assumption; try congruence.
    rewrite Er, first_err_app, <- Eerr, Hnone. fold (fn g). congruence.
  - (* i++ *)
    assert (Hp5 : n + 2 <= mpc p <= n + 5) by lia. destruct (F5 Hp5) as (d & g & Er & Hl & Hc & G1 & G2 & G3 & G4).
    specialize (G4 H).
    split10; try assumption; try lia; try (retiff Hret); try (lenfix HL).
    intros _. split; [|assumption]. rewrite Er, app_length; cbn. lia.
  - (* return *)
    assert (Hp2 : mpc p <= n + 1 \/ n + 6 <= mpc p) by lia. destruct (F2 Hp2) as [Hlen Herr]. assert (Hp6 : n + 6 <= mpc p) by lia. specialize (F4 Hp6).
    split10; try assumption; try lia; try (lenfix HL).
    intros _. split; assumption.
  - (* call starts *)
    pose proof (done_upd (gs p) g (GRun (script (fn g))) GNew H ltac:(discriminate) ltac:(discriminate)) as D.
    split10; try assumption; try (rewrite upd_length; assumption).
    intros k. rewrite D. apply HE.
  - (* call returns, result stored *)
    pose proof (done_upd (gs p) g GReady (GRun []) H ltac:(discriminate) ltac:(discriminate)) as D.
    split10; try assumption; try (rewrite upd_length; assumption).
    intros k. rewrite D. apply HE.
  - (* the caller receives the error of g *)
    assert (Hp2 : mpc p <= n + 1 \/ n + 6 <= mpc p) by lia. destruct (F2 Hp2) as [Hlen Herr]. specialize (F3 H0).
    assert (Hg : g < length (gs p)) by (apply nth_error_Some; congruence).
    assert (Hnot : ~ In g (rcv p)).
    { intros Hi. apply HE in Hi. destruct Hi as [_ Hd]. rewrite (nth_error_nth _ _ _ H) in Hd. discriminate. }
    split10; try lia; try (retiff Hret); try (lenfix HL).
    + apply nodup_snoc; assumption.
    + intros k. rewrite upd_length, nth_upd. split.
      * intros Hi. apply in_app_or in Hi. destruct (Nat.eqb_spec k g) as [->|Hne].
        -- replace (g <? length (gs p)) with true by (symmetry; apply Nat.ltb_lt; exact Hg). split; [exact Hg|reflexivity].
        -- destruct Hi as [Hi|[<-|[]]]; [apply HE in Hi; exact Hi | congruence].
      * intros [Hlt Hd]. apply in_or_app.
        destruct (Nat.eqb_spec k g) as [->|Hne]; [right; left; reflexivity|].
        left. apply HE. split; assumption.
    + intros _. exists (rcv p), g. repeat split; intros; try lia; try assumption.
  - (* two user functions rendezvous *)
    pose proof (done_upd (gs p) a (GRun ra) _ H0 ltac:(discriminate) ltac:(discriminate)) as Da.
    assert (H1' : nth_error (upd (gs p) a (GRun ra)) b = Some (GRun (URecv c :: rb))).
    { rewrite <- H1. clear -H. revert a b H. induction (gs p) as [|x l IH]; intros [|a] [|b] Hab; cbn; try reflexivity; try congruence.
      apply IH. congruence. }
    pose proof (done_upd (upd (gs p) a (GRun ra)) b (GRun rb) _ H1' ltac:(discriminate) ltac:(discriminate)) as Db.
    split10; try assumption; try (rewrite !upd_length; assumption).
    intros k. rewrite Db, Da. apply HE.
Qed.

(* ---------- every reachable state is canonical ---------- *)
Definition R (s : state) : Prop := reach P fs s.

Lemma reach_canon s : R s -> exists p, s = mk p /\ Cond p.
Proof.
  induction 1 as [|s a s' Hr IH Hs].
  - exists p0. split; [symmetry; apply mk_p0 | apply cond_p0].
  - destruct IH as (p & -> & C).
    destruct (step_complete n fs Hfs p a s' (cond_wf p C) (proj1 C) Hs) as (p' & T & ->).
    exists p'. split; [reflexivity | eapply cond_step; eassumption].
Qed.

Lemma main_ret_mk p : main_ret (mk p) = if mret p then Some (map rv fs, merr p) else None.
Proof. reflexivity. Qed.

Lemma all_in_fs (Q : ufun -> Prop) : (forall g, g < n -> Q (fn g)) <-> (forall f, In f fs -> Q f).
Proof.
  split.
  - intros H f Hi. destruct (In_nth _ _ fdflt Hi) as (g & Hg & <-). apply H. lia.
  - intros H g Hg. apply H. apply nth_In. lia.
Qed.

(* the caller has returned: what is known *)
Lemma returned_facts p : Cond p -> mret p = true ->
  mpc p = n + 7 /\ length (rcv p) = n /\ merr p = first_err fs (rcv p) /\
  (forall g, g < n -> st p g = GDone /\ In g (rcv p)) /\ Permutation (rcv p) (seq 0 n).
Proof.
  intros C Hr. pose proof (cond_all_done p C) as Hall. pose proof (cond_rcv_bound p C) as Hbd.
  destruct C as (Hb & HL & [Hr1 _] & Hnd & HE & (_ & F2 & _ & F4 & _)).
  specialize (Hr1 Hr). assert (Hp : mpc p <= n + 1 \/ n + 6 <= mpc p) by lia.
  destruct (F2 Hp) as [Hlen Herr]. assert (Hp6 : n + 6 <= mpc p) by lia. specialize (F4 Hp6).
  repeat split; try assumption; try lia; try (apply Hall; assumption || lia).
  apply NoDup_Permutation; [assumption | apply seq_NoDup |].
  intros g. rewrite in_seq. split; [intros Hi; specialize (Hbd g Hi); lia|].
  intros Hg. apply Hall; lia.
Qed.

Theorem results_in_position s vs e : R s -> main_ret s = Some (vs, e) -> vs = map rv fs.
Proof.
  intros Hr Hm. destruct (reach_canon s Hr) as (p & -> & C). rewrite main_ret_mk in Hm.
  destruct (mret p); inversion Hm. reflexivity.
Qed.

Theorem error_iff s vs e : R s -> main_ret s = Some (vs, e) ->
  exists order, Permutation order (seq 0 n) /\ e = first_err fs order /\
    (e = None <-> forall f, In f fs -> re f = None) /\
    (forall x, e = Some x -> exists f, In f fs /\ re f = Some x).
Proof.
  intros Hr Hm. destruct (reach_canon s Hr) as (p & -> & C). rewrite main_ret_mk in Hm.
  destruct (mret p) eqn:Er; inversion Hm; subst. clear Hm.
  destruct (returned_facts p C Er) as (_ & Hlen & Herr & Hall & Hperm).
  exists (rcv p). repeat split; try assumption.
  - intros Hn. apply (all_in_fs (fun f => re f = None)). intros g Hg.
    apply (first_err_none fs (rcv p)); [congruence | apply Hall; exact Hg].
  - intros Hn. rewrite Herr. destruct (first_err fs (rcv p)) as [x|] eqn:Em; [|reflexivity]. exfalso.
    destruct (first_err_in _ _ _ Em) as (g & Hi & Hg).
    assert (g < n) by (eapply cond_rcv_bound; eassumption).
    rewrite (Hn (nth g fs fdflt)) in Hg; [discriminate | apply nth_In; lia].
  - intros x Hx. rewrite Herr in Hx. destruct (first_err_in _ _ _ Hx) as (g & Hi & Hg).
    exists (nth g fs fdflt). split; [apply nth_In|exact Hg].
    assert (g < n) by (eapply cond_rcv_bound; eassumption). lia.
Qed.

Lemma halted_g g x : g < n -> halted P (gthread fs g x) = match x with GDone => true | _ => false end.
Proof. intros H. unfold halted. rewrite cur_g by exact H. destruct x as [|r| |]; reflexivity. Qed.

Theorem no_leak s : R s -> main_ret s <> None ->
  all_halted P s = true /\ buf s = [] /\ forall a, step P fs s a = None.
Proof.
  intros Hr Hm. destruct (reach_canon s Hr) as (p & -> & C). rewrite main_ret_mk in Hm.
  destruct (mret p) eqn:Er; [clear Hm|congruence].
  destruct (returned_facts p C Er) as (Hpc & Hlen & Herr & Hall & Hperm).
  assert (HL : length (gs p) = n) by (destruct C as (_ & HL & _); rewrite HL; apply Nat.min_r; lia).
  assert (Hh : all_halted P (mk p) = true).
  { unfold all_halted. cbn [Canon.mk thr forallb]. apply andb_true_iff. split.
    - unfold halted. rewrite cur_main. replace (mpc p <? n) with false by (symmetry; apply Nat.ltb_ge; lia).
      replace (mpc p - n) with 7 by lia. reflexivity.
    - apply forallb_forall. intros t Ht. destruct (In_nth_error _ _ Ht) as (g & Hg).
      rewrite mapi_from_nth in Hg. destruct (nth_error (gs p) g) as [x|] eqn:Ex; [|discriminate].
      cbn in Hg. inversion Hg; subst t. assert (g < n).
      { rewrite <- HL. apply nth_error_Some. congruence. }
      rewrite halted_g by assumption. destruct (Hall g H) as [Hd _]. rewrite (st_of p g x Ex) in Hd. subst x. reflexivity. }
  split; [exact Hh|]. split; [reflexivity|].
  intros a. destruct (step P fs (mk p) a) as [s'|] eqn:Es; [exfalso|reflexivity].
  destruct (step_complete n fs Hfs p a s' (cond_wf p C) (proj1 C) Es) as (p' & T & _).
  inversion T; subst; try lia.
  - destruct (Hall g (gs_lt n fs Hfs p g _ (cond_wf p C) H)) as [Hd _]. rewrite (st_of p g _ H) in Hd. discriminate.
  - destruct (Hall g (gs_lt n fs Hfs p g _ (cond_wf p C) H)) as [Hd _]. rewrite (st_of p g _ H) in Hd. discriminate.
  - destruct (Hall a0 (gs_lt n fs Hfs p a0 _ (cond_wf p C) H0)) as [Hd _]. rewrite (st_of p a0 _ H0) in Hd. discriminate.
Qed.

Theorem race_free s : R s -> racy s = false /\
  (forall vs e, main_ret s = Some (vs, e) ->
     exists t, nth_error (thr s) 0 = Some t /\
       forall c, c < n -> cws (nth c (cells s) zero_cell) = [(S c, 0)] /\ seen_in (seen t) (S c, 0) = true).
Proof.
  intros Hr. destruct (reach_canon s Hr) as (p & -> & C). split; [reflexivity|].
  intros vs e Hm. rewrite main_ret_mk in Hm. destruct (mret p) eqn:Er; [clear Hm|discriminate].
  destruct (returned_facts p C Er) as (Hpc & Hlen & Herr & Hall & Hperm).
  exists (mthread fs p). split; [reflexivity|]. intros c Hc. destruct (Hall c Hc) as [Hd Hi]. split.
  - cbn [Canon.mk cells]. rewrite nth_map_seq by exact Hc. unfold cell_of. rewrite Hd. reflexivity.
  - cbn [mthread seen]. unfold seen_in. apply existsb_exists. exists (wid c). split.
    + apply in_or_app. left. apply in_map. exact Hi.
    + unfold aid_eqb, wid; cbn. rewrite !Nat.eqb_refl. reflexivity.
Qed.

End PROOFS.
