(* Do/Sem.v — executable small-step interleaving semantics for the goroutine programs that
   goderive's `do` plugin emits (deriveDo), plus what realistic variants of it need.

   A program ([prog]) is: the capacity of the error channel, the number of shared result
   cells (the `var vI T` of the caller), a table of goroutine bodies and the caller's code.
   Code is a flat control-flow list of [instr].  The user functions f_i are themselves
   small threads: a script of rendezvous operations on unbuffered user channels, then a
   return value and an error tag ([ufun]).

   The semantics records
     - an event log (newest first),
     - a happens-before approximation: every memory access has an identifier
       (thread, per-thread access number); every thread carries the set [seen] of accesses
       that happen before its current point (program order, go-statement edge, channel
       send -> receive edge); an access that conflicts with an earlier access it has not
       [seen] sets the flag [racy].  Only edges the Go memory model guarantees are added
       (the receive -> send-completion edge of unbuffered channels is left out), so
       [racy = false] is race freedom under a subset of Go's happens-before. *)
From Verif Require Import Base.

Definition val := nat.
Definition errv := option nat.          (* None = nil error, Some tag = that error value *)
Definition aid := (nat * nat)%type.     (* access id: (thread index, access number of that thread) *)

Inductive uop := USend (c : nat) | URecv (c : nat).
Record ufun := { script : list uop; rv : val; re : errv }.

Inductive instr :=
| IGo (b : nat)                 (* go func(){ bodies[b] }() *)
| ICall (fn cell : nat)         (* v_cell, verr = f_fn() *)
| ISend                         (* errChan <- verr *)
| ILoop (bound exit : nat)      (* for ; i < bound ; : fall through, else goto exit *)
| IRecv                         (* errc := <-errChan *)
| IIfErrcNil (target : nat)     (* if errc != nil { fall through } else goto target *)
| IIfErrSet (target : nat)      (* if err == nil { fall through } else goto target *)
| ISetErr                       (* err = errc *)
| INext (head : nat)            (* i++ ; goto head *)
| IRet (cs : list nat).         (* return v_cs..., err *)

Record prog := { ccap : nat; ncells : nat; bodies : list (list instr); main : list instr }.

Record thread := {
  bid : nat;                    (* 0 = the caller (main code), S b = goroutine running bodies[b] *)
  pc : nat;
  scr : option (list uop);      (* Some r: inside a user function, r still to do *)
  ferr : errv;                  (* the goroutine's local `vIerr` *)
  cnt : nat;                    (* loop counter i *)
  errc : errv;
  err : errv;
  seen : list aid;
  nacc : nat;
  ret : option (list val * errv) }.

Record cell := { cval : val; cws : list aid; crs : list aid }.
Record msg := { mval : errv; mfrom : nat; mseen : list aid }.

Inductive event :=
| EvSpawn (parent child : nat)
| EvCall (t fn : nat)
| EvWrite (t c : nat) (v : val)
| EvUser (s r c : nat)
| EvSend (t : nat) (e : errv)                 (* buffered send *)
| EvRecv (t from : nat) (e : errv)
| EvRet (t : nat) (cs : list nat) (vs : list val) (e : errv).

Record state := { thr : list thread; cells : list cell; buf : list msg; log : list event; racy : bool }.

Inductive action := Tau (t : nat) | Sync (s r : nat).

Fixpoint upd {A} (l : list A) (n : nat) (a : A) : list A :=
  match l, n with
  | [], _ => []
  | _ :: t, O => a :: t
  | h :: t, S n => h :: upd t n a
  end.

Fixpoint mapi_from {A B} (i : nat) (f : nat -> A -> B) (l : list A) : list B :=
  match l with
  | [] => []
  | a :: t => f i a :: mapi_from (S i) f t
  end.

Definition aid_eqb (a b : aid) : bool := (fst a =? fst b) && (snd a =? snd b).
Definition seen_in (sn : list aid) (a : aid) : bool := existsb (aid_eqb a) sn.
(* some access in [l] is not ordered before the current point *)
Definition unseen (sn : list aid) (l : list aid) : bool := existsb (fun a => negb (seen_in sn a)) l.

Definition new_thread (b : nat) (sn : list aid) : thread :=
  {| bid := S b; pc := 0; scr := None; ferr := None; cnt := 0; errc := None; err := None;
     seen := sn; nacc := 0; ret := None |}.

Definition init_thread : thread :=
  {| bid := 0; pc := 0; scr := None; ferr := None; cnt := 0; errc := None; err := None;
     seen := []; nacc := 0; ret := None |}.

Definition zero_cell : cell := {| cval := 0; cws := []; crs := [] |}.

Section SEM.
Variable P : prog.
Variable fs : list ufun.

Definition init : state :=
  {| thr := [init_thread]; cells := repeat zero_cell (ncells P); buf := []; log := []; racy := false |}.

Definition code_of (t : thread) : list instr :=
  match bid t with
  | 0 => main P
  | S b => nth b (bodies P) []
  end.

Definition cur (t : thread) : option instr := nth_error (code_of t) (pc t).
Definition halted (t : thread) : bool := match cur t with None => true | Some _ => false end.

Inductive chanid := CErr | CUser (c : nat).
Definition chan_eqb (a b : chanid) : bool :=
  match a, b with
  | CErr, CErr => true
  | CUser x, CUser y => x =? y
  | _, _ => false
  end.

Inductive want := WSend (c : chanid) (e : errv) | WRecv (c : chanid) | WTau | WNone.

Definition wants (t : thread) : want :=
  match cur t with
  | None => WNone
  | Some (ICall _ _) =>
      match scr t with
      | None => WTau
      | Some [] => WTau
      | Some (USend c :: _) => WSend (CUser c) None
      | Some (URecv c :: _) => WRecv (CUser c)
      end
  | Some ISend => WSend CErr (ferr t)
  | Some IRecv => WRecv CErr
  | Some _ => WTau
  end.

Definition set_pc (t : thread) (p : nat) : thread :=
  {| bid := bid t; pc := p; scr := scr t; ferr := ferr t; cnt := cnt t; errc := errc t; err := err t;
     seen := seen t; nacc := nacc t; ret := ret t |}.
Definition set_scr (t : thread) (r : option (list uop)) : thread :=
  {| bid := bid t; pc := pc t; scr := r; ferr := ferr t; cnt := cnt t; errc := errc t; err := err t;
     seen := seen t; nacc := nacc t; ret := ret t |}.

(* the thread after its pending communication completed *)
Definition after_send (t : thread) : thread :=
  match cur t with
  | Some (ICall _ _) => set_scr t (option_map (@tl uop) (scr t))
  | _ => set_pc t (S (pc t))
  end.
Definition after_recv (t : thread) (m : msg) : thread :=
  match cur t with
  | Some (ICall _ _) => set_scr t (option_map (@tl uop) (scr t))
  | _ => {| bid := bid t; pc := S (pc t); scr := scr t; ferr := ferr t; cnt := cnt t;
            errc := mval m; err := err t; seen := seen t ++ mseen m; nacc := nacc t; ret := ret t |}
  end.

Definition mark_read (id : aid) (cs : list nat) (cl : list cell) : list cell :=
  mapi_from 0 (fun c x => if existsb (Nat.eqb c) cs
                          then {| cval := cval x; cws := cws x; crs := id :: crs x |} else x) cl.

Definition set_thr (s : state) (n : nat) (t : thread) : state :=
  {| thr := upd (thr s) n t; cells := cells s; buf := buf s; log := log s; racy := racy s |}.
Definition add_log (s : state) (e : event) : state :=
  {| thr := thr s; cells := cells s; buf := buf s; log := e :: log s; racy := racy s |}.

Definition tau_step (s : state) (i : nat) (t : thread) : option state :=
  match cur t with
  | None => None
  | Some (IGo b) =>
      match nth_error (bodies P) b with
      | None => None
      | Some _ =>
          Some {| thr := upd (thr s) i (set_pc t (S (pc t))) ++ [new_thread b (seen t)];
                  cells := cells s; buf := buf s;
                  log := EvSpawn i (length (thr s)) :: log s; racy := racy s |}
      end
  | Some (ICall fn c) =>
      match nth_error fs fn with
      | None => None
      | Some f =>
          match scr t with
          | None => Some (add_log (set_thr s i (set_scr t (Some (script f)))) (EvCall i fn))
          | Some [] =>
              match nth_error (cells s) c with
              | None => None
              | Some x =>
                  let id := (i, nacc t) in
                  Some {| thr := upd (thr s) i
                            {| bid := bid t; pc := S (pc t); scr := None; ferr := re f; cnt := cnt t;
                               errc := errc t; err := err t; seen := seen t ++ [id]; nacc := S (nacc t);
                               ret := ret t |};
                          cells := upd (cells s) c {| cval := rv f; cws := id :: cws x; crs := crs x |};
                          buf := buf s; log := EvWrite i c (rv f) :: log s;
                          racy := racy s || unseen (seen t) (cws x ++ crs x) |}
              end
          | Some (_ :: _) => None
          end
      end
  | Some ISend =>
      if length (buf s) <? ccap P
      then Some {| thr := upd (thr s) i (set_pc t (S (pc t))); cells := cells s;
                   buf := buf s ++ [{| mval := ferr t; mfrom := i; mseen := seen t |}];
                   log := EvSend i (ferr t) :: log s; racy := racy s |}
      else None
  | Some IRecv =>
      match buf s with
      | [] => None
      | m :: r => Some {| thr := upd (thr s) i (after_recv t m); cells := cells s; buf := r;
                          log := EvRecv i (mfrom m) (mval m) :: log s; racy := racy s |}
      end
  | Some (ILoop b e) => Some (set_thr s i (set_pc t (if cnt t <? b then S (pc t) else e)))
  | Some (IIfErrcNil tg) => Some (set_thr s i (set_pc t (match errc t with None => tg | Some _ => S (pc t) end)))
  | Some (IIfErrSet tg) => Some (set_thr s i (set_pc t (match err t with Some _ => tg | None => S (pc t) end)))
  | Some ISetErr =>
      Some (set_thr s i {| bid := bid t; pc := S (pc t); scr := scr t; ferr := ferr t; cnt := cnt t;
                           errc := errc t; err := errc t; seen := seen t; nacc := nacc t; ret := ret t |})
  | Some (INext h) =>
      Some (set_thr s i {| bid := bid t; pc := h; scr := scr t; ferr := ferr t; cnt := S (cnt t);
                           errc := errc t; err := err t; seen := seen t; nacc := nacc t; ret := ret t |})
  | Some (IRet cs) =>
      let id := (i, nacc t) in
      let vs := map (fun c => cval (nth c (cells s) zero_cell)) cs in
      Some {| thr := upd (thr s) i
                {| bid := bid t; pc := S (pc t); scr := scr t; ferr := ferr t; cnt := cnt t;
                   errc := errc t; err := err t; seen := seen t ++ [id]; nacc := S (nacc t);
                   ret := Some (vs, err t) |};
              cells := mark_read id cs (cells s); buf := buf s;
              log := EvRet i cs vs (err t) :: log s;
              racy := racy s || existsb (fun c => unseen (seen t) (cws (nth c (cells s) zero_cell))) cs |}
  end.

Definition sync_step (s : state) (a b : nat) : option state :=
  if a =? b then None else
  match nth_error (thr s) a, nth_error (thr s) b with
  | Some ta, Some tb =>
      match wants ta, wants tb with
      | WSend c e, WRecv c' =>
          if chan_eqb c c' then
            match c with
            | CErr =>
                if (ccap P =? 0) && (length (buf s) =? 0) then
                  Some {| thr := upd (upd (thr s) a (after_send ta)) b
                                   (after_recv tb {| mval := e; mfrom := a; mseen := seen ta |});
                          cells := cells s; buf := buf s;
                          log := EvRecv b a e :: log s; racy := racy s |}
                else None
            | CUser u =>
                Some {| thr := upd (upd (thr s) a (after_send ta)) b
                                 (after_recv tb {| mval := None; mfrom := a; mseen := [] |});
                        cells := cells s; buf := buf s;
                        log := EvUser a b u :: log s; racy := racy s |}
            end
          else None
      | _, _ => None
      end
  | _, _ => None
  end.

Definition step (s : state) (a : action) : option state :=
  match a with
  | Tau i => match nth_error (thr s) i with Some t => tau_step s i t | None => None end
  | Sync a b => sync_step s a b
  end.

Inductive reach : state -> Prop :=
| reach0 : reach init
| reachS s a s' : reach s -> step s a = Some s' -> reach s'.

(* executions with their schedules *)
Inductive exec : state -> list action -> state -> Prop :=
| exec0 s : exec s [] s
| execS s a s1 l s2 : step s a = Some s1 -> exec s1 l s2 -> exec s (a :: l) s2.

Definition candidates (s : state) : list action :=
  let n := length (thr s) in
  map Tau (seq 0 n) ++ flat_map (fun a => map (Sync a) (seq 0 n)) (seq 0 n).

Definition enabled (s : state) : list action :=
  filter (fun a => match step s a with Some _ => true | None => false end) (candidates s).

Definition all_halted (s : state) : bool := forallb halted (thr s).
Definition main_ret (s : state) : option (list val * errv) :=
  match thr s with t :: _ => ret t | [] => None end.

End SEM.

(* ---------- the program deriveDo is expected to be, as a function of the number of functions ---------- *)
Definition gbody (g : nat) : list instr := [ICall g g; ISend].
Definition loop_tail (n : nat) : list instr :=
  [ILoop n (n + 6); IRecv; IIfErrcNil (n + 5); IIfErrSet (n + 5); ISetErr; INext n; IRet (seq 0 n)].
Definition expected (n : nat) : prog :=
  {| ccap := 0; ncells := n; bodies := map gbody (seq 0 n); main := map IGo (seq 0 n) ++ loop_tail n |}.

(* ---------- specification vocabulary ---------- *)
(* the error the caller keeps when it receives the functions' errors in the order [order] *)
Definition fdflt : ufun := {| script := []; rv := 0; re := None |}.
Fixpoint first_err (fs : list ufun) (order : list nat) : errv :=
  match order with
  | [] => None
  | g :: r => match re (nth g fs fdflt) with
              | Some e => Some e
              | None => first_err fs r
              end
  end.

Fixpoint count_spawn (l : list event) : nat :=
  match l with [] => 0 | EvSpawn _ _ :: r => S (count_spawn r) | _ :: r => count_spawn r end.
Fixpoint count_recv (l : list event) : nat :=
  match l with [] => 0 | EvRecv _ _ _ :: r => S (count_recv r) | _ :: r => count_recv r end.
Fixpoint count_write (c : nat) (l : list event) : nat :=
  match l with
  | [] => 0
  | EvWrite _ c' _ :: r => if c =? c' then S (count_write c r) else count_write c r
  | _ :: r => count_write c r
  end.
(* senders of the error channel in the order the caller received them (oldest first) *)
Fixpoint recv_order (l : list event) : list nat :=
  match l with
  | [] => []
  | EvRecv _ from _ :: r => recv_order r ++ [from]
  | _ :: r => recv_order r
  end.
