(* Do/Canon.v — canonical form of the reachable states of [expected n] and the exact
   description of every step from a canonical state (both directions), for ALL n. *)
From Verif Require Import Base Do.Sem.

Local Arguments Nat.ltb : simpl never.
Local Arguments Nat.eqb : simpl never.

(* ---------- list helpers ---------- *)
Lemma mapi_from_nth {A B} (f : nat -> A -> B) l i k :
  nth_error (mapi_from i f l) k = option_map (f (i + k)) (nth_error l k).
Proof.
  revert i k; induction l as [|a t IH]; intros i [|k]; cbn; try reflexivity.
  - rewrite Nat.add_0_r. reflexivity.
  - rewrite IH. replace (S i + k) with (i + S k) by lia. reflexivity.
Qed.

Lemma mapi_from_upd {A B} (f : nat -> A -> B) l i k x :
  upd (mapi_from i f l) k (f (i + k) x) = mapi_from i f (upd l k x).
Proof.
  revert i k; induction l as [|a t IH]; intros i [|k]; cbn; try reflexivity.
  - rewrite Nat.add_0_r. reflexivity.
  - f_equal. replace (i + S k) with (S i + k) by lia. apply IH.
Qed.

Lemma mapi_from_app {A B} (f : nat -> A -> B) l i x :
  mapi_from i f (l ++ [x]) = mapi_from i f l ++ [f (i + length l) x].
Proof.
  revert i; induction l as [|a t IH]; intros i; cbn.
  - rewrite Nat.add_0_r. reflexivity.
  - f_equal. rewrite IH. replace (S i + length t) with (i + S (length t)) by lia. reflexivity.
Qed.

Lemma mapi_from_length {A B} (f : nat -> A -> B) l i : length (mapi_from i f l) = length l.
Proof. revert i; induction l; intros; cbn; auto. Qed.

Lemma mapi_from_map_seq {A B} (F : nat -> A -> B) (f : nat -> A) i k :
  mapi_from i F (map f (seq i k)) = map (fun c => F c (f c)) (seq i k).
Proof. revert i; induction k; intros; cbn; [reflexivity|]. f_equal. apply IHk. Qed.

Lemma upd_length {A} (l : list A) k x : length (upd l k x) = length l.
Proof. revert k; induction l; intros [|k]; cbn; auto. Qed.

Lemma nth_upd {A} (l : list A) k j x d :
  nth j (upd l k x) d = if j =? k then (if k <? length l then x else d) else nth j l d.
Proof.
  revert k j; induction l as [|a t IH]; intros k j; cbn.
  - destruct (j =? k); destruct j; reflexivity.
  - destruct k, j; cbn; try reflexivity.
    rewrite IH. change (S j =? S k) with (j =? k). change (S k <? S (length t)) with (k <? length t).
    reflexivity.
Qed.

Lemma upd_map_seq {A} (f : nat -> A) n k x :
  upd (map f (seq 0 n)) k x = map (fun c => if c =? k then x else f c) (seq 0 n).
Proof.
  assert (G : forall i k, upd (map f (seq i n)) k x = map (fun c => if c =? i + k then x else f c) (seq i n)).
  { clear k. induction n as [|m IH]; intros i k; [reflexivity|]. destruct k; cbn.
    - rewrite Nat.add_0_r, Nat.eqb_refl. f_equal. apply map_ext_in. intros c Hc. apply in_seq in Hc.
      destruct (Nat.eqb_spec c i); [lia|reflexivity].
    - destruct (Nat.eqb_spec i (i + S k)); [lia|]. f_equal. rewrite IH.
      replace (S i + k) with (i + S k) by lia. reflexivity. }
  apply (G 0 k).
Qed.

Lemma nth_map_seq {A} (f : nat -> A) n c d : c < n -> nth c (map f (seq 0 n)) d = f c.
Proof.
  intros H. rewrite (nth_indep _ d (f 0)) by (rewrite map_length, seq_length; exact H).
  rewrite map_nth. rewrite seq_nth by exact H. reflexivity.
Qed.

Lemma nth_error_map_seq {A} (f : nat -> A) n c : c < n -> nth_error (map f (seq 0 n)) c = Some (f c).
Proof.
  intros H. rewrite nth_error_map. rewrite (nth_error_nth' _ 0) by (rewrite seq_length; exact H).
  rewrite seq_nth by exact H. reflexivity.
Qed.

Lemma map_nth_seq {A B} (f : A -> B) (l : list A) d :
  map (fun c => f (nth c l d)) (seq 0 (length l)) = map f l.
Proof.
  induction l as [|a t IH]; [reflexivity|]. cbn [length seq map nth]. f_equal.
  rewrite <- seq_shift, map_map. exact IH.
Qed.

(* ---------- the expected program ---------- *)
Lemma main_cur n k :
  nth_error (main (expected n)) k =
  if k <? n then Some (IGo k) else nth_error (loop_tail n) (k - n).
Proof.
  unfold expected; cbn [main]. destruct (Nat.ltb_spec k n).
  - rewrite nth_error_app1 by (rewrite map_length, seq_length; exact H).
    apply nth_error_map_seq. exact H.
  - rewrite nth_error_app2 by (rewrite map_length, seq_length; exact H).
    rewrite map_length, seq_length. reflexivity.
Qed.

Lemma body_at n g : g < n -> nth g (bodies (expected n)) [] = gbody g.
Proof. intros H. unfold expected; cbn [bodies]. apply nth_map_seq. exact H. Qed.

Lemma body_err n g : g < n -> nth_error (bodies (expected n)) g = Some (gbody g).
Proof. intros H. unfold expected; cbn [bodies]. apply nth_error_map_seq. exact H. Qed.

(* ---------- canonical states ---------- *)
Inductive gst := GNew | GRun (r : list uop) | GReady | GDone.

Definition written (x : gst) : bool := match x with GReady | GDone => true | _ => false end.
Definition gpc (x : gst) : nat := match x with GNew | GRun _ => 0 | GReady => 1 | GDone => 2 end.
Definition wid (g : nat) : aid := (S g, 0).

Record params := {
  mpc : nat; mcnt : nat; merrc : errv; merr : errv; mret : bool;
  rcv : list nat;          (* goroutines whose error the caller has received, oldest first *)
  gs : list gst;           (* states of the goroutines spawned so far *)
  lg : list event }.

Section CANON.
Variable n : nat.
Variable fs : list ufun.
Hypothesis Hfs : length fs = n.

Definition fn (g : nat) : ufun := nth g fs fdflt.
Definition P := expected n.

Definition gthread (g : nat) (x : gst) : thread :=
  {| bid := S g; pc := gpc x;
     scr := match x with GRun r => Some r | _ => None end;
     ferr := if written x then re (fn g) else None;
     cnt := 0; errc := None; err := None;
     seen := if written x then [wid g] else [];
     nacc := if written x then 1 else 0; ret := None |}.

Definition mthread (p : params) : thread :=
  {| bid := 0; pc := mpc p; scr := None; ferr := None; cnt := mcnt p; errc := merrc p; err := merr p;
     seen := map wid (rcv p) ++ (if mret p then [(0, 0)] else []);
     nacc := if mret p then 1 else 0;
     ret := if mret p then Some (map rv fs, merr p) else None |}.

Definition st (p : params) (g : nat) : gst := nth g (gs p) GNew.

Definition cell_of (p : params) (c : nat) : cell :=
  {| cval := if written (st p c) then rv (fn c) else 0;
     cws := if written (st p c) then [wid c] else [];
     crs := if mret p then [(0, 0)] else [] |}.

Definition mk (p : params) : state :=
  {| thr := mthread p :: mapi_from 0 gthread (gs p);
     cells := map (cell_of p) (seq 0 n);
     buf := []; log := lg p; racy := false |}.

Definition p0 : params :=
  {| mpc := 0; mcnt := 0; merrc := None; merr := None; mret := false; rcv := []; gs := []; lg := [] |}.

Lemma mk_p0 : mk p0 = init P.
Proof.
  unfold mk, init, P, expected; cbn. f_equal.
  unfold cell_of, st; cbn. clear Hfs. generalize 0 at 2. induction n as [|m IH]; intros i; cbn; [reflexivity|].
  f_equal; [destruct i; reflexivity| apply IH].
Qed.

(* ---------- parameter updates ---------- *)
Definition with_main (p : params) (pc' cnt' : nat) (errc' err' : errv) : params :=
  {| mpc := pc'; mcnt := cnt'; merrc := errc'; merr := err'; mret := mret p; rcv := rcv p; gs := gs p; lg := lg p |}.
Definition with_pc (p : params) (pc' : nat) : params := with_main p pc' (mcnt p) (merrc p) (merr p).
Definition with_g (p : params) (g : nat) (x : gst) (e : event) : params :=
  {| mpc := mpc p; mcnt := mcnt p; merrc := merrc p; merr := merr p; mret := mret p; rcv := rcv p;
     gs := upd (gs p) g x; lg := e :: lg p |}.

Definition p_spawn (p : params) : params :=
  {| mpc := S (mpc p); mcnt := mcnt p; merrc := merrc p; merr := merr p; mret := mret p; rcv := rcv p;
     gs := gs p ++ [GNew]; lg := EvSpawn 0 (S (length (gs p))) :: lg p |}.
Definition p_recv (p : params) (g : nat) : params :=
  {| mpc := S (mpc p); mcnt := mcnt p; merrc := re (fn g); merr := merr p; mret := mret p;
     rcv := rcv p ++ [g]; gs := upd (gs p) g GDone; lg := EvRecv 0 (S g) (re (fn g)) :: lg p |}.
Definition p_user (p : params) (a b c : nat) (ra rb : list uop) : params :=
  {| mpc := mpc p; mcnt := mcnt p; merrc := merrc p; merr := merr p; mret := mret p; rcv := rcv p;
     gs := upd (upd (gs p) a (GRun ra)) b (GRun rb); lg := EvUser (S a) (S b) c :: lg p |}.
Definition p_ret (p : params) : params :=
  {| mpc := S (mpc p); mcnt := mcnt p; merrc := merrc p; merr := merr p; mret := true; rcv := rcv p;
     gs := gs p; lg := EvRet 0 (seq 0 n) (map rv fs) (merr p) :: lg p |}.

(* ---------- the abstract transition system ---------- *)
Inductive trans : params -> action -> params -> Prop :=
| t_spawn p : mpc p < n -> trans p (Tau 0) (p_spawn p)
| t_head p : mpc p = n -> trans p (Tau 0) (with_pc p (if mcnt p <? n then n + 1 else n + 6))
| t_ifnil p : mpc p = n + 2 ->
    trans p (Tau 0) (with_pc p (match merrc p with None => n + 5 | Some _ => n + 3 end))
| t_ifset p : mpc p = n + 3 ->
    trans p (Tau 0) (with_pc p (match merr p with Some _ => n + 5 | None => n + 4 end))
| t_seterr p : mpc p = n + 4 -> trans p (Tau 0) (with_main p (n + 5) (mcnt p) (merrc p) (merrc p))
| t_next p : mpc p = n + 5 -> trans p (Tau 0) (with_main p n (S (mcnt p)) (merrc p) (merr p))
| t_ret p : mpc p = n + 6 -> trans p (Tau 0) (p_ret p)
| t_begin p g : nth_error (gs p) g = Some GNew ->
    trans p (Tau (S g)) (with_g p g (GRun (script (fn g))) (EvCall (S g) g))
| t_write p g : nth_error (gs p) g = Some (GRun []) ->
    trans p (Tau (S g)) (with_g p g GReady (EvWrite (S g) g (rv (fn g))))
| t_recv p g : nth_error (gs p) g = Some GReady -> mpc p = n + 1 ->
    trans p (Sync (S g) 0) (p_recv p g)
| t_user p a b c ra rb : a <> b ->
    nth_error (gs p) a = Some (GRun (USend c :: ra)) ->
    nth_error (gs p) b = Some (GRun (URecv c :: rb)) ->
    trans p (Sync (S a) (S b)) (p_user p a b c ra rb).

(* what the simulation needs to know about a canonical state *)
Definition Wf (p : params) : Prop :=
  length (gs p) = Nat.min (mpc p) n /\
  (mret p = true -> mpc p = n + 7) /\
  (mpc p = n + 7 -> mret p = true) /\
  (mret p = true -> forall g, g < n -> st p g = GDone) /\
  (mpc p < n -> rcv p = []) /\
  (mpc p = n + 6 -> forall g, g < n -> st p g = GDone /\ In g (rcv p)).

Lemma fs_nth g : g < n -> nth_error fs g = Some (fn g).
Proof. intros H. unfold fn. apply nth_error_nth'. lia. Qed.

Lemma cur_main p : cur P (mthread p) =
  if mpc p <? n then Some (IGo (mpc p)) else nth_error (loop_tail n) (mpc p - n).
Proof. unfold cur, code_of, P; cbn [bid mthread pc]. apply main_cur. Qed.

Lemma cur_g g x : g < n -> cur P (gthread g x) = nth_error (gbody g) (gpc x).
Proof. intros H. unfold cur, code_of, P; cbn [bid gthread pc]. rewrite body_at by exact H. reflexivity. Qed.

Lemma thr_g p g : nth_error (thr (mk p)) (S g) = option_map (gthread g) (nth_error (gs p) g).
Proof. cbn. rewrite mapi_from_nth. reflexivity. Qed.

Lemma gs_lt p g x : Wf p -> nth_error (gs p) g = Some x -> g < n.
Proof.
  intros (HL & _) H. assert (g < length (gs p)) by (apply nth_error_Some; congruence). lia.
Qed.

Lemma st_of p g x : nth_error (gs p) g = Some x -> st p g = x.
Proof. intros H. unfold st. apply nth_error_nth. exact H. Qed.

Lemma cells_same p p' :
  mret p' = mret p -> (forall c, c < n -> written (st p' c) = written (st p c)) ->
  map (cell_of p') (seq 0 n) = map (cell_of p) (seq 0 n).
Proof.
  intros Hr Hw. apply map_ext_in. intros c Hc. apply in_seq in Hc. unfold cell_of.
  rewrite Hr, Hw by lia. reflexivity.
Qed.

Lemma st_upd p g x c e : st (with_g p g x e) c = if c =? g then (if g <? length (gs p) then x else GNew) else st p c.
Proof. unfold st, with_g; cbn [gs]. apply nth_upd. Qed.

(* ---------- steps of the caller ---------- *)
Ltac main_local p Hpc :=
  destruct p as [mpc0 mcnt0 merrc0 merr0 mret0 rcv0 gs0 lg0]; cbn [mpc mcnt merrc merr] in *; subst mpc0;
  unfold step, mk; cbn [thr nth_error]; unfold tau_step; rewrite cur_main; cbn [mpc];
  replace (n + 0 <? n) with false by (symmetry; apply Nat.ltb_ge; lia);
  repeat match goal with |- context [?a + ?k <? ?a] =>
    replace (a + k <? a) with false by (symmetry; apply Nat.ltb_ge; lia) end;
  repeat match goal with |- context [?a + ?k - ?a] => replace (a + k - a) with k by lia end.

Lemma step_head p : mpc p = n ->
  step P fs (mk p) (Tau 0) = Some (mk (with_pc p (if mcnt p <? n then n + 1 else n + 6))).
Proof.
  intros Hpc. destruct p as [mpc0 mcnt0 merrc0 merr0 mret0 rcv0 gs0 lg0]; cbn [mpc mcnt] in *; subst mpc0.
  unfold step, mk; cbn [thr nth_error]; unfold tau_step; rewrite cur_main; cbn [mpc].
  rewrite Nat.ltb_irrefl, Nat.sub_diag. cbn [loop_tail nth_error].
  unfold set_thr, set_pc, with_pc, with_main; cbn. f_equal. f_equal. f_equal.
  unfold mthread; cbn. destruct (mcnt0 <? n); [f_equal; lia | reflexivity].
Qed.

Lemma step_ifnil p : mpc p = n + 2 ->
  step P fs (mk p) (Tau 0) = Some (mk (with_pc p (match merrc p with None => n + 5 | Some _ => n + 3 end))).
Proof.
  intros Hpc. main_local p Hpc. cbn [loop_tail nth_error].
  unfold set_thr, set_pc, with_pc, with_main; cbn. f_equal. f_equal. f_equal.
  unfold mthread; cbn. destruct merrc0; [f_equal; lia | reflexivity].
Qed.

Lemma step_ifset p : mpc p = n + 3 ->
  step P fs (mk p) (Tau 0) = Some (mk (with_pc p (match merr p with Some _ => n + 5 | None => n + 4 end))).
Proof.
  intros Hpc. main_local p Hpc. cbn [loop_tail nth_error].
  unfold set_thr, set_pc, with_pc, with_main; cbn. f_equal. f_equal. f_equal.
  unfold mthread; cbn. destruct merr0; [reflexivity | f_equal; lia].
Qed.

Lemma step_seterr p : mret p = false -> mpc p = n + 4 ->
  step P fs (mk p) (Tau 0) = Some (mk (with_main p (n + 5) (mcnt p) (merrc p) (merrc p))).
Proof.
  intros Hret Hpc. main_local p Hpc. cbn [mret] in Hret; subst mret0. cbn [loop_tail nth_error].
  unfold set_thr, with_main; cbn. f_equal. f_equal. f_equal. unfold mthread; cbn. f_equal. lia.
Qed.

Lemma step_next p : mpc p = n + 5 ->
  step P fs (mk p) (Tau 0) = Some (mk (with_main p n (S (mcnt p)) (merrc p) (merr p))).
Proof.
  intros Hpc. main_local p Hpc. cbn [loop_tail nth_error].
  unfold set_thr, with_main; cbn. reflexivity.
Qed.

Lemma wf_ret_false p : Wf p -> mpc p <> n + 7 -> mret p = false.
Proof. intros (_ & H & _) Hn. destruct (mret p); [specialize (H eq_refl); lia | reflexivity]. Qed.

Lemma step_spawn p : Wf p -> mpc p < n -> step P fs (mk p) (Tau 0) = Some (mk (p_spawn p)).
Proof.
  intros W Hpc. pose proof (wf_ret_false p W ltac:(lia)) as Hret.
  destruct W as (HL & _ & _ & _ & Hrcv & _). specialize (Hrcv Hpc).
  destruct p as [mpc0 mcnt0 merrc0 merr0 mret0 rcv0 gs0 lg0]; cbn [mpc mret gs rcv] in *; subst mret0 rcv0.
  unfold step, mk; cbn [thr nth_error]; unfold tau_step; rewrite cur_main; cbn [mpc].
  replace (mpc0 <? n) with true by (symmetry; apply Nat.ltb_lt; exact Hpc).
  unfold P. rewrite body_err by exact Hpc.
  unfold p_spawn; cbn -[mapi_from]. rewrite mapi_from_app, mapi_from_length. cbn.
  rewrite Nat.min_l in HL by lia. rewrite HL. f_equal. f_equal.
  symmetry. apply cells_same; [reflexivity|]. intros c Hc. unfold st; cbn [gs].
  destruct (Nat.lt_ge_cases c (length gs0)).
  - rewrite app_nth1 by lia. reflexivity.
  - rewrite app_nth2 by lia. rewrite (nth_overflow gs0) by lia.
    destruct (c - length gs0) as [|[|k]]; reflexivity.
Qed.

Lemma ret_vals p : (forall g, g < n -> st p g = GDone /\ In g (rcv p)) ->
  map (fun c => cval (nth c (map (cell_of p) (seq 0 n)) zero_cell)) (seq 0 n) = map rv fs.
Proof.
  intros Hall. rewrite <- (map_nth_seq rv fs fdflt), Hfs. apply map_ext_in. intros c Hc. apply in_seq in Hc.
  rewrite nth_map_seq by lia. unfold cell_of. destruct (Hall c ltac:(lia)) as [-> _]. reflexivity.
Qed.

Lemma seen_in_wid l g : In g l -> seen_in (map wid l ++ []) (wid g) = true.
Proof.
  intros H. unfold seen_in. apply existsb_exists. exists (wid g). split.
  - rewrite app_nil_r. apply in_map. exact H.
  - unfold aid_eqb, wid; cbn. rewrite Nat.eqb_refl. reflexivity.
Qed.

Lemma ret_norace p : (forall g, g < n -> st p g = GDone /\ In g (rcv p)) ->
  existsb (fun c => unseen (map wid (rcv p) ++ []) (cws (nth c (map (cell_of p) (seq 0 n)) zero_cell))) (seq 0 n) = false.
Proof.
  intros Hall. destruct (existsb _ _) eqn:E; [|reflexivity]. apply existsb_exists in E.
  destruct E as (c & Hc & E). apply in_seq in Hc. rewrite nth_map_seq in E by lia.
  unfold cell_of in E. destruct (Hall c ltac:(lia)) as [Hs Hin]. rewrite Hs in E. cbn in E.
  rewrite seen_in_wid in E by exact Hin. discriminate.
Qed.

Lemma step_ret p : Wf p -> mpc p = n + 6 -> step P fs (mk p) (Tau 0) = Some (mk (p_ret p)).
Proof.
  intros W Hpc. pose proof (wf_ret_false p W ltac:(lia)) as Hret.
  destruct W as (_ & _ & _ & _ & _ & Hall). specialize (Hall Hpc).
  pose proof (ret_vals p Hall) as Hv. pose proof (ret_norace p Hall) as Hr.
  destruct p as [mpc0 mcnt0 merrc0 merr0 mret0 rcv0 gs0 lg0]; cbn [mpc mret gs rcv] in *; subst mret0 mpc0.
  unfold step, mk; cbn [thr nth_error]; unfold tau_step; rewrite cur_main; cbn [mpc].
  replace (n + 6 <? n) with false by (symmetry; apply Nat.ltb_ge; lia).
  replace (n + 6 - n) with 6 by lia. cbn [loop_tail nth_error].
  cbn [mthread seen cells mret rcv racy orb]. rewrite Hv, Hr.
  unfold p_ret; cbn -[mark_read]. f_equal. f_equal.
  - f_equal. unfold mthread; cbn. rewrite app_nil_r. reflexivity.
  - unfold mark_read. rewrite mapi_from_map_seq. apply map_ext_in. intros c Hc.
    replace (existsb (Nat.eqb c) (seq 0 n)) with true.
    + reflexivity.
    + symmetry. apply existsb_exists. exists c. split; [exact Hc | apply Nat.eqb_refl].
Qed.

(* ---------- steps of the goroutines ---------- *)
Lemma cells_with_g p g x x0 e : nth_error (gs p) g = Some x0 -> written x = written x0 ->
  map (cell_of (with_g p g x e)) (seq 0 n) = map (cell_of p) (seq 0 n).
Proof.
  intros H Hw. apply cells_same; [reflexivity|]. intros c Hc. rewrite st_upd.
  destruct (Nat.eqb_spec c g); [|reflexivity]. subst c.
  assert (g < length (gs p)) by (apply nth_error_Some; congruence).
  replace (g <? length (gs p)) with true by (symmetry; apply Nat.ltb_lt; assumption).
  rewrite (st_of p g x0 H). exact Hw.
Qed.

Lemma step_begin p g : Wf p -> nth_error (gs p) g = Some GNew ->
  step P fs (mk p) (Tau (S g)) = Some (mk (with_g p g (GRun (script (fn g))) (EvCall (S g) g))).
Proof.
  intros W H. pose proof (gs_lt p g _ W H) as Hg.
  unfold step. rewrite thr_g, H. cbn [option_map]. unfold tau_step. rewrite cur_g by exact Hg.
  cbn [gpc gbody nth_error]. rewrite fs_nth by exact Hg. cbn [scr gthread].
  unfold add_log, set_thr, mk. cbn [thr cells buf log racy upd].
  change (set_scr (gthread g GNew) (Some (script (fn g)))) with (gthread (0 + g) (GRun (script (fn g)))).
  rewrite mapi_from_upd. rewrite (cells_with_g p g _ GNew) by (exact H || reflexivity). reflexivity.
Qed.

Lemma step_write p g : Wf p -> nth_error (gs p) g = Some (GRun []) ->
  step P fs (mk p) (Tau (S g)) = Some (mk (with_g p g GReady (EvWrite (S g) g (rv (fn g))))).
Proof.
  intros W H. pose proof (gs_lt p g _ W H) as Hg.
  assert (Hret : mret p = false).
  { destruct W as (_ & _ & _ & Hd & _). destruct (mret p); [|reflexivity].
    specialize (Hd eq_refl g Hg). rewrite (st_of p g _ H) in Hd. discriminate. }
  unfold step. rewrite thr_g, H. cbn [option_map]. unfold tau_step. rewrite cur_g by exact Hg.
  cbn [gpc gbody nth_error]. rewrite fs_nth by exact Hg. cbn [scr gthread].
  unfold mk at 1. cbn [cells]. rewrite nth_error_map_seq by exact Hg.
  unfold cell_of at 1. rewrite (st_of p g _ H), Hret. cbn [written cws crs app unseen existsb orb].
  unfold mk. cbn [thr cells buf log racy upd gthread written seen nacc pc gpc bid cnt errc err ret app].
  assert (Hlt : (g <? length (gs p)) = true).
  { apply Nat.ltb_lt. apply nth_error_Some. congruence. }
  f_equal. f_equal.
  - f_equal.
    change {| bid := S g; pc := 1; scr := None; ferr := re (fn g); cnt := 0; errc := None; err := None;
              seen := [(S g, 0)]; nacc := 1; ret := None |} with (gthread (0 + g) GReady).
    rewrite mapi_from_upd. reflexivity.
  - rewrite upd_map_seq. apply map_ext_in. intros c Hc. unfold cell_of. rewrite st_upd.
    cbn [mret with_g]. destruct (Nat.eqb_spec c g).
    + subst c. rewrite Hlt, Hret. reflexivity.
    + reflexivity.
  - unfold cell_of. rewrite (st_of p g _ H), Hret. reflexivity.
Qed.

(* ---------- communications ---------- *)
Lemma wants_g g x : g < n ->
  wants P (gthread g x) =
  match x with
  | GNew | GRun [] => WTau
  | GRun (USend c :: _) => WSend (CUser c) None
  | GRun (URecv c :: _) => WRecv (CUser c)
  | GReady => WSend CErr (re (fn g))
  | GDone => WNone
  end.
Proof.
  intros H. unfold wants. rewrite cur_g by exact H.
  destruct x as [|[|[c|c] r]| |]; reflexivity.
Qed.

Lemma wants_main p :
  (mpc p = n + 1 /\ wants P (mthread p) = WRecv CErr) \/
  (mpc p <> n + 1 /\ (wants P (mthread p) = WTau \/ wants P (mthread p) = WNone)).
Proof.
  unfold wants. rewrite cur_main. destruct (Nat.ltb_spec (mpc p) n).
  - right. split; [lia|]. left. reflexivity.
  - remember (mpc p - n) as j eqn:Ej.
    destruct j as [|[|[|[|[|[|[|j]]]]]]]; cbn [loop_tail nth_error].
    2: { left. split; [lia|reflexivity]. }
    all: right; split; [lia|].
    all: try (left; reflexivity).
    right. destruct j; reflexivity.
Qed.

Lemma step_recv p g : Wf p -> nth_error (gs p) g = Some GReady -> mpc p = n + 1 ->
  step P fs (mk p) (Sync (S g) 0) = Some (mk (p_recv p g)).
Proof.
  intros W H Hpc. pose proof (gs_lt p g _ W H) as Hg.
  pose proof (wf_ret_false p W ltac:(lia)) as Hret.
  unfold step, sync_step. change (S g =? 0) with false. cbv iota.
  rewrite thr_g, H. cbn [option_map]. cbn [mk thr nth_error].
  rewrite wants_g by exact Hg.
  destruct (wants_main p) as [[_ Hw]|[Hne _]]; [|lia]. rewrite Hw.
  cbn [chan_eqb]. change (ccap P =? 0) with true. cbn [mk buf length andb]. change (0 =? 0) with true. cbv iota.
  unfold after_send, after_recv. rewrite cur_g by exact Hg. rewrite cur_main.
  replace (mpc p <? n) with false by (symmetry; apply Nat.ltb_ge; lia).
  replace (mpc p - n) with 1 by lia. cbn [gpc gbody loop_tail nth_error].
  cbn [upd]. unfold mk, p_recv. cbn [thr cells buf log racy gs lg mval mseen seen gthread written].
  f_equal. f_equal.
  - f_equal.
    + unfold mthread. cbn. rewrite Hret, map_app, !app_nil_r. reflexivity.
    + change (set_pc (gthread g GReady) (S (pc (gthread g GReady)))) with (gthread (0 + g) GDone).
      rewrite mapi_from_upd. reflexivity.
  - symmetry. apply cells_same; [reflexivity|]. intros c Hc. unfold st. cbn [gs]. rewrite nth_upd.
    destruct (Nat.eqb_spec c g); [|reflexivity]. subst c.
    replace (g <? length (gs p)) with true by (symmetry; apply Nat.ltb_lt; apply nth_error_Some; congruence).
    rewrite (nth_error_nth _ _ _ H). reflexivity.
Qed.

Lemma step_user p a b c ra rb : Wf p -> a <> b ->
  nth_error (gs p) a = Some (GRun (USend c :: ra)) ->
  nth_error (gs p) b = Some (GRun (URecv c :: rb)) ->
  step P fs (mk p) (Sync (S a) (S b)) = Some (mk (p_user p a b c ra rb)).
Proof.
  intros W Hab Ha Hb. pose proof (gs_lt p a _ W Ha) as Hga. pose proof (gs_lt p b _ W Hb) as Hgb.
  unfold step, sync_step. change (S a =? S b) with (a =? b).
  replace (a =? b) with false by (symmetry; apply Nat.eqb_neq; exact Hab). cbv iota.
  rewrite !thr_g, Ha, Hb. cbn [option_map]. rewrite !wants_g by assumption.
  cbn [chan_eqb]. rewrite Nat.eqb_refl. cbv iota.
  unfold after_send, after_recv. rewrite !cur_g by assumption. cbn [gpc gbody nth_error].
  cbn [gthread scr option_map tl].
  change (set_scr (gthread a (GRun (USend c :: ra))) (Some ra)) with (gthread (0 + a) (GRun ra)).
  change (set_scr (gthread b (GRun (URecv c :: rb))) (Some rb)) with (gthread (0 + b) (GRun rb)).
  unfold mk, p_user. cbn [thr cells buf log racy gs lg upd].
  rewrite !mapi_from_upd. f_equal. f_equal.
  symmetry. apply cells_same; [reflexivity|]. intros x Hx. unfold st. cbn [gs]. rewrite !nth_upd, upd_length.
  destruct (Nat.eqb_spec x b).
  - subst x. replace (b <? length (gs p)) with true by (symmetry; apply Nat.ltb_lt; apply nth_error_Some; congruence).
    rewrite (nth_error_nth _ _ _ Hb). reflexivity.
  - destruct (Nat.eqb_spec x a); [|reflexivity]. subst x.
    replace (a <? length (gs p)) with true by (symmetry; apply Nat.ltb_lt; apply nth_error_Some; congruence).
    rewrite (nth_error_nth _ _ _ Ha). reflexivity.
Qed.

(* ---------- completeness: every step of a canonical state is one of the transitions ---------- *)
Lemma trans_sound p a p' : Wf p -> trans p a p' -> step P fs (mk p) a = Some (mk p').
Proof.
  intros W T. destruct T.
  - apply step_spawn; assumption.
  - apply step_head; assumption.
  - apply step_ifnil; assumption.
  - apply step_ifset; assumption.
  - apply step_seterr; [apply wf_ret_false; [assumption|lia] | assumption].
  - apply step_next; assumption.
  - apply step_ret; assumption.
  - apply step_begin; assumption.
  - apply step_write; assumption.
  - apply step_recv; assumption.
  - apply step_user; assumption.
Qed.

Lemma tau_main_cases p s' : Wf p -> mpc p <= n + 7 ->
  step P fs (mk p) (Tau 0) = Some s' -> exists p', trans p (Tau 0) p' /\ s' = mk p'.
Proof.
  intros W Hb H. destruct (Nat.lt_ge_cases (mpc p) n) as [Hlt|Hge].
  - rewrite step_spawn in H by assumption. inversion H. eexists; split; [apply t_spawn; exact Hlt|reflexivity].
  - assert (E : mpc p = n + (mpc p - n)) by lia. remember (mpc p - n) as j eqn:Ej. clear Ej.
    destruct j as [|[|[|[|[|[|[|j]]]]]]].
    + rewrite Nat.add_0_r in E. rewrite step_head in H by exact E. inversion H.
      eexists; split; [apply t_head; exact E|reflexivity].
    + exfalso. revert H. unfold step, mk; cbn [thr nth_error]. unfold tau_step. rewrite cur_main.
      replace (mpc p <? n) with false by (symmetry; apply Nat.ltb_ge; lia).
      replace (mpc p - n) with 1 by lia. cbn. discriminate.
    + rewrite step_ifnil in H by exact E. inversion H. eexists; split; [apply t_ifnil; exact E|reflexivity].
    + rewrite step_ifset in H by exact E. inversion H. eexists; split; [apply t_ifset; exact E|reflexivity].
    + rewrite step_seterr in H by first [exact E | apply wf_ret_false; [exact W|lia]]. inversion H.
      eexists; split; [apply t_seterr; exact E|reflexivity].
    + rewrite step_next in H by exact E. inversion H. eexists; split; [apply t_next; exact E|reflexivity].
    + rewrite step_ret in H by assumption. inversion H. eexists; split; [apply t_ret; exact E|reflexivity].
    + exfalso. revert H. unfold step, mk; cbn [thr nth_error]. unfold tau_step. rewrite cur_main.
      replace (mpc p <? n) with false by (symmetry; apply Nat.ltb_ge; lia).
      replace (mpc p - n) with (7 + j) by lia. destruct j; cbn; discriminate.
Qed.

Lemma tau_g_cases p g s' : Wf p ->
  step P fs (mk p) (Tau (S g)) = Some s' -> exists p', trans p (Tau (S g)) p' /\ s' = mk p'.
Proof.
  intros W H. destruct (nth_error (gs p) g) as [x|] eqn:E.
  2: { exfalso. revert H. unfold step. rewrite thr_g, E. discriminate. }
  pose proof (gs_lt p g _ W E) as Hg.
  destruct x as [|[|o r]| |].
  - rewrite step_begin in H by assumption. inversion H. eexists; split; [apply t_begin; exact E|reflexivity].
  - rewrite step_write in H by assumption. inversion H. eexists; split; [apply t_write; exact E|reflexivity].
  - exfalso. revert H. unfold step. rewrite thr_g, E. cbn [option_map]. unfold tau_step.
    rewrite cur_g by exact Hg. cbn [gpc gbody nth_error]. rewrite fs_nth by exact Hg. cbn. discriminate.
  - exfalso. revert H. unfold step. rewrite thr_g, E. cbn [option_map]. unfold tau_step.
    rewrite cur_g by exact Hg. cbn. discriminate.
  - exfalso. revert H. unfold step. rewrite thr_g, E. cbn [option_map]. unfold tau_step.
    rewrite cur_g by exact Hg. cbn. discriminate.
Qed.

Lemma sync_cases p a b s' : Wf p ->
  step P fs (mk p) (Sync a b) = Some s' -> exists p', trans p (Sync a b) p' /\ s' = mk p'.
Proof.
  intros W H. pose proof H as H0. revert H0. unfold step, sync_step.
  destruct (Nat.eqb_spec a b) as [|Hab]; [discriminate|].
  destruct a as [|a].
  { (* the caller never sends *)
    cbn [mk thr nth_error]. destruct (nth_error _ b); [|discriminate].
    destruct (wants_main p) as [[_ Hw]|[_ [Hw|Hw]]]; rewrite Hw; discriminate. }
  rewrite thr_g. destruct (nth_error (gs p) a) as [x|] eqn:Ea; [|discriminate]. cbn [option_map].
  pose proof (gs_lt p a _ W Ea) as Hga. rewrite wants_g by exact Hga.
  destruct b as [|b].
  - cbn [mk thr nth_error].
    destruct (wants_main p) as [[Hpc Hw]|[_ [Hw|Hw]]]; rewrite Hw.
    2,3: destruct x as [|[|[c|c] r]| |]; discriminate.
    destruct x as [|[|[c|c] r]| |]; try discriminate. intros _.
    rewrite step_recv in H by assumption. inversion H.
    eexists; split; [apply t_recv; assumption|reflexivity].
  - rewrite thr_g. destruct (nth_error (gs p) b) as [y|] eqn:Eb; [|destruct x as [|[|[c|c] r]| |]; discriminate].
    cbn [option_map]. pose proof (gs_lt p b _ W Eb) as Hgb. rewrite wants_g by exact Hgb.
    destruct x as [|[|[c|c] r]| |]; try discriminate;
    destruct y as [|[|[c'|c'] r']| |]; try discriminate.
    cbn [chan_eqb]. destruct (Nat.eqb_spec c c') as [<-|]; [|discriminate]. intros _.
    assert (Hab' : a <> b) by (intros ->; apply Hab; reflexivity).
    rewrite (step_user p a b c r r') in H by assumption. inversion H.
    exists (p_user p a b c r r'); split; [apply t_user; assumption|reflexivity].
Qed.

Theorem step_complete p a s' : Wf p -> mpc p <= n + 7 ->
  step P fs (mk p) a = Some s' -> exists p', trans p a p' /\ s' = mk p'.
Proof.
  intros W Hb H. destruct a as [[|g]|a b].
  - apply tau_main_cases; assumption.
  - apply tau_g_cases; assumption.
  - apply sync_cases; assumption.
Qed.

End CANON.
