(* Do/LogInv.v — what the event log of every reachable state of [expected n] looks like:
   all goroutines are started before the first receive; the caller returns only after n
   receives, each of which comes after the sender stored its result. *)
From Verif Require Import Base Do.Sem Do.Canon Do.Proofs.

Local Arguments Nat.ltb : simpl never.
Local Arguments Nat.eqb : simpl never.

Fixpoint log_all (ok : event -> list event -> Prop) (l : list event) : Prop :=
  match l with
  | [] => True
  | e :: old => ok e old /\ log_all ok old
  end.

Lemma log_all_split ok l1 e l2 : log_all ok (l1 ++ e :: l2) -> ok e l2.
Proof. induction l1 as [|x l1 IH]; cbn; intros [H1 H2]; [exact H1 | apply IH; exact H2]. Qed.

Section LOG.
Variable n : nat.
Variable fs : list ufun.
Hypothesis Hfs : length fs = n.

Notation fn := (fn fs).
Notation trans := (trans n fs).
Notation mk := (mk n fs).

(* log is newest first: [old] is everything that happened before [e] *)
Definition ev_ok (e : event) (old : list event) : Prop :=
  match e with
  | EvRecv _ from _ => count_spawn old = n /\ exists v, In (EvWrite from (pred from) v) old
  | EvRet _ _ _ _ => count_recv old = n /\ forall c, c < n -> count_write c old = 1
  | _ => True
  end.

Definition LogC (p : params) : Prop :=
  log_all ev_ok (lg p) /\
  count_spawn (lg p) = length (gs p) /\
  count_recv (lg p) = length (rcv p) /\
  recv_order (lg p) = map S (rcv p) /\
  (forall c, c < n -> count_write c (lg p) = if written (st p c) then 1 else 0) /\
  (forall g, g < length (gs p) -> written (st p g) = true -> In (EvWrite (S g) g (rv (fn g))) (lg p)).

Lemma logc_p0 : LogC p0.
Proof.
  unfold LogC, p0, st; cbn. repeat split; intros; try lia. destruct c; reflexivity.
Qed.

Lemma written_upd (l : list gst) g x x0 c :
  nth_error l g = Some x0 -> written x = written x0 ->
  written (nth c (upd l g x) GNew) = written (nth c l GNew).
Proof.
  intros H Hw. rewrite nth_upd. destruct (Nat.eqb_spec c g) as [->|]; [|reflexivity].
  replace (g <? length l) with true by (symmetry; apply Nat.ltb_lt; apply nth_error_Some; congruence).
  rewrite (nth_error_nth _ _ _ H). exact Hw.
Qed.

Ltac split6 := split; [|split; [|split; [|split; [|split]]]].

Lemma logc_step p a p' : Cond n fs p -> LogC p -> trans p a p' -> LogC p'.
Proof.
  intros C (L1 & L2 & L3 & L4 & L5 & L6) T.
  pose proof (cond_all_done n fs Hfs p C) as Hall.
  destruct C as (Hb & HL & Hret & Hnd & HE & (F1 & F2 & F3 & F4 & F5)).
  destruct T; unfold LogC, with_pc, with_main, with_g, p_spawn, p_recv, p_user, p_ret, st in *;
    cbn [mpc mcnt merrc merr mret rcv gs lg log_all ev_ok count_spawn count_recv count_write recv_order] in *;
    try (split6; assumption).
  - (* spawn *)
    assert (Hw : forall c, written (nth c (gs p ++ [GNew]) GNew) = written (nth c (gs p) GNew)).
    { intros c. destruct (Nat.lt_ge_cases c (length (gs p))).
      - rewrite app_nth1 by lia. reflexivity.
      - rewrite app_nth2 by lia. rewrite (nth_overflow (gs p)) by lia.
        destruct (c - length (gs p)) as [|[|k]]; reflexivity. }
    split6; try assumption.
    + split; [exact I|assumption].
    + rewrite app_length; cbn. lia.
    + intros c Hc. rewrite Hw. apply L5. exact Hc.
    + intros g Hg Hwr. rewrite Hw in Hwr. right. apply L6; [|exact Hwr].
      destruct (Nat.lt_ge_cases g (length (gs p))); [assumption|].
      rewrite (nth_overflow (gs p)) in Hwr by lia. discriminate.
  - (* return *)
    assert (Hp6 : n + 6 <= mpc p) by lia.
    assert (Hp2 : mpc p <= n + 1 \/ n + 6 <= mpc p) by lia.
    destruct (F2 Hp2) as [Hlen _]. specialize (F4 Hp6).
    split6; try assumption.
    + split; [|assumption]. split; [lia|]. intros c Hc. rewrite L5 by exact Hc.
      destruct (Hall Hp6 c Hc) as [Hd _]. unfold st in Hd. rewrite Hd. reflexivity.
    + intros g Hg Hwr. right. apply L6; assumption.
  - (* call starts *)
    pose proof (fun c => written_upd (gs p) g (GRun (script (fn g))) GNew c H eq_refl) as Hw.
    split6; try assumption.
    + split; [exact I|assumption].
    + rewrite upd_length. assumption.
    + intros c Hc. rewrite Hw. apply L5. exact Hc.
    + intros k Hk Hwr. rewrite upd_length in Hk. rewrite Hw in Hwr. right. apply L6; assumption.
  - (* result stored *)
    assert (Hg : g < length (gs p)) by (apply nth_error_Some; congruence).
    assert (Hgn : g < n) by lia.
    split6; try assumption.
    + split; [exact I|assumption].
    + rewrite upd_length. assumption.
    + intros c Hc. rewrite nth_upd. destruct (Nat.eqb_spec c g) as [->|Hne].
      * replace (g <? length (gs p)) with true by (symmetry; apply Nat.ltb_lt; exact Hg).
        rewrite (L5 g Hgn). rewrite (nth_error_nth _ _ _ H). reflexivity.
      * apply L5. exact Hc.
    + intros k Hk Hwr. rewrite upd_length in Hk. rewrite nth_upd in Hwr.
      destruct (Nat.eqb_spec k g) as [->|Hne]; [left; reflexivity|]. right. apply L6; assumption.
  - (* receive *)
    assert (Hg : g < length (gs p)) by (apply nth_error_Some; congruence).
    pose proof (fun c => written_upd (gs p) g GDone GReady c H eq_refl) as Hw.
    split6.
    + split; [|assumption]. split.
      * rewrite L2, HL. apply Nat.min_r. lia.
      * exists (rv (fn g)). cbn [pred]. apply L6; [exact Hg|]. rewrite (nth_error_nth _ _ _ H). reflexivity.
    + rewrite upd_length. assumption.
    + rewrite app_length; cbn. lia.
    + rewrite L4, map_app. reflexivity.
    + intros c Hc. rewrite Hw. apply L5. exact Hc.
    + intros k Hk Hwr. rewrite upd_length in Hk. rewrite Hw in Hwr. right. apply L6; assumption.
  - (* user rendezvous *)
    assert (H1' : nth_error (upd (gs p) a (GRun ra)) b = Some (GRun (URecv c :: rb))).
    { rewrite <- H1. clear -H. revert a b H. induction (gs p) as [|x l IH]; intros [|a] [|b] Hab; cbn; try reflexivity; try congruence.
      apply IH. congruence. }
    assert (Hw : forall k, written (nth k (upd (upd (gs p) a (GRun ra)) b (GRun rb)) GNew) = written (nth k (gs p) GNew)).
    { intros k. rewrite (written_upd _ b (GRun rb) _ k H1' eq_refl).
      apply (written_upd _ a (GRun ra) _ k H0 eq_refl). }
    split6; try assumption.
    + split; [exact I|assumption].
    + rewrite !upd_length. assumption.
    + intros k Hk. rewrite Hw. apply L5. exact Hk.
    + intros k Hk Hwr. rewrite !upd_length in Hk. rewrite Hw in Hwr. right. apply L6; assumption.
Qed.

Lemma reach_log s : R n fs s -> exists p, s = mk p /\ Cond n fs p /\ LogC p.
Proof.
  induction 1 as [|s a s' Hr IH Hs].
  - exists p0. split; [symmetry; apply mk_p0 | split; [apply cond_p0; exact Hfs | apply logc_p0]].
  - destruct IH as (p & -> & C & LC).
    destruct (step_complete n fs Hfs p a s' (cond_wf n fs Hfs p C) (proj1 C) Hs) as (p' & T & ->).
    exists p'. split; [reflexivity|]. split; [eapply cond_step; eassumption | eapply logc_step; eassumption].
Qed.

(* every goroutine is started before the caller waits for any *)
Theorem starts_all_first s l1 t from e l2 : R n fs s ->
  log s = l1 ++ EvRecv t from e :: l2 -> count_spawn l2 = n.
Proof.
  intros Hr Hl. destruct (reach_log s Hr) as (p & -> & C & (L1 & _)). cbn [Canon.mk log] in Hl.
  rewrite Hl in L1. apply log_all_split in L1. apply L1.
Qed.

(* the caller returns only after n receives and after every result was stored exactly once;
   every receive comes after the sender stored its result *)
Theorem waits_for_all s : R n fs s ->
  (forall l1 t cs vs e l2, log s = l1 ++ EvRet t cs vs e :: l2 ->
     count_recv l2 = n /\ forall c, c < n -> count_write c l2 = 1) /\
  (forall l1 t from e l2, log s = l1 ++ EvRecv t from e :: l2 ->
     exists v, In (EvWrite from (pred from) v) l2).
Proof.
  intros Hr. destruct (reach_log s Hr) as (p & -> & C & (L1 & _)). cbn [Canon.mk log]. split.
  - intros l1 t cs vs e l2 Hl. rewrite Hl in L1. apply log_all_split in L1. exact L1.
  - intros l1 t from e l2 Hl. rewrite Hl in L1. apply log_all_split in L1. apply L1.
Qed.

(* the order in which the errors were received determines the error that is returned *)
Theorem error_is_first_received s vs e : R n fs s -> main_ret s = Some (vs, e) ->
  e = first_err fs (map pred (recv_order (log s))).
Proof.
  intros Hr Hm. destruct (reach_log s Hr) as (p & -> & C & (_ & _ & _ & L4 & _)).
  rewrite main_ret_mk in Hm. destruct (mret p) eqn:Er; [|discriminate]. injection Hm as Hv He. rewrite <- He.
  destruct (returned_facts n fs Hfs p C Er) as (_ & _ & Herr & _).
  cbn [Canon.mk log]. rewrite L4, map_map. cbn [pred]. rewrite map_id. exact Herr.
Qed.

End LOG.
