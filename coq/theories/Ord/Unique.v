(* Ord/Unique.v — a sorted arrangement is unique up to the order's equivalence: two lists that
   are permutations of each other and both sorted w.r.t. a strict weak order agree position by
   position up to "neither is less".  Hence every sorter that meets the contract of
   Ord/Sorter.v returns, position by position, elements on which the generated Compare is 0
   against the insertion sort used by the evaluator: comparing the real output of sort.Slice
   (not stable) with the model's output up to that equivalence loses nothing. *)
From Verif Require Import Go.Ty Go.Val Go.Compare Go.CompareSpec Ord.Sorter Ord.Model Ord.Proofs.
From Coq Require Import Lia Permutation Sorted.
Open Scope Z_scope.

Section Generic.
Context {A : Type}.
Variable lt : A -> A -> bool.

Definition cnt (p : A -> bool) (l : list A) : nat := length (filter p l).

Lemma cnt_perm p l l' : Permutation l l' -> cnt p l = cnt p l'.
Proof.
  unfold cnt. induction 1; cbn.
  - reflexivity.
  - destruct (p x); cbn; congruence.
  - destruct (p x), (p y); reflexivity.
  - congruence.
Qed.

Definition equiv (a b : A) : Prop := lt a b = false /\ lt b a = false.

Lemma sorted_counts_equiv U : strict_weak lt U ->
  forall l1 l2, (forall a, In a l1 -> In a U) -> (forall a, In a l2 -> In a U) ->
  length l1 = length l2 ->
  (forall x, In x U -> cnt (fun y => lt y x) l1 = cnt (fun y => lt y x) l2) ->
  StronglySorted (not_after lt) l1 -> StronglySorted (not_after lt) l2 ->
  Forall2 equiv l1 l2.
Proof.
  intros SW. induction l1 as [|a l1 IH]; intros [|b l2] U1 U2 L C S1 S2; cbn in L; try discriminate; [constructor|].
  inversion S1 as [|? ? S1' F1]; subst. inversion S2 as [|? ? S2' F2]; subst.
  rewrite Forall_forall in F1, F2. unfold not_after in F1, F2.
  assert (Ua : In a U) by (apply U1; left; reflexivity).
  assert (Ub : In b U) by (apply U2; left; reflexivity).
  assert (Z : forall h t, In h U -> (forall c, In c t -> lt c h = false) -> cnt (fun y => lt y h) (h :: t) = 0%nat).
  { intros h t Uh Ht. unfold cnt. cbn. rewrite (sw_irrefl lt U SW h Uh).
    induction t as [|c t IHt]; [reflexivity|]. cbn. rewrite (Ht c (or_introl eq_refl)). apply IHt.
    intros c' Hc'. apply Ht. right. exact Hc'. }
  assert (E : equiv a b).
  { split.
    - destruct (lt a b) eqn:Lab; [|reflexivity]. exfalso.
      pose proof (C b Ub) as Cb. rewrite (Z b l2 Ub F2) in Cb. unfold cnt in Cb. cbn in Cb. rewrite Lab in Cb. discriminate.
    - destruct (lt b a) eqn:Lba; [|reflexivity]. exfalso.
      pose proof (C a Ua) as Ca. rewrite (Z a l1 Ua F1) in Ca. unfold cnt in Ca. cbn in Ca. rewrite Lba in Ca. discriminate. }
  constructor; [exact E|].
  apply IH; try assumption.
  - intros c Hc. apply U1. right. exact Hc.
  - intros c Hc. apply U2. right. exact Hc.
  - lia.
  - intros x Ux. specialize (C x Ux). unfold cnt in *. cbn in C.
    assert (Q : lt a x = lt b x).
    { destruct E as [E1 E2]. destruct (lt a x) eqn:Lax, (lt b x) eqn:Lbx; try reflexivity.
      - pose proof (sw_negtrans lt U SW a b x Ua Ub Ux E1 Lbx). congruence.
      - pose proof (sw_negtrans lt U SW b a x Ub Ua Ux E2 Lax). congruence. }
    rewrite Q in C. destruct (lt b x); cbn in C; lia.
Qed.

Theorem sorted_perms_equiv l1 l2 : strict_weak lt l1 -> Permutation l1 l2 ->
  StronglySorted (not_after lt) l1 -> StronglySorted (not_after lt) l2 -> Forall2 equiv l1 l2.
Proof.
  intros SW P S1 S2. apply (sorted_counts_equiv l1 SW); auto.
  - intros a Ha. apply (Permutation_in _ (Permutation_sym P)). exact Ha.
  - apply Permutation_length. exact P.
  - intros x _. apply cnt_perm. exact P.
Qed.
End Generic.

(* any two sorters with the contract agree up to Compare = 0, position by position *)
Theorem sort_unique_up_to_equiv (s1 s2 : @sorter val) : sorter_ok s1 -> sorter_ok s2 ->
  forall e t l l1 l2, Forall (fun x => has_type e t x = true) l ->
  sort_list s1 e t l = Ok l1 -> sort_list s2 e t l = Ok l2 ->
  Forall2 (fun a b => cmpm e t a b = Ok 0) l1 l2.
Proof.
  intros H1 H2 e t l l1 l2 HT E1 E2. rewrite Forall_forall in HT. unfold sort_list in E1, E2.
  destruct (status (less_by (sort_kind e t) e t) l) as [[]| | |] eqn:S; cbn in E1, E2; try discriminate.
  inversion E1; subst l1. inversion E2; subst l2. clear E1 E2.
  pose proof (status_ok _ l S) as D.
  assert (Hk : sort_kind e t = sort_kind e t \/ sort_kind e t = minmax_kind e t) by (left; reflexivity).
  pose proof (sw_less e t _ l Hk HT D) as SW.
  pose proof (defined_lt e t _ l Hk HT D) as DC.
  set (lt := fun x y => tot (less_by (sort_kind e t) e t x y)) in *.
  destruct (H1 lt l) as [P1 S1]. destruct (H2 lt l) as [P2 S2]. specialize (S1 SW). specialize (S2 SW).
  assert (I1 : forall a, In a (s1 lt l) -> In a l) by (intros a; apply Permutation_in; exact P1).
  assert (I2 : forall a, In a (s2 lt l) -> In a l) by (intros a; apply Permutation_in; exact P2).
  assert (F : Forall2 (equiv lt) (s1 lt l) (s2 lt l)).
  { apply sorted_perms_equiv; try assumption.
    - apply (sw_incl lt l); assumption.
    - transitivity l; [exact P1| symmetry; exact P2]. }
  assert (G : forall a b, In a l -> In b l -> equiv lt a b -> cmpm e t a b = Ok 0).
  { intros a b Ha Hb [Q1 Q2]. unfold lt in Q1, Q2.
    rewrite <- (tot_lt e t _ l Hk HT D a b Ha Hb) in Q1. rewrite <- (tot_lt e t _ l Hk HT D b a Hb Ha) in Q2.
    apply Z.ltb_ge in Q1, Q2. pose proof (cz_antisym e t l HT DC a b Ha Hb).
    rewrite (cz_ok e t l DC a b Ha Hb). f_equal. lia. }
  clear -F G I1 I2. induction F as [|a b la lb Eab F IH]; constructor.
  - apply G; [apply I1; left; reflexivity| apply I2; left; reflexivity| exact Eab].
  - apply IH; intros c Hc; [apply I1| apply I2]; right; exact Hc.
Qed.
