(* Ord/Sorter.v — the contract of the standard library's sort.Slice / sort.Strings / sort.Ints /
   sort.Float64s as it is used by the code plugin/sort emits, an executable instance
   (insertion sort) that meets it, and the linear scan of plugin/min and plugin/max over an
   abstract "better than" test.  Everything here is generic in the element type; C13.

   sort.Interface asks of Less: "Less must describe a transitive ordering: if both Less(i, j)
   and Less(j, k) are true, then Less(i, k) must be true as well; if both Less(i, j) and
   Less(j, k) are false, then Less(i, k) must be false as well", and promises, for such a Less,
   a permutation of the data in which no later element is Less than an earlier one.  The sort
   is not stable. *)
From Verif Require Import Base.
From Coq Require Import Permutation Sorted Lia.

Section Generic.
Context {A : Type}.

(* a strict weak order on the elements of a list *)
Record strict_weak (less : A -> A -> bool) (l : list A) : Prop := {
  sw_irrefl : forall a, In a l -> less a a = false;
  sw_trans : forall a b c, In a l -> In b l -> In c l ->
               less a b = true -> less b c = true -> less a c = true;
  sw_negtrans : forall a b c, In a l -> In b l -> In c l ->
               less a b = false -> less b c = false -> less a c = false
}.

Lemma sw_asym less l : strict_weak less l ->
  forall a b, In a l -> In b l -> less a b = true -> less b a = false.
Proof.
  intros SW a b Ha Hb Hab. destruct (less b a) eqn:Hba; [|reflexivity].
  pose proof (sw_trans less l SW a b a Ha Hb Ha Hab Hba) as C.
  rewrite (sw_irrefl less l SW a Ha) in C. discriminate.
Qed.

Lemma sw_incl less l l' : (forall a, In a l' -> In a l) -> strict_weak less l -> strict_weak less l'.
Proof.
  intros I SW. constructor.
  - intros a Ha. apply (sw_irrefl less l SW); auto.
  - intros a b c Ha Hb Hc. apply (sw_trans less l SW); auto.
  - intros a b c Ha Hb Hc. apply (sw_negtrans less l SW); auto.
Qed.

(* "b does not come strictly before a": the relation between an earlier and a later element
   of a sorted slice *)
Definition not_after (less : A -> A -> bool) (a b : A) : Prop := less b a = false.

Definition sorter := (A -> A -> bool) -> list A -> list A.

(* the stdlib contract *)
Definition sorter_ok (s : sorter) : Prop :=
  forall less l,
    Permutation (s less l) l /\
    (strict_weak less l -> StronglySorted (not_after less) (s less l)).

(* ---------- insertion sort: the instance used for evaluation ---------- *)
Fixpoint ins (less : A -> A -> bool) (a : A) (l : list A) : list A :=
  match l with
  | [] => [a]
  | b :: l' => if less a b then a :: l else b :: ins less a l'
  end.
Definition isort : sorter := fun less l => fold_right (ins less) [] l.

Lemma ins_perm less a l : Permutation (ins less a l) (a :: l).
Proof.
  induction l as [|b l IH]; cbn; [reflexivity|].
  destruct (less a b); [reflexivity|]. rewrite IH. apply perm_swap.
Qed.

Lemma isort_perm less l : Permutation (isort less l) l.
Proof.
  induction l as [|a l IH]; cbn; [reflexivity|].
  rewrite ins_perm. constructor. exact IH.
Qed.

Lemma ins_sorted less U a l : strict_weak less U -> In a U -> (forall b, In b l -> In b U) ->
  StronglySorted (not_after less) l -> StronglySorted (not_after less) (ins less a l).
Proof.
  intros SW Ha Hl S. induction S as [|b l S IH F]; cbn.
  - constructor; constructor.
  - assert (Hb : In b U) by (apply Hl; left; reflexivity).
    assert (Hl' : forall c, In c l -> In c U) by (intros c Hc; apply Hl; right; exact Hc).
    destruct (less a b) eqn:Lab.
    + constructor; [constructor; assumption|].
      assert (Nba : less b a = false) by (apply (sw_asym less U SW a b); assumption).
      constructor; [exact Nba|].
      rewrite Forall_forall in *. intros c Hc. unfold not_after in *.
      apply (sw_negtrans less U SW c b a); auto.
    + constructor; [apply IH; exact Hl'|].
      rewrite Forall_forall in *. intros c Hc.
      apply (Permutation_in _ (ins_perm less a l)) in Hc. destruct Hc as [<-|Hc].
      * exact Lab.
      * apply F; exact Hc.
Qed.

Lemma isort_sorted less l : strict_weak less l -> StronglySorted (not_after less) (isort less l).
Proof.
  intros SW.
  assert (G : forall l', (forall a, In a l' -> In a l) -> StronglySorted (not_after less) (isort less l')).
  { induction l' as [|a l' IH]; intros I; cbn; [constructor|].
    apply (ins_sorted less l); [exact SW| apply I; left; reflexivity| |apply IH; intros b Hb; apply I; right; exact Hb].
    intros b Hb. apply I. right. apply (Permutation_in _ (isort_perm less l')). exact Hb. }
  apply G. auto.
Qed.

Theorem isort_ok : sorter_ok isort.
Proof. intros less l. split; [apply isort_perm| apply isort_sorted]. Qed.

(* ---------- the scan of deriveMin / deriveMax ----------
     m := list[0]; list = list[1:]
     for i, v := range list { if better(v, m) { m = list[i] } }
   [scan_lit] keeps the index and reads list[i] as the emitted code does; [scanb] is the same
   loop reading v. *)
Fixpoint scanb (better : A -> A -> bool) (m : A) (l : list A) : A :=
  match l with
  | [] => m
  | v :: l' => scanb better (if better v m then v else m) l'
  end.

Fixpoint scan_lit (better : A -> A -> bool) (full : list A) (i : nat) (m : A) (rest : list A) : option A :=
  match rest with
  | [] => Some m
  | v :: rest' =>
      if better v m then
        match nth_error full i with
        | Some w => scan_lit better full (S i) w rest'
        | None => None              (* index out of range: the emitted code would panic *)
        end
      else scan_lit better full (S i) m rest'
  end.

Lemma scan_lit_scanb better done rest m :
  scan_lit better (done ++ rest) (length done) m rest = Some (scanb better m rest).
Proof.
  revert done m. induction rest as [|v rest IH]; intros done m; cbn; [reflexivity|].
  assert (E : done ++ v :: rest = (done ++ [v]) ++ rest) by (rewrite <- app_assoc; reflexivity).
  assert (L : S (length done) = length (done ++ [v])) by (rewrite app_length; cbn; lia).
  destruct (better v m).
  - rewrite nth_error_app2 by lia. rewrite Nat.sub_diag. cbn. rewrite E, L. apply IH.
  - rewrite E, L. apply IH.
Qed.

(* the scan returns the first element that no element is better than *)
Lemma scanb_inv better U : strict_weak better U ->
  forall l pre m mid, (forall a, In a (pre ++ m :: mid ++ l) -> In a U) ->
  (forall y, In y pre -> better m y = true) ->
  (forall y, In y mid -> better y m = false) ->
  exists pre' post', pre ++ m :: mid ++ l = pre' ++ scanb better m l :: post' /\
    (forall y, In y pre' -> better (scanb better m l) y = true) /\
    (forall y, In y post' -> better y (scanb better m l) = false).
Proof.
  intros SW. induction l as [|v l IH]; intros pre m mid HU Hpre Hmid; cbn [scanb].
  - exists pre, mid. rewrite app_nil_r. auto.
  - assert (Um : In m U) by (apply HU; apply in_or_app; right; left; reflexivity).
    assert (Uv : In v U).
    { apply HU. apply in_or_app. right. right. apply in_or_app. right. left. reflexivity. }
    assert (Upre : forall y, In y pre -> In y U) by (intros y Hy; apply HU; apply in_or_app; left; exact Hy).
    assert (Umid : forall y, In y mid -> In y U).
    { intros y Hy. apply HU. apply in_or_app. right. right. apply in_or_app. left. exact Hy. }
    destruct (better v m) eqn:B.
    + (* v becomes the best: everything seen so far is strictly worse *)
      destruct (IH (pre ++ m :: mid) v []) as (pre' & post' & E & P1 & P2).
      * intros a Ha. apply HU. rewrite <- app_assoc in Ha. cbn in Ha. cbn.
        apply in_app_or in Ha. apply in_or_app. destruct Ha as [Ha|Ha]; [left; exact Ha|right].
        destruct Ha as [Ha|Ha]; [left; exact Ha|right].
        apply in_app_or in Ha. apply in_or_app. destruct Ha as [Ha|Ha]; [left; exact Ha|right]. exact Ha.
      * intros y Hy. apply in_app_or in Hy. destruct Hy as [Hy|[<-|Hy]].
        -- apply (sw_trans better U SW v m y); auto.
        -- exact B.
        -- destruct (better v y) eqn:Bvy; [reflexivity|].
           pose proof (sw_negtrans better U SW v y m Uv (Umid y Hy) Um Bvy (Hmid y Hy)) as C. congruence.
      * intros y [].
      * exists pre', post'. split; [|split; assumption].
        rewrite <- E. rewrite <- !app_assoc. cbn. reflexivity.
    + destruct (IH pre m (mid ++ [v])) as (pre' & post' & E & P1 & P2).
      * intros a Ha. apply HU. rewrite <- app_assoc in Ha. exact Ha.
      * exact Hpre.
      * intros y Hy. apply in_app_or in Hy. destruct Hy as [Hy|[<-|[]]]; [apply Hmid; exact Hy| exact B].
      * exists pre', post'. split; [|split; assumption].
        rewrite <- E. rewrite <- !app_assoc. cbn. reflexivity.
Qed.

Theorem scanb_first_best better m l : strict_weak better (m :: l) ->
  exists pre post, m :: l = pre ++ scanb better m l :: post /\
    (forall y, In y pre -> better (scanb better m l) y = true) /\
    (forall y, In y post -> better y (scanb better m l) = false).
Proof.
  intros SW. destruct (scanb_inv better (m :: l) SW l [] m []) as (pre & post & E & P1 & P2).
  - intros a Ha. exact Ha.
  - intros y [].
  - intros y [].
  - exists pre, post. cbn in E. auto.
Qed.

Corollary scanb_best better m l : strict_weak better (m :: l) ->
  In (scanb better m l) (m :: l) /\ forall y, In y (m :: l) -> better y (scanb better m l) = false.
Proof.
  intros SW. destruct (scanb_first_best better m l SW) as (pre & post & E & P1 & P2).
  assert (I : In (scanb better m l) (m :: l)) by (rewrite E; apply in_or_app; right; left; reflexivity).
  split; [exact I|].
  intros y Hy. rewrite E in Hy. apply in_app_or in Hy. destruct Hy as [Hy|[<-|Hy]].
  - apply (sw_asym better (m :: l) SW); [exact I| rewrite E; apply in_or_app; left; exact Hy| apply P1; exact Hy].
  - apply (sw_irrefl better (m :: l) SW). exact I.
  - apply P2. exact Hy.
Qed.

End Generic.

(* non-vacuity: insertion sort with < on numbers, duplicates included *)
Example isort_example : isort Nat.ltb [3; 1; 2; 1; 0] = [0; 1; 1; 2; 3].
Proof. reflexivity. Qed.
Example strict_weak_ltb l : strict_weak Nat.ltb l.
Proof.
  constructor.
  - intros a _. apply Nat.ltb_irrefl.
  - intros a b c _ _ _ H1 H2. apply Nat.ltb_lt in H1, H2. apply Nat.ltb_lt. lia.
  - intros a b c _ _ _ H1 H2. apply Nat.ltb_ge in H1, H2. apply Nat.ltb_ge. lia.
Qed.
Example scan_example : scanb Nat.ltb 3 [1; 2; 1; 5] = 1 /\ scan_lit Nat.ltb [1; 2; 1; 5] 0 3 [1; 2; 1; 5] = Some 1.
Proof. split; reflexivity. Qed.
