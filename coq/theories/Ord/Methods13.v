(* Ord/Methods13.v — C13 over an ARBITRARY compare function.

   The theorems of Ord/Proofs.v are about element types without user methods: there the
   generated Compare is [cmpm] and C03 proves that it is a total preorder with results in
   {-1, 0, 1}.  Where a component of the element type declares its own Compare method the
   generated Compare calls it and passes its result through unchanged
   (`if c := this.F.Compare(that.F); c != 0 { return c }`, `return (&this).Compare(&that)`), so
     * the result can be any integer (a method written as `return int(a.F1) - int(b.F1)`), and
     * whether it is an order at all is up to the user's method.
   This file restates the models of plugin/sort, plugin/min and plugin/max over a compare
   function [cmp : val -> val -> res Z] (the emitted code only tests `cmp(..) < 0` and
   `cmp(..) > 0`), and proves

     1. the specifications for every [cmp] that is a total preorder on the values at hand
        ([tpo_on]: defined, sign-antisymmetric, transitive) — sortedness, first extremal element,
        two-value forms;
     2. that models AND specification predicates depend on the SIGN of the compare results only
        ([sgn_agree]): a compare function that returns magnitudes is handled like its
        normalisation to -1/0/+1 ([norm]);
     3. the instance: [cmp13 e t], the generated Compare of element type [t] as plugin/compare
        emits it, methods included ([cmpm_m true] of Go/Methods.v; [cmpm] for method-free types,
        where the generic models ARE the models of Ord/Model.v);
     4. that the hypothesis [tpo_on] holds for the harness' magnitude methods on every list of
        values, and a boolean decision procedure [tpo_b] for it (used by the evaluator as the
        guard on the real inputs), proved sound. *)
From Verif Require Import Go.Ty Go.Val Go.Compare Go.CompareSpec Go.Methods Ord.Sorter Ord.Model Ord.Proofs.
From Coq Require Import Lia Permutation Sorted.
Open Scope Z_scope.

(* ---------- the models over a compare function ---------- *)
Section Models.
Variable cmp : val -> val -> res Z.

Definition lt_c (x y : val) : res bool := rdo c <- cmp x y; Ok (c <? 0).
Definition gt_c (x y : val) : res bool := rdo c <- cmp x y; Ok (0 <? c).

Definition less_g (k : okind) (x y : val) : res bool :=
  match k with
  | KStdlib | KNatural => of_option (nat_lt x y)
  | KCompare => lt_c x y
  | KIll => Stuck
  end.
Definition greater_g (k : okind) (x y : val) : res bool :=
  match k with
  | KStdlib | KNatural => of_option (nat_lt y x)
  | KCompare => gt_c x y
  | KIll => Stuck
  end.

Definition sort_list_g (srt : @sorter val) (k : okind) (l : list val) : res (list val) :=
  let f := less_g k in
  rdo _ <- status f l;
  Ok (srt (fun x y => tot (f x y)) l).

Definition sort_model_g (srt : @sorter val) (k : okind) (v : val) : res val :=
  match v with
  | VNilS => Ok VNilS
  | VSl loc es sp => rdo es' <- sort_list_g srt k es; Ok (VSl loc es' sp)
  | _ => Stuck
  end.

Definition min_g (k : okind) (lst def : val) : res val :=
  match lst with
  | VNilS => Ok def
  | VSl _ [] _ => Ok def
  | VSl _ (x :: l) _ => scan_res (less_g k) x l
  | _ => Stuck
  end.
Definition max_g (k : okind) (lst def : val) : res val :=
  match lst with
  | VNilS => Ok def
  | VSl _ [] _ => Ok def
  | VSl _ (x :: l) _ => scan_res (greater_g k) x l
  | _ => Stuck
  end.
Definition min2_g (k : okind) (a b : val) : res val :=
  rdo c <- less_g k a b; Ok (if c then a else b).
Definition max2_g (k : okind) (a b : val) : res val :=
  rdo c <- greater_g k a b; Ok (if c then a else b).

(* ---------- the specification predicates, over the same compare function ---------- *)
Definition le_c (x y : val) : Prop := exists c, cmp x y = Ok c /\ c <= 0.
Definition ge_c (x y : val) : Prop := exists c, cmp x y = Ok c /\ 0 <= c.
Definition ltp_c (x y : val) : Prop := exists c, cmp x y = Ok c /\ c < 0.
Definition gtp_c (x y : val) : Prop := exists c, cmp x y = Ok c /\ 0 < c.

(* Sort: a permutation of the input, non-decreasing under the compare function *)
Definition sort_spec (l l' : list val) : Prop := Permutation l' l /\ StronglySorted le_c l'.
(* Min / Max over a non-empty list: an element that no element precedes / follows *)
Definition min_spec (l : list val) (r : val) : Prop := In r l /\ forall y, In y l -> ge_c y r.
Definition max_spec (l : list val) (r : val) : Prop := In r l /\ forall y, In y l -> le_c y r.

(* a total preorder on the values of a list; only signs matter *)
Record tpo_on (U : list val) : Prop := {
  tp_def : forall x y, In x U -> In y U -> exists c, cmp x y = Ok c;
  tp_anti : forall x y c d, In x U -> In y U -> cmp x y = Ok c -> cmp y x = Ok d -> Z.sgn d = - Z.sgn c;
  tp_trans : forall x y z a b c, In x U -> In y U -> In z U ->
               cmp x y = Ok a -> cmp y z = Ok b -> cmp x z = Ok c -> a <= 0 -> b <= 0 -> c <= 0
}.

Lemma tpo_incl U U' : (forall a, In a U' -> In a U) -> tpo_on U -> tpo_on U'.
Proof.
  intros I T. constructor.
  - intros x y Hx Hy. apply (tp_def U T); auto.
  - intros x y c d Hx Hy. apply (tp_anti U T); auto.
  - intros x y z a b c Hx Hy Hz. apply (tp_trans U T); auto.
Qed.

Definition cz_g (x y : val) : Z := match cmp x y with Ok c => c | _ => 0 end.

Lemma sgn_flip c d : Z.sgn d = - Z.sgn c ->
  (c <= 0 <-> 0 <= d) /\ (c < 0 <-> 0 < d) /\ (0 <= c <-> d <= 0) /\ (0 < c <-> d < 0).
Proof. destruct c, d; cbn; intros H; try discriminate; repeat split; intros; lia. Qed.

Section Order.
Variable U : list val.
Hypothesis T : tpo_on U.

Lemma czg_ok x y : In x U -> In y U -> cmp x y = Ok (cz_g x y).
Proof. intros Hx Hy. unfold cz_g. destruct (tp_def U T x y Hx Hy) as [c ->]. reflexivity. Qed.

Lemma czg_anti x y : In x U -> In y U -> Z.sgn (cz_g y x) = - Z.sgn (cz_g x y).
Proof. intros Hx Hy. apply (tp_anti U T x y); auto using czg_ok. Qed.

Lemma czg_refl x : In x U -> cz_g x x = 0.
Proof. intros Hx. pose proof (czg_anti x x Hx Hx) as A. destruct (cz_g x x); cbn in A; try discriminate; reflexivity. Qed.

Lemma czg_trans x y z : In x U -> In y U -> In z U -> cz_g x y <= 0 -> cz_g y z <= 0 -> cz_g x z <= 0.
Proof. intros Hx Hy Hz. apply (tp_trans U T x y z); auto using czg_ok. Qed.

Lemma czg_lt_trans x y z : In x U -> In y U -> In z U -> cz_g x y < 0 -> cz_g y z <= 0 -> cz_g x z < 0.
Proof.
  intros Hx Hy Hz H1 H2.
  pose proof (czg_trans x y z Hx Hy Hz) as T1.
  pose proof (czg_trans y z x Hy Hz Hx) as T2.
  pose proof (sgn_flip _ _ (czg_anti x y Hx Hy)) as (A1 & A2 & A3 & A4).
  pose proof (sgn_flip _ _ (czg_anti x z Hx Hz)) as (B1 & B2 & B3 & B4).
  destruct (Z.ltb_spec (cz_g x z) 0) as [L|G]; [exact L|].
  assert (cz_g y x <= 0) by (apply T2; [exact H2| apply B3; exact G]).
  apply A2 in H1. lia.
Qed.

Lemma tot_lt_g x y : In x U -> In y U -> tot (lt_c x y) = (cz_g x y <? 0).
Proof. intros Hx Hy. unfold lt_c. rewrite (czg_ok x y Hx Hy). reflexivity. Qed.
Lemma tot_gt_g x y : In x U -> In y U -> tot (gt_c x y) = (0 <? cz_g x y).
Proof. intros Hx Hy. unfold gt_c. rewrite (czg_ok x y Hx Hy). reflexivity. Qed.

Lemma sw_lt_g : strict_weak (fun x y => tot (lt_c x y)) U.
Proof.
  apply (strict_weak_ext (fun x y => cz_g x y <? 0)); [intros a b Ha Hb; symmetry; apply tot_lt_g; assumption|].
  constructor.
  - intros a Ha. rewrite (czg_refl a Ha). reflexivity.
  - intros a b c Ha Hb Hc H1 H2. apply Z.ltb_lt in H1, H2. apply Z.ltb_lt.
    apply (czg_lt_trans a b c); try assumption. lia.
  - intros a b c Ha Hb Hc H1 H2. apply Z.ltb_ge in H1, H2. apply Z.ltb_ge.
    pose proof (sgn_flip _ _ (czg_anti a b Ha Hb)) as (A1 & A2 & A3 & A4).
    pose proof (sgn_flip _ _ (czg_anti b c Hb Hc)) as (B1 & B2 & B3 & B4).
    pose proof (sgn_flip _ _ (czg_anti a c Ha Hc)) as (C1 & C2 & C3 & C4).
    apply C3. apply (czg_trans c b a); auto; [apply B3; lia| apply A3; lia].
Qed.

Lemma sw_gt_g : strict_weak (fun x y => tot (gt_c x y)) U.
Proof.
  apply (strict_weak_ext (fun x y => 0 <? cz_g x y)); [intros a b Ha Hb; symmetry; apply tot_gt_g; assumption|].
  constructor.
  - intros a Ha. rewrite (czg_refl a Ha). reflexivity.
  - intros a b c Ha Hb Hc H1 H2. apply Z.ltb_lt in H1, H2. apply Z.ltb_lt.
    pose proof (sgn_flip _ _ (czg_anti a b Ha Hb)) as (A1 & A2 & A3 & A4).
    pose proof (sgn_flip _ _ (czg_anti b c Hb Hc)) as (B1 & B2 & B3 & B4).
    pose proof (sgn_flip _ _ (czg_anti a c Ha Hc)) as (C1 & C2 & C3 & C4).
    apply C4. apply (czg_lt_trans c b a); auto; [apply B4; exact H2| apply Z.lt_le_incl; apply A4; exact H1].
  - intros a b c Ha Hb Hc H1 H2. apply Z.ltb_ge in H1, H2. apply Z.ltb_ge.
    apply (czg_trans a b c); assumption.
Qed.

Lemma status_lt_g : status (less_g KCompare) U = Ok tt.
Proof. apply status_intro. intros x y Hx Hy. cbn [less_g]. unfold lt_c. rewrite (czg_ok x y Hx Hy). eexists; reflexivity. Qed.
Lemma status_gt_g : status (greater_g KCompare) U = Ok tt.
Proof. apply status_intro. intros x y Hx Hy. cbn [greater_g]. unfold gt_c. rewrite (czg_ok x y Hx Hy). eexists; reflexivity. Qed.
End Order.

(* ---------- Sort ---------- *)
Theorem sort_g_spec (srt : @sorter val) : sorter_ok srt -> forall l l', tpo_on l ->
  sort_list_g srt KCompare l = Ok l' -> sort_spec l l'.
Proof.
  intros Hsrt l l' T H. unfold sort_list_g in H. rewrite (status_lt_g l T) in H. cbn in H.
  inversion H; subst l'; clear H.
  destruct (Hsrt (fun x y => tot (less_g KCompare x y)) l) as [P SS]. specialize (SS (sw_lt_g l T)).
  assert (I : forall a, In a (srt (fun x y => tot (less_g KCompare x y)) l) -> In a l) by (intros a; apply Permutation_in; exact P).
  split; [exact P|].
  refine (StronglySorted_impl_in _ _ _ _ SS).
  intros a b Ha Hb R. unfold not_after in R. cbn [less_g] in R.
  rewrite (tot_lt_g l T b a (I b Hb) (I a Ha)) in R. apply Z.ltb_ge in R.
  exists (cz_g a b). split; [apply (czg_ok l T); auto|].
  apply (sgn_flip _ _ (czg_anti l T a b (I a Ha) (I b Hb))). exact R.
Qed.

Theorem sort_g_defined (srt : @sorter val) l : tpo_on l -> exists l', sort_list_g srt KCompare l = Ok l'.
Proof. intros T. unfold sort_list_g. rewrite (status_lt_g l T). cbn. eexists; reflexivity. Qed.

(* ---------- Min / Max ---------- *)
Theorem min_g_spec loc x l sp def r : tpo_on (x :: l) ->
  min_g KCompare (VSl loc (x :: l) sp) def = Ok r ->
  (exists pre post, (x :: l = pre ++ r :: post)%list /\ (forall y, In y pre -> ltp_c r y)) /\
  min_spec (x :: l) r.
Proof.
  intros T H. cbn [min_g] in H. unfold scan_res in H. rewrite (status_lt_g _ T) in H. cbn [rbind] in H.
  pose proof (scan_lit_scanb (fun a b => tot (less_g KCompare a b)) [] l x) as SL. cbn [app length] in SL. rewrite SL in H.
  inversion H; subst r; clear H SL.
  pose proof (sw_lt_g _ T) as SW.
  destruct (scanb_first_best _ x l SW) as (pre & post & E & P1 & P2).
  destruct (scanb_best _ x l SW) as (I & B).
  set (r := scanb _ x l) in *.
  split; [exists pre, post; split; [exact E|]|split; [exact I|]].
  - intros y Hy. assert (Iy : In y (x :: l)) by (rewrite E; apply in_or_app; left; exact Hy).
    specialize (P1 y Hy). cbv beta in P1. cbn [less_g] in P1. rewrite (tot_lt_g _ T r y I Iy) in P1. apply Z.ltb_lt in P1.
    exists (cz_g r y). split; [apply (czg_ok _ T); assumption| exact P1].
  - intros y Iy. specialize (B y Iy). cbv beta in B. cbn [less_g] in B. rewrite (tot_lt_g _ T y r Iy I) in B. apply Z.ltb_ge in B.
    exists (cz_g y r). split; [apply (czg_ok _ T); assumption| exact B].
Qed.

Theorem max_g_spec loc x l sp def r : tpo_on (x :: l) ->
  max_g KCompare (VSl loc (x :: l) sp) def = Ok r ->
  (exists pre post, (x :: l = pre ++ r :: post)%list /\ (forall y, In y pre -> gtp_c r y)) /\
  max_spec (x :: l) r.
Proof.
  intros T H. cbn [max_g] in H. unfold scan_res in H. rewrite (status_gt_g _ T) in H. cbn [rbind] in H.
  pose proof (scan_lit_scanb (fun a b => tot (greater_g KCompare a b)) [] l x) as SL. cbn [app length] in SL. rewrite SL in H.
  inversion H; subst r; clear H SL.
  pose proof (sw_gt_g _ T) as SW.
  destruct (scanb_first_best _ x l SW) as (pre & post & E & P1 & P2).
  destruct (scanb_best _ x l SW) as (I & B).
  set (r := scanb _ x l) in *.
  split; [exists pre, post; split; [exact E|]|split; [exact I|]].
  - intros y Hy. assert (Iy : In y (x :: l)) by (rewrite E; apply in_or_app; left; exact Hy).
    specialize (P1 y Hy). cbv beta in P1. cbn [greater_g] in P1. rewrite (tot_gt_g _ T r y I Iy) in P1. apply Z.ltb_lt in P1.
    exists (cz_g r y). split; [apply (czg_ok _ T); assumption| exact P1].
  - intros y Iy. specialize (B y Iy). cbv beta in B. cbn [greater_g] in B. rewrite (tot_gt_g _ T y r Iy I) in B. apply Z.ltb_ge in B.
    exists (cz_g y r). split; [apply (czg_ok _ T); assumption| exact B].
Qed.

(* the default exactly for the nil / empty list, whatever the compare function *)
Theorem minmax_g_default k lst def :
  (lst = VNilS \/ exists loc sp, lst = VSl loc [] sp) -> min_g k lst def = Ok def /\ max_g k lst def = Ok def.
Proof. intros [->|(loc & sp & ->)]; split; reflexivity. Qed.

(* two-value forms *)
Theorem min2_max2_g a b : tpo_on [a; b] ->
  (exists c, cmp a b = Ok c /\ min2_g KCompare a b = Ok (if c <? 0 then a else b)
             /\ ge_c a (if c <? 0 then a else b) /\ ge_c b (if c <? 0 then a else b)) /\
  (exists c, cmp a b = Ok c /\ max2_g KCompare a b = Ok (if 0 <? c then a else b)
             /\ le_c a (if 0 <? c then a else b) /\ le_c b (if 0 <? c then a else b)).
Proof.
  intros T.
  assert (Ia : In a [a; b]) by (left; reflexivity). assert (Ib : In b [a; b]) by (right; left; reflexivity).
  pose proof (czg_ok _ T) as OK. pose proof (czg_refl _ T) as RF.
  pose proof (sgn_flip _ _ (czg_anti _ T a b Ia Ib)) as (A1 & A2 & A3 & A4).
  split; exists (cz_g a b); (split; [apply OK; assumption|]).
  - split; [unfold min2_g; cbn [less_g]; unfold lt_c; rewrite (OK a b Ia Ib); reflexivity|].
    destruct (Z.ltb_spec (cz_g a b) 0).
    + split; [exists (cz_g a a)| exists (cz_g b a)]; (split; [apply OK; assumption|]); rewrite ?RF by assumption; lia.
    + split; [exists (cz_g a b)| exists (cz_g b b)]; (split; [apply OK; assumption|]); rewrite ?RF by assumption; lia.
  - split; [unfold max2_g; cbn [greater_g]; unfold gt_c; rewrite (OK a b Ia Ib); reflexivity|].
    destruct (Z.ltb_spec 0 (cz_g a b)).
    + split; [exists (cz_g a a)| exists (cz_g b a)]; (split; [apply OK; assumption|]); rewrite ?RF by assumption; lia.
    + split; [exists (cz_g a b)| exists (cz_g b b)]; (split; [apply OK; assumption|]); rewrite ?RF by assumption; lia.
Qed.
End Models.

(* ---------- only the SIGN of the compare results matters ---------- *)
Definition rsgn (r : res Z) : res Z := rdo c <- r; Ok (Z.sgn c).
Definition sgn_agree (c1 c2 : val -> val -> res Z) : Prop := forall x y, rsgn (c1 x y) = rsgn (c2 x y).
(* the normalisation of a compare function to -1 / 0 / +1 *)
Definition norm (cmp : val -> val -> res Z) : val -> val -> res Z := fun x y => rsgn (cmp x y).

Lemma sgn_agree_sym c1 c2 : sgn_agree c1 c2 -> sgn_agree c2 c1.
Proof. intros A x y. symmetry. apply A. Qed.

Lemma norm_agree cmp : sgn_agree cmp (norm cmp).
Proof. intros x y. unfold norm, rsgn. destruct (cmp x y) as [c| | |]; cbn; try reflexivity. destruct c; reflexivity. Qed.

Lemma agree_ok c1 c2 x y c : sgn_agree c1 c2 -> c1 x y = Ok c -> exists c', c2 x y = Ok c' /\ Z.sgn c' = Z.sgn c.
Proof.
  intros A H. specialize (A x y). rewrite H in A. unfold rsgn in A. cbn in A.
  destruct (c2 x y) as [c'| | |]; cbn in A; try discriminate. inversion A. exists c'. auto.
Qed.

Lemma sgn_tests c c' : Z.sgn c' = Z.sgn c ->
  (c' <? 0) = (c <? 0) /\ (0 <? c') = (0 <? c) /\ (c' <= 0 <-> c <= 0) /\ (0 <= c' <-> 0 <= c) /\ (c' < 0 <-> c < 0) /\ (0 < c' <-> 0 < c).
Proof. destruct c, c'; cbn; intros H; try discriminate; repeat split; intros; lia. Qed.

Section SignOnly.
Variables c1 c2 : val -> val -> res Z.
Hypothesis A : sgn_agree c1 c2.

Lemma lt_c_sgn x y : lt_c c1 x y = lt_c c2 x y.
Proof.
  unfold lt_c. pose proof (A x y) as E. unfold rsgn in E.
  destruct (c1 x y) as [a| | |], (c2 x y) as [b| | |]; cbn in *; try discriminate; try reflexivity.
  inversion E as [E']. f_equal. apply (sgn_tests _ _ E').
Qed.
Lemma gt_c_sgn x y : gt_c c1 x y = gt_c c2 x y.
Proof.
  unfold gt_c. pose proof (A x y) as E. unfold rsgn in E.
  destruct (c1 x y) as [a| | |], (c2 x y) as [b| | |]; cbn in *; try discriminate; try reflexivity.
  inversion E as [E']. f_equal. apply (sgn_tests _ _ E').
Qed.
Lemma less_g_sgn k x y : less_g c1 k x y = less_g c2 k x y.
Proof. destruct k; cbn [less_g]; try reflexivity. apply lt_c_sgn. Qed.
Lemma greater_g_sgn k x y : greater_g c1 k x y = greater_g c2 k x y.
Proof. destruct k; cbn [greater_g]; try reflexivity. apply gt_c_sgn. Qed.
End SignOnly.

Lemma status_ext f g l : (forall x y, f x y = g x y) -> status f l = status g l.
Proof. intros E. unfold status. f_equal. apply map_ext. intros p. apply E. Qed.

Lemma scan_lit_ext (b1 b2 : val -> val -> bool) : (forall x y, b1 x y = b2 x y) ->
  forall rest full i m, scan_lit b1 full i m rest = scan_lit b2 full i m rest.
Proof.
  intros E. induction rest as [|v rest IH]; intros full i m; cbn; [reflexivity|].
  rewrite E. destruct (b2 v m); [destruct (nth_error full i); [apply IH| reflexivity]| apply IH].
Qed.

Lemma scan_res_ext f g x l : (forall a b, f a b = g a b) -> scan_res f x l = scan_res g x l.
Proof.
  intros E. unfold scan_res. rewrite (status_ext f g _ E).
  rewrite (scan_lit_ext (fun a b => tot (f a b)) (fun a b => tot (g a b))) by (intros a b; rewrite E; reflexivity).
  reflexivity.
Qed.

Lemma ins_ext (b1 b2 : val -> val -> bool) : (forall x y, b1 x y = b2 x y) -> forall a l, ins b1 a l = ins b2 a l.
Proof. intros E a l. induction l as [|b l IH]; cbn; [reflexivity|]. rewrite E, IH. reflexivity. Qed.
Lemma isort_ext (b1 b2 : val -> val -> bool) : (forall x y, b1 x y = b2 x y) -> forall l, isort b1 l = isort b2 l.
Proof. intros E l. unfold isort. induction l as [|a l IH]; cbn [fold_right]; [reflexivity|]. rewrite IH. apply ins_ext. exact E. Qed.

(* the models: Min, Max, the two-value forms and Sort with the insertion sort compute the same
   results from two compare functions that agree in sign *)
Theorem models_sign_only c1 c2 : sgn_agree c1 c2 -> forall k,
  (forall lst def, min_g c1 k lst def = min_g c2 k lst def) /\
  (forall lst def, max_g c1 k lst def = max_g c2 k lst def) /\
  (forall a b, min2_g c1 k a b = min2_g c2 k a b) /\
  (forall a b, max2_g c1 k a b = max2_g c2 k a b) /\
  (forall l, sort_list_g c1 isort k l = sort_list_g c2 isort k l).
Proof.
  intros A k. repeat split.
  - intros lst def. destruct lst; try reflexivity. destruct es; [reflexivity|]. cbn [min_g].
    apply scan_res_ext. apply less_g_sgn. exact A.
  - intros lst def. destruct lst; try reflexivity. destruct es; [reflexivity|]. cbn [max_g].
    apply scan_res_ext. apply greater_g_sgn. exact A.
  - intros a b. unfold min2_g. rewrite (less_g_sgn c1 c2 A). reflexivity.
  - intros a b. unfold max2_g. rewrite (greater_g_sgn c1 c2 A). reflexivity.
  - intros l. unfold sort_list_g. rewrite (status_ext _ _ l (less_g_sgn c1 c2 A k)).
    rewrite (isort_ext (fun x y => tot (less_g c1 k x y)) (fun x y => tot (less_g c2 k x y)))
      by (intros x y; rewrite (less_g_sgn c1 c2 A); reflexivity).
    reflexivity.
Qed.

(* the specification predicates and the hypothesis "total preorder" likewise *)
Lemma rel_sign_only c1 c2 : sgn_agree c1 c2 -> forall x y,
  (le_c c1 x y -> le_c c2 x y) /\ (ge_c c1 x y -> ge_c c2 x y) /\ (ltp_c c1 x y -> ltp_c c2 x y) /\ (gtp_c c1 x y -> gtp_c c2 x y).
Proof.
  intros A x y. repeat split; intros (c & H & L); destruct (agree_ok c1 c2 x y c A H) as (c' & H' & S);
    exists c'; (split; [exact H'|]); apply (sgn_tests _ _ S); exact L.
Qed.

Lemma tpo_sign_only_1 c1 c2 : sgn_agree c1 c2 -> forall U, tpo_on c1 U -> tpo_on c2 U.
Proof.
  intros A U T. pose proof (sgn_agree_sym _ _ A) as A'. constructor.
  - intros x y Hx Hy. destruct (tp_def c1 U T x y Hx Hy) as [c Hc].
    destruct (agree_ok c1 c2 x y c A Hc) as (c' & H' & _). exists c'. exact H'.
  - intros x y c d Hx Hy H1 H2.
    destruct (agree_ok c2 c1 x y c A' H1) as (c0 & K1 & S1).
    destruct (agree_ok c2 c1 y x d A' H2) as (d0 & K2 & S2).
    pose proof (tp_anti c1 U T x y c0 d0 Hx Hy K1 K2). congruence.
  - intros x y z a b c Hx Hy Hz H1 H2 H3 L1 L2.
    destruct (agree_ok c2 c1 x y a A' H1) as (a0 & K1 & S1).
    destruct (agree_ok c2 c1 y z b A' H2) as (b0 & K2 & S2).
    destruct (agree_ok c2 c1 x z c A' H3) as (c0 & K3 & S3).
    apply (sgn_tests _ _ S3). apply (tp_trans c1 U T x y z a0 b0 c0 Hx Hy Hz K1 K2 K3).
    + apply (sgn_tests _ _ S1). exact L1.
    + apply (sgn_tests _ _ S2). exact L2.
Qed.

Theorem specs_sign_only c1 c2 : sgn_agree c1 c2 ->
  (forall U, tpo_on c1 U <-> tpo_on c2 U) /\
  (forall l l', sort_spec c1 l l' <-> sort_spec c2 l l') /\
  (forall l r, min_spec c1 l r <-> min_spec c2 l r) /\
  (forall l r, max_spec c1 l r <-> max_spec c2 l r).
Proof.
  intros A. pose proof (sgn_agree_sym _ _ A) as A'.
  assert (S : forall d1 d2, sgn_agree d1 d2 -> forall l l', sort_spec d1 l l' -> sort_spec d2 l l').
  { intros d1 d2 D l l' [P SS]. split; [exact P|].
    refine (StronglySorted_impl_in _ _ _ _ SS). intros a b _ _. apply (rel_sign_only d1 d2 D a b). }
  assert (Mi : forall d1 d2, sgn_agree d1 d2 -> forall l r, min_spec d1 l r -> min_spec d2 l r).
  { intros d1 d2 D l r [I B]. split; [exact I|]. intros y Hy. apply (rel_sign_only d1 d2 D y r). apply B. exact Hy. }
  assert (Ma : forall d1 d2, sgn_agree d1 d2 -> forall l r, max_spec d1 l r -> max_spec d2 l r).
  { intros d1 d2 D l r [I B]. split; [exact I|]. intros y Hy. apply (rel_sign_only d1 d2 D y r). apply B. exact Hy. }
  split; [|split; [|split]].
  - intros U. split; [apply (tpo_sign_only_1 c1 c2 A)| apply (tpo_sign_only_1 c2 c1 A')].
  - intros l l'. split; [apply (S c1 c2 A)| apply (S c2 c1 A')].
  - intros l r. split; [apply (Mi c1 c2 A)| apply (Mi c2 c1 A')].
  - intros l r. split; [apply (Ma c1 c2 A)| apply (Ma c2 c1 A')].
Qed.

(* consequence for any sorter with the contract: sorting by a magnitude-returning compare gives
   a list that is sorted under every compare function with the same signs (its normalisation
   in particular) *)
Corollary sort_g_spec_sign (srt : @sorter val) c1 c2 : sorter_ok srt -> sgn_agree c1 c2 ->
  forall l l', tpo_on c1 l -> sort_list_g c1 srt KCompare l = Ok l' -> sort_spec c2 l l'.
Proof.
  intros Hs A l l' T H. apply (specs_sign_only c1 c2 A). apply (sort_g_spec c1 srt Hs l l' T H).
Qed.

(* ---------- the instance: the generated Compare of the element type, methods included ---------- *)
Definition cmp13 (e : tenv) (t : ty) : val -> val -> res Z :=
  if method_free t then cmpm e t else cmpm_m true e t.

(* on method-free element types the generic models are the models of Ord/Model.v, to which the
   theorems of Ord/Proofs.v apply without any hypothesis on the compare function *)
Theorem method_free_models e t : method_free t = true ->
  cmp13 e t = cmpm e t /\
  (forall srt l, sort_list_g (cmpm e t) srt (sort_kind e t) l = sort_list srt e t l) /\
  (forall srt v, sort_model_g (cmpm e t) srt (sort_kind e t) v = sort_model srt e t v) /\
  (forall lst def, min_g (cmpm e t) (minmax_kind e t) lst def = min_model e t lst def) /\
  (forall lst def, max_g (cmpm e t) (minmax_kind e t) lst def = max_model e t lst def) /\
  (forall a b, min2_g (cmpm e t) (minmax_kind e t) a b = min2_model e t a b) /\
  (forall a b, max2_g (cmpm e t) (minmax_kind e t) a b = max2_model e t a b).
Proof.
  intros MF. unfold cmp13. rewrite MF. repeat split; reflexivity.
Qed.

(* the generic theorem at the instance; the hypothesis stays *)
Lemma sort_with_methods (srt : @sorter val) : sorter_ok srt -> forall e t l l',
  tpo_on (cmp13 e t) l -> sort_list_g (cmp13 e t) srt KCompare l = Ok l' ->
  Permutation l' l /\ StronglySorted (le_c (cmp13 e t)) l'.
Proof. intros H e t. exact (sort_g_spec (cmp13 e t) srt H). Qed.

(* ---------- deciding the hypothesis on the values at hand ---------- *)
Section Decide.
Variable cmp : val -> val -> res Z.

Definition le0 (r : res Z) : bool := match r with Ok c => c <=? 0 | _ => false end.

(* For a total preorder the sets {z | x <= z} are nested: x <= y exactly when y has at most as
   many elements above it as x.  So: count them once per element (n^2 calls of [cmp]) and compare
   every pair with the counts; no cubic pass. *)
Definition cnt_le (l : list val) (x : val) : N := N.of_nat (length (filter (fun z => le0 (cmp x z)) l)).

Definition tpo_b (l : list val) : bool :=
  let rows := map (fun x => (x, cnt_le l x)) l in
  forallb (fun rx => forallb (fun ry =>
      match cmp (fst rx) (fst ry), cmp (fst ry) (fst rx) with
      | Ok a, Ok d => (Z.sgn d =? - Z.sgn a) && Bool.eqb (a <=? 0) (N.leb (snd ry) (snd rx))
      | _, _ => false
      end) rows) rows.

Lemma forallb_map {A B} (p : B -> bool) (f : A -> B) l : forallb p (map f l) = forallb (fun a => p (f a)) l.
Proof. induction l as [|a l IH]; cbn; [reflexivity|]. rewrite IH. reflexivity. Qed.

Theorem tpo_b_sound l : tpo_b l = true -> tpo_on cmp l.
Proof.
  unfold tpo_b. rewrite forallb_map. intros H.
  assert (P : forall x y, In x l -> In y l ->
            exists a d, cmp x y = Ok a /\ cmp y x = Ok d /\ Z.sgn d = - Z.sgn a /\
              (a <= 0 <-> (cnt_le l y <= cnt_le l x)%N)).
  { intros x y Hx Hy. rewrite forallb_forall in H. specialize (H x Hx). cbn [fst snd] in H.
    rewrite forallb_map in H. rewrite forallb_forall in H. specialize (H y Hy). cbn [fst snd] in H.
    destruct (cmp x y) as [a| | |]; try discriminate. destruct (cmp y x) as [d| | |]; try discriminate.
    apply andb_prop in H as [H1 H2]. apply Z.eqb_eq in H1. apply Bool.eqb_prop in H2.
    exists a, d. repeat split; try assumption.
    - intros La. apply N.leb_le. rewrite <- H2. apply Z.leb_le. exact La.
    - intros Lc. apply Z.leb_le. rewrite H2. apply N.leb_le. exact Lc. }
  constructor.
  - intros x y Hx Hy. destruct (P x y Hx Hy) as (a & d & E & _). exists a. exact E.
  - intros x y c d Hx Hy H1 H2. destruct (P x y Hx Hy) as (a & d' & E1 & E2 & S & _). congruence.
  - intros x y z a b c Hx Hy Hz H1 H2 H3 La Lb.
    destruct (P x y Hx Hy) as (a' & d1 & E1 & _ & _ & T1). rewrite H1 in E1. inversion E1; subst a'.
    destruct (P y z Hy Hz) as (b' & d2 & E2 & _ & _ & T2). rewrite H2 in E2. inversion E2; subst b'.
    destruct (P x z Hx Hz) as (c' & d3 & E3 & _ & _ & T3). rewrite H3 in E3. inversion E3; subst c'.
    apply T3. apply T1 in La. apply T2 in Lb. lia.
Qed.

(* ... and complete: the check accepts every total preorder, so the guard of the evaluator IS the
   hypothesis of the theorems *)
Lemma filter_len_le {A} (p q : A -> bool) l : (forall z, In z l -> p z = true -> q z = true) ->
  (length (filter p l) <= length (filter q l))%nat.
Proof.
  induction l as [|a l IH]; intros H; cbn; [lia|].
  assert (IH' : (length (filter p l) <= length (filter q l))%nat) by (apply IH; intros z Hz; apply H; right; exact Hz).
  destruct (p a) eqn:Pa.
  - rewrite (H a (or_introl eq_refl) Pa). cbn. lia.
  - destruct (q a); cbn; lia.
Qed.

Lemma filter_len_lt {A} (p q : A -> bool) l w : (forall z, In z l -> p z = true -> q z = true) ->
  In w l -> p w = false -> q w = true -> (length (filter p l) < length (filter q l))%nat.
Proof.
  induction l as [|a l IH]; intros H Hw Pw Qw; [destruct Hw|]. cbn.
  assert (H' : forall z, In z l -> p z = true -> q z = true) by (intros z Hz; apply H; right; exact Hz).
  pose proof (filter_len_le p q l H') as LE.
  destruct Hw as [->|Hw].
  - rewrite Pw, Qw. cbn. lia.
  - specialize (IH H' Hw Pw Qw). destruct (p a) eqn:Pa.
    + rewrite (H a (or_introl eq_refl) Pa). cbn. lia.
    + destruct (q a); cbn; lia.
Qed.

Theorem tpo_b_complete l : tpo_on cmp l -> tpo_b l = true.
Proof.
  intros T. unfold tpo_b. rewrite forallb_map. apply forallb_forall. intros x Hx. cbn [fst snd].
  rewrite forallb_map. apply forallb_forall. intros y Hy. cbn [fst snd].
  rewrite (czg_ok cmp l T x y Hx Hy), (czg_ok cmp l T y x Hy Hx).
  pose proof (czg_anti cmp l T x y Hx Hy) as AS. pose proof (sgn_flip _ _ AS) as (A1 & A2 & A3 & A4).
  apply andb_true_intro. split; [apply Z.eqb_eq; exact AS|].
  assert (L : forall u z, In u l -> In z l -> (le0 (cmp u z) = true <-> cz_g cmp u z <= 0)).
  { intros u z Hu Hz. rewrite (czg_ok cmp l T u z Hu Hz). cbn [le0]. apply Z.leb_le. }
  unfold cnt_le.
  destruct (Z.leb_spec (cz_g cmp x y) 0) as [Le|Gt].
  - (* x <= y: everything above y is above x *)
    apply Bool.eqb_true_iff. symmetry. apply N.leb_le.
    assert ((length (filter (fun z => le0 (cmp y z)) l) <= length (filter (fun z => le0 (cmp x z)) l))%nat); [|lia].
    apply filter_len_le. intros z Hz Hyz. apply (L x z Hx Hz). apply (L y z Hy Hz) in Hyz.
    apply (czg_trans cmp l T x y z); assumption.
  - (* y < x: everything above x is above y, and y itself is above y but not above x *)
    apply Bool.eqb_true_iff. symmetry. apply N.leb_gt.
    assert ((length (filter (fun z => le0 (cmp x z)) l) < length (filter (fun z => le0 (cmp y z)) l))%nat); [|lia].
    apply (filter_len_lt _ _ l y).
    + intros z Hz Hxz. apply (L y z Hy Hz). apply (L x z Hx Hz) in Hxz.
      apply (czg_trans cmp l T y x z); try assumption. apply A3. lia.
    + exact Hy.
    + destruct (le0 (cmp x y)) eqn:E; [|reflexivity]. apply (L x y Hx Hy) in E. lia.
    + apply (L y y Hy Hy). rewrite (czg_refl cmp l T y Hy). lia.
Qed.
End Decide.

(* ---------- the harness' magnitude method is a total preorder on all values ---------- *)
Definition mag_shaped (v : val) : Prop := exists lab a rest, v = VSt (lab :: VInt a :: rest).

Theorem second_mag_tpo U : (forall v, In v U -> mag_shaped v) -> tpo_on second_mag U.
Proof.
  intros S. constructor.
  - intros x y Hx Hy. destruct (S x Hx) as (l1 & a & r1 & ->). destruct (S y Hy) as (l2 & b & r2 & ->).
    eexists; reflexivity.
  - intros x y c d Hx Hy. destruct (S x Hx) as (l1 & a & r1 & ->). destruct (S y Hy) as (l2 & b & r2 & ->).
    cbn. intros H1 H2. inversion H1; inversion H2; subst.
    replace (b - a) with (- (a - b)) by lia. apply Z.sgn_opp.
  - intros x y z a b c Hx Hy Hz. destruct (S x Hx) as (l1 & p & r1 & ->). destruct (S y Hy) as (l2 & q & r2 & ->).
    destruct (S z Hz) as (l3 & r & r3 & ->). cbn. intros H1 H2 H3. inversion H1; inversion H2; inversion H3; subst. lia.
Qed.

(* a named struct of the pointer-parameter magnitude class at top level: the generated Compare
   is `return (&this).Compare(&that)`, i.e. the method *)
Lemma cmpm_m_top_mag_ptr e ext fs x y : cmpm_m true e (TN 350 ext (TSt fs)) x y = second_mag x y.
Proof. destruct x; reflexivity. Qed.

Definition ex_MGP : ty := TN 350 false (TSt [(false, TB KStr); (false, TB (KInt 16%N true)); (false, TSl (TB (KInt 64%N true)))]).

(* for EVERY list of values of that type the hypothesis of the generic theorems holds, so Sort is a
   sorted permutation and Min / Max are extremal under the method's order *)
Corollary sort_MGP (srt : @sorter val) : sorter_ok srt -> forall l l',
  (forall v, In v l -> mag_shaped v) ->
  sort_list_g (cmp13 [] ex_MGP) srt KCompare l = Ok l' -> sort_spec second_mag l l'.
Proof.
  intros Hs l l' S H.
  assert (A : sgn_agree (cmp13 [] ex_MGP) second_mag).
  { intros x y. unfold cmp13. change (method_free ex_MGP) with false. cbv iota.
    unfold ex_MGP. rewrite cmpm_m_top_mag_ptr. reflexivity. }
  apply (sort_g_spec_sign srt _ _ Hs A l l'); [|exact H].
  apply (specs_sign_only _ _ A). apply second_mag_tpo. exact S.
Qed.

(* non-vacuity: labels ordered opposite to the significant field, equal keys with different
   labels, keys further apart than 1 (the method returns 4, -7, ...) *)
Definition ex_g (lab : list N) (k : Z) : val := VSt [VStr lab; VInt k; VNilS].
Definition ex_glist : list val := [ex_g [122%N] 1; ex_g [97%N] 5; ex_g [98%N] 1; ex_g [] (-2); ex_g [99%N] 5].

Example ex_mag_values : cmp13 [] ex_MGP (ex_g [97%N] 5) (ex_g [122%N] 1) = Ok 4 /\
  cmp13 [] ex_MGP (ex_g [] (-2)) (ex_g [97%N] 5) = Ok (-7) /\
  cmpm [] ex_MGP (ex_g [97%N] 5) (ex_g [122%N] 1) = Ok (-1) /\      (* the field-by-field order says the opposite *)
  forallb (has_type [] ex_MGP) ex_glist = true.
Proof. split; [|split; [|split]]; vm_compute; reflexivity. Qed.

Example ex_mag_tpo : tpo_b (cmp13 [] ex_MGP) ex_glist = true /\ tpo_on (cmp13 [] ex_MGP) ex_glist.
Proof. split; [vm_compute; reflexivity| apply tpo_b_sound; vm_compute; reflexivity]. Qed.

Example ex_mag_sort : sort_list_g (cmp13 [] ex_MGP) isort KCompare ex_glist
  = Ok [ex_g [] (-2); ex_g [98%N] 1; ex_g [122%N] 1; ex_g [99%N] 5; ex_g [97%N] 5].   (* not stable *)
Proof. vm_compute. reflexivity. Qed.

Example ex_mag_minmax :
  min_g (cmp13 [] ex_MGP) KCompare (VSl 1 ex_glist []) VNilS = Ok (ex_g [] (-2)) /\
  max_g (cmp13 [] ex_MGP) KCompare (VSl 1 ex_glist []) VNilS = Ok (ex_g [97%N] 5) /\      (* first of the two maximal elements *)
  max2_g (cmp13 [] ex_MGP) KCompare (ex_g [97%N] 5) (ex_g [122%N] 1) = Ok (ex_g [97%N] 5) /\
  max2_g (norm (cmp13 [] ex_MGP)) KCompare (ex_g [97%N] 5) (ex_g [122%N] 1) = Ok (ex_g [97%N] 5).
Proof. split; [|split; [|split]]; vm_compute; reflexivity. Qed.

(* the hypothesis is not always true: a map keyed by a struct with a Compare method that ignores a
   field — two different keys compare as 0 and their values are skipped — is not transitive *)
Definition ex_ME : ty := TN 100 false (TSt [(false, TB (KInt 64%N true)); (false, TB KStr)]).
Definition ex_mapME : ty := TM ex_ME (TB (KInt 64%N true)).
Definition ex_mk (lab : list N) (v : Z) : val := VMap 1 [(VSt [VInt 0; VStr lab], VInt v)].
Example ex_not_tpo : tpo_b (cmp13 [] ex_mapME) [ex_mk [97%N] 1; ex_mk [98%N] 5; ex_mk [97%N] 2] = false /\
  cmp13 [] ex_mapME (ex_mk [97%N] 1) (ex_mk [98%N] 5) = Ok 0 /\
  cmp13 [] ex_mapME (ex_mk [98%N] 5) (ex_mk [97%N] 2) = Ok 0 /\
  cmp13 [] ex_mapME (ex_mk [97%N] 1) (ex_mk [97%N] 2) = Ok (-1).
Proof. split; [|split; [|split]]; vm_compute; reflexivity. Qed.
