(* Ord/Total.v — C13 with the type-level support predicate: for every element type the generator
   accepts ([cmp_sup], closed under the environment) the models of Sort / Min / Max return on all
   well-typed inputs (the generated comparator never panics, the scans never index out of
   range), and the results meet the specifications of Ord/Proofs.v. *)
From Verif Require Import Go.Ty Go.Val Go.Equal Go.EqualProofs Go.Compare Go.CompareSpec
  Go.CompareProofs Ord.Sorter Ord.Model Ord.Proofs Ord.Support.
From Coq Require Import Lia Permutation Sorted.
Open Scope Z_scope.

Lemma minmax_defined e t lst def :
  has_type e (TSl t) lst = true -> minmax_kind e t <> KIll ->
  (forall x y, cmpm e t x y = Unsup -> has_type e t x = true -> has_type e t y = true -> False) ->
  (exists r, min_model e t lst def = Ok r) /\ (exists r, max_model e t lst def = Ok r).
Proof.
  intros HT NI NU.
  destruct lst as [?|?|? ?|? ? ? ?|?| |? ?| |loc es sp| |? ?|?|?]; try (rewrite has_type_unfold in HT; cbn in HT; discriminate).
  - split; eexists; reflexivity.
  - destruct es as [|x l]; [split; eexists; reflexivity|].
    pose proof (elems_typed e t _ _ _ HT) as T.
    assert (Hk : minmax_kind e t = sort_kind e t \/ minmax_kind e t = minmax_kind e t) by (right; reflexivity).
    assert (D : forall a b, In a (x :: l) -> In b (x :: l) ->
                (exists q, less_by (minmax_kind e t) e t a b = Ok q) /\ (exists q, greater_by (minmax_kind e t) e t a b = Ok q)).
    { intros a b Ha Hb. apply tests_defined; auto. intros U. apply (NU a b U); auto. }
    cbn [min_model max_model]. unfold scan_res.
    rewrite (status_intro (less_by (minmax_kind e t) e t)) by (intros a b Ha Hb; apply D; assumption).
    rewrite (status_intro (greater_by (minmax_kind e t) e t)) by (intros a b Ha Hb; apply D; assumption).
    cbn [rbind].
    pose proof (scan_lit_scanb (fun a b => tot (less_by (minmax_kind e t) e t a b)) [] l x) as S1.
    pose proof (scan_lit_scanb (fun a b => tot (greater_by (minmax_kind e t) e t a b)) [] l x) as S2.
    cbn in S1, S2. rewrite S1, S2. split; eexists; reflexivity.
Qed.

Section Total.
Variable srt : @sorter val.
Hypothesis Hsrt : sorter_ok srt.
Variables (e : tenv) (t : ty).
Hypothesis ES : env_sup e.
Hypothesis CS : cmp_sup false t = true.

(* Sort returns, and what it returns is the sorted permutation *)
Theorem sort_total v : sort_kind e t <> KIll -> has_type e (TSl t) v = true ->
  exists v', sort_model srt e t v = Ok v' /\
    match v, v' with
    | VNilS, VNilS => True
    | VSl loc es sp, VSl loc' es' sp' =>
        loc' = loc /\ sp' = sp /\ Permutation es' es /\ StronglySorted (cmp_le e t) es'
    | _, _ => False
    end.
Proof.
  intros NI HT.
  assert (exists v', sort_model srt e t v = Ok v') as [v' E].
  { destruct v as [?|?|? ?|? ? ? ?|?| |? ?| |loc es sp| |? ?|?|?]; try (rewrite has_type_unfold in HT; cbn in HT; discriminate).
    - eexists; reflexivity.
    - pose proof (elems_typed e t _ _ _ HT) as T.
      destruct (sort_defined srt e t es) as [l' E]; [apply Forall_forall; exact T| exact NI| |].
      + intros x y Hx Hy. apply cmp_sup_defined; auto.
      + cbn [sort_model]. rewrite E. eexists; reflexivity. }
  exists v'. split; [exact E|]. apply (sort_model_spec srt Hsrt e t v v' HT E).
Qed.

(* Min and Max return (no index out of range, no panic in the comparator); their results are
   characterised by min_is_minimal / max_is_maximal *)
Theorem minmax_total lst def : minmax_kind e t <> KIll -> has_type e (TSl t) lst = true ->
  (exists r, min_model e t lst def = Ok r) /\ (exists r, max_model e t lst def = Ok r).
Proof.
  intros NI HT. apply minmax_defined; auto.
  intros x y U Hx Hy. exact (cmp_sup_defined x e t y ES CS Hx Hy U).
Qed.

Theorem minmax2_total a b : minmax_kind e t <> KIll -> has_type e t a = true -> has_type e t b = true ->
  (exists r, min2_model e t a b = Ok r) /\ (exists r, max2_model e t a b = Ok r).
Proof.
  intros NI Ha Hb.
  assert (Hk : minmax_kind e t = sort_kind e t \/ minmax_kind e t = minmax_kind e t) by (right; reflexivity).
  destruct (tests_defined e t _ a b Hk NI Ha Hb (cmp_sup_defined a e t b ES CS Ha Hb)) as [[q1 L] [q2 G]].
  unfold min2_model, max2_model. rewrite L, G. split; eexists; reflexivity.
Qed.
End Total.

(* the kind is never KIll on closed types of the grammar that the plugins accept *)
Lemma sort_sup_kind t : sort_sup t = true -> sort_kind [] t <> KIll.
Proof. unfold sort_sup. destruct (sort_kind [] t); intros H; discriminate. Qed.
Lemma minmax_sup_kind t : minmax_sup t = true -> minmax_kind [] t <> KIll.
Proof. unfold minmax_sup. destruct (minmax_kind [] t); intros H; discriminate. Qed.

(* ---------- non-vacuity: concrete instances of every guarded statement ---------- *)
Definition ex_S : ty := TN 1 false (TSt [(false, TB (KInt 64%N true)); (false, TB KStr)]).
Definition ex_PS : ty := TP ex_S.
Definition ex_p (l : N) (n : Z) (s : list N) : val := VPtr l (VSt [VInt n; VStr s]).
(* nil element, two Equal-but-not-identical elements, reversed order *)
Definition ex_list : val := VSl 9 [ex_p 1 2 [98%N]; ex_p 2 1 [97%N]; VNilP; ex_p 3 1 [97%N]] [ex_p 4 0 []].

Example ex_supported : cmp_sup false ex_PS = true /\ sort_kind [] ex_PS = KCompare /\ has_type [] (TSl ex_PS) ex_list = true.
Proof. repeat split; vm_compute; reflexivity. Qed.

Example ex_sort : sort_model isort [] ex_PS ex_list
  = Ok (VSl 9 [VNilP; ex_p 3 1 [97%N]; ex_p 2 1 [97%N]; ex_p 1 2 [98%N]] [ex_p 4 0 []]).   (* not stable, as the contract allows *)
Proof. vm_compute. reflexivity. Qed.

Example ex_min_max :
  min_model [] ex_PS ex_list (ex_p 7 7 []) = Ok VNilP /\
  max_model [] ex_PS ex_list (ex_p 7 7 []) = Ok (ex_p 1 2 [98%N]) /\
  min_model [] ex_PS (VSl 9 [] []) (ex_p 7 7 []) = Ok (ex_p 7 7 []) /\
  (* first of the tied minimal elements *)
  min_model [] ex_PS (VSl 9 [ex_p 1 2 [98%N]; ex_p 2 1 [97%N]; ex_p 3 1 [97%N]] []) VNilP = Ok (ex_p 2 1 [97%N]).
Proof. repeat split; vm_compute; reflexivity. Qed.

Example ex_min2_max2 :
  min2_model [] ex_PS (ex_p 2 1 [97%N]) (ex_p 3 1 [97%N]) = Ok (ex_p 3 1 [97%N]) /\      (* tie: b *)
  max2_model [] ex_PS (ex_p 1 2 [98%N]) VNilP = Ok (ex_p 1 2 [98%N]) /\
  min2_model [] (TB KBool) (VBool true) (VBool false) = Ok (VBool false).
Proof. repeat split; vm_compute; reflexivity. Qed.

(* natural order: floats with -0 == +0, exact float64 goes through sort.Float64s *)
Example ex_sort_float : sort_kind [] (TB KF64) = KStdlib /\
  sort_model isort [] (TB KF64) (VSl 1 [VF false 4607182418800017408; VF true 0; VF false 0; VF true 4607182418800017408] [])
  = Ok (VSl 1 [VF true 4607182418800017408; VF false 0; VF true 0; VF false 4607182418800017408] []).
Proof. split; vm_compute; reflexivity. Qed.

(* keys: a map with struct keys; the iteration order reverses the entries *)
Definition ex_mt : ty := TM ex_S (TB KBool).
Definition ex_map : val := VMap 5 [(VSt [VInt 1; VStr []], VBool true); (VSt [VInt 2; VStr [97%N]], VBool false); (VSt [VInt 1; VStr [97%N]], VBool true)].
Example ex_keys : has_type [] ex_mt ex_map = true /\
  keys_model (@rev (val * val)) 8 ex_map = Ok (VSl 8 [VSt [VInt 1; VStr [97%N]]; VSt [VInt 2; VStr [97%N]]; VSt [VInt 1; VStr []]] []) /\
  (forall l : list (val * val), Permutation (rev l) l).
Proof. repeat split; try (vm_compute; reflexivity). intros l. symmetry. apply Permutation_rev. Qed.

(* unsupported element type: an unnamed struct is refused (the model answers Unsup), so the
   side condition of the theorems is not always true *)
Example ex_unsupported : cmp_sup false (TSt [(false, TB KBool)]) = false /\
  sort_list isort [] (TSt [(false, TB KBool)]) [VSt [VBool true]] = Unsup.
Proof. split; vm_compute; reflexivity. Qed.
