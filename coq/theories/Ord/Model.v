(* Ord/Model.v — models of the code emitted by plugin/sort, plugin/keys, plugin/min and
   plugin/max (C13), over the values and types of Go/Val.v, Go/Ty.v and the model [cmpm] of the
   generated Compare (Go/Compare.v).

   plugin/sort (printSortFunc), element type T of the argument []T:
     exact basic string / float64 / int      -> sort.Strings / sort.Float64s / sort.Ints
     underlying basic bool, complex64/128     -> sort.Slice with deriveCompare(list[i], list[j]) < 0
     any other underlying basic               -> sort.Slice with list[i] < list[j]
     pointer, struct, slice, array, map       -> sort.Slice with deriveCompare(list[i], list[j]) < 0
   plugin/min, plugin/max (genSlice, genTwo), element type T:
     T is *types.Basic (not a named type)     -> v < m (v > m); for bool and complex, which have
                                                 no <, deriveCompare(v, m) < 0 (> 0)   [fix C13-fix-minmax-bool-complex]
     otherwise (named types included)         -> deriveCompare(v, m) < 0 (> 0)
   plugin/keys: keys := make([]K, 0, len(m)); for key := range m { keys = append(keys, key) }.

   The standard library sorts are a parameter [srt] with the contract of Ord/Sorter.v; Go's map
   iteration order is a parameter [order] (any permutation of the entries). *)
From Coq Require Import String.
From Verif Require Export Go.Ty Go.Val Go.Compare Go.CompareSpec Ord.Sorter.
Open Scope Z_scope.

(* natural < of Go on integers, NaN-free floats (-0 == +0) and strings *)
Definition nat_lt (x y : val) : option bool :=
  match x, y with
  | VInt a, VInt b => Some (Z.ltb a b)
  | VF n1 m1, VF n2 m2 => Some (flt n1 m1 n2 m2)
  | VStr a, VStr b => Some (Z.ltb (bytes_cmp a b) 0)
  | _, _ => None
  end.

(* which comparison the generator prints *)
Inductive okind : Type :=
| KStdlib       (* sort.Strings / sort.Float64s / sort.Ints: the natural order *)
| KNatural      (* < (>) on the underlying basic type *)
| KCompare      (* the generated Compare of the element type *)
| KIll.         (* not a type of the grammar at this position *)

Definition no_lt (k : bkind) : bool := match k with KBool | KC64 | KC128 => true | _ => false end.

Definition sort_kind (e : tenv) (t : ty) : okind :=
  match t with
  | TB KStr | TB KF64 | TB (KInt 64%N true) => KStdlib      (* int and int64 share a model type; same order *)
  | _ =>
      match resolve e t with
      | None => KIll
      | Some r =>
          match r_node r with
          | TB k => if no_lt k then KCompare else KNatural
          | TP _ | TSt _ | TSl _ | TAr _ _ | TM _ _ => KCompare
          | _ => KIll
          end
      end
  end.

Definition minmax_kind (e : tenv) (t : ty) : okind :=
  match t with
  | TB k => if no_lt k then KCompare else KNatural
  | _ => match resolve e t with Some _ => KCompare | None => KIll end
  end.

Definition cmp_lt (e : tenv) (t : ty) (x y : val) : res bool := rdo c <- cmpm e t x y; Ok (c <? 0).
Definition cmp_gt (e : tenv) (t : ty) (x y : val) : res bool := rdo c <- cmpm e t x y; Ok (0 <? c).

(* x < y, resp. x > y, as the emitted code tests it *)
Definition less_by (k : okind) (e : tenv) (t : ty) (x y : val) : res bool :=
  match k with
  | KStdlib | KNatural => of_option (nat_lt x y)
  | KCompare => cmp_lt e t x y
  | KIll => Stuck
  end.
Definition greater_by (k : okind) (e : tenv) (t : ty) (x y : val) : res bool :=
  match k with
  | KStdlib | KNatural => of_option (nat_lt y x)
  | KCompare => cmp_gt e t x y
  | KIll => Stuck
  end.

Definition tot (r : res bool) : bool := match r with Ok b => b | _ => false end.

(* the comparisons a run may perform are all defined (they never panic; [Unsup] means the
   generator refuses the type, [Stuck] an ill-typed argument) *)
Fixpoint all_ok {B} (rs : list (res B)) : res unit :=
  match rs with
  | [] => Ok tt
  | Ok _ :: rs' => all_ok rs'
  | Pan :: _ => Pan
  | Unsup :: _ => Unsup
  | Stuck :: _ => Stuck
  end.
Definition status (f : val -> val -> res bool) (l : list val) : res unit :=
  all_ok (map (fun p => f (fst p) (snd p)) (list_prod l l)).

(* ---------- Sort ---------- *)
Section WithSorter.
Variable srt : @sorter val.

Definition sort_list (e : tenv) (t : ty) (l : list val) : res (list val) :=
  let f := less_by (sort_kind e t) e t in
  rdo _ <- status f l;
  Ok (srt (fun x y => tot (f x y)) l).

(* deriveSort(list []T) []T: in place, returns list *)
Definition sort_model (e : tenv) (t : ty) (v : val) : res val :=
  match v with
  | VNilS => Ok VNilS
  | VSl loc es sp => rdo es' <- sort_list e t es; Ok (VSl loc es' sp)
  | _ => Stuck
  end.
End WithSorter.

(* ---------- Keys ---------- *)
Section WithOrder.
Variable order : list (val * val) -> list (val * val).   (* the runtime's iteration order *)

Definition keys_model (fresh : N) (m : val) : res val :=
  match m with
  | VNilM => Ok (VSl fresh [] [])
  | VMap _ kvs => Ok (VSl fresh (map fst (order kvs)) [])
  | _ => Stuck
  end.
End WithOrder.

(* ---------- Min / Max ---------- *)
Definition scan_res (f : val -> val -> res bool) (x : val) (l : list val) : res val :=
  rdo _ <- status f (x :: l);
  match scan_lit (fun a b => tot (f a b)) l 0 x l with
  | Some r => Ok r
  | None => Pan
  end.

Definition min_model (e : tenv) (t : ty) (lst def : val) : res val :=
  match lst with
  | VNilS => Ok def
  | VSl _ [] _ => Ok def
  | VSl _ (x :: l) _ => scan_res (less_by (minmax_kind e t) e t) x l
  | _ => Stuck
  end.

Definition max_model (e : tenv) (t : ty) (lst def : val) : res val :=
  match lst with
  | VNilS => Ok def
  | VSl _ [] _ => Ok def
  | VSl _ (x :: l) _ => scan_res (greater_by (minmax_kind e t) e t) x l
  | _ => Stuck
  end.

(* if a < b { return a }; return b *)
Definition min2_model (e : tenv) (t : ty) (a b : val) : res val :=
  rdo c <- less_by (minmax_kind e t) e t a b; Ok (if c then a else b).
Definition max2_model (e : tenv) (t : ty) (a b : val) : res val :=
  rdo c <- greater_by (minmax_kind e t) e t a b; Ok (if c then a else b).

(* ---------- which element types the generators accept ---------- *)
Definition sort_sup (t : ty) : bool :=
  match sort_kind [] t with
  | KStdlib | KNatural => true
  | KCompare => cmp_sup false t
  | KIll => false
  end.
Definition minmax_sup (t : ty) : bool :=
  match minmax_kind [] t with
  | KStdlib | KNatural => true
  | KCompare => cmp_sup false t
  | KIll => false
  end.
