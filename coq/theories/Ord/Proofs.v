(* Ord/Proofs.v — C13: the models of Ord/Model.v meet the specifications of Sort, Keys, Min
   and Max, for every type, every list / map of well-typed (NaN-free) values, every sorter with
   the standard library's contract and every map iteration order.  The order facts come from
   C03 (Go/CompareThms.v): the generated Compare is a total preorder whose 0-class is
   structural equality. *)
From Verif Require Import Go.Ty Go.Val Go.Equal Go.EqualProofs Go.Compare Go.CompareSpec
  Go.ListOrder Go.KeyOrder Go.CompareProofs Go.Canon Go.CompareThms Go.MapLemmas
  Ord.Sorter Ord.Model.
From Coq Require Import Lia Permutation Sorted.
Open Scope Z_scope.

(* ---------- generic helpers ---------- *)
Lemma strict_weak_ext {A} (f g : A -> A -> bool) l :
  (forall a b, In a l -> In b l -> f a b = g a b) -> strict_weak f l -> strict_weak g l.
Proof.
  intros E SW. constructor.
  - intros a Ha. rewrite <- E by assumption. apply (sw_irrefl f l SW); assumption.
  - intros a b c Ha Hb Hc. rewrite <- !E by assumption. apply (sw_trans f l SW); assumption.
  - intros a b c Ha Hb Hc. rewrite <- !E by assumption. apply (sw_negtrans f l SW); assumption.
Qed.

Lemma StronglySorted_impl_in {A} (R R' : A -> A -> Prop) l :
  (forall a b, In a l -> In b l -> R a b -> R' a b) -> StronglySorted R l -> StronglySorted R' l.
Proof.
  intros H S. induction S as [|a l S IH F]; [constructor|].
  constructor.
  - apply IH. intros x y Hx Hy. apply H; right; assumption.
  - rewrite Forall_forall in *. intros y Hy. apply H; [left; reflexivity| right; exact Hy| apply F; exact Hy].
Qed.

Lemma all_ok_in {B} (rs : list (res B)) : all_ok rs = Ok tt -> forall r, In r rs -> exists b, r = Ok b.
Proof.
  induction rs as [|r0 rs IH]; intros H r Hin; [destruct Hin|].
  destruct r0; cbn in H; try discriminate.
  destruct Hin as [<-|Hin]; [eexists; reflexivity| apply IH; assumption].
Qed.

Lemma all_ok_intro {B} (rs : list (res B)) : (forall r, In r rs -> exists b, r = Ok b) -> all_ok rs = Ok tt.
Proof.
  induction rs as [|r0 rs IH]; intros H; [reflexivity|].
  destruct (H r0 (or_introl eq_refl)) as [b ->]. cbn. apply IH. intros r Hr. apply H. right. exact Hr.
Qed.

Lemma status_ok f l : status f l = Ok tt -> forall x y, In x l -> In y l -> exists b, f x y = Ok b.
Proof.
  intros H x y Hx Hy. apply (all_ok_in _ H (f x y)).
  apply in_map_iff. exists (x, y). split; [reflexivity| apply in_prod; assumption].
Qed.

Lemma status_intro f l : (forall x y, In x l -> In y l -> exists b, f x y = Ok b) -> status f l = Ok tt.
Proof.
  intros H. apply all_ok_intro. intros r Hr. apply in_map_iff in Hr as [[x y] [<- Hp]].
  apply in_prod_iff in Hp as [Hx Hy]. apply H; assumption.
Qed.

Lemma status_unit f l : status f l = Ok tt \/ status f l <> Ok tt.
Proof. destruct (status f l) as [[]| | |]; [left; reflexivity| right; discriminate ..]. Qed.

(* ---------- the order of the generated Compare on a set of values ---------- *)
Definition cz (e : tenv) (t : ty) (x y : val) : Z := match cmpm e t x y with Ok c => c | _ => 0 end.

Section Order.
Variables (e : tenv) (t : ty) (U : list val).
Hypothesis HT : forall x, In x U -> has_type e t x = true.
Hypothesis HD : forall x y, In x U -> In y U -> exists c, cmpm e t x y = Ok c.

Lemma cz_ok x y : In x U -> In y U -> cmpm e t x y = Ok (cz e t x y).
Proof. intros Hx Hy. unfold cz. destruct (HD x y Hx Hy) as [c ->]. reflexivity. Qed.

Lemma cz_antisym x y : In x U -> In y U -> cz e t y x = - cz e t x y.
Proof.
  intros Hx Hy.
  apply (CompareThms.compare_antisym e t x y _ _ (HT x Hx) (HT y Hy) (cz_ok x y Hx Hy) (cz_ok y x Hy Hx)).
Qed.

Lemma cz_refl x : In x U -> cz e t x x = 0.
Proof. intros Hx. pose proof (cz_antisym x x Hx Hx). lia. Qed.

Lemma cz_le_trans x y z : In x U -> In y U -> In z U ->
  cz e t x y <= 0 -> cz e t y z <= 0 -> cz e t x z <= 0.
Proof.
  intros Hx Hy Hz.
  apply (CompareThms.compare_trans e t x y z _ _ _ (HT x Hx) (HT y Hy) (HT z Hz) (cz_ok x y Hx Hy) (cz_ok y z Hy Hz) (cz_ok x z Hx Hz)).
Qed.

Lemma cz_lt_trans x y z : In x U -> In y U -> In z U ->
  cz e t x y < 0 -> cz e t y z <= 0 -> cz e t x z < 0.
Proof.
  intros Hx Hy Hz.
  apply (CompareThms.compare_trans_strict e t x y z _ _ _ (HT x Hx) (HT y Hy) (HT z Hz) (cz_ok x y Hx Hy) (cz_ok y z Hy Hz) (cz_ok x z Hx Hz)).
Qed.

Lemma sw_lt : strict_weak (fun x y => cz e t x y <? 0) U.
Proof.
  constructor.
  - intros a Ha. rewrite (cz_refl a Ha). reflexivity.
  - intros a b c Ha Hb Hc H1 H2. apply Z.ltb_lt in H1, H2. apply Z.ltb_lt.
    apply (cz_lt_trans a b c); try assumption. lia.
  - intros a b c Ha Hb Hc H1 H2. apply Z.ltb_ge in H1, H2. apply Z.ltb_ge.
    pose proof (cz_antisym a b Ha Hb). pose proof (cz_antisym b c Hb Hc). pose proof (cz_antisym a c Ha Hc).
    pose proof (cz_le_trans c b a Hc Hb Ha). lia.
Qed.

Lemma sw_gt : strict_weak (fun x y => 0 <? cz e t x y) U.
Proof.
  constructor.
  - intros a Ha. rewrite (cz_refl a Ha). reflexivity.
  - intros a b c Ha Hb Hc H1 H2. apply Z.ltb_lt in H1, H2. apply Z.ltb_lt.
    pose proof (cz_antisym a b Ha Hb). pose proof (cz_antisym b c Hb Hc). pose proof (cz_antisym a c Ha Hc).
    pose proof (cz_lt_trans c b a Hc Hb Ha). lia.
  - intros a b c Ha Hb Hc H1 H2. apply Z.ltb_ge in H1, H2. apply Z.ltb_ge.
    apply (cz_le_trans a b c); assumption.
Qed.
End Order.

(* ---------- the natural order of Go on basic types is the order of the generated Compare ---------- *)
Lemma nat_lt_cmp k x y : no_lt k = false -> basic_ok k x = true -> basic_ok k y = true ->
  exists c, leaf_cmp k x y = Some c /\ nat_lt x y = Some (c <? 0) /\ nat_lt y x = Some (0 <? c).
Proof.
  intros Hk Hx Hy.
  destruct k; try discriminate; destruct x; try discriminate; destruct y; try discriminate; cbn [leaf_cmp nat_lt].
  - (* integers *)
    eexists. split; [reflexivity|]. unfold cmp_int.
    split; f_equal; destruct (Z.eqb_spec z z0); destruct (Z.ltb_spec z z0); destruct (Z.ltb_spec z0 z); cbn; try lia; reflexivity.
  - (* float32 *)
    eexists. split; [reflexivity|]. unfold cmp_float, flt.
    destruct (feq neg mag neg0 mag0) eqn:E.
    + apply fkey_eq in E. rewrite E, Z.ltb_irrefl. split; reflexivity.
    + assert (NE : fkey neg mag <> fkey neg0 mag0) by (intros Q; apply fkey_eq in Q; congruence).
      split; f_equal; destruct (Z.ltb_spec (fkey neg mag) (fkey neg0 mag0)); destruct (Z.ltb_spec (fkey neg0 mag0) (fkey neg mag)); cbn; try lia; reflexivity.
  - (* float64 *)
    eexists. split; [reflexivity|]. unfold cmp_float, flt.
    destruct (feq neg mag neg0 mag0) eqn:E.
    + apply fkey_eq in E. rewrite E, Z.ltb_irrefl. split; reflexivity.
    + assert (NE : fkey neg mag <> fkey neg0 mag0) by (intros Q; apply fkey_eq in Q; congruence).
      split; f_equal; destruct (Z.ltb_spec (fkey neg mag) (fkey neg0 mag0)); destruct (Z.ltb_spec (fkey neg0 mag0) (fkey neg mag)); cbn; try lia; reflexivity.
  - (* strings *)
    eexists. split; [reflexivity|]. split; [reflexivity|]. f_equal.
    rewrite (bytes_cmp_lex s0 s), (bytes_cmp_lex s s0), (lexcmp_antisym (str_enc s) (str_enc s0)).
    destruct (Z.ltb_spec (- lexcmp (str_enc s) (str_enc s0)) 0); destruct (Z.ltb_spec 0 (lexcmp (str_enc s) (str_enc s0))); try lia; reflexivity.
Qed.

Definition natural (k : okind) : bool := match k with KStdlib | KNatural => true | _ => false end.

Lemma natural_basic e t k : (k = sort_kind e t \/ k = minmax_kind e t) -> natural k = true ->
  exists r b, resolve e t = Some r /\ r_node r = TB b /\ no_lt b = false.
Proof.
  intros [->| ->] H.
  - unfold sort_kind in H.
    assert (G : forall b, no_lt b = false -> exists r b', resolve e (TB b) = Some r /\ r_node r = TB b' /\ no_lt b' = false)
      by (intros b Hb; eexists; exists b; cbn; auto).
    destruct t as [b| | | | | | |]; try (destruct b as [|w s| | | | |]; try (apply G; reflexivity));
    cbn [natural] in H.
    all: try (destruct (resolve e _) as [r|] eqn:R; [|discriminate];
              destruct (r_node r) as [b'| | | | | | |] eqn:N; try discriminate;
              destruct (no_lt b') eqn:NL; try discriminate; exists r, b'; auto).
    all: cbn in H; try discriminate.
  - unfold minmax_kind in H. destruct t as [b| | | | | | |].
    + destruct (no_lt b) eqn:NL; [discriminate|]. eexists; exists b; cbn; auto.
    + destruct (resolve e _); discriminate.
    + destruct (resolve e _); discriminate.
    + destruct (resolve e _); discriminate.
    + destruct (resolve e _); discriminate.
    + destruct (resolve e _); discriminate.
    + destruct (resolve e _); discriminate.
    + destruct (resolve e _); discriminate.
Qed.

(* both tests of the emitted code, read through the generated Compare *)
Lemma by_cz e t k x y : (k = sort_kind e t \/ k = minmax_kind e t) ->
  has_type e t x = true -> has_type e t y = true ->
  (forall b, less_by k e t x y = Ok b -> cmpm e t x y = Ok (cz e t x y) /\ b = (cz e t x y <? 0)) /\
  (forall b, greater_by k e t x y = Ok b -> cmpm e t x y = Ok (cz e t x y) /\ b = (0 <? cz e t x y)) /\
  (natural k = true -> less_by k e t x y = of_option (nat_lt x y) /\ greater_by k e t x y = of_option (nat_lt y x)
                       /\ exists c, cmpm e t x y = Ok c).
Proof.
  intros Hk Hx Hy.
  destruct (natural k) eqn:Nk.
  - destruct (natural_basic e t k Hk Nk) as (r & b0 & R & N & NL).
    rewrite has_type_unfold, R in Hx, Hy. cbn zeta in Hx, Hy. rewrite N in Hx, Hy.
    destruct (nat_lt_cmp b0 x y NL Hx Hy) as (c & Lc & L1 & L2).
    assert (C : cmpm e t x y = Ok c) by (rewrite cmpm_unfold, R; cbn zeta; rewrite N, Lc; reflexivity).
    assert (Z : cz e t x y = c) by (unfold cz; rewrite C; reflexivity).
    assert (F : less_by k e t x y = of_option (nat_lt x y) /\ greater_by k e t x y = of_option (nat_lt y x))
      by (destruct k; try discriminate; split; reflexivity).
    destruct F as [F1 F2]. rewrite Z, F1, F2, L1, L2. cbn [of_option].
    split; [|split].
    + intros b Hb. inversion Hb. auto.
    + intros b Hb. inversion Hb. auto.
    + intros _. split; [reflexivity|]. split; [reflexivity|]. exists c. exact C.
  - split; [|split]; [| |discriminate].
    + intros b Hb. destruct k; try discriminate. cbn [less_by] in Hb. unfold cmp_lt in Hb. unfold cz.
      destruct (cmpm e t x y); cbn in Hb; try discriminate. inversion Hb. auto.
    + intros b Hb. destruct k; try discriminate. cbn [greater_by] in Hb. unfold cmp_gt in Hb. unfold cz.
      destruct (cmpm e t x y); cbn in Hb; try discriminate. inversion Hb. auto.
Qed.

(* a list on which one of the two tests is defined everywhere: Compare is defined everywhere *)
Section Defined.
Variables (e : tenv) (t : ty) (k : okind) (U : list val).
Hypothesis Hk : k = sort_kind e t \/ k = minmax_kind e t.
Hypothesis HT : forall x, In x U -> has_type e t x = true.

Lemma defined_lt : (forall x y, In x U -> In y U -> exists b, less_by k e t x y = Ok b) ->
  forall x y, In x U -> In y U -> exists c, cmpm e t x y = Ok c.
Proof.
  intros H x y Hx Hy. destruct (H x y Hx Hy) as [b Hb].
  destruct (by_cz e t k x y Hk (HT x Hx) (HT y Hy)) as (B & _ & _). destruct (B b Hb) as [C _]. eexists; exact C.
Qed.

Lemma defined_gt : (forall x y, In x U -> In y U -> exists b, greater_by k e t x y = Ok b) ->
  forall x y, In x U -> In y U -> exists c, cmpm e t x y = Ok c.
Proof.
  intros H x y Hx Hy. destruct (H x y Hx Hy) as [b Hb].
  destruct (by_cz e t k x y Hk (HT x Hx) (HT y Hy)) as (_ & B & _). destruct (B b Hb) as [C _]. eexists; exact C.
Qed.

Lemma tot_lt : (forall x y, In x U -> In y U -> exists b, less_by k e t x y = Ok b) ->
  forall x y, In x U -> In y U -> (cz e t x y <? 0) = tot (less_by k e t x y).
Proof.
  intros H x y Hx Hy. destruct (H x y Hx Hy) as [b Hb].
  destruct (by_cz e t k x y Hk (HT x Hx) (HT y Hy)) as (B & _ & _). destruct (B b Hb) as [_ ->].
  rewrite Hb. reflexivity.
Qed.

Lemma tot_gt : (forall x y, In x U -> In y U -> exists b, greater_by k e t x y = Ok b) ->
  forall x y, In x U -> In y U -> (0 <? cz e t x y) = tot (greater_by k e t x y).
Proof.
  intros H x y Hx Hy. destruct (H x y Hx Hy) as [b Hb].
  destruct (by_cz e t k x y Hk (HT x Hx) (HT y Hy)) as (_ & B & _). destruct (B b Hb) as [_ ->].
  rewrite Hb. reflexivity.
Qed.

Lemma sw_less : (forall x y, In x U -> In y U -> exists b, less_by k e t x y = Ok b) ->
  strict_weak (fun x y => tot (less_by k e t x y)) U.
Proof.
  intros H. apply (strict_weak_ext (fun x y => cz e t x y <? 0)); [apply tot_lt; exact H|].
  apply sw_lt; [exact HT| apply defined_lt; exact H].
Qed.

Lemma sw_greater : (forall x y, In x U -> In y U -> exists b, greater_by k e t x y = Ok b) ->
  strict_weak (fun x y => tot (greater_by k e t x y)) U.
Proof.
  intros H. apply (strict_weak_ext (fun x y => 0 <? cz e t x y)); [apply tot_gt; exact H|].
  apply sw_gt; [exact HT| apply defined_gt; exact H].
Qed.
End Defined.

(* the comparisons are defined on well-typed values whenever the generator accepts the type *)
Lemma tests_defined e t k x y : (k = sort_kind e t \/ k = minmax_kind e t) -> k <> KIll ->
  has_type e t x = true -> has_type e t y = true -> cmpm e t x y <> Unsup ->
  (exists b, less_by k e t x y = Ok b) /\ (exists b, greater_by k e t x y = Ok b).
Proof.
  intros Hk NI Hx Hy NU.
  destruct (natural k) eqn:Nk.
  - destruct (by_cz e t k x y Hk Hx Hy) as (_ & _ & B). destruct (B Nk) as (-> & -> & _).
    destruct (natural_basic e t k Hk Nk) as (r & b0 & R & N & NL).
    rewrite has_type_unfold, R in Hx, Hy. cbn zeta in Hx, Hy. rewrite N in Hx, Hy.
    destruct (nat_lt_cmp b0 x y NL Hx Hy) as (c & _ & -> & ->). split; eexists; reflexivity.
  - destruct k; try discriminate; [|congruence].
    destruct (cmpm_enc x e t y Hx Hy) as (a & b & _ & _ & _ & [U|C]); [congruence|].
    cbn [less_by greater_by]. unfold cmp_lt, cmp_gt. rewrite C. split; eexists; reflexivity.
Qed.

(* ---------- Sort ---------- *)
Definition cmp_le (e : tenv) (t : ty) (x y : val) : Prop := exists c, cmpm e t x y = Ok c /\ c <= 0.
Definition cmp_ge (e : tenv) (t : ty) (x y : val) : Prop := exists c, cmpm e t x y = Ok c /\ 0 <= c.
Definition cmp_less (e : tenv) (t : ty) (x y : val) : Prop := exists c, cmpm e t x y = Ok c /\ c < 0.
Definition cmp_greater (e : tenv) (t : ty) (x y : val) : Prop := exists c, cmpm e t x y = Ok c /\ 0 < c.
Definition nat_le (x y : val) : Prop := nat_lt y x = Some false.

Section SortThm.
Variable srt : @sorter val.
Hypothesis Hsrt : sorter_ok srt.

Theorem sort_perm_sorted e t l l' :
  Forall (fun x => has_type e t x = true) l ->
  sort_list srt e t l = Ok l' ->
  Permutation l' l /\
  StronglySorted (cmp_le e t) l' /\
  (natural (sort_kind e t) = true -> StronglySorted nat_le l').
Proof.
  intros HT H. rewrite Forall_forall in HT. unfold sort_list in H.
  set (f := less_by (sort_kind e t) e t) in *.
  destruct (status f l) as [[]| | |] eqn:S; cbn in H; try discriminate. inversion H; subst l'; clear H.
  pose proof (status_ok f l S) as D.
  assert (Hk : sort_kind e t = sort_kind e t \/ sort_kind e t = minmax_kind e t) by (left; reflexivity).
  pose proof (sw_less e t _ l Hk HT D) as SW.
  destruct (Hsrt (fun x y => tot (f x y)) l) as [P SS]. specialize (SS SW).
  assert (I : forall a, In a (srt (fun x y => tot (f x y)) l) -> In a l) by (intros a; apply Permutation_in; exact P).
  split; [exact P|]. split.
  - refine (StronglySorted_impl_in _ _ _ _ SS).
    intros a b Ha Hb R. unfold not_after, f in R. cbv beta in R.
    rewrite <- (tot_lt e t _ l Hk HT D b a (I b Hb) (I a Ha)) in R. apply Z.ltb_ge in R.
    pose proof (defined_lt e t _ l Hk HT D) as DC.
    exists (cz e t a b). split; [apply (cz_ok e t l DC); auto|].
    rewrite (cz_antisym e t l HT DC b a) by auto. lia.
  - intros Nk. refine (StronglySorted_impl_in _ _ _ _ SS).
    intros a b Ha Hb R. unfold not_after in R. cbv beta in R. unfold nat_le.
    destruct (by_cz e t _ b a Hk (HT b (I b Hb)) (HT a (I a Ha))) as (_ & _ & B). destruct (B Nk) as (E & _ & _).
    destruct (D b a (I b Hb) (I a Ha)) as [bb Hbb]. rewrite Hbb in R. cbn in R. subst bb.
    unfold f in Hbb. rewrite E in Hbb. destruct (nat_lt b a) as [q|]; cbn in Hbb; [inversion Hbb; reflexivity| discriminate].
Qed.

(* deriveSort on a slice value: same backing array, same spare capacity, nil stays nil *)
Theorem sort_model_spec e t v v' :
  has_type e (TSl t) v = true -> sort_model srt e t v = Ok v' ->
  match v, v' with
  | VNilS, VNilS => True
  | VSl loc es sp, VSl loc' es' sp' =>
      loc' = loc /\ sp' = sp /\ Permutation es' es /\ StronglySorted (cmp_le e t) es'
  | _, _ => False
  end.
Proof.
  intros HT H. destruct v; cbn in H; try discriminate.
  - inversion H. exact I.
  - destruct (sort_list srt e t es) as [es'| | |] eqn:S; cbn in H; try discriminate. inversion H; subst v'.
    rewrite has_type_unfold in HT. cbn in HT. apply andb_prop in HT as [HT _]. apply forallb_Forall in HT.
    destruct (sort_perm_sorted e t es es' HT S) as (P & SS & _). auto.
Qed.

(* whenever the generator accepts the element type the model of Sort returns *)
Theorem sort_defined e t l :
  Forall (fun x => has_type e t x = true) l -> sort_kind e t <> KIll ->
  (forall x y, In x l -> In y l -> cmpm e t x y <> Unsup) ->
  exists l', sort_list srt e t l = Ok l'.
Proof.
  intros HT NI NU. rewrite Forall_forall in HT. unfold sort_list.
  rewrite status_intro; [cbn; eexists; reflexivity|].
  intros x y Hx Hy. apply (tests_defined e t (sort_kind e t) x y); auto.
Qed.
End SortThm.

Theorem sorter_instance_ok : sorter_ok (@isort val).
Proof. exact isort_ok. Qed.

(* ---------- Keys ---------- *)
Section KeysThm.
Variables (e : tenv) (kt : ty).
Hypothesis Ck : can_equal kt = true.
Notation KT k := (has_type e kt k = true).

Lemma distinct_iff_NoDup ks : Forall (fun k => KT k) ks ->
  (keys_distinct ks = true <-> NoDup (map (enc e kt) ks)).
Proof.
  induction ks as [|k ks IH]; intros T; cbn [keys_distinct map]; [split; [constructor|reflexivity]|].
  inversion T as [|? ? Tk Tks]; subst. rewrite Bool.andb_true_iff, Bool.negb_true_iff, (IH Tks).
  rewrite Forall_forall in Tks.
  split.
  - intros [D1 D2]. constructor; [|exact D2]. intros Hin. apply in_map_iff in Hin as [k' [E Hin]].
    assert (existsb (go_eqeq k) ks = true); [|congruence].
    apply existsb_exists. exists k'. split; [exact Hin|].
    apply (geq_iff_enc e kt Ck k k' Tk (Tks k' Hin)). symmetry. exact E.
  - intros ND. inversion ND as [|? ? Nin ND']; subst. split; [|exact ND'].
    destruct (existsb (go_eqeq k) ks) eqn:X; [|reflexivity]. exfalso. apply Nin.
    apply existsb_exists in X as [k' [Hin G]]. apply in_map_iff. exists k'. split; [|exact Hin].
    symmetry. apply (geq_iff_enc e kt Ck k k' Tk (Tks k' Hin)). exact G.
Qed.

Lemma once ks : Forall (fun k => KT k) ks -> NoDup (map (enc e kt) ks) ->
  forall k, In k ks -> length (filter (go_eqeq k) ks) = 1%nat.
Proof.
  induction ks as [|a ks IH]; intros T ND k Hin; [destruct Hin|].
  inversion T as [|? ? Ta Tks]; subst. cbn in ND. inversion ND as [|? ? Nin ND']; subst.
  assert (Tk : KT k) by (rewrite Forall_forall in T; apply T; exact Hin).
  cbn [filter]. destruct (go_eqeq k a) eqn:G.
  - cbn [length]. f_equal.
    assert (Z : filter (go_eqeq k) ks = []); [|rewrite Z; reflexivity].
    apply (geq_iff_enc e kt Ck k a Tk Ta) in G.
    rewrite Forall_forall in Tks.
    destruct (filter (go_eqeq k) ks) as [|x xs] eqn:F; [reflexivity|]. exfalso.
    assert (Hx : In x (filter (go_eqeq k) ks)) by (rewrite F; left; reflexivity).
    apply filter_In in Hx as [Hx Gx]. apply (geq_iff_enc e kt Ck k x Tk (Tks x Hx)) in Gx.
    apply Nin. apply in_map_iff. exists x. split; [congruence| exact Hx].
  - destruct Hin as [->|Hin].
    + rewrite (go_eqeq_refl_typed kt e k Ck Tk) in G. discriminate.
    + apply IH; assumption.
Qed.
End KeysThm.

Section KeysModelThm.
Variable order : list (val * val) -> list (val * val).
Hypothesis order_perm : forall l, Permutation (order l) l.

(* for every iteration order: a fresh slice without spare capacity holding a permutation of the
   key list, every key exactly once (also when counted with ==) *)
Theorem keys_exactly_once e t r kt vt fresh m res :
  resolve e t = Some r -> r_node r = TM kt vt ->
  has_type e t m = true ->
  keys_model order fresh m = Ok res ->
  match m with
  | VNilM => res = VSl fresh [] []
  | VMap _ kvs =>
      exists ks, res = VSl fresh ks [] /\
        Permutation ks (map fst kvs) /\
        keys_distinct ks = true /\
        (forall k, In k (map fst kvs) -> length (filter (go_eqeq k) ks) = 1%nat) /\
        Forall (fun k => has_type (r_env r) kt k = true) ks
  | _ => False
  end.
Proof.
  intros R N HT H. rewrite has_type_unfold, R in HT. cbn zeta in HT. rewrite N in HT.
  destruct m; try discriminate; cbn in H; inversion H; subst res; [reflexivity|].
  exists (map fst (order kvs)). split; [reflexivity|].
  apply andb_prop in HT as [HT T]. apply andb_prop in HT as [Ck D].
  assert (P : Permutation (map fst (order kvs)) (map fst kvs)) by (apply Permutation_map, order_perm).
  assert (T0 : Forall (fun k => has_type (r_env r) kt k = true) (map fst kvs)).
  { apply forallb_Forall in T. rewrite Forall_forall in *. intros k Hk. apply in_map_iff in Hk as [kv [<- Hkv]].
    specialize (T kv Hkv). apply andb_prop in T as [T _]. exact T. }
  assert (T1 : Forall (fun k => has_type (r_env r) kt k = true) (map fst (order kvs))).
  { rewrite Forall_forall in *. intros k Hk. apply T0. apply (Permutation_in _ P). exact Hk. }
  assert (ND : NoDup (map (enc (r_env r) kt) (map fst (order kvs)))).
  { apply (Permutation_NoDup (l := map (enc (r_env r) kt) (map fst kvs))).
    - apply Permutation_map. symmetry. exact P.
    - apply (distinct_iff_NoDup (r_env r) kt Ck); assumption. }
  split; [exact P|]. split; [apply (distinct_iff_NoDup (r_env r) kt Ck); assumption|].
  split; [|exact T1].
  intros k Hk. apply (once (r_env r) kt Ck); try assumption.
  apply (Permutation_in _ (Permutation_sym P)). exact Hk.
Qed.
End KeysModelThm.

(* ---------- Min / Max ---------- *)
Lemma elems_typed e t loc es sp : has_type e (TSl t) (VSl loc es sp) = true ->
  forall x, In x es -> has_type e t x = true.
Proof.
  intros HT. rewrite has_type_unfold in HT. cbn in HT. apply andb_prop in HT as [HT _].
  apply forallb_Forall in HT. rewrite Forall_forall in HT. exact HT.
Qed.

Theorem min_is_minimal e t lst def r :
  has_type e (TSl t) lst = true ->
  min_model e t lst def = Ok r ->
  match lst with
  | VSl _ (x :: l) _ =>
      exists pre post, (x :: l = pre ++ r :: post)%list /\
        (forall y, In y pre -> cmp_less e t r y) /\          (* r is the first of the minimal elements *)
        (forall y, In y (x :: l) -> cmp_ge e t y r)          (* no element precedes r *)
  | _ => r = def
  end.
Proof.
  intros HT H. destruct lst as [?|?|? ?|? ? ? ?|?| |? ?| |loc es sp| |? ?|?|?]; cbn in H; try discriminate; [inversion H; reflexivity|].
  destruct es as [|x l]; [inversion H; reflexivity|].
  pose proof (elems_typed e t _ _ _ HT) as T.
  unfold scan_res in H.
  destruct (status (less_by (minmax_kind e t) e t) (x :: l)) as [[]| | |] eqn:S; cbn in H; try discriminate.
  pose proof (scan_lit_scanb (fun a b => tot (less_by (minmax_kind e t) e t a b)) [] l x) as SL. cbn in SL. rewrite SL in H. inversion H; subst r; clear H SL.
  pose proof (status_ok _ _ S) as D.
  assert (Hk : minmax_kind e t = sort_kind e t \/ minmax_kind e t = minmax_kind e t) by (right; reflexivity).
  pose proof (sw_less e t _ _ Hk T D) as SW.
  pose proof (defined_lt e t _ _ Hk T D) as DC.
  destruct (scanb_first_best _ x l SW) as (pre & post & E & P1 & P2).
  destruct (scanb_best _ x l SW) as (I & B).
  set (r := scanb _ x l) in *.
  exists pre, post. split; [exact E|]. split.
  - intros y Hy. assert (Iy : In y (x :: l)) by (rewrite E; apply in_or_app; left; exact Hy).
    specialize (P1 y Hy). cbv beta in P1. rewrite <- (tot_lt e t _ _ Hk T D r y I Iy) in P1. apply Z.ltb_lt in P1.
    exists (cz e t r y). split; [apply (cz_ok e t _ DC); assumption| exact P1].
  - intros y Iy. specialize (B y Iy). cbv beta in B. rewrite <- (tot_lt e t _ _ Hk T D y r Iy I) in B. apply Z.ltb_ge in B.
    exists (cz e t y r). split; [apply (cz_ok e t _ DC); assumption| exact B].
Qed.

Theorem max_is_maximal e t lst def r :
  has_type e (TSl t) lst = true ->
  max_model e t lst def = Ok r ->
  match lst with
  | VSl _ (x :: l) _ =>
      exists pre post, (x :: l = pre ++ r :: post)%list /\
        (forall y, In y pre -> cmp_greater e t r y) /\       (* r is the first of the maximal elements *)
        (forall y, In y (x :: l) -> cmp_le e t y r)          (* no element follows r *)
  | _ => r = def
  end.
Proof.
  intros HT H. destruct lst as [?|?|? ?|? ? ? ?|?| |? ?| |loc es sp| |? ?|?|?]; cbn in H; try discriminate; [inversion H; reflexivity|].
  destruct es as [|x l]; [inversion H; reflexivity|].
  pose proof (elems_typed e t _ _ _ HT) as T.
  unfold scan_res in H.
  destruct (status (greater_by (minmax_kind e t) e t) (x :: l)) as [[]| | |] eqn:S; cbn in H; try discriminate.
  pose proof (scan_lit_scanb (fun a b => tot (greater_by (minmax_kind e t) e t a b)) [] l x) as SL. cbn in SL. rewrite SL in H. inversion H; subst r; clear H SL.
  pose proof (status_ok _ _ S) as D.
  assert (Hk : minmax_kind e t = sort_kind e t \/ minmax_kind e t = minmax_kind e t) by (right; reflexivity).
  pose proof (sw_greater e t _ _ Hk T D) as SW.
  pose proof (defined_gt e t _ _ Hk T D) as DC.
  destruct (scanb_first_best _ x l SW) as (pre & post & E & P1 & P2).
  destruct (scanb_best _ x l SW) as (I & B).
  set (r := scanb _ x l) in *.
  exists pre, post. split; [exact E|]. split.
  - intros y Hy. assert (Iy : In y (x :: l)) by (rewrite E; apply in_or_app; left; exact Hy).
    specialize (P1 y Hy). cbv beta in P1. rewrite <- (tot_gt e t _ _ Hk T D r y I Iy) in P1. apply Z.ltb_lt in P1.
    exists (cz e t r y). split; [apply (cz_ok e t _ DC); assumption| exact P1].
  - intros y Iy. specialize (B y Iy). cbv beta in B. rewrite <- (tot_gt e t _ _ Hk T D y r Iy I) in B. apply Z.ltb_ge in B.
    exists (cz e t y r). split; [apply (cz_ok e t _ DC); assumption| exact B].
Qed.

(* the list forms return the default exactly for the empty (or nil) list, whatever the default *)
Theorem minmax_default e t lst def :
  (lst = VNilS \/ exists loc sp, lst = VSl loc [] sp) ->
  min_model e t lst def = Ok def /\ max_model e t lst def = Ok def.
Proof. intros [->|(loc & sp & ->)]; split; reflexivity. Qed.

(* two-value forms: one of the arguments; a exactly when a strictly precedes (follows) b under
   the generated Compare; neither argument precedes (follows) the result *)
Theorem min2_max2 e t a b :
  has_type e t a = true -> has_type e t b = true ->
  (forall x y, In x [a; b] -> In y [a; b] -> cmpm e t x y <> Unsup) ->
  (forall r, min2_model e t a b = Ok r ->
     exists c, cmpm e t a b = Ok c /\ r = (if c <? 0 then a else b) /\ cmp_ge e t a r /\ cmp_ge e t b r) /\
  (forall r, max2_model e t a b = Ok r ->
     exists c, cmpm e t a b = Ok c /\ r = (if 0 <? c then a else b) /\ cmp_le e t a r /\ cmp_le e t b r).
Proof.
  intros Ha Hb NU.
  assert (Hk : minmax_kind e t = sort_kind e t \/ minmax_kind e t = minmax_kind e t) by (right; reflexivity).
  assert (HT : forall x, In x [a; b] -> has_type e t x = true) by (intros x [<-|[<-|[]]]; assumption).
  assert (HD : forall x y, In x [a; b] -> In y [a; b] -> exists c, cmpm e t x y = Ok c).
  { intros x y Hx Hy. destruct (cmpm_enc x e t y (HT x Hx) (HT y Hy)) as (p & q & _ & _ & _ & [U|C]); [|eexists; exact C].
    exfalso. apply (NU x y Hx Hy U). }
  assert (Ia : In a [a; b]) by (left; reflexivity). assert (Ib : In b [a; b]) by (right; left; reflexivity).
  destruct (by_cz e t _ a b Hk Ha Hb) as (BL & BG & _).
  pose proof (cz_ok e t _ HD) as OK. pose proof (cz_refl e t _ HT HD) as RF. pose proof (cz_antisym e t _ HT HD a b Ia Ib) as AS.
  split; intros r H.
  - unfold min2_model in H. destruct (less_by (minmax_kind e t) e t a b) as [bb| | |] eqn:L; cbn in H; try discriminate.
    inversion H; subst r; clear H. destruct (BL bb eq_refl) as [C ->].
    exists (cz e t a b). split; [exact C|]. split; [reflexivity|].
    destruct (Z.ltb_spec (cz e t a b) 0).
    + split; [exists (cz e t a a)| exists (cz e t b a)]; (split; [apply OK; assumption|]); rewrite ?RF by assumption; lia.
    + split; [exists (cz e t a b)| exists (cz e t b b)]; (split; [apply OK; assumption|]); rewrite ?RF by assumption; lia.
  - unfold max2_model in H. destruct (greater_by (minmax_kind e t) e t a b) as [bb| | |] eqn:L; cbn in H; try discriminate.
    inversion H; subst r; clear H. destruct (BG bb eq_refl) as [C ->].
    exists (cz e t a b). split; [exact C|]. split; [reflexivity|].
    destruct (Z.ltb_spec 0 (cz e t a b)).
    + split; [exists (cz e t a a)| exists (cz e t b a)]; (split; [apply OK; assumption|]); rewrite ?RF by assumption; lia.
    + split; [exists (cz e t a b)| exists (cz e t b b)]; (split; [apply OK; assumption|]); rewrite ?RF by assumption; lia.
Qed.
