(* Ord/Support.v — whenever the generator accepts a type for Compare ([cmp_sup]: no unnamed struct is
   reached, map keys are comparable by Compare) the model of the generated Compare returns on all
   well-typed values: the answer [Unsup] of [cmpm] depends on the type only.  This discharges the
   value-level side condition of the C13 theorems from the type-level support predicate. *)
From Verif Require Import Go.Ty Go.Val Go.Equal Go.EqualProofs Go.Compare Go.CompareSpec
  Go.ListOrder Go.KeyOrder Go.SortLemmas Go.CompareProofs.
From Coq Require Import Lia Permutation.
Open Scope Z_scope.

Definition env_sup (e : tenv) : Prop :=
  forall id ext u, tlookup id e = Some (ext, u) -> cmp_sup true u = true.

Lemma env_sup_nil : env_sup [].
Proof. intros id ext u H. discriminate. Qed.

Lemma resolve_sup e t r : env_sup e -> cmp_sup false t = true -> resolve e t = Some r ->
  env_sup (r_env r) /\ cmp_sup (is_named r) (r_node r) = true.
Proof.
  intros ES CS R. destruct t; cbn in R.
  all: try (inversion R; subst r; cbn; split; [exact ES| exact CS]).
  - destruct (is_namedish t); [discriminate|]. inversion R; subst r; cbn. split; [|exact CS].
    intros id' ext' u' H. cbn in H. destruct (Nat.eqb id id'); [inversion H; subst; exact CS| apply (ES id' ext' u' H)].
  - destruct (tlookup id e) as [[ext u]|] eqn:L; [|discriminate].
    destruct (is_namedish u || can_equal u)%bool; [discriminate|]. inversion R; subst r; cbn.
    split; [exact ES| apply (ES id ext u L)].
Qed.

Lemma elems_nu (g : val -> val -> res Z) (P : val -> Prop) xs :
  Forall (fun x => forall y, P y -> g x y <> Unsup) xs ->
  forall ys, Forall P ys -> elems_c g xs ys <> Unsup.
Proof.
  induction 1 as [|x xs Hx Hxs IH]; intros [|y ys] Hys; cbn; try discriminate.
  inversion Hys; subst. specialize (Hx y H1). destruct (g x y) as [c| | |]; cbn; try discriminate; [|congruence].
  destruct (Z.eqb c 0); [apply IH; assumption| discriminate].
Qed.

Lemma fields_nu (g : ty -> val -> val -> res Z) (ht : ty -> val -> bool) (S : ty -> Prop) xs :
  Forall (fun x => forall ft y, S ft -> ht ft x = true -> ht ft y = true -> g ft x y <> Unsup) xs ->
  forall fs ys, Forall (fun fd => S (snd fd)) fs -> fields_ok ht fs xs = true -> fields_ok ht fs ys = true ->
  fields_c g fs xs ys <> Unsup.
Proof.
  induction 1 as [|x xs Hx Hxs IH]; intros [|fd fs] [|y ys] HS Tx Ty; cbn in Tx, Ty; cbn; try discriminate.
  inversion HS; subst. apply andb_prop in Tx as [Tx1 Tx]. apply andb_prop in Ty as [Ty1 Ty].
  specialize (Hx (snd fd) y H1 Tx1 Ty1). destruct (g (snd fd) x y) as [c| | |]; cbn; try discriminate; [|congruence].
  destruct (Z.eqb c 0); [apply IH; assumption| discriminate].
Qed.

Lemma entries_nu (PV : val -> Prop) (xe : list (val * (val -> res Z))) :
  Forall (fun p => forall vy, PV vy -> snd p vy <> Unsup) xe ->
  forall ye : list (val * val), Forall (fun kv => PV (snd kv)) ye -> entries_c xe ye <> Unsup.
Proof.
  induction 1 as [|[kx cx] xe Hx Hxe IH]; intros [|[ky vy] ye] Hye; cbn; try discriminate.
  inversion Hye; subst. cbn in *. destruct (go_eqeq kx ky).
  - specialize (Hx vy H1). destruct (cx vy) as [c| | |]; cbn; try discriminate; [|congruence].
    destruct (Z.eqb c 0); [apply IH; assumption| discriminate].
  - destruct (Z.eqb (cmp_val kx ky) 0); [apply IH; assumption| discriminate].
Qed.

Lemma struct_fields_sup n fs : cmp_sup n (TSt fs) = true -> n = true /\ Forall (fun fd => cmp_sup false (snd fd) = true) fs.
Proof.
  cbn. intros H. apply andb_prop in H as [Hn H]. split; [exact Hn|].
  induction fs as [|fd fs IH]; [constructor|]. apply andb_prop in H as [H1 H2]. constructor; [exact H1| apply IH; exact H2].
Qed.

Theorem cmp_sup_defined : forall x e t y, env_sup e -> cmp_sup false t = true ->
  has_type e t x = true -> has_type e t y = true -> cmpm e t x y <> Unsup.
Proof.
  induction x using val_ind'; intros e t y ES CS Hx0 Hy0; pose proof Hx0 as Hx; pose proof Hy0 as Hy;
  rewrite has_type_unfold in Hx, Hy;
  destruct (resolve e t) as [r|] eqn:R; try discriminate; cbn zeta in Hx, Hy;
  destruct (resolve_sup e t r ES CS R) as [ES' CS'];
  destruct (r_node r) eqn:N; try discriminate;
  rewrite cmpm_unfold, R; cbn zeta; rewrite N.
  all: try (destruct (leaf_cmp _ _ _); cbn; discriminate).
  all: try (cbn in Hx; destruct k; discriminate).
  - (* VNilP *)
    destruct y; try discriminate. destruct (resolve (r_env r) t0); discriminate.
  - (* VPtr *)
    destruct y; try discriminate.
    assert (exists rr, resolve (r_env r) t0 = Some rr) as [rr RR].
    { rewrite has_type_unfold in Hx. destruct (resolve (r_env r) t0); [eexists; reflexivity|discriminate]. }
    rewrite RR.
    assert (CS0 : cmp_sup false t0 = true) by (destruct (is_named r); exact CS').
    specialize (IHx (r_env r) t0 y ES' CS0 Hx Hy).
    destruct (r_node rr) eqn:NN; try exact IHx.
    destruct (is_named rr) eqn:NM; [|exact IHx].
    rewrite cmpm_unfold, RR in IHx. cbn zeta in IHx. rewrite NN, NM in IHx.
    rewrite has_type_unfold, RR in Hx, Hy. cbn zeta in Hx, Hy. rewrite NN in Hx, Hy.
    destruct x; try discriminate. destruct y; try discriminate. exact IHx.
  - (* VNilS *) destruct y; discriminate.
  - (* VSl *)
    destruct y; try discriminate.
    apply andb_prop in Hx as [Hx _]. apply andb_prop in Hy as [Hy _].
    assert (CS0 : cmp_sup false t0 = true) by (destruct (is_named r); exact CS').
    destruct (negb _); [destruct (Nat.ltb _ _); discriminate|].
    apply (elems_nu _ (fun b => has_type (r_env r) t0 b = true)); [| apply forallb_Forall; exact Hy].
    apply forallb_Forall in Hx. rewrite Forall_forall in *. intros a Ha b Hb.
    apply H; [exact Ha| exact ES'| exact CS0| apply Hx; exact Ha| exact Hb].
  - (* VNilM *) destruct y; discriminate.
  - (* VMap *)
    destruct y; try discriminate.
    rename kvs0 into ym. rename kvs into xm.
    apply andb_prop in Hx as [_ Hx]. apply andb_prop in Hy as [_ Hy].
    assert (CS0 : (key_sup t0_1 && cmp_sup false t0_2)%bool = true) by (destruct (is_named r); exact CS').
    apply andb_prop in CS0 as [KS VS].
    destruct (negb (Nat.eqb _ _)); [destruct (Nat.ltb _ _); discriminate|].
    rewrite KS. cbn [negb].
    apply (entries_nu (fun v' => has_type (r_env r) t0_2 v' = true)).
    + apply forallb_Forall in Hx. rewrite Forall_forall in *. intros p Hp vy Hvy.
      apply sort_by_In in Hp. apply in_map_iff in Hp as [kv [<- Hkv]]. cbn [snd].
      destruct (H kv Hkv) as [_ IHv]. specialize (Hx kv Hkv). apply andb_prop in Hx as [_ Hv].
      apply IHv; assumption.
    + apply forallb_Forall in Hy. rewrite Forall_forall in *. intros kv Hkv.
      apply sort_by_In in Hkv. specialize (Hy kv Hkv). apply andb_prop in Hy as [_ Hv]. exact Hv.
  - (* VArr *)
    destruct y; try discriminate.
    apply andb_prop in Hx as [_ Hx]. apply andb_prop in Hy as [_ Hy].
    assert (CS0 : cmp_sup false t0 = true) by (destruct (is_named r); exact CS').
    destruct (negb _); [destruct (Nat.ltb _ _); discriminate|].
    apply (elems_nu _ (fun b => has_type (r_env r) t0 b = true)); [| apply forallb_Forall; exact Hy].
    apply forallb_Forall in Hx. rewrite Forall_forall in *. intros a Ha b Hb.
    apply H; [exact Ha| exact ES'| exact CS0| apply Hx; exact Ha| exact Hb].
  - (* VSt *)
    destruct y; try discriminate.
    destruct (struct_fields_sup _ _ CS') as [NM FS]. rewrite NM.
    apply (fields_nu _ (has_type (r_env r)) (fun ft => cmp_sup false ft = true)); [| exact FS| exact Hx| exact Hy].
    rewrite Forall_forall in *. intros a Ha ft b Sft Hta Htb. apply H; assumption.
Qed.
