(* Ord/EvalSound.v — the boolean checks the evaluator (Eval13.v) runs on the REAL outputs decide
   the propositions of the specification: [sorted_b] is StronglySorted, [multiset_eq] is
   "a permutation up to the element equality used", the exactly-once count of Keys is the
   statement of keys_exactly_once. *)
From Verif Require Import Base Sexp Go.Ty Go.Val Eval13.
From Coq Require Import Permutation Sorted.

Lemma sorted_b_sound le l : sorted_b le l = true <-> StronglySorted (fun a b => le a b = true) l.
Proof.
  induction l as [|a l IH]; cbn; [split; [constructor|reflexivity]|].
  rewrite Bool.andb_true_iff, forallb_forall, IH. split.
  - intros [F S]. constructor; [exact S| apply Forall_forall; exact F].
  - intros S. inversion S; subst. split; [apply Forall_forall; assumption| assumption].
Qed.

Lemma remove1_perm {A} (p : A -> bool) l l' : remove1 p l = Some l' ->
  exists a, p a = true /\ Permutation l (a :: l').
Proof.
  revert l'. induction l as [|b l IH]; intros l' H; cbn in H; [discriminate|].
  destruct (p b) eqn:Pb.
  - inversion H; subst. exists b. split; [exact Pb| reflexivity].
  - destruct (remove1 p l) as [r|] eqn:R; cbn in H; [|discriminate]. inversion H; subst.
    destruct (IH r eq_refl) as (a & Pa & Perm). exists a. split; [exact Pa|].
    rewrite Perm. apply perm_swap.
Qed.

Theorem multiset_eq_sound {A} (eqb : A -> A -> bool) l1 : forall l2, multiset_eq eqb l1 l2 = true ->
  exists l2', Permutation l2 l2' /\ Forall2 (fun a b => eqb a b = true) l1 l2'.
Proof.
  induction l1 as [|a l1 IH]; intros l2 H; cbn in H.
  - destruct l2; [|discriminate]. exists []. split; [reflexivity| constructor].
  - destruct (remove1 (eqb a) l2) as [r|] eqn:R; [|discriminate].
    destruct (remove1_perm _ _ _ R) as (b & Eab & P). destruct (IH r H) as (r' & P' & F).
    exists (b :: r'). split; [rewrite P; constructor; exact P'| constructor; assumption].
Qed.

Lemma has_dup_false eqv l : has_dup eqv l = false ->
  ForallOrdPairs (fun a b => eqv a b = false) l.
Proof.
  induction l as [|a l IH]; cbn; intros H; [constructor|].
  apply Bool.orb_false_iff in H as [H1 H2]. constructor; [|apply IH; exact H2].
  apply Forall_forall. intros b Hb. destruct (eqv a b) eqn:E; [|reflexivity].
  assert (existsb (eqv a) l = true) by (apply existsb_exists; exists b; auto). congruence.
Qed.
