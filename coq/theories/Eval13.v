(* Eval13.v — evaluation of C13 observations: the generated deriveSort / deriveKeys /
   deriveMin / deriveMax on real inputs against the models of Ord/Model.v and against the
   specification predicates evaluated on the REAL output:
     sort:   output is a permutation of the input (multiset under structural equality) and no
             later element precedes an earlier one under the order the model says is used;
     keys:   every key of the map occurs exactly once (counted with ==), nothing else;
     min/max: the result is (structurally) an element of the list that no element precedes
             (follows), the default for the empty list; two-value forms likewise.
   Real and model outputs are compared up to the order's equivalence (sort.Slice is not stable;
   the map iteration order is free).

   "Derived Compare" is the generated Compare OF THE ELEMENT TYPE as plugin/compare emits it,
   user methods included ([cmp13] of Ord/Methods13.v: [cmpm] for method-free types — then the
   generic models below are the models of Ord/Model.v, [method_free_models] — and [cmpm_m true]
   otherwise).  Only the SIGN of its results is used ([models_sign_only], [specs_sign_only]): a
   user method may return any negative / positive number.  For an element type with user methods
   the order facts of C03 are not available; the guard then is that the compare function is a
   total preorder on the values at hand, decided by [tpo_b] ([tpo_b_sound]).  Where it is not
   (the user's method is inconsistent with ==, e.g. a map keyed by a struct whose method ignores
   a field) only the order-independent half of the specification is judged: Sort returns a
   permutation, Min / Max return an element of the list. *)
From Coq Require Import String.
From Verif Require Import Base Sexp Go.Ty Go.Val Go.Equal Go.Compare Go.CompareSpec Go.Methods
  Ord.Sorter Ord.Model Ord.Methods13.
Open Scope string_scope.

Definition seq (t : ty) (x y : val) : bool :=
  match spec_eq [] t x y with Some true => true | _ => false end.

Fixpoint remove1 {A} (p : A -> bool) (l : list A) : option (list A) :=
  match l with
  | [] => None
  | a :: l' => if p a then Some l' else option_map (cons a) (remove1 p l')
  end.
(* equal as multisets, for an equivalence [eqb] *)
Fixpoint multiset_eq {A} (eqb : A -> A -> bool) (l1 l2 : list A) : bool :=
  match l1 with
  | [] => match l2 with [] => true | _ => false end
  | a :: l1' => match remove1 (eqb a) l2 with
                | Some l2' => multiset_eq eqb l1' l2'
                | None => false
                end
  end.

Fixpoint sorted_b (le : val -> val -> bool) (l : list val) : bool :=
  match l with
  | [] => true
  | a :: l' => (forallb (le a) l' && sorted_b le l')%bool
  end.
Fixpoint has_dup (eqv : val -> val -> bool) (l : list val) : bool :=
  match l with
  | [] => false
  | a :: l' => (existsb (eqv a) l' || has_dup eqv l')%bool
  end.

Definition elems (v : val) : option (list val) :=
  match v with VNilS => Some [] | VSl _ es _ => Some es | _ => None end.
Definition is_nil_sl (v : val) : bool := match v with VNilS => true | _ => false end.
Definition is_ok {A} (r : res A) : bool := match r with Ok _ => true | _ => false end.
Definition is_false (r : res bool) : bool := match r with Ok false => true | _ => false end.

Fixpoint sexp_of_val (v : val) : sexp :=
  let b2z (b : bool) := Num (if b then 1 else 0)%Z in
  match v with
  | VBool b => L [Sym "b"; b2z b]
  | VInt z => L [Sym "i"; Num z]
  | VF n m => L [Sym "f"; b2z n; Num (Z.of_N m)]
  | VC a b c d => L [Sym "c"; b2z a; Num (Z.of_N b); b2z c; Num (Z.of_N d)]
  | VStr s => L (Sym "s" :: map (fun x => Num (Z.of_N x)) s)
  | VNilP => Sym "nilp"
  | VPtr l x => L [Sym "p"; Num (Z.of_N l); sexp_of_val x]
  | VNilS => Sym "nils"
  | VSl l es sp => L [Sym "sl"; Num (Z.of_N l); L (map sexp_of_val es); L (map sexp_of_val sp)]
  | VNilM => Sym "nilm"
  | VMap l kvs => L [Sym "m"; Num (Z.of_N l); L (map (fun kv => L [sexp_of_val (fst kv); sexp_of_val (snd kv)]) kvs)]
  | VArr es => L (Sym "a" :: map sexp_of_val es)
  | VSt fs => L (Sym "st" :: map sexp_of_val fs)
  end.
Definition vres_sexp (r : res val) : sexp :=
  match r with
  | Ok v => L [Sym "ret"; sexp_of_val v]
  | Pan => Sym "panic" | Unsup => Sym "unsupported" | Stuck => Sym "stuck"
  end.

Definition get_ret (e : sexp) : option sexp :=
  match e with L [Sym s; v] => if String.eqb s "ret" then Some v else None | _ => None end.
(* (res (ret V) (same 0|1)) *)
Definition get_res (e : sexp) : option (sexp * bool) :=
  match e with
  | L [Sym s; r; L [Sym s2; Num n]] =>
      if (String.eqb s "res" && String.eqb s2 "same")%bool then
        match get_ret r with Some v => Some (v, Z.eqb n 1) | None => None end
      else None
  | _ => None
  end.

Definition node_tag (t : ty) : string :=
  match resolve [] t with
  | Some r =>
      (if is_named r then "named-" else "") ++
      match r_node r with
      | TB k => match k with KBool => "bool" | KInt _ _ => "int" | KF32 | KF64 => "float"
                           | KC64 | KC128 => "complex" | KStr => "string" end
      | TP _ => "ptr" | TSl _ => "slice" | TAr _ _ => "array"
      | TM _ _ => "map" | TSt _ => "struct" | _ => "?" end
  | None => "?"
  end.
Definition kind_tag (k : okind) : string :=
  match k with KStdlib => "stdlib" | KNatural => "natural" | KCompare => "compare" | KIll => "ill" end.

(* ---------- element types with user methods ---------- *)
(* the guard of the generic theorems on the values at hand *)
Definition preorder_ok (t : ty) (k : okind) (l : list val) : bool :=
  (method_free t || match k with KCompare => tpo_b (cmp13 [] t) l | _ => false end)%bool.
(* what the values at hand exercise: a compare result other than -1/0/+1; a pair that the
   method orders differently from the field-by-field comparison *)
Definition pairs_exist (p : val -> val -> bool) (l : list val) : bool :=
  existsb (fun x => existsb (p x) l) l.
Definition meth_tag (t : ty) (l0 : list val) : string :=
  let l := firstn 12 l0 in          (* a tag only: the first elements *)
  if method_free t then ""
  else "methods"
       ++ (if pairs_exist (fun x y => match cmp13 [] t x y with Ok c => (1 <? Z.abs c)%Z | _ => false end) l
           then "+magnitude" else "")
       ++ (if pairs_exist (fun x y => match cmp13 [] t x y, cmpm [] t x y with
                                      | Ok c, Ok d => negb (Z.sgn c =? Z.sgn d)%Z | _, _ => false end) l
           then "+not-fieldwise" else "")
       ++ "/".
(* the compare function is not a total preorder on these values: only the order-independent
   half of the specification is judged, nothing is compared with the model *)
Definition no_order_verdict (typed : bool) (spec : bool) (tag : string) : verdict :=
  {| v_known := typed; v_model_ok := true; v_spec_ok := spec; v_guard := typed;
     v_model := Sym "compare-is-not-a-preorder-on-these-values"; v_tag := tag ++ "not-a-preorder" |}.

Definition fail_verdict (guard : bool) (m : sexp) (tag : string) : verdict :=
  {| v_known := true; v_model_ok := false; v_spec_ok := false; v_guard := guard; v_model := m; v_tag := tag |}.

(* The generator answers requests for a compare function by assignability: an unnamed struct
   type is served by the function of an identical named struct of the same package, so goderive
   may accept a type the model of Compare refuses ([Unsup]).  Such calls lie outside the model
   (and outside the guard of the theorems): they are counted, not judged. *)
Definition is_unsup {A} (r : res A) : bool := match r with Unsup => true | _ => false end.
Definition outside_model (tag : string) : verdict :=
  {| v_known := true; v_model_ok := true; v_spec_ok := true; v_guard := false;
     v_model := Sym "unsupported"; v_tag := tag ++ "/compare-outside-model" |}.

(* ---------- sort ---------- *)
Definition eval_sort (t : ty) (lst : val) (real : sexp) : verdict :=
  match elems lst with
  | None => bad_line
  | Some es =>
      let k := sort_kind [] t in
      let f := less_g (cmp13 [] t) k in
      let le := fun a b => negb (tot (f b a)) in
      let eqv := fun a b => (le a b && le b a)%bool in
      let typed := has_type [] (TSl t) lst in
      let guard := (typed && is_ok (status f es))%bool in
      let m := sort_model_g (cmp13 [] t) isort k lst in
      let shape :=
        match es with
        | [] => if is_nil_sl lst then "nil" else "empty"
        | [_] => "single"
        | _ => (if sorted_b le es then "sorted" else if sorted_b le (rev es) then "reversed" else "mixed")
               ++ (if has_dup eqv es then "-dups" else "")
        end in
      let tag := "sort/" ++ kind_tag k ++ "/" ++ meth_tag t es ++ node_tag t ++ "/" ++ shape in
      if is_unsup (status f es) then outside_model ("sort/" ++ kind_tag k ++ "/" ++ node_tag t) else
      match match get_ret real with Some o => parse_val o | None => None end with
      | None => fail_verdict guard (vres_sexp m) tag
      | Some out =>
          match elems out with
          | None => fail_verdict guard (vres_sexp m) tag
          | Some os =>
              if negb (preorder_ok t k es) then
                no_order_verdict typed (multiset_eq (seq t) es os)
                  ("sort/" ++ kind_tag k ++ "/" ++ meth_tag t es ++ node_tag t ++ "/")
              else
              let spec := (multiset_eq (seq t) es os && is_ok (status f os) && sorted_b le os)%bool in
              let mok := match m with
                         | Ok mv => match elems mv with
                                    (* nil vs empty of the result is no part of the property: not compared *)
                                    | Some ms => all2b eqv ms os
                                    | None => false
                                    end
                         | _ => false
                         end in
              {| v_known := typed; v_model_ok := mok; v_spec_ok := spec; v_guard := guard;
                 v_model := vres_sexp m; v_tag := tag |}
          end
      end
  end.

(* ---------- keys ---------- *)
Definition map_key_sexps (m : sexp) : option (list sexp) :=
  match m with
  | Sym s => if String.eqb s "nilm" then Some [] else None
  | L [Sym s; Num _; L kvs] =>
      if String.eqb s "m" then map_opt (fun kv => match kv with L [k; _] => Some k | _ => None end) kvs else None
  | _ => None
  end.
Definition slice_sexps (o : sexp) : option (list sexp * list sexp) :=
  match o with
  | L [Sym s; Num _; L es; L sp] => if String.eqb s "sl" then Some (es, sp) else None
  | _ => None
  end.

Definition size_tag (n : nat) : string :=
  match n with
  | O => "0" | 1%nat => "1" | 2%nat | 3%nat => "2-3"
  | _ => if Nat.leb n 8 then "4-8" else "9+"
  end.

Definition eval_keys (t : ty) (msx : sexp) (real : sexp) : verdict :=
  match parse_val msx, map_key_sexps msx, resolve [] t with
  | Some m, Some kin, Some r =>
      match r_node r with
      | TM kt _ =>
          let typed := has_type [] t m in
          let mres := keys_model (fun l => l) 1%N m in
          let isnil := match m with VNilM => true | _ => false end in
          let tag0 := "keys/" ++ node_tag kt ++ "/" ++ (if isnil then "nil" else size_tag (List.length kin)) in
          match get_res real with
          | None => fail_verdict typed (vres_sexp mres) tag0
          | Some (o, same) =>
              match slice_sexps o, map_opt parse_val kin with
              | Some (kout, spare), Some kinv =>
                  match map_opt parse_val kout with
                  | Some koutv =>
                      let spec := (Nat.eqb (List.length koutv) (List.length kinv)
                                   && forallb (fun k => Nat.eqb (List.length (filter (go_eqeq k) koutv)) 1) kinv)%bool in
                      (* the capacity of the result is not compared: it is no part of the property *)
                      let mok := (multiset_eq sexp_eqb kin kout && same)%bool in
                      let inorder := all2b sexp_eqb kin kout in
                      {| v_known := typed; v_model_ok := mok; v_spec_ok := spec; v_guard := typed;
                         v_model := vres_sexp mres;
                         v_tag := tag0 ++ (if Nat.leb (List.length kin) 1 then "" else if inorder then "/in-order" else "/permuted") |}
                  | None => fail_verdict typed (vres_sexp mres) tag0
                  end
              | _, _ =>
                  (* a nil slice for a map: holds the right keys only if the map is empty *)
                  let nil_ok := (match o with Sym s => String.eqb s "nils" | _ => false end
                                 && match kin with [] => true | _ => false end)%bool in
                  {| v_known := typed; v_model_ok := (nil_ok && same)%bool;
                     v_spec_ok := nil_ok;
                     v_guard := typed; v_model := vres_sexp mres; v_tag := tag0 |}
              end
          end
      | _ => bad_line
      end
  | _, _, _ => bad_line
  end.

(* ---------- min / max ---------- *)
Fixpoint index_of (p : val -> bool) (l : list val) : option nat :=
  match l with
  | [] => None
  | a :: l' => if p a then Some O else option_map S (index_of p l')
  end.

Definition eval_minmax (ismin : bool) (t : ty) (lst def : val) (real : sexp) : verdict :=
  match elems lst with
  | None => bad_line
  | Some es =>
      let k := minmax_kind [] t in
      let f := if ismin then less_g (cmp13 [] t) k else greater_g (cmp13 [] t) k in
      let typed := (has_type [] (TSl t) lst && has_type [] t def)%bool in
      let guard := (typed && is_ok (status f es))%bool in
      let m := if ismin then min_g (cmp13 [] t) k lst def else max_g (cmp13 [] t) k lst def in
      let best := fun x => forallb (fun y => is_false (f y x)) es in
      let shape :=
        match es with
        | [] => if is_nil_sl lst then "nil" else "empty"
        | [_] => "single"
        | _ => match m with
               | Ok mv => match index_of best es with
                          | Some O => "first"
                          | Some i => if Nat.eqb (S i) (List.length es) then "last" else "middle"
                          | None => "?"
                          end ++ (if Nat.ltb 1 (List.length (filter best es)) then "-ties" else "")
               | _ => "undefined"
               end
        end in
      let tag := (if ismin then "min/" else "max/") ++ kind_tag k ++ "/" ++ meth_tag t es ++ node_tag t ++ "/" ++ shape in
      if is_unsup (status f es) then outside_model ((if ismin then "min/" else "max/") ++ kind_tag k ++ "/" ++ node_tag t) else
      match get_res real with
      | None => fail_verdict guard (vres_sexp m) tag
      | Some (o, same) =>
          match parse_val o with
          | None => fail_verdict guard (vres_sexp m) tag
          | Some r =>
              if negb (preorder_ok t k es) then
                no_order_verdict typed (match es with [] => seq t r def | _ => existsb (seq t r) es end)
                  ((if ismin then "min/" else "max/") ++ kind_tag k ++ "/" ++ meth_tag t es ++ node_tag t ++ "/")
              else
              let spec := match es with
                          | [] => seq t r def
                          | _ => (existsb (seq t r) es && forallb (fun y => is_false (f y r)) es)%bool
                          end in
              let mok := (match m with Ok mv => seq t r mv | _ => false end && same)%bool in
              {| v_known := typed; v_model_ok := mok; v_spec_ok := spec; v_guard := guard;
                 v_model := vres_sexp m; v_tag := tag |}
          end
      end
  end.

Definition eval_minmax2 (ismin : bool) (t : ty) (a b : val) (real : sexp) : verdict :=
  let k := minmax_kind [] t in
  let f := if ismin then less_g (cmp13 [] t) k else greater_g (cmp13 [] t) k in
  let typed := (has_type [] t a && has_type [] t b)%bool in
  let guard := (typed && is_ok (status f [a; b]))%bool in
  let m := if ismin then min2_g (cmp13 [] t) k a b else max2_g (cmp13 [] t) k a b in
  let tag := (if ismin then "min2/" else "max2/") ++ kind_tag k ++ "/" ++ meth_tag t [a; b] ++ node_tag t ++ "/"
             ++ (if tot (f a b) then "first" else if tot (f b a) then "second" else "tie") in
  if is_unsup (status f [a; b]) then outside_model ((if ismin then "min2/" else "max2/") ++ kind_tag k ++ "/" ++ node_tag t) else
  match get_res real with
  | None => fail_verdict guard (vres_sexp m) tag
  | Some (o, same) =>
      match parse_val o with
      | None => fail_verdict guard (vres_sexp m) tag
      | Some r =>
          if negb (preorder_ok t k [a; b]) then
            no_order_verdict typed (seq t r a || seq t r b)%bool
              ((if ismin then "min2/" else "max2/") ++ kind_tag k ++ "/" ++ meth_tag t [a; b] ++ node_tag t ++ "/")
          else
          let spec := ((seq t r a || seq t r b) && is_false (f a r) && is_false (f b r))%bool in
          let mok := (match m with Ok mv => seq t r mv | _ => false end && same)%bool in
          {| v_known := typed; v_model_ok := mok; v_spec_ok := spec; v_guard := guard;
             v_model := vres_sexp m; v_tag := tag |}
      end
  end.

(* ---------- which types the generators accept ---------- *)
Definition eval_sup (op : string) (t : ty) (cls : string) : verdict :=
  let sup := if String.eqb op "sort" then sort_sup t
             else if String.eqb op "minmax" then minmax_sup t
             else match resolve [] t with
                  | Some r => match r_node r with TM _ _ => true | _ => false end
                  | None => false
                  end in
  let real_ok := String.eqb cls "ok" in
  let real_err := String.eqb cls "generator-error" in
  let crash := (String.eqb cls "panic" || String.eqb cls "timeout")%bool in
  (* accepted although the model of Compare refuses the type (see [outside_model]): not judged *)
  let beyond := (negb sup && real_ok)%bool in
  let ok := (crash || beyond || if sup then real_ok else real_err)%bool in
  {| v_known := true; v_model_ok := ok; v_spec_ok := ok; v_guard := negb beyond;
     v_model := Sym (if sup then "ok" else "generator-error");
     v_tag := "support/" ++ op ++ "/" ++ (if crash then "generator-crash-see-C09"
                                          else if beyond then "accepted-beyond-model"
                                          else if sup then "supported" else "unsupported") |}.

Definition eval13_calls (e : sexp) : verdict :=
  match e with
  | L [Sym k; tys; a; real] =>
      match parse_ty tys with
      | None => bad_line
      | Some t =>
          if String.eqb k "sort" then
            match parse_val a with Some lst => eval_sort t lst real | None => bad_line end
          else if String.eqb k "keys+" then eval_keys t a real
          else bad_line
      end
  | L [Sym k; tys; a; b; real] =>
      match parse_ty tys, parse_val a, parse_val b with
      | Some t, Some x, Some y =>
          if String.eqb k "min+" then eval_minmax true t x y real
          else if String.eqb k "max+" then eval_minmax false t x y real
          else if String.eqb k "min2+" then eval_minmax2 true t x y real
          else if String.eqb k "max2+" then eval_minmax2 false t x y real
          else bad_line
      | _, _, _ => bad_line
      end
  | _ => bad_line
  end.

(* `(sup OP TY CLASS)` has four elements too; it is told apart by its head *)
Definition eval13 (e : sexp) : verdict :=
  match e with
  | L [Sym k; Sym op; tys; Sym cls] =>
      if String.eqb k "sup" then
        match parse_ty tys with Some t => eval_sup op t cls | None => bad_line end
      else eval13_calls e
  | _ => eval13_calls e
  end.
