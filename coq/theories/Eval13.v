(* Eval13.v — evaluation of C13 observations (stub: replaced when C13 is built). *)
From Verif Require Import Base Sexp.
Open Scope string_scope.

Definition eval13 (e : sexp) : verdict := bad_line.
