(* GoStr/PtrKeys.v — C06 on maps whose KEY type owns pointers (hardening round 5).

   Go/Val.v's [has_type] accepts a map only if its key type is [can_equal] (pointer-free), and C02's
   [spec_eq] finds the partner of an entry by [go_eqeq] on the key: for a key that holds a pointer
   that is the identity of the target, which no text can preserve.  Go allows such keys
   (map[*T]V, map[struct{ S string; P *T }]V, map[[2]*T]V) and derived GoString supports them: each
   key is printed through its own `key<i> := ...` variable, so the value read back has one entry
   per original entry, with fresh addresses.  "Structurally equal" for such a map can only mean:
   the two maps have the same entries as a MULTISET, an entry matching an entry when the keys are
   structurally equal (targets of the pointers included) and the values are.

     [key_ok]     Go's comparable types of the grammar (pointers allowed),
     [has_typek]  = has_type with [key_ok] in place of [can_equal] (keys pairwise different under ==,
                    i.e. by ADDRESS where they hold pointers: two keys may be equal by content),
     [spec_eqk]   = spec_eq with the entries of a map matched as a multiset.

   The model ([gtop]) and the evaluator ([geval]) need no change: [gentries_var] prints every key
   through a variable and [map_set] compares evaluated keys with [go_eqeq], for which two freshly
   built pointers differ.  Eval06 judges observations `gsk` with these definitions. *)
From Coq Require Import String.
From Verif Require Import Go.Equal.
From Verif Require Export GoStr.Match.
Open Scope Z_scope.

(* types whose values Go can compare with == (usable as map keys) *)
Fixpoint key_ok (t : ty) : bool :=
  match t with
  | TB _ => true
  | TN _ _ u => key_ok u
  | TP _ => true
  | TAr _ e => key_ok e
  | TSt fs => (fix go (l : list (bool * ty)) : bool :=
                 match l with [] => true | f :: l' => key_ok (snd f) && go l' end) fs
  | _ => false
  end.

Fixpoint has_typek (e : tenv) (t : ty) (v : val) {struct v} : bool :=
  match resolve e t with
  | None => false
  | Some r =>
      let e' := r_env r in
      match r_node r, v with
      | TB k, _ => basic_ok k v
      | TP t', VNilP => match resolve e' t' with Some _ => true | None => false end
      | TP t', VPtr _ v' => has_typek e' t' v'
      | TSl _, VNilS => true
      | TSl t', VSl _ es sp => (forallb (has_typek e' t') es && forallb (has_typek e' t') sp)%bool
      | TAr n t', VArr es => (Nat.eqb (List.length es) n && forallb (has_typek e' t') es)%bool
      | TM _ _, VNilM => true
      | TM tk tv, VMap _ kvs =>
          (key_ok tk && keys_distinct (map fst kvs)
           && forallb (fun kv => has_typek e' tk (fst kv) && has_typek e' tv (snd kv)) kvs)%bool
      | TSt fs, VSt vs => fields_ok (has_typek e') fs vs
      | _, _ => false
      end
  end.

(* ---------- multiset matching of entries ---------- *)
Section Entries.
Variable f : val * val -> val * val -> option bool.
(* the first entry of ys that matches x, removed.  None = the comparison is stuck;
   Some None = no entry matches *)
Definition take_match (x : val * val) :=
  fix tm (ys : list (val * val)) : option (option (list (val * val))) :=
    match ys with
    | [] => Some None
    | y :: ys' =>
        match f x y with
        | None => None
        | Some true => Some (Some ys')
        | Some false =>
            match tm ys' with
            | Some (Some r) => Some (Some (y :: r))
            | o => o
            end
        end
    end.
Fixpoint entries_k (xs ys : list (val * val)) {struct xs} : option bool :=
  match xs with
  | [] => Some (match ys with [] => true | _ => false end)
  | x :: xs' =>
      match take_match x ys with
      | None => None
      | Some None => Some false
      | Some (Some r) => entries_k xs' r
      end
  end.
End Entries.

(* same nil-ness at every pointer, slice and map; same lengths; equal leaves, fields and pointer
   targets; the entries of a map as a multiset (keys by content); addresses, spare capacity and
   entry order play no role *)
Fixpoint spec_eqk (e : tenv) (t : ty) (x y : val) {struct x} : option bool :=
  match resolve e t with
  | None => None
  | Some r =>
      let e' := r_env r in
      match r_node r, x, y with
      | TB k, _, _ => leaf_eq k x y
      | TP _, VNilP, VNilP => Some true
      | TP _, VNilP, VPtr _ _ | TP _, VPtr _ _, VNilP => Some false
      | TP rt, VPtr _ x', VPtr _ y' => spec_eqk e' rt x' y'
      | TSl _, VNilS, VNilS => Some true
      | TSl _, VNilS, VSl _ _ _ | TSl _, VSl _ _ _, VNilS => Some false
      | TSl et, VSl _ xs _, VSl _ ys _ => all2o (fun a b => spec_eqk e' et a b) xs ys
      | TAr _ et, VArr xs, VArr ys => all2o (fun a b => spec_eqk e' et a b) xs ys
      | TM _ _, VNilM, VNilM => Some true
      | TM _ _, VNilM, VMap _ _ | TM _ _, VMap _ _, VNilM => Some false
      | TM kt vt, VMap _ xm, VMap _ ym =>
          entries_k (fun a b => oand (spec_eqk e' kt (fst a) (fst b)) (spec_eqk e' vt (snd a) (snd b))) xm ym
      | TSt fs, VSt xs, VSt ys => fields_o (fun ft a b => spec_eqk e' ft a b) fs xs ys
      | _, _, _ => None
      end
  end.

(* ---------- the round trip on the class the definitions were added for ---------- *)
Module PtrKeyExamples.
Definition lab : ty := TN 450 false (TSt [(false, TB KStr)]).
Definition keyp : ty := TN 451 false (TSt [(false, TB KStr); (false, TP lab)]).
Definition tint : ty := TB (KInt 64 true).
Definition a_ : val := VStr [97%N].
Definition l_ : val := VSt [VStr [108%N]].

(* map[KeyP]int{ {"a", &Lab{"l"}}: 1, {"a", &Lab{"l"}}: 2 } — two keys, two addresses, one text *)
Definition twin_t : ty := TM keyp tint.
Definition twin_v : val :=
  VMap 1 [(VSt [a_; VPtr 2 l_], VInt 1); (VSt [a_; VPtr 3 l_], VInt 2)].
(* what a printer that merges entries with the same key text would yield *)
Definition merged_v : val := VMap 1 [(VSt [a_; VPtr 2 l_], VInt 2)].
(* map[*Lab]string *)
Definition pk_t : ty := TM (TP lab) (TB KStr).
Definition pk_v : val := VMap 1 [(VPtr 2 l_, VStr [111%N]); (VNilP, VStr []); (VPtr 3 l_, VStr [116%N])].

Definition roundtrips (t : ty) (v : val) : bool :=
  match gostring_model t v with
  | Ok g => match gostring_eval t g with
            | Some v' => match spec_eqk [] t v v' with Some true => true | _ => false end
            | None => false
            end
  | _ => false
  end.

(* outside Go/Val.v's typing (hence outside the hypotheses of gostring_roundtrip), inside this one *)
Example twin_outside_has_type : has_type [] twin_t twin_v = false /\ has_typek [] twin_t twin_v = true.
Proof. vm_compute. split; reflexivity. Qed.
Example twin_roundtrips : roundtrips twin_t twin_v = true /\ roundtrips pk_t pk_v = true.
Proof. vm_compute. split; reflexivity. Qed.
(* the equality tells a map that lost an entry (or a value) from the original *)
Example twin_merged_differs :
  spec_eqk [] twin_t twin_v merged_v = Some false /\
  spec_eqk [] twin_t twin_v (VMap 9 [(VSt [a_; VPtr 7 l_], VInt 2); (VSt [a_; VPtr 8 l_], VInt 2)]) = Some false /\
  spec_eqk [] twin_t twin_v (VMap 9 [(VSt [a_; VPtr 7 l_], VInt 2); (VSt [a_; VPtr 8 l_], VInt 1)]) = Some true.
Proof. vm_compute. repeat split; reflexivity. Qed.
End PtrKeyExamples.

(* ---------- the equality is reflexive on typed values ---------- *)
Lemma take_match_here : forall f x ys, f x x = Some true -> take_match f x (x :: ys) = Some (Some ys).
Proof. intros f x ys H. simpl. rewrite H. reflexivity. Qed.

Lemma entries_k_refl : forall f xs,
  Forall (fun x => f x x = Some true) xs -> entries_k f xs xs = Some true.
Proof.
  intros f xs H. induction H as [| x xs Hx _ IH]; [reflexivity |].
  cbn [entries_k]. rewrite take_match_here by exact Hx. exact IH.
Qed.

Lemma feq_refl : forall n m, feq n m n m = true.
Proof.
  intros n m. unfold feq. destruct (N.eqb m 0) eqn:E; cbn; [reflexivity |].
  rewrite Bool.eqb_reflx, N.eqb_refl. reflexivity.
Qed.

Lemma bytes_eqb_refl : forall s, bytes_eqb s s = true.
Proof. induction s as [| b s IH]; cbn; [reflexivity |]. rewrite N.eqb_refl. exact IH. Qed.

Lemma leaf_eq_refl : forall k v, basic_ok k v = true -> leaf_eq k v v = Some true.
Proof.
  intros k v H. destruct k, v; cbn in H; try discriminate; cbn.
  - rewrite Bool.eqb_reflx. reflexivity.
  - rewrite Z.eqb_refl. reflexivity.
  - rewrite feq_refl. reflexivity.
  - rewrite feq_refl. reflexivity.
  - rewrite !feq_refl. reflexivity.
  - rewrite !feq_refl. reflexivity.
  - rewrite bytes_eqb_refl. reflexivity.
Qed.

Lemma all2o_refl : forall f xs, Forall (fun x => f x x = Some true) xs -> all2o f xs xs = Some true.
Proof.
  intros f xs H. induction H as [| x xs Hx _ IH]; [reflexivity |].
  cbn [all2o]. rewrite Hx, IH. reflexivity.
Qed.

(* every typed value is structurally equal to itself (in particular: to a copy with other addresses) *)
Lemma spec_eqk_refl : forall v e t, has_typek e t v = true -> spec_eqk e t v v = Some true.
Proof.
  induction v using val_ind'; intros e t HT;
    unfold has_typek in HT; fold has_typek in HT; unfold spec_eqk; fold spec_eqk;
    destruct (resolve e t) as [r |]; try discriminate;
    destruct (r_node r) as [k | | | rt | et | len et | kt vt | fds] eqn:EN; try discriminate;
    try (apply leaf_eq_refl; exact HT); try reflexivity.
  - apply IHv. exact HT.
  - apply Bool.andb_true_iff in HT as [HE _].
    apply all2o_refl. rewrite Forall_forall in *. intros x Hx.
    apply H; [exact Hx |]. rewrite forallb_forall in HE. apply HE. exact Hx.
  - apply Bool.andb_true_iff in HT as [HT HE]. apply Bool.andb_true_iff in HT as [_ _].
    apply entries_k_refl. rewrite Forall_forall in *. intros kv Hkv.
    rewrite forallb_forall in HE. specialize (HE kv Hkv). apply Bool.andb_true_iff in HE as [Hk Hv].
    destruct (H kv Hkv) as [IHk IHv]. rewrite (IHk _ _ Hk), (IHv _ _ Hv). reflexivity.
  - apply Bool.andb_true_iff in HT as [_ HE].
    apply all2o_refl. rewrite Forall_forall in *. intros x Hx.
    apply H; [exact Hx |]. rewrite forallb_forall in HE. apply HE. exact Hx.
  - clear EN. revert fds HT. induction H as [| x xs Hx _ IH]; intros fds HT.
    + destruct fds; [reflexivity | discriminate].
    + destruct fds as [| fd fds]; [discriminate |]. cbn in HT. apply Bool.andb_true_iff in HT as [H1 H2].
      cbn [fields_o]. rewrite (Hx _ _ H1). rewrite (IH _ H2). reflexivity.
Qed.
