(* GoStr/Proofs.v — the round-trip theorem of C06 and its corollaries. *)
From Coq Require Import String.
From Verif Require Import Go.Ty Go.Val Go.Equal GoStr.Model GoStr.Geval GoStr.Match.
Open Scope Z_scope.

(* the evaluator and the model are functions: one text, one value *)
Lemma geval_deterministic e t g n r1 r2 : geval e t g n = r1 -> geval e t g n = r2 -> r1 = r2.
Proof. intros <- <-. reflexivity. Qed.
